/-
QV.Lemmas.CplxGrad — derivative of the rotated Born probability of the complex wavefunction.
-/
import Mathlib.Analysis.SpecialFunctions.ExpDeriv
import Mathlib.Analysis.SpecialFunctions.Log.Deriv
import Mathlib.Analysis.SpecialFunctions.Trigonometric.Basic
import Mathlib.Analysis.Complex.RealDeriv
import QV.Lemmas.Deriv
import QV.Lemmas.GradLin
import QV.Lemmas.Cplx
import QV.Lemmas.CplxHead
import QV.Lemmas.Hilbert

namespace QV
open Finset Grads

variable {n h : ℕ}

/-- `ψ_{λμ}(v) = exp(−(E_λ(v) + i E_μ(v))/2)` -/
theorem toC_psiCplx (am ph : RBM ℝ n h) (v : Fin n → ℝ) :
    toC (Wave.psiCplx am ph v)
      = Complex.exp ((((-(am.effEnergy v) / 2 : ℝ)) : ℂ) + (((-(ph.effEnergy v) / 2 : ℝ)) : ℂ) * Complex.I) := by
  have hamp : Wave.amplitude am v = Real.exp (-(am.effEnergy v) / 2) := by
    simp only [Wave.amplitude, transc_sqrt, transc_exp]
    rw [Real.sqrt_eq_iff_mul_self_eq (Real.exp_pos _).le (Real.exp_pos _).le, ← Real.exp_add]
    congr 1; ring
  have hph : Wave.phase ph v = -(ph.effEnergy v) / 2 := by
    simp [Wave.phase]; ring
  apply Complex.ext
  · simp [Wave.psiCplx, hamp, hph, Complex.exp_re]
  · simp [Wave.psiCplx, hamp, hph, Complex.exp_im]

theorem hasDerivAt_psiCplx (ram rph : ℝ → RBM ℝ n h) (dam dph : RBM ℝ n h) (t : ℝ)
    (ha : RBM.CurveAt ram dam t) (hp : RBM.CurveAt rph dph t) (v : Fin n → ℝ) :
    HasDerivAt (fun s => toC (Wave.psiCplx (ram s) (rph s) v))
      (toC (Wave.psiCplx (ram t) (rph t) v)
        * (-((((ram t).effEnergyGrad1 v).pair dam : ℝ) : ℂ) / 2
           + (-((((rph t).effEnergyGrad1 v).pair dph : ℝ) : ℂ) / 2) * Complex.I)) t := by
  have h1 : HasDerivAt (fun s => (((-((ram s).effEnergy v) / 2 : ℝ)) : ℂ))
      (((-(((ram t).effEnergyGrad1 v).pair dam) / 2 : ℝ)) : ℂ) t :=
    ((RBM.hasDerivAt_effEnergy ram dam t ha v).neg.div_const 2).ofReal_comp
  have h2 : HasDerivAt (fun s => (((-((rph s).effEnergy v) / 2 : ℝ)) : ℂ))
      (((-(((rph t).effEnergyGrad1 v).pair dph) / 2 : ℝ)) : ℂ) t :=
    ((RBM.hasDerivAt_effEnergy rph dph t hp v).neg.div_const 2).ofReal_comp
  have h12 : HasDerivAt (fun s => (((-((ram s).effEnergy v) / 2 : ℝ)) : ℂ) + (((-((rph s).effEnergy v) / 2 : ℝ)) : ℂ) * Complex.I)
      ((((-(((ram t).effEnergyGrad1 v).pair dam) / 2 : ℝ)) : ℂ) + (((-(((rph t).effEnergyGrad1 v).pair dph) / 2 : ℝ)) : ℂ) * Complex.I) t :=
    h1.add (h2.mul_const Complex.I)
  have h3 := h12.cexp
  have hfun : (fun s => toC (Wave.psiCplx (ram s) (rph s) v))
      = fun s => Complex.exp ((((-((ram s).effEnergy v) / 2 : ℝ)) : ℂ) + (((-((rph s).effEnergy v) / 2 : ℝ)) : ℂ) * Complex.I) := by
    funext s; exact toC_psiCplx _ _ _
  rw [hfun, toC_psiCplx]
  refine h3.congr_deriv ?_
  push_cast
  ring

theorem re_hasDerivAt {f : ℝ → ℂ} {f' : ℂ} {t : ℝ} (hf : HasDerivAt f f' t) :
    HasDerivAt (fun s => (f s).re) f'.re t := by
  exact Complex.reCLM.hasFDerivAt.comp_hasDerivAt t hf

theorem im_hasDerivAt {f : ℝ → ℂ} {f' : ℂ} {t : ℝ} (hf : HasDerivAt f f' t) :
    HasDerivAt (fun s => (f s).im) f'.im t := by
  exact Complex.imCLM.hasFDerivAt.comp_hasDerivAt t hf

/-- `d/dt (−log |U|²) = −2 Re(U'/U)` for a curve `U : ℝ → ℂ` with `U t ≠ 0` -/
theorem hasDerivAt_neg_log_normSq {U : ℝ → ℂ} {U' : ℂ} {t : ℝ} (hU : HasDerivAt U U' t) (h0 : U t ≠ 0) :
    HasDerivAt (fun s => -Real.log (Complex.normSq (U s))) (-(2 * (U' / U t).re)) t := by
  have hre := re_hasDerivAt hU
  have him := im_hasDerivAt hU
  have hns : HasDerivAt (fun s => Complex.normSq (U s)) (2 * ((U t).re * U'.re + (U t).im * U'.im)) t := by
    have := (hre.mul hre).add (him.mul him)
    simp only [Complex.normSq_apply]
    refine this.congr_deriv ?_
    ring
  have hpos : Complex.normSq (U t) ≠ 0 := by simpa [Complex.normSq_eq_zero] using h0
  refine (hns.log hpos).neg.congr_deriv ?_
  rw [Complex.div_re]
  field_simp

/-! ### the rotated amplitude `Upsi` of one sample and the model's `rotated_gradient` -/

open Unitaries

/-- parameter-independent part of `Upsi_v[τ]`: `[τ is an expansion of σ] · Ut_τ` -/
noncomputable def rotC (dict : Char → M2 ℝ) (smp : Sample n) (τ : Fin n → Bool) : ℂ :=
  if agreesOff n smp.rot smp.σ τ then toC (rotCoeff n (fun j => dict (smp.letter j)) smp.rot smp.σ τ) else 0

theorem toC_cplxCoef (am ph : RBM ℝ n h) (dict : Char → M2 ℝ) (smp : Sample n) (τ : Fin n → Bool) :
    toC (cplxCoef am ph dict smp τ) = rotC dict smp τ * toC (Wave.psiCplx am ph (visOf τ)) := by
  unfold cplxCoef rotC
  split <;> simp

theorem toC_cplxUpsi (am ph : RBM ℝ n h) (dict : Char → M2 ℝ) (smp : Sample n) :
    toC (cplxUpsi am ph dict smp)
      = ∑ k : Fin (2 ^ n), rotC dict smp (rowBits n k.val) * toC (Wave.psiCplx am ph (visOf (rowBits n k.val))) := by
  unfold cplxUpsi
  rw [toC_sum]
  refine Finset.sum_congr rfl (fun k _ => ?_)
  exact toC_cplxCoef am ph dict smp _

/-- energy derivatives at the expanded state `τ_k` -/
noncomputable def dEam (am dam : RBM ℝ n h) (k : Fin (2 ^ n)) : ℝ := (am.effEnergyGrad1 (visOf (rowBits n k.val))).pair dam

theorem hasDerivAt_cplxUpsi (ram rph : ℝ → RBM ℝ n h) (dam dph : RBM ℝ n h) (t : ℝ)
    (ha : RBM.CurveAt ram dam t) (hp : RBM.CurveAt rph dph t) (dict : Char → M2 ℝ) (smp : Sample n) :
    HasDerivAt (fun s => toC (cplxUpsi (ram s) (rph s) dict smp))
      (∑ k : Fin (2 ^ n), toC (cplxCoef (ram t) (rph t) dict smp (rowBits n k.val))
          * (-((dEam (ram t) dam k : ℝ) : ℂ) / 2 + (-((dEam (rph t) dph k : ℝ) : ℂ) / 2) * Complex.I)) t := by
  have hfun : (fun s => toC (cplxUpsi (ram s) (rph s) dict smp))
      = fun s => ∑ k : Fin (2 ^ n), rotC dict smp (rowBits n k.val)
          * toC (Wave.psiCplx (ram s) (rph s) (visOf (rowBits n k.val))) := by
    funext s; exact toC_cplxUpsi _ _ _ _
  rw [hfun]
  refine (HasDerivAt.fun_sum (fun k _ =>
    (hasDerivAt_psiCplx ram rph dam dph t ha hp (visOf (rowBits n k.val))).const_mul (rotC dict smp (rowBits n k.val)))).congr_deriv ?_
  refine Finset.sum_congr rfl (fun k _ => ?_)
  rw [toC_cplxCoef]
  simp only [dEam]
  ring

/-- the model's `rotated_gradient` component is a REAL-linear functional of the raw gradient entries -/
theorem cplxRotComp_eq (am ph : RBM ℝ n h) (dict : Char → M2 ℝ) (smp : Sample n) (isPhase : Bool)
    (g : (Fin n → Bool) → ℝ) (hU : toC (cplxUpsi am ph dict smp) ≠ 0) :
    cplxRotComp am ph dict smp isPhase g
      = ∑ k : Fin (2 ^ n), g (rowBits n k.val)
          * (if isPhase then -((toC (cplxUpsi am ph dict smp))⁻¹ * toC (cplxCoef am ph dict smp (rowBits n k.val))).im
             else ((toC (cplxUpsi am ph dict smp))⁻¹ * toC (cplxCoef am ph dict smp (rowBits n k.val))).re) := by
  unfold cplxRotComp
  rw [← toC_re, toC_mul, toC_invH _ hU, toC_sum, Finset.mul_sum, Complex.re_sum]
  refine Finset.sum_congr rfl (fun k _ => ?_)
  show ((toC (cplxUpsi am ph dict smp))⁻¹ * toC (C.mul (cplxCoef am ph dict smp (rowBits n k.val))
      (if isPhase then (0, g (rowBits n k.val)) else (g (rowBits n k.val), 0)))).re = _
  rw [toC_mul, ← mul_assoc]
  cases isPhase <;> simp [Complex.mul_re] <;> ring

/-- pairing of the model's per-sample amplitude/phase gradient (rotated branch) with a velocity -/
theorem pair_cplxGrad1_rot (am ph dam dph : RBM ℝ n h) (dict : Char → M2 ℝ) (smp : Sample n)
    (hrot : smp.allZ = false) (hU : toC (cplxUpsi am ph dict smp) ≠ 0) :
    (cplxGrad1 am ph dict smp).1.pair dam + (cplxGrad1 am ph dict smp).2.pair dph
      = ∑ k : Fin (2 ^ n),
          (((toC (cplxUpsi am ph dict smp))⁻¹ * toC (cplxCoef am ph dict smp (rowBits n k.val))).re * dEam am dam k
           - ((toC (cplxUpsi am ph dict smp))⁻¹ * toC (cplxCoef am ph dict smp (rowBits n k.val))).im * dEam ph dph k) := by
  unfold cplxGrad1
  rw [if_neg (by simp [hrot])]
  simp only [cplxRotComp_eq am ph dict smp _ _ hU, Bool.false_eq_true, if_false, if_true]
  have h1 := RBM.pair_weighted (fun k : Fin (2 ^ n) => am.effEnergyGrad1 (visOf (rowBits n k.val)))
    (fun k => ((toC (cplxUpsi am ph dict smp))⁻¹ * toC (cplxCoef am ph dict smp (rowBits n k.val))).re) dam
  have h2 := RBM.pair_weighted (fun k : Fin (2 ^ n) => ph.effEnergyGrad1 (visOf (rowBits n k.val)))
    (fun k => -((toC (cplxUpsi am ph dict smp))⁻¹ * toC (cplxCoef am ph dict smp (rowBits n k.val))).im) dph
  rw [h1, h2, ← Finset.sum_add_distrib]
  refine Finset.sum_congr rfl (fun k _ => ?_)
  simp only [dEam]; ring

/-- **per-sample statement, rotated basis**: `−log |Upsi|²` has derivative `G_am·λ' + G_ph·μ'`. -/
theorem hasDerivAt_sampleLoss_rot (ram rph : ℝ → RBM ℝ n h) (dam dph : RBM ℝ n h) (t : ℝ)
    (ha : RBM.CurveAt ram dam t) (hp : RBM.CurveAt rph dph t) (dict : Char → M2 ℝ) (smp : Sample n)
    (hrot : smp.allZ = false) (hU : toC (cplxUpsi (ram t) (rph t) dict smp) ≠ 0) :
    HasDerivAt (fun s => -Real.log (Complex.normSq (toC (cplxUpsi (ram s) (rph s) dict smp))))
      ((cplxGrad1 (ram t) (rph t) dict smp).1.pair dam + (cplxGrad1 (ram t) (rph t) dict smp).2.pair dph) t := by
  have hd := hasDerivAt_neg_log_normSq (hasDerivAt_cplxUpsi ram rph dam dph t ha hp dict smp) hU
  refine hd.congr_deriv ?_
  rw [pair_cplxGrad1_rot _ _ _ _ _ _ hrot hU, div_eq_mul_inv, mul_comm _ (toC (cplxUpsi (ram t) (rph t) dict smp))⁻¹,
    Finset.mul_sum, Complex.re_sum, Finset.mul_sum, ← Finset.sum_neg_distrib]
  refine Finset.sum_congr rfl (fun k _ => ?_)
  rw [← mul_assoc]
  simp only [Complex.mul_re, Complex.add_re, Complex.add_im, Complex.mul_im, Complex.neg_re, Complex.neg_im,
    Complex.div_ofNat_re, Complex.div_ofNat_im, Complex.ofReal_re, Complex.ofReal_im, Complex.I_re, Complex.I_im]
  ring

end QV
