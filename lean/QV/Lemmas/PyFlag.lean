/-
QV.Lemmas.PyFlag — facts about the flag objects of `QV.Model.PyFlag`.
-/
import QV.Model.PyFlag
namespace QV
namespace PyFlag

/-- whichever of the five kinds of object a caller uses to say `b`, Python's truth test gives `b` -/
theorem truthy_ofBool (form : Nat) (b : Bool) : (ofBool form b).truthy = b := by
  unfold ofBool
  split <;> cases b <;> rfl

/-- … while the identity test `flag is True` holds for the `bool` singleton only (form 0) -/
theorem isTrueSingleton_ofBool (form : Nat) (b : Bool) :
    (ofBool form b).isTrueSingleton = (b && form == 0) := by
  unfold ofBool
  split <;> cases b <;> simp_all [isTrueSingleton]

/-- `flag is False` holds for the `bool` singleton only (form 0) -/
theorem isFalseSingleton_ofBool (form : Nat) (b : Bool) :
    (ofBool form b).isFalseSingleton = (!b && form == 0) := by
  unfold ofBool
  split <;> cases b <;> simp_all [isFalseSingleton]

/-- the identity tests imply the truth value, never the converse -/
theorem truthy_of_isTrueSingleton {f : PyFlag} (h : f.isTrueSingleton = true) : f.truthy = true := by
  cases f <;> simp_all [isTrueSingleton, truthy]

theorem not_truthy_of_isFalseSingleton {f : PyFlag} (h : f.isFalseSingleton = true) : f.truthy = false := by
  cases f <;> simp_all [isFalseSingleton, truthy]

end PyFlag
end QV
