/-
QV.Lemmas.Optim — `ZeroFixed`: a coordinate that is zero and receives zero gradients is a fixed point of an update
rule (whatever hyper-parameters each step uses); instances for the seven torch rules of `QV.Model.Optim`.
-/
import Mathlib.Algebra.Field.Basic
import QV.Lemmas.PhaseAux
import QV.Model.Optim

namespace QV.Optim
open QV QV.PhaseAux

/-- `Inv` is a zero-fixed invariant of the rule `r`: it forces the parameter to be `0` and is preserved by a step
with gradient `0`, for EVERY choice of that step's hyper-parameters. -/
structure ZeroFixed {α κ σ : Type} [Zero α] (r : Rule α κ σ) (Inv : σ → Prop) : Prop where
  param_zero : ∀ s, Inv s → r.param s = 0
  step_zero : ∀ c s, Inv s → Inv (r.step c s 0)

variable {α κ σ : Type}

theorem ZeroFixed.run_inv [Zero α] {r : Rule α κ σ} {Inv : σ → Prop} (h : ZeroFixed r Inv)
    (cgs : List (κ × α)) (hg : ∀ cg ∈ cgs, cg.2 = 0) (s : σ) (hs : Inv s) : Inv (r.run s cgs) := by
  induction cgs generalizing s with
  | nil => exact hs
  | cons cg rest ih =>
    have h0 : cg.2 = 0 := hg cg (by simp)
    have hstep : Inv (r.step cg.1 s cg.2) := by rw [h0]; exact h.step_zero cg.1 s hs
    simp only [Rule.run, List.foldl_cons] at ih ⊢
    exact ih (fun x hx => hg x (List.mem_cons_of_mem _ hx)) _ hstep

/-- the parameter is zero after the whole run … -/
theorem ZeroFixed.run_zero [Zero α] {r : Rule α κ σ} {Inv : σ → Prop} (h : ZeroFixed r Inv)
    (cgs : List (κ × α)) (hg : ∀ cg ∈ cgs, cg.2 = 0) (s : σ) (hs : Inv s) : r.param (r.run s cgs) = 0 :=
  h.param_zero _ (h.run_inv cgs hg s hs)

/-- … and after EVERY step on the way (what an observer called after each batch sees). -/
theorem ZeroFixed.trace_zero [Zero α] {r : Rule α κ σ} {Inv : σ → Prop} (h : ZeroFixed r Inv)
    (cgs : List (κ × α)) (hg : ∀ cg ∈ cgs, cg.2 = 0) (s : σ) (hs : Inv s) : ∀ x ∈ r.trace s cgs, x = 0 := by
  induction cgs generalizing s with
  | nil => intro x hx; simp [Rule.trace] at hx
  | cons cg rest ih =>
    have h0 : cg.2 = 0 := hg cg (by simp)
    have hstep : Inv (r.step cg.1 s cg.2) := by rw [h0]; exact h.step_zero cg.1 s hs
    intro x hx
    simp only [Rule.trace, List.mem_cons] at hx
    rcases hx with rfl | hx
    · exact h.param_zero _ hstep
    · exact ih (fun y hy => hg y (List.mem_cons_of_mem _ hy)) _ hstep x hx

theorem trace_length (r : Rule α κ σ) (s : σ) (cgs : List (κ × α)) : (r.trace s cgs).length = cgs.length := by
  induction cgs generalizing s with
  | nil => rfl
  | cons cg rest ih => simp [Rule.trace, ih]

section rules
variable {α : Type} [Field α] [Transc α]

theorem signed_zero (b : Bool) : signed b (0 : α) = 0 := by cases b <;> simp [signed]

theorem zeroFixed_sgd :
    ZeroFixed (sgdRule (α := α)) (fun s => s.p = 0 ∧ (s.buf = none ∨ s.buf = some 0)) where
  param_zero := fun _ hs => hs.1
  step_zero := fun c s hs => by
    simp only [sgdRule, signed_zero]
    exact sgdStep_zero c.base s hs.1 hs.2

theorem zeroFixed_adam : ZeroFixed (adamRule (α := α)) (fun s => s.p = 0 ∧ s.m = 0) where
  param_zero := fun _ hs => hs.1
  step_zero := fun c s hs => by
    obtain ⟨p, m, v, vmax, t⟩ := s
    obtain ⟨hp, hm⟩ := hs
    simp only at hp hm
    subst hp; subst hm
    cases hw : c.hasWd <;> cases hd : c.decoupled <;> simp [adamRule, adamXStep, signed_zero, hw, hd]

theorem zeroFixed_adadelta : ZeroFixed (adadeltaRule (α := α)) (fun s => s.p = 0) where
  param_zero := fun _ hs => hs
  step_zero := fun c s hs => by
    obtain ⟨p, sq, acc⟩ := s
    simp only at hs
    subst hs
    cases hw : c.hasWd <;> simp [adadeltaRule, adadeltaStep, signed_zero, hw]

theorem zeroFixed_adagrad : ZeroFixed (adagradRule (α := α)) (fun s => s.p = 0) where
  param_zero := fun _ hs => hs
  step_zero := fun c s hs => by
    obtain ⟨p, sum, t⟩ := s
    simp only at hs
    subst hs
    cases hw : c.hasWd <;> simp [adagradRule, adagradStep, signed_zero, hw]

theorem zeroFixed_rmsprop : ZeroFixed (rmspropRule (α := α)) (fun s => s.p = 0 ∧ s.buf = 0) where
  param_zero := fun _ hs => hs.1
  step_zero := fun c s hs => by
    obtain ⟨p, sq, gavg, buf⟩ := s
    obtain ⟨hp, hb⟩ := hs
    simp only at hp hb
    subst hp; subst hb
    cases hw : c.hasWd <;> cases hm : c.hasMomentum <;> simp [rmspropRule, rmspropStep, signed_zero, hw, hm]

theorem zeroFixed_adamax : ZeroFixed (adamaxRule (α := α)) (fun s => s.p = 0 ∧ s.m = 0) where
  param_zero := fun _ hs => hs.1
  step_zero := fun c s hs => by
    obtain ⟨p, m, u, t⟩ := s
    obtain ⟨hp, hm⟩ := hs
    simp only at hp hm
    subst hp; subst hm
    cases hw : c.hasWd <;> simp [adamaxRule, adamaxStep, signed_zero, hw]

theorem zeroFixed_nadam : ZeroFixed (nadamRule (α := α)) (fun s => s.p = 0 ∧ s.m = 0) where
  param_zero := fun _ hs => hs.1
  step_zero := fun c s hs => by
    obtain ⟨p, m, v, mp, t⟩ := s
    obtain ⟨hp, hm⟩ := hs
    simp only at hp hm
    subst hp; subst hm
    cases hw : c.hasWd <;> cases hd : c.decoupled <;> simp [nadamRule, nadamStep, signed_zero, hw, hd]

end rules
end QV.Optim
