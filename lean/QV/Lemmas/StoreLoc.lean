/-
QV.Lemmas.StoreLoc — helper lemmas about `QV.Model.StoreLoc` (streams = open file objects; ModelSaver paths).
-/
import QV.Lemmas.StoreIO
import QV.Model.StoreLoc

namespace QV.Store

/-! ### segments and positions -/

theorem offset_zero (rs : List Rec) : offset rs 0 = 0 := by simp [offset, totalSize]

theorem offset_cons_succ (r : Rec) (rs : List Rec) (k : Nat) : offset (r :: rs) (k + 1) = r.size + offset rs k := by
  simp [offset, totalSize]

/-- the boundary behind segment `k` is the boundary in front of it plus its size -/
theorem offset_succ (rs : List Rec) (k : Nat) (hk : k < rs.length) : offset rs (k + 1) = offset rs k + rs[k].size := by
  induction rs generalizing k with
  | nil => simp at hk
  | cons r rest ih =>
    cases k with
    | zero => simp [offset, totalSize]
    | succ k =>
      have hk' : k < rest.length := by simpa using hk
      rw [offset_cons_succ, offset_cons_succ, ih k hk']
      simp only [List.getElem_cons_succ]
      omega

theorem offset_length (rs : List Rec) : offset rs rs.length = totalSize rs := by simp [offset]

/-- at a checkpoint boundary the segment that starts there is found (segments are non-empty) -/
theorem recAt_offset (rs : List Rec) (hpos : ∀ r ∈ rs, 0 < r.size) (k : Nat) (hk : k < rs.length) :
    recAt rs (offset rs k) = some rs[k] := by
  induction rs generalizing k with
  | nil => simp at hk
  | cons r rest ih =>
    cases k with
    | zero => simp [offset, totalSize, recAt]
    | succ k =>
      have hr : 0 < r.size := hpos r (by simp)
      have hk' : k < rest.length := by simpa using hk
      have ih' := ih (fun x hx => hpos x (by simp [hx])) k hk'
      rw [offset_cons_succ]
      have h1 : ¬ (r.size + offset rest k = 0) := by omega
      have h2 : ¬ (r.size + offset rest k < r.size) := by omega
      simp only [recAt, h1, h2, if_false, Nat.add_sub_cancel_left, List.getElem_cons_succ]
      exact ih'

theorem keepBefore_total (rs : List Rec) : keepBefore rs (totalSize rs) = (rs, totalSize rs) := by
  induction rs with
  | nil => rfl
  | cons r rest ih =>
    have h1 : r.size ≤ r.size + totalSize rest := by omega
    simp only [keepBefore, totalSize, h1, if_true, Nat.add_sub_cancel_left, ih]

/-- writing at the END of a file object appends one segment and leaves everything in front of it as it was -/
theorem writeS_end (s : Stream) (size : Nat) (d : Option File) (hend : s.pos = totalSize s.recs) :
    writeS s size d = ⟨s.recs ++ [⟨size, d⟩], s.pos + size⟩ := by
  unfold writeS
  rw [hend, keepBefore_total]
  have h2 : ¬ (totalSize s.recs + size < totalSize s.recs) := by omega
  simp [h2]

theorem totalSize_append (a b : List Rec) : totalSize (a ++ b) = totalSize a + totalSize b := by
  induction a with
  | nil => simp [totalSize]
  | cons r rest ih => simp [totalSize, ih]; omega

/-- `torch.load` at a boundary returns the archive stored there and leaves the object at the next boundary -/
theorem torchLoadS_boundary (recs : List Rec) (hpos : ∀ r ∈ recs, 0 < r.size) (k : Nat) (hk : k < recs.length)
    (sz : Nat) (file : File) (hrec : recs[k] = ⟨sz, some file⟩) :
    torchLoadS ⟨recs, offset recs k⟩ = .ok (file, ⟨recs, offset recs (k + 1)⟩) := by
  simp only [torchLoadS, recAt_offset recs hpos k hk, hrec, offset_succ recs k hk]

/-- a position that holds no archive (a header, the middle of an archive, the end of the file) is refused -/
theorem torchLoadS_header (recs : List Rec) (hpos : ∀ r ∈ recs, 0 < r.size) (k : Nat) (hk : k < recs.length)
    (sz : Nat) (hrec : recs[k] = ⟨sz, none⟩) :
    torchLoadS ⟨recs, offset recs k⟩ = .error .RuntimeError := by
  simp only [torchLoadS, recAt_offset recs hpos k hk, hrec]

theorem loadStream_boundary (h : Heap) (st : NState) (recs : List Rec) (hpos : ∀ r ∈ recs, 0 < r.size) (k : Nat)
    (hk : k < recs.length) (sz : Nat) (file : File) (hrec : recs[k] = ⟨sz, some file⟩) :
    loadStream h ⟨recs, offset recs k⟩ st =
      ((load h (fun _ => some file) st 0).1, (load h (fun _ => some file) st 0).2.1,
        ⟨recs, offset recs (k + 1)⟩, (load h (fun _ => some file) st 0).2.2) := by
  simp only [loadStream, torchLoadS_boundary recs hpos k hk sz file hrec]

/-- **the remember-and-rewind step is right**: `autoload` on a file object positioned at ANY checkpoint boundary is the
path-form `autoload` of the archive stored at THAT boundary, and the object is left at the next boundary -/
theorem autoloadStream_boundary (h : Heap) (kind : Kind) (rand : List (List Tok)) (recs : List Rec)
    (hpos : ∀ r ∈ recs, 0 < r.size) (k : Nat) (hk : k < recs.length) (sz : Nat) (file : File)
    (hrec : recs[k] = ⟨sz, some file⟩) :
    autoloadStream h ⟨recs, offset recs k⟩ kind rand =
      match autoload h (fun _ => some file) kind 0 rand with
      | .error e => .error e
      | .ok r => .ok (r.1, r.2, ⟨recs, offset recs (k + 1)⟩) := by
  simp only [autoloadStream, autoloadStreamWith, Stream.tell, Stream.seek, autoload,
    torchLoadS_boundary recs hpos k hk sz file hrec]
  cases hargs : autoloadArgs file kind with
  | error e => rfl
  | ok args =>
    obtain ⟨ud, nv, nh, na⟩ := args
    simp only [loadStream_boundary _ _ recs hpos k hk sz file hrec]
    cases he : (load (constructSizes h kind nv (some nh) na ud rand).1 (fun _ => some file)
        (constructSizes h kind nv (some nh) na ud rand).2 0).2.2 with
    | some e => rfl
    | none => rfl

/-! ### save to a file object -/

theorem saveStream_eq (h : Heap) (s : Stream) (st : NState) (md : Option Nat) (size : Nat) :
    saveStream h s st md size =
      match save h (fun _ => none) st md 0 with
      | .error e => .error e
      | .ok r => .ok (writeS s size (some (savedFile h st (mdEntries h md))), h) := by
  unfold saveStream
  rw [save_eq]
  by_cases c1 : (st.ud.isSome && ahas (mdEntries h md) (.str "unitary_dict")) = true
  · simp [c1]
  · by_cases c2 : (st.nets.any fun p => ahas (saveMeta st (mdEntries h md)) (MKey.str p.1)) = true
    · simp [c1, c2]
    · by_cases c3 : ((saveMeta st (mdEntries h md)).any fun kv => !isStrKey kv.1) = true
      · simp [c1, c2, c3]
      · simp [c1, c2, c3, upd]

theorem saveStream_heap (h : Heap) (s : Stream) (st : NState) (md : Option Nat) (size : Nat) (s' : Stream) (h' : Heap)
    (hs : saveStream h s st md size = .ok (s', h')) : h' = h := by
  rw [saveStream_eq] at hs
  split at hs
  · simp at hs
  · simp only [Except.ok.injEq, Prod.mk.injEq] at hs; exact hs.2.symm

/-! ### the invariant along histories with file objects -/

theorem WorldWF.setFiles {w : World} (wf : WorldWF w) (fs : Files) : WorldWF { w with files := fs } :=
  ⟨wf.heap, wf.st_nets, wf.st_ids, wf.st_names, wf.mods, wf.st_noud⟩

theorem loadStream_facts (h : Heap) (s : Stream) (st : NState) :
    Touches h (loadStream h s st).1 (netsIds h st.nets) ∧ (loadStream h s st).2.1.nets = st.nets := by
  unfold loadStream
  cases ht : torchLoadS s with
  | error e => exact ⟨Touches.refl _ _, rfl⟩
  | ok r => exact load_facts h (fun _ => some r.1) st 0

theorem autoloadStreamWith_facts {h : Heap} (wf : HeapWF h) (rw' : Nat → Option Nat) (s : Stream) (kind : Kind)
    (rand : List (List Tok)) (h' : Heap) (st : NState) (s' : Stream)
    (ha : autoloadStreamWith rw' h s kind rand = .ok (h', st, s')) :
    HeapWF h' ∧ NetsGrow h h' ∧ StateOK h' st := by
  unfold autoloadStreamWith at ha
  cases ht : torchLoadS s with
  | error e => simp [ht] at ha
  | ok r =>
    obtain ⟨file, s1⟩ := r
    simp only [ht] at ha
    cases hargs : autoloadArgs file kind with
    | error e => simp [hargs] at ha
    | ok args =>
      obtain ⟨ud, nv, nh, na⟩ := args
      simp only [hargs] at ha
      obtain ⟨c1, c2, c3⟩ := constructSizes_facts wf kind nv (some nh) na ud rand
      have key : ∀ s2 : Stream,
          (match (loadStream (constructSizes h kind nv (some nh) na ud rand).1 s2
              (constructSizes h kind nv (some nh) na ud rand).2).2.2.2 with
            | some e => (Except.error e : Except SErr (Heap × NState × Stream))
            | none => .ok ((loadStream (constructSizes h kind nv (some nh) na ud rand).1 s2
                (constructSizes h kind nv (some nh) na ud rand).2).1,
              (loadStream (constructSizes h kind nv (some nh) na ud rand).1 s2
                (constructSizes h kind nv (some nh) na ud rand).2).2.1,
              (loadStream (constructSizes h kind nv (some nh) na ud rand).1 s2
                (constructSizes h kind nv (some nh) na ud rand).2).2.2.1)) = .ok (h', st, s') →
          HeapWF h' ∧ NetsGrow h h' ∧ StateOK h' st := by
        intro s2 ha
        obtain ⟨t, hn⟩ := loadStream_facts (constructSizes h kind nv (some nh) na ud rand).1 s2
          (constructSizes h kind nv (some nh) na ud rand).2
        cases he : (loadStream (constructSizes h kind nv (some nh) na ud rand).1 s2
            (constructSizes h kind nv (some nh) na ud rand).2).2.2.2 with
        | some e => simp [he] at ha
        | none =>
          simp only [he, Except.ok.injEq, Prod.mk.injEq] at ha
          obtain ⟨rfl, rfl, _⟩ := ha
          refine ⟨c1.touches t, c2.trans t.netsGrow, ?_⟩
          have := c3.grow t.netsGrow
          exact ⟨by rw [hn]; exact this.nets, by rw [hn]; exact this.idsNodup, by rw [hn]; exact this.names,
            by rw [hn]; exact this.noUD⟩
      cases hr : rw' s.tell with
      | none => simp only [hr] at ha; exact key _ ha
      | some p => simp only [hr] at ha; exact key _ ha

theorem sstep_wf (sw : SWorld) (wf : WorldWF sw.w) (op : SOp) : WorldWF (sstep sw op).1.w := by
  cases op with
  | base op => exact step_wf sw.w wf op
  | openS sid => exact wf
  | writeHdr sid n =>
    simp only [sstep]
    split <;> exact wf
  | seekS sid pos =>
    simp only [sstep]
    split <;> exact wf
  | saveS slot md sid size =>
    simp only [sstep]
    split
    · split
      · exact wf
      · split
        · exact wf
        · rename_i r hsv
          have := saveStream_heap _ _ _ _ _ _ _ hsv
          dsimp only
          rw [this]
          exact wf
    · exact wf
  | loadS slot sid =>
    simp only [sstep]
    split
    · rename_i st s hs _
      dsimp only
      obtain ⟨t, hn⟩ := loadStream_facts sw.w.heap s st
      refine wf.update _ (wf.heap.touches t) t.netsGrow _ _ _ _ ?_ (fun _ _ hm => Or.inl hm)
      intro s0 st' hs'
      rcases upd_some_cases _ _ _ _ _ hs' with h1 | h1
      · exact Or.inl h1
      · subst h1
        have := (wf.stateOK hs).grow t.netsGrow
        exact Or.inr ⟨by rw [hn]; exact this.nets, by rw [hn]; exact this.idsNodup, by rw [hn]; exact this.names,
          by rw [hn]; exact this.noUD⟩
    · exact wf
  | autoloadS slot kind sid rand =>
    simp only [sstep]
    split
    · exact wf
    · rename_i s _
      cases ha : autoloadStream sw.w.heap s kind rand with
      | error e => exact wf
      | ok r =>
        obtain ⟨h', st, s'⟩ := r
        obtain ⟨a, b, c⟩ := autoloadStreamWith_facts wf.heap some s kind rand h' st s' ha
        dsimp only
        refine wf.update _ a b _ _ _ _ ?_ (fun _ _ hm => Or.inl hm)
        intro s0 st' hs'
        rcases upd_some_cases _ _ _ _ _ hs' with h1 | h1
        · exact Or.inl h1
        · subst h1; exact Or.inr c

theorem srun_wf (sw : SWorld) (wf : WorldWF sw.w) (ops : List SOp) : WorldWF (srun sw ops).w := by
  induction ops generalizing sw with
  | nil => exact wf
  | cons op r ih => exact ih _ (sstep_wf sw wf op)

/-! ### ModelSaver paths -/

/-- a component that `normComps` keeps as a directory level -/
def Plain (c : String) : Prop := isDot c = false ∧ (c == "..") = false

theorem normComps_plain (acc l : List String) (hl : ∀ c ∈ l, Plain c) : normComps acc l = acc.reverse ++ l := by
  induction l generalizing acc with
  | nil => simp [normComps]
  | cons c rest ih =>
    have hc := hl c (by simp)
    simp only [normComps, hc.1, hc.2, Bool.false_eq_true, if_false]
    rw [ih _ (fun x hx => hl x (by simp [hx]))]
    simp

theorem normComps_out_plain (acc l : List String) (ha : ∀ c ∈ acc, Plain c) : ∀ c ∈ normComps acc l, Plain c := by
  induction l generalizing acc with
  | nil => intro c hc; simp only [normComps, List.mem_reverse] at hc; exact ha c hc
  | cons x rest ih =>
    simp only [normComps]
    split
    · exact ih acc ha
    · split
      · exact ih acc.tail (fun c hc => ha c (List.mem_of_mem_tail hc))
      · rename_i h1 h2
        refine ih (x :: acc) ?_
        intro c hc
        rcases List.mem_cons.1 hc with rfl | hc
        · exact ⟨by simpa using h1, by simpa using h2⟩
        · exact ha c hc

/-- a resolved path is absolute and normalised: resolving it again — under ANY working directory — gives it back -/
theorem resolvePath_resolved (cwd0 cwd1 : List String) (p : PathArg) :
    resolvePath cwd1 ⟨true, resolvePath cwd0 p⟩ = resolvePath cwd0 p := by
  have hp : ∀ c ∈ resolvePath cwd0 p, Plain c := normComps_out_plain [] _ (by simp)
  show normComps [] ((if true = true then [] else cwd1) ++ resolvePath cwd0 p) = _
  simp only [if_true, List.nil_append]
  rw [normComps_plain [] _ hp]
  simp

theorem mkdirAll_keeps (fs fs' : DirFs) (pre comps : List String) (hm : mkdirAll fs pre comps = .ok fs') (q : List String)
    (hq : fs q = some true) : fs' q = some true := by
  induction comps generalizing fs pre with
  | nil => simp only [mkdirAll, Except.ok.injEq] at hm; rw [← hm]; exact hq
  | cons c rest ih =>
    simp only [mkdirAll] at hm
    split at hm
    · simp at hm
    · refine ih _ _ hm ?_
      by_cases h : q = pre ++ [c]
      · simp [h]
      · simp [h, hq]

/-- after a successful `mkdir(parents=True, exist_ok=True)` the directory exists -/
theorem mkdirAll_dir (fs fs' : DirFs) (pre comps : List String) (hm : mkdirAll fs pre comps = .ok fs')
    (hpre : fs pre = some true) : fs' (pre ++ comps) = some true := by
  induction comps generalizing fs pre with
  | nil => simp only [mkdirAll, Except.ok.injEq] at hm; rw [← hm]; simpa using hpre
  | cons c rest ih =>
    simp only [mkdirAll] at hm
    split at hm
    · simp at hm
    · have := ih _ _ hm (by simp)
      simpa using this

end QV.Store
