/-
QV.Lemmas.KronLoop — the loop form of `_kron_mult` (slices `k*2r + i, +r` updated in place, pair by pair) equals the
stage form used in `kronMult_dense`.
-/
import Mathlib.Data.List.Basic
import Mathlib.Tactic.Ring
import Mathlib.Tactic.Linarith
import QV.Model.Unitaries

namespace QV
open Unitaries

variable {β : Type} [Inhabited β]

/-- positions already rewritten when the loops are about to process pair `(K, I)` -/
def Done (r K I idx : ℕ) : Prop := idx / r / 2 < K ∨ (idx / r / 2 = K ∧ idx % r < I)

instance (r K I idx : ℕ) : Decidable (Done r K I idx) := by unfold Done; infer_instance

theorem pos_div (r K I : ℕ) (hI : I < r) : (K * (2 * r) + I) / r = 2 * K := by
  have : K * (2 * r) + I = I + r * (2 * K) := by ring
  rw [this, Nat.add_mul_div_left _ _ (by omega : 0 < r), Nat.div_eq_of_lt hI]; omega

theorem pos_mod (r K I : ℕ) (hI : I < r) : (K * (2 * r) + I) % r = I := by
  have : K * (2 * r) + I = I + r * (2 * K) := by ring
  rw [this, Nat.add_mul_mod_self_left, Nat.mod_eq_of_lt hI]

theorem pos_div' (r K I : ℕ) (hI : I < r) : (K * (2 * r) + I + r) / r = 2 * K + 1 := by
  have : K * (2 * r) + I + r = I + r * (2 * K + 1) := by ring
  rw [this, Nat.add_mul_div_left _ _ (by omega : 0 < r), Nat.div_eq_of_lt hI]; omega

theorem pos_mod' (r K I : ℕ) (hI : I < r) : (K * (2 * r) + I + r) % r = I := by
  have : K * (2 * r) + I + r = I + r * (2 * K + 1) := by ring
  rw [this, Nat.add_mul_mod_self_left, Nat.mod_eq_of_lt hI]

/-- processing pair `(K, I)` adds exactly the two positions of that pair -/
theorem done_succ (r K I idx : ℕ) (hI : I < r) :
    Done r K (I + 1) idx ↔ Done r K I idx ∨ idx = K * (2 * r) + I ∨ idx = K * (2 * r) + I + r := by
  unfold Done
  constructor
  · rintro (h | ⟨hk, hi⟩)
    · exact Or.inl (Or.inl h)
    · by_cases hlt : idx % r < I
      · exact Or.inl (Or.inr ⟨hk, hlt⟩)
      · have hmod : idx % r = I := by omega
        have hdm := Nat.div_add_mod idx r
        have hq := Nat.div_add_mod (idx / r) 2
        have h2 : idx / r % 2 = 0 ∨ idx / r % 2 = 1 := by omega
        rcases h2 with h2 | h2
        · right; left
          have : idx / r = 2 * K := by omega
          rw [this, hmod] at hdm
          rw [← hdm]; ring
        · right; right
          have : idx / r = 2 * K + 1 := by omega
          rw [this, hmod] at hdm
          rw [← hdm]; ring
  · rintro (h | h | h)
    · rcases h with h | ⟨hk, hi⟩
      · exact Or.inl h
      · exact Or.inr ⟨hk, by omega⟩
    · subst h; right
      rw [pos_div r K I hI, pos_mod r K I hI]; constructor <;> omega
    · subst h; right
      rw [pos_div' r K I hI, pos_mod' r K I hI]; constructor <;> omega

theorem not_done_pos (r K I : ℕ) (hI : I < r) :
    ¬ Done r K I (K * (2 * r) + I) ∧ ¬ Done r K I (K * (2 * r) + I + r) := by
  unfold Done
  rw [pos_div r K I hI, pos_mod r K I hI, pos_div' r K I hI, pos_mod' r K I hI]
  constructor <;> omega

variable {α : Type} [Add α] [Mul α] [Neg α] [Sub α] [Zero α] [One α]

/-- value the stage form assigns to position `idx` from the ORIGINAL data -/
def newVal (addβ : β → β → β) (act : C α → β → β) (m : M2 α) (r : ℕ) (y : List β) (idx : ℕ) : β :=
  stage addβ act m r (fun j => y.getD j default) idx

theorem newVal_lo (addβ : β → β → β) (act : C α → β → β) (m : M2 α) (r K I : ℕ) (hI : I < r) (y : List β) :
    newVal addβ act m r y (K * (2 * r) + I)
      = addβ (act (m false false) (y.getD (K * (2 * r) + I) default)) (act (m false true) (y.getD (K * (2 * r) + I + r) default)) := by
  unfold newVal stage
  simp only [pos_div r K I hI]
  have : (2 * K % 2 == 1) = false := by simp [Nat.mul_mod_right]
  simp [this]

theorem newVal_hi (addβ : β → β → β) (act : C α → β → β) (m : M2 α) (r K I : ℕ) (hI : I < r) (y : List β) :
    newVal addβ act m r y (K * (2 * r) + I + r)
      = addβ (act (m true false) (y.getD (K * (2 * r) + I) default)) (act (m true true) (y.getD (K * (2 * r) + I + r) default)) := by
  unfold newVal stage
  simp only [pos_div' r K I hI]
  have : ((2 * K + 1) % 2 == 1) = true := by simp [Nat.add_mod]
  simp [this]

/-- invariant of the loops: rewritten positions hold the stage value computed from the original data, the others are untouched -/
def Inv (addβ : β → β → β) (act : C α → β → β) (m : M2 α) (r K I : ℕ) (y z : List β) : Prop :=
  z.length = y.length ∧ ∀ idx, idx < y.length →
    z.getD idx default = if Done r K I idx then newVal addβ act m r y idx else y.getD idx default

theorem getD_set_self' (l : List β) (i : ℕ) (a d : β) (h : i < l.length) : (l.set i a).getD i d = a := by
  simp [List.getD_eq_getElem?_getD, List.getElem?_set, h]

theorem getD_set_ne' (l : List β) (i j : ℕ) (a d : β) (h : i ≠ j) : (l.set i a).getD j d = l.getD j d := by
  simp [List.getD_eq_getElem?_getD, List.getElem?_set, h]

theorem inv_step (addβ : β → β → β) (act : C α → β → β) (m : M2 α) (r K I : ℕ) (hr : 0 < r) (hI : I < r) (y z : List β)
    (hlen : K * (2 * r) + I + r < y.length) (h : Inv addβ act m r K I y z) :
    Inv addβ act m r K (I + 1) y (updPair addβ act m (K * (2 * r) + I) r z) := by
  obtain ⟨hl, hv⟩ := h
  have hnd := not_done_pos r K I hI
  have h0 : z.getD (K * (2 * r) + I) default = y.getD (K * (2 * r) + I) default := by
    rw [hv _ (by omega), if_neg hnd.1]
  have h1 : z.getD (K * (2 * r) + I + r) default = y.getD (K * (2 * r) + I + r) default := by
    rw [hv _ hlen, if_neg hnd.2]
  refine ⟨by simp [updPair, hl], fun idx hidx => ?_⟩
  unfold updPair
  simp only [h0, h1]
  by_cases e1 : idx = K * (2 * r) + I + r
  · subst e1
    rw [getD_set_self' _ _ _ _ (by simp; omega), if_pos ((done_succ r K I _ hI).mpr (Or.inr (Or.inr rfl))), newVal_hi _ _ _ _ _ _ hI]
  · rw [getD_set_ne' _ _ _ _ _ (Ne.symm e1)]
    by_cases e0 : idx = K * (2 * r) + I
    · subst e0
      rw [getD_set_self' _ _ _ _ (by omega), if_pos ((done_succ r K I _ hI).mpr (Or.inr (Or.inl rfl))), newVal_lo _ _ _ _ _ _ hI]
    · rw [getD_set_ne' _ _ _ _ _ (Ne.symm e0), hv idx hidx]
      have : Done r K (I + 1) idx ↔ Done r K I idx := by
        rw [done_succ r K I idx hI]; constructor
        · rintro (h | h | h); exacts [h, absurd h e0, absurd h e1]
        · exact Or.inl
      simp only [this]

theorem inv_inner (addβ : β → β → β) (act : C α → β → β) (m : M2 α) (r K : ℕ) (hr : 0 < r) (y : List β)
    (hlen : (K + 1) * (2 * r) ≤ y.length) (I : ℕ) (hI : I ≤ r) (z : List β) (h : Inv addβ act m r K 0 y z) :
    Inv addβ act m r K I y ((List.range I).foldl (fun y i => updPair addβ act m (K * (2 * r) + i) r y) z) := by
  induction I with
  | zero => simpa using h
  | succ J ih =>
    rw [List.range_succ, List.foldl_append]
    simp only [List.foldl_cons, List.foldl_nil]
    refine inv_step addβ act m r K J hr (by omega) y _ ?_ (ih (by omega))
    have : (K + 1) * (2 * r) = K * (2 * r) + 2 * r := by ring
    omega

theorem done_block (r K idx : ℕ) (hr : 0 < r) : Done r K r idx ↔ Done r (K + 1) 0 idx := by
  unfold Done
  have := Nat.mod_lt idx hr
  constructor
  · rintro (h | ⟨h, _⟩) <;> left <;> omega
  · rintro (h | ⟨_, h⟩)
    · by_cases e : idx / r / 2 < K
      · exact Or.inl e
      · exact Or.inr ⟨by omega, this⟩
    · omega

theorem inv_outer (addβ : β → β → β) (act : C α → β → β) (m : M2 α) (r : ℕ) (hr : 0 < r) (y : List β)
    (K : ℕ) (hlen : K * (2 * r) ≤ y.length) :
    Inv addβ act m r K 0 y ((List.range K).foldl
      (fun y k => (List.range r).foldl (fun y i => updPair addβ act m (k * (2 * r) + i) r y) y) y) := by
  induction K with
  | zero =>
    refine ⟨rfl, fun idx _ => ?_⟩
    simp [Done]
  | succ J ih =>
    rw [List.range_succ, List.foldl_append]
    simp only [List.foldl_cons, List.foldl_nil]
    have hJ : J * (2 * r) ≤ y.length := by
      have : (J + 1) * (2 * r) = J * (2 * r) + 2 * r := by ring
      omega
    have h := inv_inner addβ act m r J hr y hlen r (le_refl r) _ (ih hJ)
    refine ⟨h.1, fun idx hidx => ?_⟩
    rw [h.2 idx hidx]
    simp only [done_block r J idx hr]

/-- **the loop form equals the stage form** on every position of a vector of length `l · 2r` -/
theorem stageLoop_eq_stage (addβ : β → β → β) (act : C α → β → β) (m : M2 α) (r l : ℕ) (hr : 0 < r) (y : List β)
    (hlen : y.length = l * (2 * r)) (idx : ℕ) (hidx : idx < y.length) :
    (stageLoop addβ act m r l y).getD idx default = stage addβ act m r (fun j => y.getD j default) idx := by
  have h := inv_outer addβ act m r hr y l (by omega)
  unfold stageLoop
  rw [h.2 idx hidx, if_pos]
  · rfl
  · left
    rw [Nat.div_div_eq_div_mul, Nat.div_lt_iff_lt_mul (by positivity)]
    rw [hlen] at hidx
    calc idx < l * (2 * r) := hidx
      _ = l * (r * 2) := by ring

theorem stageLoop_length (addβ : β → β → β) (act : C α → β → β) (m : M2 α) (r l : ℕ) (hr : 0 < r) (y : List β)
    (hlen : y.length = l * (2 * r)) : (stageLoop addβ act m r l y).length = y.length :=
  (inv_outer addβ act m r hr y l (by omega)).1

end QV

namespace QV
open Unitaries
variable {β : Type} [Inhabited β] {α : Type} [Add α] [Mul α] [Neg α] [Sub α] [Zero α] [One α]

/-- the stage form at a position below `l·2r` only reads positions below `l·2r` -/
theorem stage_congr (addβ : β → β → β) (act : C α → β → β) (m : M2 α) (r l : ℕ) (hr : 0 < r) (f g : ℕ → β)
    (hfg : ∀ j, j < l * (2 * r) → f j = g j) (idx : ℕ) (hidx : idx < l * (2 * r)) :
    stage addβ act m r f idx = stage addβ act m r g idx := by
  unfold stage
  have hq : idx / r < 2 * l := by
    rw [Nat.div_lt_iff_lt_mul hr]
    calc idx < l * (2 * r) := hidx
      _ = 2 * l * r := by ring
  have hdm := Nat.div_add_mod idx r
  have hmod := Nat.mod_lt idx hr
  by_cases hb : (idx / r % 2 == 1) = true
  · have hodd : idx / r % 2 = 1 := by simpa using hb
    have hge : r ≤ idx := by
      have : 1 ≤ idx / r := Nat.pos_of_ne_zero (by intro h0; rw [h0] at hodd; simp at hodd)
      calc r = r * 1 := by ring
        _ ≤ r * (idx / r) := Nat.mul_le_mul_left r this
        _ ≤ idx := by omega
    simp only [hb, if_true]
    rw [hfg (idx - r) (by omega), hfg (idx - r + r) (by omega)]
  · have heven : idx / r % 2 = 0 := by
      have : idx / r % 2 ≠ 1 := by simpa using hb
      omega
    simp only [hb, Bool.false_eq_true, if_false]
    have hlt : idx + r < l * (2 * r) := by
      have h1 : idx / r + 2 ≤ 2 * l := by omega
      have h2 : idx + r < r * (idx / r + 2) := by
        have : r * (idx / r + 2) = r * (idx / r) + 2 * r := by ring
        omega
      calc idx + r < r * (idx / r + 2) := h2
        _ ≤ r * (2 * l) := Nat.mul_le_mul_left r h1
        _ = l * (2 * r) := by ring
    rw [hfg idx hidx, hfg (idx + r) hlt]

theorem two_pow_split (n s : ℕ) (hs : s < n) : 2 ^ s * (2 * 2 ^ (n - 1 - s)) = 2 ^ n := by
  rw [← pow_succ', ← pow_add]; congr 1; omega

/-- the loop form of `_kron_mult` agrees with the stage form on every position of a vector of length `2^n`, for any list
of (valid) sites processed from the right -/
theorem kronLoop_foldr (addβ : β → β → β) (act : C α → β → β) (n : ℕ) (us : Fin n → M2 α) (L : List (Fin n))
    (x : List β) (hx : x.length = 2 ^ n) :
    (L.foldr (fun s y => stageLoop addβ act (us s) (2 ^ (n - 1 - s.val)) (2 ^ s.val) y) x).length = 2 ^ n ∧
    ∀ idx, idx < 2 ^ n →
      (L.foldr (fun s y => stageLoop addβ act (us s) (2 ^ (n - 1 - s.val)) (2 ^ s.val) y) x).getD idx default
        = L.foldr (fun s y => stage addβ act (us s) (2 ^ (n - 1 - s.val)) y) (fun j => x.getD j default) idx := by
  induction L with
  | nil => exact ⟨hx, fun _ _ => rfl⟩
  | cons s L ih =>
    obtain ⟨hl, hv⟩ := ih
    simp only [List.foldr_cons]
    have hsz := two_pow_split n s.val s.isLt
    have hlen' : (L.foldr (fun s y => stageLoop addβ act (us s) (2 ^ (n - 1 - s.val)) (2 ^ s.val) y) x).length
        = 2 ^ s.val * (2 * 2 ^ (n - 1 - s.val)) := by rw [hl, hsz]
    refine ⟨by rw [stageLoop_length _ _ _ _ _ (by positivity) _ hlen', hl], fun idx hidx => ?_⟩
    rw [stageLoop_eq_stage _ _ _ _ _ (by positivity) _ hlen' idx (by rw [hl]; exact hidx)]
    exact stage_congr addβ act (us s) _ (2 ^ s.val) (by positivity) _ _
      (fun j hj => hv j (by rw [← hsz]; exact hj)) idx (by rw [hsz]; exact hidx)

/-- **`_kron_mult` with the code's loops = the stage form** (hence, by `kronMult_dense`, the dense tensor-product operator) -/
theorem kronMultLoop_eq (addβ : β → β → β) (act : C α → β → β) (n : ℕ) (us : Fin n → M2 α) (x : List β)
    (hx : x.length = 2 ^ n) (idx : ℕ) (hidx : idx < 2 ^ n) :
    (kronMultLoop addβ act n us x).getD idx default = kronMult addβ act n us (fun j => x.getD j default) idx := by
  unfold kronMultLoop kronMult
  rw [Fin.foldr_eq_finRange_foldr, Fin.foldr_eq_finRange_foldr]
  exact (kronLoop_foldr addβ act n us (List.finRange n) x hx).2 idx hidx

end QV

namespace QV
open Unitaries
variable {α : Type} [Add α] [Mul α] [Neg α] [Sub α] [Zero α] [One α]

/-- `_kron_mult` on a matrix acts column by column -/
theorem kronMult_row_col (n : ℕ) (us : Fin n → M2 α) (L : List (Fin n)) (x : ℕ → Row α) (i c : ℕ) :
    L.foldr (fun s y => stage addRow actRow (us s) (2 ^ (n - 1 - s.val)) y) x i c
      = L.foldr (fun s y => stage C.add C.mul (us s) (2 ^ (n - 1 - s.val)) y) (fun i' => x i' c) i := by
  induction L generalizing i with
  | nil => rfl
  | cons s L ih =>
    simp only [List.foldr_cons]
    show stage C.add C.mul (us s) (2 ^ (n - 1 - s.val))
        (fun i' => L.foldr (fun s y => stage addRow actRow (us s) (2 ^ (n - 1 - s.val)) y) x i' c) i = _
    congr 1
    funext i'
    exact ih i'

theorem kronMult_col (n : ℕ) (us : Fin n → M2 α) (x : ℕ → Row α) (i c : ℕ) :
    kronMult addRow actRow n us x i c = kronMult C.add C.mul n us (fun i' => x i' c) i := by
  unfold kronMult
  rw [Fin.foldr_eq_finRange_foldr, Fin.foldr_eq_finRange_foldr]
  exact kronMult_row_col n us _ x i c

/-- the stage form at a position below `2^n` only depends on the data below `2^n` -/
theorem kronMult_congr {β : Type} [Inhabited β] (addβ : β → β → β) (act : C α → β → β) (n : ℕ) (us : Fin n → M2 α) (f g : ℕ → β)
    (hfg : ∀ j, j < 2 ^ n → f j = g j) (idx : ℕ) (hidx : idx < 2 ^ n) :
    kronMult addβ act n us f idx = kronMult addβ act n us g idx := by
  unfold kronMult
  rw [Fin.foldr_eq_finRange_foldr, Fin.foldr_eq_finRange_foldr]
  suffices h : ∀ (L : List (Fin n)) (idx : ℕ), idx < 2 ^ n →
      L.foldr (fun s y => stage addβ act (us s) (2 ^ (n - 1 - s.val)) y) f idx
        = L.foldr (fun s y => stage addβ act (us s) (2 ^ (n - 1 - s.val)) y) g idx from h _ idx hidx
  intro L
  induction L with
  | nil => exact fun idx h => hfg idx h
  | cons s L ih =>
    intro idx hidx
    simp only [List.foldr_cons]
    have hsz := two_pow_split n s.val s.isLt
    exact stage_congr addβ act (us s) _ (2 ^ s.val) (by positivity) _ _
      (fun j hj => ih j (by rw [← hsz]; exact hj)) idx (by rw [hsz]; exact hidx)

/-- **`rotate_rho` with the code's loops = the stage form**, entry by entry -/
theorem rotateRhoL_eq (n : ℕ) (us : Fin n → M2 α) (ρ : List (Row α)) (hρ : ρ.length = 2 ^ n)
    (i j : ℕ) (hi : i < 2 ^ n) (hj : j < 2 ^ n) :
    (rotateRhoL n us ρ).getD i default j = rotateRho n us (fun a b => ρ.getD a default b) i j := by
  unfold rotateRhoL rotateRho
  simp only []
  rw [kronMultLoop_eq addRow actRow n us _ (by simp) i hi, kronMult_col, kronMult_col]
  refine kronMult_congr C.add C.mul n us _ _ (fun k hk => ?_) i hi
  rw [List.getD_eq_getElem?_getD, List.getElem?_map, List.getElem?_range hk]
  simp only [Option.map_some, Option.getD_some]
  rw [kronMultLoop_eq addRow actRow n us ρ hρ j hj]

end QV
