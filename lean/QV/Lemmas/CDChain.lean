/-
QV.Lemmas.CDChain — helper lemmas for the gap-closing round of C06:
`run`/`expect` of `Prog.map`, marginals of a batch of independent chains, folds and traces of a
training run, the epoch/scheduler bookkeeping of `QV.Model.CDStep`.
-/
import Mathlib.Algebra.BigOperators.Ring.Finset
import Mathlib.Data.Fintype.BigOperators
import Mathlib.Algebra.Order.Floor.Div
import QV.Model.CDStep
import QV.Lemmas.Prob

namespace QV
open Finset

namespace Prog
variable {α β γ : Type}

/-- replaying a post-processed program = post-processing the replay (same probabilities presented, same
leftover draws) -/
theorem run_map (f : β → γ) (m : Prog α β) (ds : List Bool) :
    (m.map f).run ds = (m.run ds).map (fun x => (f x.1, x.2)) := by
  induction m generalizing ds with
  | ret b => rfl
  | flip p k ih =>
    cases ds with
    | nil => rfl
    | cons d ds =>
      have ih' := ih d ds
      simp only [map] at ih'
      simp only [map, bind, run, ih']
      cases (k d).run ds <;> rfl

theorem map_map {δ : Type} (f : β → γ) (g : γ → δ) (m : Prog α β) : (m.map f).map g = m.map (g ∘ f) := by
  simp only [map, bind_assoc]
  rfl

theorem expect_map (f : β → γ) (m : Prog ℝ β) (g : γ → ℝ) : (m.map f).expect g = m.expect (fun b => g (f b)) := by
  rw [map, expect_bind]
  rfl

/-- linearity of the expectation -/
theorem expect_sub_const_div (m : Prog ℝ β) (c s : ℝ) (g : β → ℝ) :
    m.expect (fun b => c - g b / s) = c - m.expect g / s := by
  induction m with
  | ret b => rfl
  | flip p k ih => simp only [expect, ih]; ring

theorem expect_finset_sum {ι : Type} (m : Prog ℝ β) (S : Finset ι) (g : ι → β → ℝ) :
    m.expect (fun b => ∑ i ∈ S, g i b) = ∑ i ∈ S, m.expect (g i) := by
  induction m with
  | ret b => rfl
  | flip p k ih => simp only [expect, ih, Finset.mul_sum, ← Finset.sum_add_distrib]

end Prog

/-- marginal of a product weight: summing out all coordinates but `m` -/
theorem sum_prod_marginal {M : ℕ} {V : Type} [Fintype V] [DecidableEq V] (q : Fin M → V → ℝ)
    (hq : ∀ b, ∑ w, q b w = 1) (m : Fin M) (f : V → ℝ) :
    ∑ ws : Fin M → V, (∏ b, q b (ws b)) * f (ws m) = ∑ w, q m w * f w := by
  have h1 : ∀ ws : Fin M → V, (∏ b, q b (ws b)) * f (ws m)
      = ∏ b, (if b = m then q b (ws b) * f (ws b) else q b (ws b)) := by
    intro ws
    rw [← Finset.mul_prod_erase _ _ (Finset.mem_univ m), ← Finset.mul_prod_erase _ _ (Finset.mem_univ m)]
    simp only [if_true]
    rw [mul_right_comm]
    congr 1
    refine Finset.prod_congr rfl (fun b hb => ?_)
    rw [if_neg (Finset.ne_of_mem_erase hb)]
  simp only [h1]
  rw [← Fintype.prod_sum (fun (b : Fin M) (w : V) => if b = m then q b w * f w else q b w)]
  rw [← Finset.mul_prod_erase _ _ (Finset.mem_univ m)]
  simp only [if_true]
  rw [Finset.prod_eq_one, mul_one]
  intro b hb
  simp only [if_neg (Finset.ne_of_mem_erase hb), hq]

/-- a statistic of chain `m` of a batch of independent chains has the expectation it has under chain `m` alone -/
theorem Prog.expect_batch_coord {M : ℕ} {V : Type} [Fintype V] [DecidableEq V]
    (progB : Prog ℝ (Fin M → V)) (single : Fin M → Prog ℝ V)
    (hlaw : ∀ ws, progB.law ws = ∏ b, (single b).law (ws b)) (m : Fin M) (f : V → ℝ) :
    progB.expect (fun ws => f (ws m)) = ∑ w, (single m).law w * f w := by
  rw [Prog.expect_eq_sum]
  simp only [hlaw]
  exact sum_prod_marginal (fun b w => (single b).law w) (fun b => Prog.sum_law _) m f

namespace CDStep
variable {P β : Type}

theorem foldRun_append (step : P → β → P) (p0 : P) (bs cs : List β) :
    foldRun step p0 (bs ++ cs) = foldRun step (foldRun step p0 bs) cs := by
  simp [foldRun, List.foldl_append]

theorem foldTrace_length (step : P → β → P) (p0 : P) (bs : List β) :
    (foldTrace step p0 bs).length = bs.length := by
  induction bs generalizing p0 with
  | nil => rfl
  | cons b bs ih => simp [foldTrace, ih]

theorem foldTrace_append (step : P → β → P) (p0 : P) (bs cs : List β) :
    foldTrace step p0 (bs ++ cs) = foldTrace step p0 bs ++ foldTrace step (foldRun step p0 bs) cs := by
  induction bs generalizing p0 with
  | nil => rfl
  | cons b bs ih => simp [foldTrace, foldRun, ih]

/-- entry `t` of the trace: ONE update applied to the result of all earlier updates -/
theorem foldTrace_getElem? (step : P → β → P) (p0 : P) (bs : List β) (t : ℕ) (ht : t < bs.length) :
    (foldTrace step p0 bs)[t]? = some (step (foldRun step p0 (bs.take t)) bs[t]) := by
  induction bs generalizing p0 t with
  | nil => simp at ht
  | cons b bs ih =>
    cases t with
    | zero => simp [foldTrace, foldRun]
    | succ t =>
      simp only [List.length_cons, Nat.add_lt_add_iff_right] at ht
      simpa [foldTrace, foldRun] using ih (step p0 b) t ht

/-- … which is the fold over the first `t + 1` batches: the parameters BEFORE batch `t + 1` are those AFTER batch `t` -/
theorem foldTrace_getElem?_eq_run (step : P → β → P) (p0 : P) (bs : List β) (t : ℕ) (ht : t < bs.length) :
    (foldTrace step p0 bs)[t]? = some (foldRun step p0 (bs.take (t + 1))) := by
  rw [foldTrace_getElem? step p0 bs t ht, List.take_succ_eq_append_getElem ht, foldRun_append]
  rfl

theorem foldTrace_getLast?_cons (step : P → β → P) (p0 : P) (b : β) (bs : List β) :
    (foldTrace step p0 (b :: bs)).getLast? = some (foldRun step p0 (b :: bs)) := by
  induction bs generalizing p0 b with
  | nil => rfl
  | cons c cs ih =>
    have := ih (step p0 b) c
    simp only [foldTrace, foldRun, List.foldl_cons] at this ⊢
    rw [List.getLast?_cons_cons]
    exact this

/-- the last entry of the trace is the result of the run (no batches: the initial parameters) -/
theorem foldTrace_getLast (step : P → β → P) (p0 : P) (bs : List β) :
    ((foldTrace step p0 bs).getLast?).getD p0 = foldRun step p0 bs := by
  cases bs with
  | nil => rfl
  | cons b bs => rw [foldTrace_getLast?_cons]; rfl

section sched
variable {α : Type}

theorem tagEpochs_length (next : ℕ → α → α) (lr : α) (e : ℕ) (epochs : List (List β)) :
    (tagEpochs next lr e epochs).length = (epochs.map List.length).sum := by
  induction epochs generalizing lr e with
  | nil => rfl
  | cons bs rest ih => simp [tagEpochs, ih]

/-- closed form of the tagging: epoch `i` (0-based) is tagged with the rate after `i` scheduler steps -/
theorem tagEpochs_eq (next : ℕ → α → α) (lr0 : α) (e : ℕ) (epochs : List (List β)) :
    tagEpochs next (lrAfter next lr0 e) e epochs
      = (List.range epochs.length).flatMap fun i => (epochs.getD i []).map fun b => (lrAfter next lr0 (e + i), b) := by
  induction epochs generalizing e with
  | nil => rfl
  | cons bs rest ih =>
    have h := ih (e + 1)
    simp only [lrAfter] at h
    rw [tagEpochs, h, List.length_cons, List.range_succ_eq_map, List.flatMap_cons, List.flatMap_map]
    simp only [List.getD_cons_zero, Nat.add_zero, List.getD_cons_succ]
    congr 2
    funext i
    congr 2
    funext b
    rw [Nat.add_assoc, Nat.add_comm 1 i]

/-- the rate left in the optimizer after the epoch loop: one scheduler step per entered epoch, whatever the epochs contain -/
theorem lrEnd_eq (next : ℕ → α → α) (lr0 : α) (e : ℕ) (epochs : List (List β)) :
    lrEnd next (lrAfter next lr0 e) e epochs = lrAfter next lr0 (e + epochs.length) := by
  induction epochs generalizing e with
  | nil => rfl
  | cons bs rest ih =>
    have h := ih (e + 1)
    simp only [lrAfter] at h
    rw [lrEnd, h, List.length_cons, Nat.add_assoc, Nat.add_comm 1]

theorem schedSteps_eq (epochs : List (List β)) : schedSteps epochs = epochs.length := by
  induction epochs with
  | nil => rfl
  | cons bs rest ih => simp [schedSteps, ih]

end sched

/-- `StepLR` closed form: after `e` scheduler steps the rate is `lr0 · gamma ^ ⌊e / step_size⌋` -/
theorem lrAfter_stepLR (gamma lr0 : ℝ) (s : ℕ) (e : ℕ) :
    lrAfter (stepLRNext gamma s) lr0 e = lr0 * gamma ^ (e / s) := by
  induction e with
  | zero => simp [lrAfter]
  | succ e ih =>
    simp only [lrAfter, stepLRNext, ih]
    rw [Nat.succ_div]
    by_cases hd : (e + 1) % s = 0
    · rw [if_pos hd, if_pos (Nat.dvd_of_mod_eq_zero hd), pow_succ]; ring
    · rw [if_neg hd, if_neg (fun hdv => hd (Nat.mod_eq_zero_of_dvd hdv)), Nat.add_zero]

end CDStep
end QV
