/-
QV.Lemmas.Basic — helper lemmas relating the model's folds and stable formulas to
Mathlib's `∑`, `∏`, `Real.log (1 + exp x)` etc.
-/
import Mathlib.Algebra.BigOperators.Fin
import Mathlib.Analysis.SpecialFunctions.Log.Basic
import Mathlib.Analysis.SpecialFunctions.Exp
import QV.Real

namespace QV
open Finset

theorem foldl_add_eq {M : Type*} [AddCommMonoid M] (n : ℕ) (f : Fin n → M) (a : M) :
    Fin.foldl n (fun acc i => acc + f i) a = a + ∑ i, f i := by
  induction n generalizing a with
  | zero => simp [Fin.foldl_zero]
  | succ k ih =>
    rw [Fin.foldl_succ, ih, Fin.sum_univ_succ, add_assoc]

@[simp] theorem sumFin_eq {M : Type} [AddCommMonoid M] (n : ℕ) (f : Fin n → M) :
    sumFin n f = ∑ i, f i := by
  simp [sumFin, foldl_add_eq]

theorem foldl_mul_eq {M : Type*} [CommMonoid M] (n : ℕ) (f : Fin n → M) (a : M) :
    Fin.foldl n (fun acc i => acc * f i) a = a * ∏ i, f i := by
  induction n generalizing a with
  | zero => simp [Fin.foldl_zero]
  | succ k ih =>
    rw [Fin.foldl_succ, ih, Fin.prod_univ_succ, mul_assoc]

@[simp] theorem prodFin_eq {M : Type} [CommMonoid M] (n : ℕ) (f : Fin n → M) :
    prodFin n f = ∏ i, f i := by
  simp [prodFin, foldl_mul_eq]

@[simp] theorem dot_eq {M : Type} [CommSemiring M] (n : ℕ) (x y : Fin n → M) :
    dot n x y = ∑ j, x j * y j := by simp [dot]

@[simp] theorem two_eq : (two : ℝ) = 2 := by norm_num [two]

/-- the stable softplus of the model is `log (1 + exp x)` -/
@[simp] theorem softplus_eq (x : ℝ) : softplus x = Real.log (1 + Real.exp x) := by
  unfold softplus
  simp only [transc_max, transc_log, transc_exp, transc_abs]
  rcases le_total 0 x with hx | hx
  · rw [max_eq_left hx, abs_of_nonneg hx]
    have h1 : (1 : ℝ) + Real.exp x = Real.exp x * (1 + Real.exp (-x)) := by
      rw [mul_add, mul_one, ← Real.exp_add]; simp [add_comm]
    rw [h1, Real.log_mul (Real.exp_pos x).ne' (by positivity), Real.log_exp]
  · rw [max_eq_right hx, abs_of_nonpos hx, neg_neg, zero_add]

theorem sigmoid_eq (x : ℝ) : sigmoid x = 1 / (1 + Real.exp (-x)) := rfl

theorem sigmoid_eq' (x : ℝ) : sigmoid x = Real.exp x / (1 + Real.exp x) := by
  rw [sigmoid_eq, Real.exp_neg]
  have := Real.exp_pos x
  field_simp
  ring

theorem sigmoid_pos (x : ℝ) : 0 < (sigmoid x : ℝ) := by
  rw [sigmoid_eq]; positivity

theorem sigmoid_lt_one (x : ℝ) : (sigmoid x : ℝ) < 1 := by
  rw [sigmoid_eq, div_lt_one (by positivity)]
  linarith [Real.exp_pos (-x)]

/-- `clamp_(0,1)` does nothing to a sigmoid. -/
@[simp] theorem clamp01_sigmoid (x : ℝ) : clamp01 (sigmoid x : ℝ) = sigmoid x := by
  unfold clamp01
  simp only [transc_max, transc_min]
  rw [max_eq_left (sigmoid_pos x).le, min_eq_left (sigmoid_lt_one x).le]

theorem one_sub_sigmoid (x : ℝ) : 1 - (sigmoid x : ℝ) = 1 / (1 + Real.exp x) := by
  rw [sigmoid_eq']
  have := Real.exp_pos x
  field_simp; ring

/-- `exp (m + log Σ exp (x i − m)) = Σ exp (x i)` for every shift `m` (nonempty sum). -/
theorem exp_logSumExpShift (n : ℕ) (x : Fin n → ℝ) (m : ℝ) (hn : 0 < n) :
    Real.exp (logSumExpShift n x m) = ∑ i, Real.exp (x i) := by
  unfold logSumExpShift
  simp only [transc_log, transc_exp, sumFin_eq]
  have hpos : 0 < ∑ i, Real.exp (x i - m) := by
    have : Nonempty (Fin n) := ⟨⟨0, hn⟩⟩
    exact Finset.sum_pos (fun i _ => Real.exp_pos _) Finset.univ_nonempty
  rw [Real.exp_add, Real.exp_log hpos, Finset.mul_sum]
  refine Finset.sum_congr rfl (fun i _ => ?_)
  rw [← Real.exp_add]; ring_nf

theorem exp_logSumExp (n : ℕ) (x : Fin n → ℝ) (hn : 0 < n) :
    Real.exp (logSumExp n x) = ∑ i, Real.exp (x i) := by
  cases n with
  | zero => omega
  | succ k => exact exp_logSumExpShift (k+1) x _ hn

end QV
