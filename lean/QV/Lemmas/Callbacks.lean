/-
QV.Lemmas.Callbacks — helper lemmas about the Python-glue primitives of QV.Model.Callbacks
(`gate`, `pyIndex`, `mapE`, `runWith`, dict lookups). Used by QV.Props.C17 and QV.Props.C18.
-/
import Mathlib.Data.List.Nodup
import Mathlib.Data.Int.Basic
import QV.Model.Callbacks

namespace QV.Cb

/-! ### the period gate -/

theorem gate_pos {p : Int} (hp : 1 ≤ p) (e : Int) : gate e p = .ok (decide (p ∣ e)) := by
  have hp0 : p ≠ 0 := by omega
  have h1 : Int.fmod e p = e % p := Int.fmod_eq_emod_of_nonneg e (by omega)
  simp only [gate, pyMod, hp0, if_false, h1]
  congr 1
  by_cases h : p ∣ e
  · have := Int.dvd_iff_emod_eq_zero.mp h
    simp [h, this]
  · have : e % p ≠ 0 := fun h0 => h (Int.dvd_iff_emod_eq_zero.mpr h0)
    simp [h, this]

theorem gate_zero (e : Int) : gate e 0 = .error .ZeroDivisionError := by
  simp [gate, pyMod]

/-! ### Python list indexing -/

theorem pyIndex_nonneg {α : Type} (l : List α) (k : Nat) (hk : k < l.length) :
    pyIndex l (k : Int) = .ok l[k] := by
  have h1 : ¬ ((k : Int) < 0) := by omega
  simp [pyIndex, h1, hk]

theorem pyIndex_neg {α : Type} (l : List α) (k : Nat) (hk : k < l.length) :
    pyIndex l ((k : Int) - l.length) = .ok l[k] := by
  have h1 : ((k : Int) - l.length < 0) := by omega
  have h2 : ((k : Int) - l.length + l.length) = k := by omega
  simp [pyIndex, h1, h2, hk]

theorem pyIndex_out {α : Type} (l : List α) (i : Int) (h : (l.length : Int) ≤ i ∨ i < -(l.length : Int)) :
    pyIndex l i = .error .IndexError := by
  unfold pyIndex
  rcases h with h | h
  · have h1 : ¬ (i < 0) := by omega
    have h3 : l.length ≤ i.toNat := by omega
    simp [h1, List.getElem?_eq_none h3]
  · have h1 : i < 0 := by omega
    have h2 : i + (l.length : Int) < 0 := by omega
    simp [h1, h2]

/-! ### `mapE` -/

theorem mapE_ok {α β : Type} (f : α → Except PyErr β) (g : α → β) :
    ∀ (l : List α), (∀ a ∈ l, f a = .ok (g a)) → mapE f l = .ok (l.map g)
  | [], _ => rfl
  | a :: rest, h => by
    have ha := h a (by simp)
    have hr := mapE_ok f g rest (fun b hb => h b (by simp [hb]))
    simp [mapE, ha, hr]

theorem mapE_error_head {α β : Type} (f : α → Except PyErr β) (a : α) (rest : List α) (err : PyErr)
    (h : f a = .error err) : mapE f (a :: rest) = .error err := by
  simp [mapE, h]

/-! ### verbose printing: formatting succeeds iff every value is formattable -/

theorem fmtJoin_ok {V : Type} (fmt : V → Except PyErr String) (mid : String) :
    ∀ (d : Dict String V), (∀ kv ∈ d, ∃ t, fmt kv.2 = .ok t) → ∃ line, fmtJoin fmt mid d = .ok line := by
  intro d h
  have : ∃ parts, mapE (fmtItem fmt mid) d = .ok parts := by
    induction d with
    | nil => exact ⟨[], rfl⟩
    | cons a rest ih =>
      obtain ⟨t, ht⟩ := h a (by simp)
      obtain ⟨ps, hps⟩ := ih (fun kv hkv => h kv (by simp [hkv]))
      exact ⟨(a.1 ++ mid ++ t) :: ps, by simp [mapE, fmtItem, ht, hps]⟩
  obtain ⟨parts, hp⟩ := this
  exact ⟨joinWith "\t" parts, by simp [fmtJoin, hp]⟩

theorem fmtJoin_error {V : Type} (fmt : V → Except PyErr String) (mid : String) :
    ∀ (d : Dict String V), (∃ kv ∈ d, ∃ e, fmt kv.2 = .error e) → ∃ err, fmtJoin fmt mid d = .error err := by
  intro d h
  have : ∃ err, mapE (fmtItem fmt mid) d = .error err := by
    induction d with
    | nil => obtain ⟨kv, hkv, _⟩ := h; simp at hkv
    | cons a rest ih =>
      cases ha : fmt a.2 with
      | error e => exact ⟨e, by simp [mapE, fmtItem, ha]⟩
      | ok t =>
        obtain ⟨kv, hkv, e, he⟩ := h
        have hin : kv ∈ rest := by
          rcases List.mem_cons.mp hkv with rfl | h'
          · rw [ha] at he; cases he
          · exact h'
        obtain ⟨err, herr⟩ := ih ⟨kv, hin, e, he⟩
        exact ⟨err, by simp [mapE, fmtItem, ha, herr]⟩
  obtain ⟨err, hp⟩ := this
  exact ⟨err, by simp [fmtJoin, hp]⟩

theorem verboseBody_ok {V : Type} (fmt : V → Except PyErr String) :
    ∀ (last : Dict String (Dict String V)), (∀ od ∈ last, ∀ kv ∈ od.2, ∃ t, fmt kv.2 = .ok t) →
      ∃ body, ObservableEvaluator.verboseBody fmt last = .ok body := by
  intro last h
  have : ∃ parts, mapE (ObservableEvaluator.verboseItem fmt) last = .ok parts := by
    induction last with
    | nil => exact ⟨[], rfl⟩
    | cons a rest ih =>
      obtain ⟨t, ht⟩ := fmtJoin_ok fmt ": " a.2 (h a (by simp))
      obtain ⟨ps, hps⟩ := ih (fun od hod => h od (by simp [hod]))
      exact ⟨("  " ++ a.1 ++ ":\n    " ++ t) :: ps, by simp [mapE, ObservableEvaluator.verboseItem, ht, hps]⟩
  obtain ⟨parts, hp⟩ := this
  exact ⟨joinWith "\n" parts, by simp [ObservableEvaluator.verboseBody, hp]⟩

/-! ### `runWith` -/

theorem runWith_append {S E : Type} (step : S → E → Except PyErr S) (s : S) (a b : List E) :
    runWith step s (a ++ b) = (match runWith step s a with
      | .ok s' => runWith step s' b
      | .error e => .error e) := by
  induction a generalizing s with
  | nil => rfl
  | cons ev rest ih =>
    simp only [List.cons_append, runWith]
    cases step s ev with
    | error e => rfl
    | ok s' => exact ih s'

/-! ### dict lookups -/

theorem lookup_of_mem_nodup {K V : Type} [BEq K] [LawfulBEq K] :
    ∀ {l : List (K × V)}, (l.map Prod.fst).Nodup → ∀ {k : K} {v : V}, (k, v) ∈ l → l.lookup k = some v
  | [], _, _, _, h => by simp at h
  | (k0, v0) :: rest, hnd, k, v, h => by
    simp only [List.map_cons, List.nodup_cons] at hnd
    rcases List.mem_cons.mp h with h | h
    · cases h
      simp [List.lookup]
    · have hne : k ≠ k0 := by
        intro hk
        apply hnd.1
        rw [← hk]
        exact List.mem_map.mpr ⟨(k, v), h, rfl⟩
      have : (k == k0) = false := by simpa using hne
      simp only [List.lookup, this]
      exact lookup_of_mem_nodup hnd.2 h

theorem lookup_none_of_not_mem {K V : Type} [BEq K] [LawfulBEq K] :
    ∀ {l : List (K × V)} {k : K}, k ∉ l.map Prod.fst → l.lookup k = none
  | [], _, _ => rfl
  | (k0, v0) :: rest, k, h => by
    simp only [List.map_cons, List.mem_cons, not_or] at h
    have : (k == k0) = false := by simpa using h.1
    simp only [List.lookup, this]
    exact lookup_none_of_not_mem h.2

theorem getItem_of_mem_nodup {K V : Type} [BEq K] [LawfulBEq K] {d : Dict K V} (hnd : d.keys.Nodup)
    {k : K} {v : V} (h : (k, v) ∈ d) : d.getItem k = .ok v := by
  simp [Dict.getItem, lookup_of_mem_nodup hnd h]

theorem getItem_of_not_mem {K V : Type} [BEq K] [LawfulBEq K] {d : Dict K V} {k : K} (h : k ∉ d.keys) :
    d.getItem k = .error .KeyError := by
  simp [Dict.getItem, lookup_none_of_not_mem h]

theorem lookup_overwrite {K V : Type} [BEq K] [LawfulBEq K] (k : K) (v : V) (k' : K) :
    ∀ (d : List (K × V)), k ∈ d.map Prod.fst →
      (d.map (fun kv => if kv.1 == k then (k, v) else kv)).lookup k' = if k' == k then some v else d.lookup k'
  | [], h => by simp at h
  | (k0, v0) :: rest, h => by
    by_cases h0 : k0 = k
    · subst h0
      by_cases hk' : k' = k0
      · subst hk'; simp
      · have hb : (k' == k0) = false := by simpa using hk'
        simp only [List.map_cons, beq_self_eq_true, if_true, List.lookup, hb]
        by_cases hin : k0 ∈ rest.map Prod.fst
        · have := lookup_overwrite k0 v k' rest hin
          simpa [hb] using this
        · -- k0 does not occur in rest: the map is the identity there
          have hid : rest.map (fun kv => if kv.1 == k0 then (k0, v) else kv) = rest := by
            conv_rhs => rw [← List.map_id rest]
            apply List.map_congr_left
            intro kv hkv
            have : kv.1 ≠ k0 := fun hh => hin (hh ▸ List.mem_map.mpr ⟨kv, hkv, rfl⟩)
            have hb2 : (kv.1 == k0) = false := by simpa using this
            simp [hb2]
          rw [hid]; simp
    · have hk0 : (k0 == k) = false := by simpa using h0
      have hin : k ∈ rest.map Prod.fst := by
        simp only [List.map_cons, List.mem_cons] at h
        rcases h with h | h
        · exact absurd h.symm h0
        · exact h
      have ih := lookup_overwrite k v k' rest hin
      simp only [List.map_cons, hk0, Bool.false_eq_true, if_false]
      by_cases hk' : k' = k0
      · subst hk'
        have hb : (k' == k) = false := by simpa using h0
        simp [List.lookup, hb]
      · have hb : (k' == k0) = false := by simpa using hk'
        simp only [List.lookup, hb]
        exact ih

theorem lookup_append_single {K V : Type} [BEq K] [LawfulBEq K] (k : K) (v : V) (k' : K) :
    ∀ (d : List (K × V)), k ∉ d.map Prod.fst →
      (d ++ [(k, v)]).lookup k' = if k' == k then some v else d.lookup k'
  | [], _ => by
    by_cases hk' : k' = k
    · subst hk'; simp
    · have hb : (k' == k) = false := by simpa using hk'
      simp [List.lookup, hb]
  | (k0, v0) :: rest, h => by
    simp only [List.map_cons, List.mem_cons, not_or] at h
    have ih := lookup_append_single k v k' rest h.2
    by_cases hk' : k' = k0
    · subst hk'
      have hb : (k' == k) = false := by simpa using (Ne.symm h.1)
      simp [List.lookup, hb]
    · have hb : (k' == k0) = false := by simpa using hk'
      simp only [List.cons_append, List.lookup, hb]
      exact ih

/-- `d[k] = v` then `d.get(k')` -/
theorem lookup_set {K V : Type} [BEq K] [LawfulBEq K] (d : Dict K V) (k : K) (v : V) (k' : K) :
    (d.set k v).lookup k' = if k' == k then some v else d.lookup k' := by
  unfold Dict.set
  by_cases hc : d.keys.contains k = true
  · simp only [hc, if_true]
    exact lookup_overwrite k v k' d (by simpa [Dict.keys] using hc)
  · simp only [hc, Bool.false_eq_true, if_false]
    exact lookup_append_single k v k' d (by simpa [Dict.keys] using hc)

theorem lookup_foldl_set {K V' : Type} [BEq K] [LawfulBEq K] (k' : K) :
    ∀ (kvs : List (K × V')) (d : Dict K V'),
      (kvs.foldl (fun d kv => d.set kv.1 kv.2) d).lookup k' =
        (match kvs.reverse.lookup k' with | some v => some v | none => d.lookup k')
  | [], d => by simp
  | kv :: rest, d => by
    rw [List.foldl_cons, lookup_foldl_set k' rest (d.set kv.1 kv.2), List.reverse_cons, List.lookup_append,
      lookup_set]
    cases h : rest.reverse.lookup k' with
    | some v => simp
    | none =>
      by_cases hk : k' = kv.1
      · subst hk; simp [List.lookup]
      · have hb : (k' == kv.1) = false := by simpa using hk
        simp [List.lookup, hb]

theorem mem_of_lookup_eq_some {K V' : Type} [BEq K] [LawfulBEq K] :
    ∀ {l : List (K × V')} {k : K} {v : V'}, l.lookup k = some v → (k, v) ∈ l
  | [], _, _, h => by simp [List.lookup] at h
  | (k0, v0) :: rest, k, v, h => by
    by_cases hk : k = k0
    · subst hk
      simp only [List.lookup, beq_self_eq_true] at h
      cases h; simp
    · have hb : (k == k0) = false := by simpa using hk
      simp only [List.lookup, hb] at h
      exact List.mem_cons_of_mem _ (mem_of_lookup_eq_some h)


/-- a key absent from the first part of an association list is looked up in the rest -/
theorem lookup_append_of_not_mem {K V : Type} [BEq K] [LawfulBEq K] (k : K) :
    ∀ (l₁ l₂ : List (K × V)), k ∉ l₁.map Prod.fst → (l₁ ++ l₂).lookup k = l₂.lookup k
  | [], _, _ => rfl
  | (k', v) :: rest, l₂, h => by
    simp only [List.map_cons, List.mem_cons, not_or] at h
    have hne : (k == k') = false := by simpa using h.1
    simp only [List.cons_append, List.lookup_cons, hne]
    exact lookup_append_of_not_mem k rest l₂ h.2

/-- the first entry with the key wins -/
theorem lookup_append_cons_self {K V : Type} [BEq K] [LawfulBEq K] (k : K) (v : V) (l₁ l₂ : List (K × V))
    (h : k ∉ l₁.map Prod.fst) : (l₁ ++ (k, v) :: l₂).lookup k = some v := by
  rw [lookup_append_of_not_mem k l₁ _ h]
  simp

end QV.Cb
