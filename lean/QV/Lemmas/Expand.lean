/-
QV.Lemmas.Expand — the enumeration of `_rotate_basis_state` (`Unitaries.expandStates`: `generate_hilbert_space(size = #rotated)`
written into the rotated sites, in the code's order) lists every state that agrees with the sample off the rotated sites
exactly once; hence the enumerated sums of the fast paths (`rotatePsiInnerProdE`, `rotateRhoProbsE`) equal the filtered
sums over all `2^n` states (`rotatePsiInnerProd`, `rotateRhoProbs`).
-/
import Mathlib.Data.List.Sort
import Mathlib.Data.List.FinRange
import Mathlib.Data.List.Nodup
import Mathlib.Data.Fintype.BigOperators
import Mathlib.Algebra.BigOperators.Group.Finset.Basic
import QV.Model.Unitaries
import QV.Real
import QV.Lemmas.Cplx
import QV.Lemmas.Hilbert

namespace QV
open Finset Unitaries

variable {n : ℕ}

/-- `sites = np.where(basis != "Z")[0]`: the rotated sites in increasing order -/
def rotSites (n : ℕ) (rot : Fin n → Bool) : List (Fin n) := (List.finRange n).filter (fun s => rot s)

/-- position of site `j` in `sites` (number of rotated sites before `j`), as `expandStates` computes it -/
def siteRank (rot : Fin n → Bool) (j : Fin n) : ℕ :=
  ((rotSites n rot).takeWhile (fun t => t.val < j.val)).length

/-- expanded state number `i` -/
def expandAt (rot : Fin n → Bool) (σ : Fin n → Bool) (i : ℕ) : Fin n → Bool := fun j =>
  if rot j then Nat.testBit i ((rotSites n rot).length - 1 - siteRank rot j) else σ j

theorem expandStates_eq_map (rot σ : Fin n → Bool) :
    expandStates n rot σ = (List.range (2 ^ (rotSites n rot).length)).map (expandAt rot σ) := rfl

theorem expandStates_getElem (rot σ : Fin n → Bool) (i : ℕ) (hi : i < (expandStates n rot σ).length) :
    (expandStates n rot σ)[i] = expandAt rot σ i := by
  have key : ∀ (l : List (Fin n → Bool)) (_ : l = (List.range (2 ^ (rotSites n rot).length)).map (expandAt rot σ))
      (hi : i < l.length), l[i] = expandAt rot σ i := by
    intro l h hi
    subst h
    simp
  exact key _ (expandStates_eq_map rot σ) hi

theorem mem_rotSites {rot : Fin n → Bool} {j : Fin n} : j ∈ rotSites n rot ↔ rot j = true := by
  simp [rotSites]

theorem rotSites_pairwise (rot : Fin n → Bool) : (rotSites n rot).Pairwise (· < ·) :=
  ((List.sortedLT_finRange n).pairwise).filter _

theorem rotSites_nodup (rot : Fin n → Bool) : (rotSites n rot).Nodup :=
  (List.nodup_finRange n).filter _

/-- the number of rotated sites -/
theorem rotSites_length (rot : Fin n → Bool) :
    (rotSites n rot).length = (Finset.univ.filter (fun s : Fin n => rot s = true)).card := by
  rw [← List.toFinset_card_of_nodup (rotSites_nodup rot)]
  congr 1
  ext j
  simp [mem_rotSites]

/-- in a strictly increasing list, the elements below the `p`-th one are exactly the first `p` -/
theorem takeWhile_lt_getElem_length (l : List (Fin n)) (hl : l.Pairwise (· < ·)) (p : ℕ) (hp : p < l.length) :
    (l.takeWhile (fun t => t.val < (l[p]).val)).length = p := by
  induction l generalizing p with
  | nil => simp at hp
  | cons a l ih =>
    rw [List.pairwise_cons] at hl
    cases p with
    | zero => simp
    | succ p =>
      have hp' : p < l.length := by simpa using hp
      have ha : a.val < (l[p]).val := hl.1 _ (List.getElem_mem hp')
      simp only [List.getElem_cons_succ, List.takeWhile_cons, ha, decide_true, if_true, List.length_cons]
      rw [ih hl.2 p hp']

/-- the `p`-th rotated site has rank `p` -/
theorem siteRank_getElem (rot : Fin n → Bool) (p : ℕ) (hp : p < (rotSites n rot).length) :
    siteRank rot ((rotSites n rot)[p]) = p :=
  takeWhile_lt_getElem_length _ (rotSites_pairwise rot) p hp

/-- `v[..., sites] = generate_hilbert_space(size=m)`: expanded state `i` restricted to the rotated sites (in order) is
row `i` of the size-`m` Hilbert space -/
theorem expandAt_site (rot σ : Fin n → Bool) (i : ℕ) (p : Fin (rotSites n rot).length) :
    expandAt rot σ i ((rotSites n rot)[p.val]) = rowBits (rotSites n rot).length i p := by
  have hr : rot ((rotSites n rot)[p.val]) = true := mem_rotSites.mp (List.getElem_mem p.isLt)
  simp only [expandAt, hr, if_true, siteRank_getElem rot p.val p.isLt, rowBits, spaceBit]

/-- the non-rotated sites keep the sample's value -/
theorem expandAt_off (rot σ : Fin n → Bool) (i : ℕ) (j : Fin n) (hj : rot j = false) :
    expandAt rot σ i j = σ j := by
  simp [expandAt, hj]

theorem exists_site (rot : Fin n → Bool) (j : Fin n) (hj : rot j = true) :
    ∃ p : Fin (rotSites n rot).length, (rotSites n rot)[p.val] = j := by
  obtain ⟨p, hp, h⟩ := List.getElem_of_mem (mem_rotSites.mpr hj)
  exact ⟨⟨p, hp⟩, h⟩

theorem agreesOff_iff (rot σ τ : Fin n → Bool) :
    agreesOff n rot σ τ = true ↔ ∀ j, rot j = false → τ j = σ j := by
  unfold agreesOff
  rw [List.all_eq_true]
  constructor
  · intro h j hj
    have := h j (List.mem_finRange j)
    simp only [hj, Bool.false_or, beq_iff_eq] at this
    exact this.symm
  · intro h j _
    cases hr : rot j
    · simp [h j hr]
    · simp

/-- **the expanded states are exactly the states agreeing with the sample off the rotated sites** -/
theorem mem_expandStates_iff (rot σ τ : Fin n → Bool) :
    τ ∈ expandStates n rot σ ↔ agreesOff n rot σ τ = true := by
  rw [expandStates_eq_map, agreesOff_iff, List.mem_map]
  constructor
  · rintro ⟨i, _, rfl⟩ j hj
    exact expandAt_off rot σ i j hj
  · intro h
    obtain ⟨k, hk⟩ := (rowBits_bijective (rotSites n rot).length).2 (fun p => τ ((rotSites n rot)[p.val]))
    refine ⟨k.val, List.mem_range.mpr k.isLt, ?_⟩
    funext j
    cases hr : rot j
    · rw [expandAt_off rot σ _ j hr, h j hr]
    · obtain ⟨p, hp⟩ := exists_site rot j hr
      rw [← hp, expandAt_site]
      exact congrFun hk p

/-- **each exactly once** -/
theorem expandStates_nodup (rot σ : Fin n → Bool) : (expandStates n rot σ).Nodup := by
  rw [expandStates_eq_map]
  refine List.Nodup.map_on ?_ List.nodup_range
  intro i hi i' hi' h
  have hi := List.mem_range.mp hi
  have hi' := List.mem_range.mp hi'
  have := rowBits_injective (rotSites n rot).length (a₁ := ⟨i, hi⟩) (a₂ := ⟨i', hi'⟩) (by
    funext p
    show rowBits _ i p = rowBits _ i' p
    rw [← expandAt_site rot σ i p, ← expandAt_site rot σ i' p, h])
  exact congrArg Fin.val this

/-- `2 ** sites.size` of them -/
theorem expandStates_length (rot σ : Fin n → Bool) :
    (expandStates n rot σ).length = 2 ^ (Finset.univ.filter (fun s : Fin n => rot s = true)).card := by
  rw [expandStates_eq_map, List.length_map, List.length_range, rotSites_length]

/-- all `2^n` basis states in the order of `generate_hilbert_space()` -/
def allStates (n : ℕ) : List (Fin n → Bool) := (List.finRange (2 ^ n)).map (fun k => rowBits n k.val)

theorem allStates_nodup (n : ℕ) : (allStates n).Nodup :=
  (List.nodup_finRange _).map (rowBits_injective n)

theorem mem_allStates (τ : Fin n → Bool) : τ ∈ allStates n := by
  obtain ⟨k, hk⟩ := (rowBits_bijective n).2 τ
  exact List.mem_map.mpr ⟨k, List.mem_finRange k, hk⟩

/-- the enumeration is a reordering of the filtered full space -/
theorem expandStates_perm (rot σ : Fin n → Bool) :
    (expandStates n rot σ).Perm ((allStates n).filter (fun τ => agreesOff n rot σ τ)) := by
  rw [List.perm_ext_iff_of_nodup (expandStates_nodup rot σ) ((allStates_nodup n).filter _)]
  intro τ
  simp [mem_expandStates_iff, mem_allStates]

/-! ### sums over the enumeration -/

theorem foldl_add_real {ι : Type*} (l : List ι) (f : ι → ℝ) (a : ℝ) :
    l.foldl (fun acc v => acc + f v) a = a + (l.map f).sum := by
  induction l generalizing a with
  | nil => simp
  | cons x l ih => simp [List.foldl_cons, ih, add_assoc]

theorem foldl_add_C {ι : Type*} (l : List ι) (f : ι → C ℝ) (a : C ℝ) :
    toC (l.foldl (fun acc v => C.add acc (f v)) a) = toC a + (l.map (fun v => toC (f v))).sum := by
  induction l generalizing a with
  | nil => simp
  | cons x l ih => simp [List.foldl_cons, ih, add_assoc]

/-- a sum over the enumeration is the sum over all states restricted to those agreeing off the rotated sites -/
theorem sum_expandStates {M : Type*} [AddCommMonoid M] (rot σ : Fin n → Bool) (g : (Fin n → Bool) → M) :
    ((expandStates n rot σ).map g).sum = ∑ τ : Fin n → Bool, if agreesOff n rot σ τ = true then g τ else 0 := by
  rw [← List.sum_toFinset g (expandStates_nodup rot σ), ← Finset.sum_filter]
  congr 1
  ext τ
  simp [mem_expandStates_iff]

/-- over ℝ the enumerated amplitude equals the filtered one (as real pairs) -/
theorem rotatePsiInnerProdE_eq (us : Fin n → M2 ℝ) (rot : Fin n → Bool) (ψ : (Fin n → Bool) → C ℝ)
    (σ : Fin n → Bool) :
    rotatePsiInnerProdE n us rot ψ σ = rotatePsiInnerProd n us rot ψ σ := by
  apply toC_injective
  unfold rotatePsiInnerProdE rotatePsiInnerProd
  rw [foldl_add_C, toC_zero, zero_add, sum_expandStates, toC_sum]
  rw [← sum_rows n (fun τ => if agreesOff n rot σ τ = true then toC (C.mul (rotCoeff n us rot σ τ) (ψ τ)) else 0)]
  refine Finset.sum_congr rfl (fun k _ => ?_)
  show _ = toC (if agreesOff n rot σ (rowBits n k.val) = true then _ else _)
  by_cases h : agreesOff n rot σ (rowBits n k.val) = true
  · rw [if_pos h, if_pos h]; rfl
  · rw [if_neg h, if_neg h, toC_zero]

/-- over ℝ the enumerated probability equals the filtered one -/
theorem rotateRhoProbsE_eq (us : Fin n → M2 ℝ) (rot : Fin n → Bool)
    (ρ : (Fin n → Bool) → (Fin n → Bool) → C ℝ) (σ : Fin n → Bool) :
    rotateRhoProbsE n us rot ρ σ = rotateRhoProbs n us rot ρ σ := by
  unfold rotateRhoProbsE rotateRhoProbs
  simp only [foldl_add_real, zero_add, sum_expandStates, sumFin_eq]
  rw [← sum_rows n (fun τ1 => if agreesOff n rot σ τ1 = true then
    ∑ τ2, (if agreesOff n rot σ τ2 = true then
      (C.mul (C.mul (rotCoeff n us rot σ τ1) (C.conj (rotCoeff n us rot σ τ2))) (ρ τ1 τ2)).1 else 0) else 0)]
  refine Finset.sum_congr rfl (fun k _ => ?_)
  rw [← sum_rows n (fun τ2 => if agreesOff n rot σ τ2 = true then
      (C.mul (C.mul (rotCoeff n us rot σ (rowBits n k.val)) (C.conj (rotCoeff n us rot σ τ2))) (ρ (rowBits n k.val) τ2)).1 else 0)]
  by_cases h1 : agreesOff n rot σ (rowBits n k.val) = true
  · rw [if_pos h1]
    refine Finset.sum_congr rfl (fun l _ => ?_)
    show _ = if (agreesOff n rot σ (rowBits n k.val) && agreesOff n rot σ (rowBits n l.val)) = true then _ else _
    simp only [h1, Bool.true_and]
    rfl
  · rw [if_neg h1]
    symm
    refine Finset.sum_eq_zero (fun l _ => ?_)
    show (if (agreesOff n rot σ (rowBits n k.val) && agreesOff n rot σ (rowBits n l.val)) = true then _ else _) = _
    simp [h1]

end QV
