/-
QV.Lemmas.Uhlmann — spectral theory of the product of two positive semidefinite matrices, for the mixed-state
fidelity (C10.5).  For `σ, ρ` PSD over `ℂ` and `S = √ρ` (the PSD square root, Mathlib's `CFC.sqrt` for the
C⋆-algebra of matrices with the Loewner order, `open scoped MatrixOrder`):
* `σ ρ = (σ S) S` and `S (σ S)` have the same characteristic polynomial (`Matrix.charpoly_mul_comm`), and
  `M = S σ S` is PSD, so the roots of `charpoly (σ ρ)` are the (real, non-negative) eigenvalues of `M`;
* `tr √M = Σ_i √λ_i(M)` (spectral theorem + the Hermitian functional calculus);
* `2 tr √M ≤ tr σ + tr ρ`: with `T = √σ`, `A = T S U` (`U` the eigenvector unitary of `M`, so `Aᴴ A = D = diag λ`),
  `E = diag (√λ)⁻¹` (0 where `λ = 0`), `W = A E` (a partial isometry: `Wᴴ W = P` a 0/1 diagonal, `W P = W`),
  `X = T W`, `Y = S U`:  `Xᴴ Y = E D = diag √λ`, `tr Yᴴ Y = tr ρ`, `tr Xᴴ X = tr (σ · W Wᴴ) ≤ tr σ` because `W Wᴴ` is a
  Hermitian idempotent, and `2 Re tr Xᴴ Y ≤ tr Xᴴ X + tr Yᴴ Y` because `tr (X − Y)ᴴ (X − Y) ≥ 0`.
-/
import Mathlib.Analysis.Matrix.Order
import QV.Model.Metrics
import QV.Lemmas.Metrics
import QV.Lemmas.MetricsSpectrum

namespace QV
namespace C10L
open Matrix Metrics
open scoped ComplexOrder MatrixOrder

variable {n : Type} [Fintype n] [DecidableEq n]

/-- the PSD square root in the eigenbasis: `√M = U diag(√λ_i) U⋆` -/
theorem psd_sqrt_eq_conj (M : Matrix n n ℂ) (hM : M.PosSemidef) :
    CFC.sqrt M = (hM.1.eigenvectorUnitary : Matrix n n ℂ) *
      diagonal (fun i => ((√(hM.1.eigenvalues i) : ℝ) : ℂ)) * (star hM.1.eigenvectorUnitary : Matrix n n ℂ) := by
  rw [CFC.sqrt_eq_cfc, cfc_nnreal_eq_real _ M, hM.1.cfc_eq]
  simp only [IsHermitian.cfc, Unitary.conjStarAlgAut_apply]
  congr 2
  ext i j
  simp [diagonal, Function.comp_def, max_eq_left (hM.eigenvalues_nonneg i)]

/-- `tr √M = Σ_i √λ_i(M)` for PSD `M` -/
theorem trace_psd_sqrt (M : Matrix n n ℂ) (hM : M.PosSemidef) :
    (CFC.sqrt M).trace = ((∑ i, √(hM.1.eigenvalues i) : ℝ) : ℂ) := by
  rw [psd_sqrt_eq_conj M hM, trace_mul_cycle, Unitary.coe_star_mul_self, one_mul, trace_diagonal]
  push_cast; rfl

/-- `√ρ` is PSD (for every `ρ`; `CFC.sqrt` of a non-PSD matrix is `0`) -/
theorem psd_sqrt_posSemidef (ρ : Matrix n n ℂ) : (CFC.sqrt ρ).PosSemidef := (CFC.sqrt_nonneg ρ).posSemidef

/-- `√ρ √ρ = ρ` for PSD `ρ` -/
theorem psd_sqrt_mul_self (ρ : Matrix n n ℂ) (hρ : ρ.PosSemidef) : CFC.sqrt ρ * CFC.sqrt ρ = ρ :=
  CFC.sqrt_mul_sqrt_self ρ hρ.nonneg

/-- `√ρ σ √ρ` is PSD when `σ` is -/
theorem sandwich_posSemidef (σ ρ : Matrix n n ℂ) (hσ : σ.PosSemidef) :
    (CFC.sqrt ρ * σ * CFC.sqrt ρ).PosSemidef := by
  have h := hσ.conjTranspose_mul_mul_same (CFC.sqrt ρ)
  rwa [(psd_sqrt_posSemidef ρ).1.eq] at h

/-- `σ ρ` and `√ρ σ √ρ` have the same characteristic polynomial -/
theorem charpoly_mul_eq_sandwich (σ ρ : Matrix n n ℂ) (hρ : ρ.PosSemidef) :
    (σ * ρ).charpoly = (CFC.sqrt ρ * σ * CFC.sqrt ρ).charpoly := by
  conv_lhs => rw [← psd_sqrt_mul_self ρ hρ, ← mul_assoc, charpoly_mul_comm, ← mul_assoc]

/-- the roots (with multiplicity) of `charpoly (σ ρ)` are the eigenvalues of the PSD matrix `√ρ σ √ρ` -/
theorem roots_charpoly_mul (σ ρ : Matrix n n ℂ) (hσ : σ.PosSemidef) (hρ : ρ.PosSemidef) :
    (σ * ρ).charpoly.roots = Multiset.map (fun i => (((sandwich_posSemidef σ ρ hσ).1.eigenvalues i : ℝ) : ℂ)) Finset.univ.val := by
  rw [charpoly_mul_eq_sandwich σ ρ hρ, (sandwich_posSemidef σ ρ hσ).1.roots_charpoly_eq_eigenvalues]
  rfl

omit [DecidableEq n] in
/-- `2 Re tr XᴴY ≤ tr XᴴX + tr YᴴY` (from `tr (X−Y)ᴴ(X−Y) ≥ 0`) -/
theorem trace_re_mul_le (X Y : Matrix n n ℂ) :
    2 * (Xᴴ * Y).trace.re ≤ (Xᴴ * X).trace.re + (Yᴴ * Y).trace.re := by
  have h := (posSemidef_conjTranspose_mul_self (X - Y)).trace_nonneg
  have h2 : ((X - Y)ᴴ * (X - Y)).trace
      = (Xᴴ * X).trace - (Xᴴ * Y).trace - (Yᴴ * X).trace + (Yᴴ * Y).trace := by
    simp only [conjTranspose_sub, Matrix.sub_mul, Matrix.mul_sub, trace_sub]; ring
  have h3 : (Yᴴ * X).trace = star (Xᴴ * Y).trace := by
    rw [← trace_conjTranspose, conjTranspose_mul, conjTranspose_conjTranspose]
  have h4 := (Complex.le_def.mp h).1
  rw [h2, h3] at h4
  simp at h4
  linarith

/-- `Re tr (σ Q) ≤ Re tr σ` for PSD `σ` and a Hermitian idempotent `Q` (`tr (1−Q) σ (1−Q) ≥ 0`) -/
theorem trace_mul_proj_le (σ Q : Matrix n n ℂ) (hσ : σ.PosSemidef) (hQ : Qᴴ = Q) (hQQ : Q * Q = Q) :
    (σ * Q).trace.re ≤ σ.trace.re := by
  have hR : (1 - Q)ᴴ = 1 - Q := by rw [conjTranspose_sub, conjTranspose_one, hQ]
  have hRR : (1 - Q) * (1 - Q) = 1 - Q := by
    rw [Matrix.sub_mul, Matrix.mul_sub, Matrix.mul_sub]; simp [hQQ]
  have h := (hσ.conjTranspose_mul_mul_same (1 - Q)).trace_nonneg
  rw [hR, Matrix.mul_assoc, trace_mul_comm, Matrix.mul_assoc, hRR, Matrix.mul_sub, Matrix.mul_one, trace_sub] at h
  have := (Complex.le_def.mp h).1
  simp at this; linarith

/-- trace-norm bound `2 Σ √λ_i(S T T S) ≤ tr TT + tr SS` for Hermitian `T, S` (see the file header) -/
theorem sum_sqrt_eigenvalues_le_aux (T S M : Matrix n n ℂ) (hT : Tᴴ = T) (hS : Sᴴ = S)
    (hM : M.PosSemidef) (hMeq : M = S * (T * T) * S) :
    2 * ∑ i, √(hM.1.eigenvalues i) ≤ (T * T).trace.re + (S * S).trace.re := by
  have hσ : (T * T).PosSemidef := by
    have := posSemidef_conjTranspose_mul_self T
    rwa [hT] at this
  set Um : Matrix n n ℂ := (hM.1.eigenvectorUnitary : Matrix n n ℂ) with hUm
  set Us : Matrix n n ℂ := (star hM.1.eigenvectorUnitary : Matrix n n ℂ) with hUs
  have hUh : Umᴴ = Us := by rw [hUs, hUm, ← star_eq_conjTranspose]
  have h1 : Us * Um = 1 := Unitary.coe_star_mul_self _
  have h2 : Um * Us = 1 := Unitary.coe_mul_star_self _
  set ev := hM.1.eigenvalues with hev
  have hnn : ∀ i, 0 ≤ ev i := hM.eigenvalues_nonneg
  set D : Matrix n n ℂ := diagonal (fun i => ((ev i : ℝ) : ℂ)) with hDdef
  set E : Matrix n n ℂ := diagonal (fun i => (((√(ev i))⁻¹ : ℝ) : ℂ)) with hEdef
  set R : Matrix n n ℂ := diagonal (fun i => ((√(ev i) : ℝ) : ℂ)) with hRdef
  set P : Matrix n n ℂ := diagonal (fun i => ((√(ev i) * (√(ev i))⁻¹ : ℝ) : ℂ)) with hPdef
  have hsp : M = Um * D * Us := by
    conv_lhs => rw [hM.1.spectral_theorem]
    rw [Unitary.conjStarAlgAut_apply]; rfl
  have hD : Us * M * Um = D := by
    rw [hsp]
    calc Us * (Um * D * Us) * Um = (Us * Um) * D * (Us * Um) := by simp only [Matrix.mul_assoc]
      _ = D := by rw [h1, Matrix.one_mul, Matrix.mul_one]
  have hED : E * D = R := by
    rw [hEdef, hDdef, hRdef, diagonal_mul_diagonal]
    congr 1; funext i
    rw [← Complex.ofReal_mul]; congr 1
    by_cases h0 : √(ev i) = 0
    · have : ev i = 0 := (Real.sqrt_eq_zero (hnn i)).mp h0
      simp [this]
    · rw [inv_mul_eq_div, div_eq_iff h0, Real.mul_self_sqrt (hnn i)]
  have hRE : R * E = P := by
    rw [hEdef, hRdef, hPdef, diagonal_mul_diagonal]
    congr 1; funext i
    rw [← Complex.ofReal_mul]
  have hEP : E * P = E := by
    rw [hEdef, hPdef, diagonal_mul_diagonal]
    congr 1; funext i
    rw [← Complex.ofReal_mul]; congr 1
    by_cases h0 : √(ev i) = 0
    · simp [h0]
    · field_simp
  have hEh : Eᴴ = E := by
    rw [hEdef, diagonal_conjTranspose]
    congr 1; funext i
    simp
  set A : Matrix n n ℂ := T * S * Um with hAdef
  have hAh : Aᴴ = Us * S * T := by
    rw [hAdef, conjTranspose_mul, conjTranspose_mul, hT, hS, hUh, Matrix.mul_assoc]
  have hAA : Aᴴ * A = D := by
    rw [hAh, hAdef, ← hD, hMeq]; simp only [Matrix.mul_assoc]
  set W : Matrix n n ℂ := A * E with hWdef
  have hWh : Wᴴ = E * Aᴴ := by rw [hWdef, conjTranspose_mul, hEh]
  have hWW : Wᴴ * W = P := by
    rw [hWh, hWdef]
    calc E * Aᴴ * (A * E) = E * (Aᴴ * A) * E := by simp only [Matrix.mul_assoc]
      _ = P := by rw [hAA, hED, hRE]
  have hWP : W * P = W := by rw [hWdef, Matrix.mul_assoc, hEP]
  have hQ : (W * Wᴴ)ᴴ = W * Wᴴ := by rw [conjTranspose_mul, conjTranspose_conjTranspose]
  have hQQ : (W * Wᴴ) * (W * Wᴴ) = W * Wᴴ := by
    calc (W * Wᴴ) * (W * Wᴴ) = W * (Wᴴ * W) * Wᴴ := by simp only [Matrix.mul_assoc]
      _ = W * Wᴴ := by rw [hWW, hWP]
  have hXY : (T * W)ᴴ * (S * Um) = R := by
    rw [conjTranspose_mul, hT, hWh]
    calc E * Aᴴ * T * (S * Um) = E * (Aᴴ * (T * S * Um)) := by simp only [Matrix.mul_assoc]
      _ = R := by rw [← hAdef, hAA, hED]
  have hYY : ((S * Um)ᴴ * (S * Um)).trace = (S * S).trace := by
    rw [conjTranspose_mul, hS, hUh, Matrix.mul_assoc, trace_mul_comm]
    calc (S * (S * Um) * Us).trace = (S * S * (Um * Us)).trace := by simp only [Matrix.mul_assoc]
      _ = (S * S).trace := by rw [h2, Matrix.mul_one]
  have hXX : ((T * W)ᴴ * (T * W)).trace = (T * T * (W * Wᴴ)).trace := by
    rw [conjTranspose_mul, hT, Matrix.mul_assoc, trace_mul_comm]
    simp only [Matrix.mul_assoc]
  have hRt : R.trace.re = ∑ i, √(ev i) := by
    rw [hRdef, trace_diagonal, Complex.re_sum]; simp
  have key := trace_re_mul_le (T * W) (S * Um)
  rw [hXY, hYY, hXX, hRt] at key
  have := trace_mul_proj_le (T * T) (W * Wᴴ) hσ hQ hQQ
  linarith

/-- `2 Σ_i √λ_i(√ρ σ √ρ) ≤ tr σ + tr ρ` for PSD `σ, ρ` -/
theorem sum_sqrt_eigenvalues_le (σ ρ : Matrix n n ℂ) (hσ : σ.PosSemidef) (hρ : ρ.PosSemidef) :
    2 * ∑ i, √((sandwich_posSemidef σ ρ hσ).1.eigenvalues i) ≤ σ.trace.re + ρ.trace.re := by
  have h := sum_sqrt_eigenvalues_le_aux (CFC.sqrt σ) (CFC.sqrt ρ) _ (psd_sqrt_posSemidef σ).1.eq
    (psd_sqrt_posSemidef ρ).1.eq (sandwich_posSemidef σ ρ hσ) (by rw [psd_sqrt_mul_self σ hσ])
  rwa [psd_sqrt_mul_self σ hσ, psd_sqrt_mul_self ρ hρ] at h

/-- the code's value `(Σ √|Re λ|)²` over the charpoly roots of `σ ρ` is `(Σ_i √λ_i(√ρ σ √ρ))²` -/
theorem fidelityMixed_eq_sum (σ ρ : Matrix n n ℂ) (hσ : σ.PosSemidef) (hρ : ρ.PosSemidef)
    (eig : List (C ℝ)) (heig : ((eig.map toC : List ℂ) : Multiset ℂ) = (σ * ρ).charpoly.roots) :
    fidelityMixed eig = (∑ i, √((sandwich_posSemidef σ ρ hσ).1.eigenvalues i)) ^ 2 := by
  have hM := sandwich_posSemidef σ ρ hσ
  have hval : fidelityMixed eig = ((eig.map (fun l => √|l.1|)).sum) ^ 2 := by
    simp only [fidelityMixed, sumList_eq, transc_sqrt, transc_abs]; ring
  rw [hval]
  have h1 : ((eig.map (fun l => √|l.1|) : List ℝ) : Multiset ℝ)
      = Multiset.map (fun z : ℂ => √|z.re|) ((eig.map toC : List ℂ) : Multiset ℂ) := by
    simp [Function.comp_def]
  congr 1
  rw [← Multiset.sum_coe, h1, heig, roots_charpoly_mul σ ρ hσ hρ, Multiset.map_map,
    Finset.sum_eq_multiset_sum]
  congr 1
  refine Multiset.map_congr rfl (fun i _ => ?_)
  simp only [Function.comp, Complex.ofReal_re]
  rw [abs_of_nonneg (hM.eigenvalues_nonneg i)]

/-- the characteristic-polynomial roots of a diagonal matrix are its diagonal entries (used by the non-vacuity
example of `C10_fid_mixed_uhlmann`) -/
theorem roots_charpoly_diagonal (d : n → ℂ) :
    (diagonal d).charpoly.roots = Multiset.map d Finset.univ.val := by
  rw [charpoly_diagonal, Polynomial.roots_prod]
  · simp
  · exact Finset.prod_ne_zero_iff.mpr (fun i _ => Polynomial.X_sub_C_ne_zero _)

end C10L
end QV
