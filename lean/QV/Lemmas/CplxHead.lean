/-
QV.Lemmas.CplxHead — the scalar kernel of `cplx.py` AS CODED AT /repo HEAD (`C.invH`, `C.divH`, `C.sdivH`, `C.absH`,
`C.csigmoidH` = `Cplx.sigC`: operand scaling, hypot, overflow-free sigmoid; fix F17, commit 7038bfb) equals, over ℝ, the
textbook formulas (`C.inv`, `C.div`, `√normSq`, `Grads.csigmoid`) the gradient theorems were first written for.
The property-level statements are `C15_invH_eq`, … in `QV/Props/C15.lean`; `toC_invH` / `toC_csigmoidH` are the forms the
C03 derivative lemmas (`QV.Lemmas.CplxGrad`, `QV.Lemmas.DMGrad`) rewrite with.
-/
import QV.Lemmas.CplxTensor
import QV.Lemmas.Cplx
import QV.Model.Grads

namespace QV
open Cplx (dec)

/-- the two decodings of a real pair (C15's `dec`, C03's `toC`) are the same function -/
theorem dec_eq_toC : (Cplx.dec : C ℝ → ℂ) = toC := rfl

theorem C.ne_zero_iff (z : C ℝ) : z ≠ (0, 0) ↔ toC z ≠ 0 := by
  rw [← dec_eq_toC, Ne, Ne, Cplx.dec_eq_zero]

/-- HEAD's scaled inverse decodes to the complex inverse (for `z = 0` both sides are `0` over ℝ) -/
theorem toC_invH (z : C ℝ) (hz : toC z ≠ 0) : toC (C.invH z) = (toC z)⁻¹ := by
  have h := Cplx.dec_inv_scaled z (max |z.1| |z.2|) (ne_of_gt (Cplx.cscale_pos hz))
  exact h

/-- HEAD's `inverse` is the textbook `conj z / |z|²` away from `0` -/
theorem C.invH_eq (z : C ℝ) (hz : z ≠ (0, 0)) : C.invH z = C.inv z := by
  have hz' := (C.ne_zero_iff z).1 hz
  apply toC_injective
  rw [toC_invH z hz', toC_inv z hz']

/-- at `0` the two formulas also agree over ℝ (`x / 0 = 0`), so the equality is unconditional there; the CODE yields
`nan` at `0` in both forms, which is why the property-level theorem carries the guard. -/
theorem C.invH_zero : C.invH ((0, 0) : C ℝ) = C.inv (0, 0) := by
  simp [C.invH, C.inv, C.scaleH, C.conj, C.mul, C.normSq]

/-- HEAD's `elementwise_division` decodes to the complex quotient -/
theorem toC_divH (x y : C ℝ) (hy : toC y ≠ 0) : toC (C.divH x y) = toC x / toC y := by
  have h := Cplx.dec_div_scaled x y (max |y.1| |y.2|) (ne_of_gt (Cplx.cscale_pos hy)) hy
  exact h

theorem C.divH_eq (x y : C ℝ) (hy : y ≠ (0, 0)) : C.divH x y = C.div x y := by
  have hy' := (C.ne_zero_iff y).1 hy
  apply toC_injective
  rw [toC_divH x y hy', toC_div x y hy']

/-- HEAD's `scalar_divide` (`x · inverse(y)`) -/
theorem toC_sdivH (x y : C ℝ) (hy : toC y ≠ 0) : toC (C.sdivH x y) = toC x / toC y := by
  unfold C.sdivH
  rw [toC_mul, toC_invH y hy, div_eq_mul_inv]

theorem C.sdivH_eq (x y : C ℝ) (hy : y ≠ (0, 0)) : C.sdivH x y = C.div x y := by
  have hy' := (C.ne_zero_iff y).1 hy
  apply toC_injective
  rw [toC_sdivH x y hy', toC_div x y hy']

/-- HEAD's `absolute_value` (hypot) is `√|z|²`, everywhere -/
theorem C.absH_eq (z : C ℝ) : C.absH z = Real.sqrt (C.normSq z) := Cplx.hypot_eq z.1 z.2

theorem C.absH_eq_norm (z : C ℝ) : C.absH z = ‖toC z‖ := Cplx.hypot_eq_norm z

/-- in the right half plane `1 + e^z ≠ 0` (`|e^z| = e^x > 1`) -/
theorem one_add_exp_ne_zero_of_pos {z : ℂ} (h : 0 < z.re) : 1 + Complex.exp z ≠ 0 := by
  intro h0
  have h1 : Complex.exp z = -1 := eq_neg_of_add_eq_zero_right h0
  have h2 : ‖Complex.exp z‖ = 1 := by rw [h1]; simp
  rw [Complex.norm_exp, Real.exp_eq_one_iff] at h2
  linarith

/-- the textbook logistic function decodes to `e^z / (1 + e^z)` wherever that is defined -/
theorem dec_csigmoid (x y : ℝ) (h : 1 + Complex.exp (dec (x, y)) ≠ 0) :
    dec (Grads.csigmoid x y) = Complex.exp (dec (x, y)) / (1 + Complex.exp (dec (x, y))) := by
  have hc : Grads.csigmoid x y = C.div (Cplx.expC (x, y)) (C.add C.one (Cplx.expC (x, y))) := rfl
  have h1 : dec (C.one : C ℝ) = 1 := by apply Complex.ext <;> simp [C.one]
  have hden : dec (C.add C.one (Cplx.expC (x, y))) = 1 + Complex.exp (dec (x, y)) := by
    rw [Cplx.dec_add, h1, Cplx.dec_expC]
  rw [hc, Cplx.dec_div _ _ (by rw [hden]; exact h), hden, Cplx.dec_expC]

/-- **HEAD's overflow-free sigmoid is the textbook `e^z / (1 + e^z)` for EVERY argument** (also at the poles
`z = i(2k+1)π`, where both model formulas are the same expression: the left-half-plane branch). -/
theorem sigC_eq_csigmoid (x y : ℝ) : Cplx.sigC (x, y) = Grads.csigmoid x y := by
  by_cases hx : 0 < x
  · have hne : 1 + Complex.exp (dec (x, y)) ≠ 0 := one_add_exp_ne_zero_of_pos (by simpa using hx)
    apply Cplx.dec_injective
    rw [Cplx.dec_sigC _ hne, dec_csigmoid x y hne]
  · unfold Cplx.sigC Grads.csigmoid Cplx.expC C.add C.one
    simp only [if_neg hx, zero_add]

theorem C.csigmoidH_eq (x y : ℝ) : C.csigmoidH x y = Grads.csigmoid x y := sigC_eq_csigmoid x y

end QV
