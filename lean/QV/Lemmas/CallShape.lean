/-
QV.Lemmas.CallShape — helper lemmas for the call-form theorems of C01 / C02 / C05: torch broadcasting of the
small leading shapes that occur (`[]`, `[B]`, `[B,1]`, `[1,B']`), the index each operand reads, and the decorator
`auto_unsqueeze_args` on 1-D / 2-D arguments.
-/
import QV.Model.CallShape
import QV.Model.Density

namespace QV
open Cplx

theorem bdim_self (B : Nat) : bdim B B = some B := by simp [bdim]
theorem bdim_one_right (B : Nat) : bdim B 1 = some B := by
  unfold bdim; repeat' split <;> simp_all
theorem bdim_one_left (B : Nat) : bdim 1 B = some B := by
  unfold bdim; repeat' split <;> simp_all

theorem bs_nil_nil : broadcastShape [] [] = .ok [] := by simp [broadcastShape, padL, bshapeEq]
theorem bs_nil_one (B : Nat) : broadcastShape [] [B] = .ok [B] := by
  simp [broadcastShape, padL, bshapeEq, bdim_one_left]
theorem bs_one_nil (B : Nat) : broadcastShape [B] [] = .ok [B] := by
  simp [broadcastShape, padL, bshapeEq, bdim_one_right]
theorem bs_same (s : List Nat) : broadcastShape s s = .ok s := by
  have h : ∀ s : List Nat, bshapeEq s s = some s := by
    intro s; induction s with
    | nil => simp [bshapeEq]
    | cons d s ih => simp [bshapeEq, bdim_self, ih]
  simp [broadcastShape, padL, h]
theorem bs_col_row (B B' : Nat) : broadcastShape [B, 1] [1, B'] = .ok [B, B'] := by
  simp [broadcastShape, padL, bshapeEq, bdim_one_left, bdim_one_right]
theorem bs_col_one (B : Nat) : broadcastShape [B, 1] [1] = .ok [B, 1] := by
  simp [broadcastShape, padL, bshapeEq, bdim_one_right]
theorem bs_nil_two (B B' : Nat) : broadcastShape [] [B, B'] = .ok [B, B'] := by
  simp [broadcastShape, padL, bshapeEq, bdim_one_left]
theorem bs_two_nil (B B' : Nat) : broadcastShape [B, B'] [] = .ok [B, B'] := by
  simp [broadcastShape, padL, bshapeEq, bdim_one_right]
/-- two 1-axis shapes broadcast iff equal or one of them is 1 -/
theorem bs_one_one (B B' : Nat) :
    broadcastShape [B] [B'] = (match bdim B B' with | some d => .ok [d] | none => .error .RuntimeError) := by
  rcases hb : bdim B B' with _ | d <;> simp [broadcastShape, padL, bshapeEq, hb]

/-- the row a size-`B` axis reads for result position `i < B` (position 0 when the axis is being expanded) -/
theorem bsel_lt {B i : Nat} (hi : i < B) : (if B = 1 then 0 else i) = i := by
  split
  · omega
  · rfl


theorem Density.pairedBatch_eq_bdim (B B' : Nat) :
    Density.pairedBatch B B' = (match bdim B B' with | some d => .ok d | none => .error .RuntimeError) := by
  unfold Density.pairedBatch bdim
  by_cases h1 : B = B'
  · simp [h1]
  · by_cases h2 : B = 1
    · subst h2
      have : ¬ (1 = B') := h1
      simp [this]
    · by_cases h3 : B' = 1 <;> simp [h1, h2, h3]

set_option linter.unusedSimpArgs false
set_option linter.unusedSectionVars false

/-- unfold a call-form model down to the broadcast of its leading shapes -/
macro "callform_unfold" : tactic => `(tactic|
  simp [Density.rhoCall, Density.piCall, PRBM.gammaCall, FT.ofRows, FT.scalar, FT.map, FT.unsqueeze, FT.unsqueezeIf,
    FT.bzip, bs_col_row, bs_same, bs_nil_nil, bs_nil_one, bs_one_nil, bs_col_one, bs_nil_two, bs_two_nil, Except.map, bidx])

variable {α : Type} [Add α] [Mul α] [Neg α] [Sub α] [Div α] [Zero α] [One α] [Transc α]
variable {n h a : Nat}

/-! ### `PurificationRBM.gamma` by rank combination -/
namespace PRBM

theorem gammaCall_vec_vec (r : PRBM α n h a) (sgn : α) (v vp : Fin n → α) (e : Bool) :
    r.gammaCall sgn (.scalar v) (.scalar vp) e = .ok (.scalar (r.gammaVec sgn v vp)) := by
  simp [PRBM.gammaCall, FT.scalar]

theorem gammaCall_matrix (r : PRBM α n h a) (sgn : α) (B B' : Nat) (vs vps : Nat → Fin n → α) :
    ∃ o, r.gammaCall sgn (.ofRows B vs) (.ofRows B' vps) true = .ok o ∧ o.shape = [B, B'] ∧
      ∀ i j, i < B → j < B' → o.get [i, j] = r.gamma sgn (vs i) (vps j) := by
  callform_unfold
  intro i j hi hj
  simp [bsel_lt hi, bsel_lt hj, PRBM.gamma]

theorem gammaCall_paired (r : PRBM α n h a) (sgn : α) (B B' : Nat) (vs vps : Nat → Fin n → α) :
    match Density.pairedBatch B B' with
    | .ok C => ∃ o, r.gammaCall sgn (.ofRows B vs) (.ofRows B' vps) false = .ok o ∧ o.shape = [C] ∧
        ∀ i, i < C → o.get [i] = r.gamma sgn (vs (if B = 1 then 0 else i)) (vps (if B' = 1 then 0 else i))
    | .error _ => ∃ e, r.gammaCall sgn (.ofRows B vs) (.ofRows B' vps) false = .error e := by
  rw [Density.pairedBatch_eq_bdim]
  rcases hb : bdim B B' with _ | d
  · callform_unfold; simp [bs_one_one, hb]
  · callform_unfold; simp [bs_one_one, hb, PRBM.gamma]

theorem gammaCall_vec_batch_expand (r : PRBM α n h a) (sgn : α) (v : Fin n → α) (B' : Nat) (vps : Nat → Fin n → α) :
    r.gammaCall sgn (.scalar v) (.ofRows B' vps) true = .error .IndexError := by
  callform_unfold

theorem gammaCall_vec_batch (r : PRBM α n h a) (sgn : α) (v : Fin n → α) (B' : Nat) (vps : Nat → Fin n → α) :
    ∃ o, r.gammaCall sgn (.scalar v) (.ofRows B' vps) false = .ok o ∧ o.shape = [B'] ∧
      ∀ j, j < B' → o.get [j] = r.gamma sgn v (vps j) := by
  callform_unfold
  intro j hj
  simp [bsel_lt hj, PRBM.gamma]

theorem gammaCall_batch_vec_expand (r : PRBM α n h a) (sgn : α) (B : Nat) (vs : Nat → Fin n → α) (vp : Fin n → α) :
    ∃ o, r.gammaCall sgn (.ofRows B vs) (.scalar vp) true = .ok o ∧ o.shape = [B, 1] ∧
      ∀ i, i < B → o.get [i, 0] = r.gamma sgn (vs i) vp := by
  callform_unfold
  intro i hi
  simp [bsel_lt hi, PRBM.gamma]

theorem gammaCall_batch_vec (r : PRBM α n h a) (sgn : α) (B : Nat) (vs : Nat → Fin n → α) (vp : Fin n → α) :
    ∃ o, r.gammaCall sgn (.ofRows B vs) (.scalar vp) false = .ok o ∧ o.shape = [B] ∧
      ∀ i, i < B → o.get [i] = r.gamma sgn (vs i) vp := by
  callform_unfold
  intro i hi
  simp [bsel_lt hi, PRBM.gamma]

end PRBM

namespace Density

/-! ### `DensityMatrix.pi` by rank combination -/

theorem piCall_vec_vec (am ph : PRBM α n h a) (v vp : Fin n → α) (e : Bool) :
    ∃ o, piCall am ph (.scalar v) (.scalar vp) e = .ok o ∧ o.shape = [] ∧ o.get [] = pi am ph v vp := by
  cases e <;> callform_unfold <;> simp [Density.pi, piArgRe, piArgIm]

theorem piCall_matrix (am ph : PRBM α n h a) (B B' : Nat) (vs vps : Nat → Fin n → α) :
    ∃ o, piCall am ph (.ofRows B vs) (.ofRows B' vps) true = .ok o ∧ o.shape = [B, B'] ∧
      ∀ i j, i < B → j < B' → o.get [i, j] = pi am ph (vs i) (vps j) := by
  callform_unfold
  intro i j hi hj
  simp [bsel_lt hi, bsel_lt hj, Density.pi, piArgRe, piArgIm]

theorem piCall_paired (am ph : PRBM α n h a) (B B' : Nat) (vs vps : Nat → Fin n → α) :
    match pairedBatch B B' with
    | .ok C => ∃ o, piCall am ph (.ofRows B vs) (.ofRows B' vps) false = .ok o ∧ o.shape = [C] ∧
        ∀ i, i < C → o.get [i] = pi am ph (vs (if B = 1 then 0 else i)) (vps (if B' = 1 then 0 else i))
    | .error _ => ∃ e, piCall am ph (.ofRows B vs) (.ofRows B' vps) false = .error e := by
  rw [pairedBatch_eq_bdim]
  rcases hb : bdim B B' with _ | d
  · callform_unfold; simp [bs_one_one, hb]
  · callform_unfold; simp [bs_one_one, hb, bs_same, Density.pi, piArgRe, piArgIm]
    intro i hi; simp [bsel_lt hi]

/-- `pi` itself ACCEPTS a 1-D `v` against a batch with `expand=True` (shape `(1, B')`): the refusal of `rho` in that form comes
from `gamma` (`gammaCall_vec_batch_expand`) -/
theorem piCall_vec_batch_expand (am ph : PRBM α n h a) (v : Fin n → α) (B' : Nat) (vps : Nat → Fin n → α) :
    ∃ o, piCall am ph (.scalar v) (.ofRows B' vps) true = .ok o ∧ o.shape = [1, B'] ∧
      ∀ j, j < B' → o.get [0, j] = pi am ph v (vps j) := by
  callform_unfold
  intro j hj
  simp [bsel_lt hj, Density.pi, piArgRe, piArgIm]

/-! ### `DensityMatrix.rho` by rank combination -/

theorem rhoCall_diag (am ph : PRBM α n h a) (v : FT (Fin n → α)) :
    rhoCall am ph v none false = .ok (v.map (rhoDiag am)) := by
  simp [rhoCall]

theorem rhoCall_vec_vec (am ph : PRBM α n h a) (v vp : Fin n → α) (e : Bool) :
    ∃ o, rhoCall am ph (.scalar v) (some (.scalar vp)) e = .ok o ∧ o.shape = [] ∧ o.get [] = rhoVec am ph v vp := by
  cases e <;> callform_unfold <;> simp [Density.rhoVec, Density.pi, piArgRe, piArgIm]

theorem rhoCall_vec_none (am ph : PRBM α n h a) (v : Fin n → α) :
    ∃ o, rhoCall am ph (.scalar v) none true = .ok o ∧ o.shape = [] ∧ o.get [] = rhoVec am ph v v := by
  callform_unfold; simp [Density.rhoVec, Density.pi, piArgRe, piArgIm]

theorem rhoCall_matrix (am ph : PRBM α n h a) (B B' : Nat) (vs vps : Nat → Fin n → α) :
    ∃ o, rhoCall am ph (.ofRows B vs) (some (.ofRows B' vps)) true = .ok o ∧ o.shape = [B, B'] ∧
      ∀ i j, i < B → j < B' → o.get [i, j] = rho am ph (vs i) (vps j) := by
  callform_unfold
  intro i j hi hj
  simp [bsel_lt hi, bsel_lt hj, Density.rho, Density.pi, PRBM.gamma, piArgRe, piArgIm]

theorem rhoCall_matrix_none (am ph : PRBM α n h a) (B : Nat) (vs : Nat → Fin n → α) :
    ∃ o, rhoCall am ph (.ofRows B vs) none true = .ok o ∧ o.shape = [B, B] ∧
      ∀ i j, i < B → j < B → o.get [i, j] = rho am ph (vs i) (vs j) := by
  callform_unfold
  intro i j hi hj
  simp [bsel_lt hi, bsel_lt hj, Density.rho, Density.pi, PRBM.gamma, piArgRe, piArgIm]

theorem rhoCall_paired (am ph : PRBM α n h a) (B B' : Nat) (vs vps : Nat → Fin n → α) :
    match pairedBatch B B' with
    | .ok C => ∃ o, rhoCall am ph (.ofRows B vs) (some (.ofRows B' vps)) false = .ok o ∧ o.shape = [C] ∧
        ∀ i, i < C → o.get [i] = rho am ph (vs (if B = 1 then 0 else i)) (vps (if B' = 1 then 0 else i))
    | .error _ => ∃ e, rhoCall am ph (.ofRows B vs) (some (.ofRows B' vps)) false = .error e := by
  rw [pairedBatch_eq_bdim]
  rcases hb : bdim B B' with _ | d
  · callform_unfold; simp [bs_one_one, hb]
  · callform_unfold; simp [bs_one_one, hb, bs_same, Density.rho, Density.pi, PRBM.gamma, piArgRe, piArgIm]
    intro i hi; simp [bsel_lt hi]

theorem rhoCall_vec_batch_expand (am ph : PRBM α n h a) (v : Fin n → α) (B' : Nat) (vps : Nat → Fin n → α) :
    ∃ e, rhoCall am ph (.scalar v) (some (.ofRows B' vps)) true = .error e := by
  callform_unfold

theorem rhoCall_vec_batch (am ph : PRBM α n h a) (v : Fin n → α) (B' : Nat) (vps : Nat → Fin n → α) :
    ∃ o, rhoCall am ph (.scalar v) (some (.ofRows B' vps)) false = .ok o ∧ o.shape = [B'] ∧
      ∀ j, j < B' → o.get [j] = rho am ph v (vps j) := by
  callform_unfold
  intro j hj
  simp [bsel_lt hj, Density.rho, Density.pi, PRBM.gamma, piArgRe, piArgIm]

theorem rhoCall_batch_vec_expand (am ph : PRBM α n h a) (B : Nat) (vs : Nat → Fin n → α) (vp : Fin n → α) :
    ∃ o, rhoCall am ph (.ofRows B vs) (some (.scalar vp)) true = .ok o ∧ o.shape = [B, 1] ∧
      ∀ i, i < B → o.get [i, 0] = rho am ph (vs i) vp := by
  callform_unfold
  intro i hi
  simp [bsel_lt hi, Density.rho, Density.pi, PRBM.gamma, piArgRe, piArgIm]

theorem rhoCall_batch_vec (am ph : PRBM α n h a) (B : Nat) (vs : Nat → Fin n → α) (vp : Fin n → α) :
    ∃ o, rhoCall am ph (.ofRows B vs) (some (.scalar vp)) false = .ok o ∧ o.shape = [B] ∧
      ∀ i, i < B → o.get [i] = rho am ph (vs i) vp := by
  callform_unfold
  intro i hi
  simp [bsel_lt hi, Density.rho, Density.pi, PRBM.gamma, piArgRe, piArgIm]

end Density

/-! ### the decorator `auto_unsqueeze_args` -/

/-- the multi-index `idx` lies inside the shape `s` (same length, every coordinate below its axis length) -/
def InRange : List Nat → List Nat → Prop
  | [], [] => True
  | i :: idx, d :: s => i < d ∧ InRange idx s
  | _, _ => False

theorem InRange.length_eq : ∀ {idx s : List Nat}, InRange idx s → idx.length = s.length
  | [], [], _ => rfl
  | _ :: _, _ :: _, h => by simp [InRange.length_eq h.2]
  | [], _ :: _, h => h.elim
  | _ :: _, [], h => h.elim

/-- a multi-index inside a shape reads itself under broadcasting to that shape -/
theorem bidx_inrange {s idx : List Nat} (hin : InRange idx s) : bidx s idx = idx := by
  have hl : idx.length = s.length := hin.length_eq
  unfold bidx
  rw [hl, Nat.sub_self, List.drop_zero]
  induction idx generalizing s with
  | nil => cases s <;> simp_all
  | cons i idx ih =>
    cases s with
    | nil => exact hin.elim
    | cons d s =>
      rw [List.zipWith_cons_cons, ih hin.2 (by simpa using hl), bsel_lt hin.1]

/-- SPECIFICATION of "vector and batched call forms" for a method `f` whose value on one state is `core`:
the 1-D form returns a 0-dim tensor holding `core v`; on a tensor with leading axes (a `(B, n)` batch, a rank-3 batch, …) the
result has exactly the leading shape of the argument and entry `idx` is `core` of row `idx`. -/
def CallFormsAgree {n : Nat} {β : Type} (f : FT (Fin n → α) → Except PyErr (FT β)) (core : (Fin n → α) → β) : Prop :=
  (∀ v : Fin n → α, ∃ o, f (.scalar v) = .ok o ∧ o.shape = [] ∧ o.get [] = core v) ∧
  (∀ x : FT (Fin n → α), x.shape ≠ [] → ∃ o, f x = .ok o ∧ o.shape = x.shape ∧
      ∀ idx, InRange idx x.shape → o.get idx = core (x.get idx))

/-- … and so the vector form on `v` is row `i` of the batched form on any batch whose row `i` is `v`, with shapes `()` / `(B,)` -/
theorem CallFormsAgree.vector_is_row {n : Nat} {β : Type} {f : FT (Fin n → α) → Except PyErr (FT β)}
    {core : (Fin n → α) → β} (hf : CallFormsAgree f core) (v : Fin n → α) (B : Nat) (vs : Nat → Fin n → α) :
    ∃ o oB, f (.scalar v) = .ok o ∧ f (.ofRows B vs) = .ok oB ∧ o.shape = [] ∧ oB.shape = [B] ∧ o.get [] = core v ∧
      (∀ i, i < B → oB.get [i] = core (vs i)) ∧ (∀ i, i < B → vs i = v → oB.get [i] = o.get []) := by
  obtain ⟨o, ho, hs, hg⟩ := hf.1 v
  obtain ⟨oB, hoB, hsB, hgB⟩ := hf.2 (.ofRows B vs) (by simp [FT.ofRows])
  have hrow : ∀ i, i < B → oB.get [i] = core (vs i) := fun i hi => by
    have := hgB [i] (by simp [FT.ofRows, InRange, hi])
    simpa [FT.ofRows] using this
  exact ⟨o, oB, ho, hoB, hs, hsB, hg, hrow, fun i hi hv => by rw [hrow i hi, hv, hg]⟩

theorem autoUnsqueeze1_of_ne_nil {n : Nat} {β : Type} (f : FT (Fin n → α) → Except PyErr (FT β))
    (x : FT (Fin n → α)) (hx : x.shape ≠ []) : autoUnsqueeze1 f x = f x := by
  have : ¬ (x.shape.length + 1 < 2) := by
    cases hs : x.shape with
    | nil => exact absurd hs hx
    | cons d s => simp
  simp [autoUnsqueeze1, unsqArg, this]

theorem autoUnsqueeze1_scalar {n : Nat} {β : Type} (f : FT (Fin n → α) → Except PyErr (FT β)) (v : Fin n → α) :
    autoUnsqueeze1 f (.scalar v) = (f (FT.scalar v).unsqueeze0).map FT.squeeze0 := by
  simp [autoUnsqueeze1, unsqArg, FT.scalar]

/-- a decorated row-by-row method satisfies the call-form specification -/
theorem callFormsAgree_map {n : Nat} {β : Type} (g : (Fin n → α) → β) :
    CallFormsAgree (autoUnsqueeze1 (fun x : FT (Fin n → α) => .ok (x.map g))) g := by
  refine ⟨fun v => ?_, fun x hx => ?_⟩
  · rw [autoUnsqueeze1_scalar]
    exact ⟨_, rfl, rfl, rfl⟩
  · rw [autoUnsqueeze1_of_ne_nil _ _ hx]
    exact ⟨_, rfl, rfl, fun _ _ => rfl⟩

/-- elementwise post-processing of a method that satisfies the specification (`(-E).exp().sqrt()`, `-0.5 * E`, `exp(-E)/Z`, …) -/
theorem CallFormsAgree.map {n : Nat} {β γ : Type} {f : FT (Fin n → α) → Except PyErr (FT β)} {core : (Fin n → α) → β}
    (hf : CallFormsAgree f core) (k : β → γ) :
    CallFormsAgree (fun x => (f x).map (FT.map k)) (fun v => k (core v)) := by
  refine ⟨fun v => ?_, fun x hx => ?_⟩
  · obtain ⟨o, ho, hs, hg⟩ := hf.1 v
    exact ⟨o.map k, by simp [ho, Except.map], hs, by simp [FT.map, hg]⟩
  · obtain ⟨o, ho, hs, hg⟩ := hf.2 x hx
    exact ⟨o.map k, by simp [ho, Except.map], hs, fun idx hin => by simp [FT.map, hg idx hin]⟩

/-- broadcasting combination of two methods that satisfy the specification (`amplitude * phase.cos()`, …) -/
theorem CallFormsAgree.bzip {n : Nat} {β γ δ : Type} {f : FT (Fin n → α) → Except PyErr (FT β)}
    {f' : FT (Fin n → α) → Except PyErr (FT γ)} {core : (Fin n → α) → β} {core' : (Fin n → α) → γ}
    (hf : CallFormsAgree f core) (hf' : CallFormsAgree f' core') (k : β → γ → δ) :
    CallFormsAgree (fun x => FT.bzipE k (f x) (f' x)) (fun v => k (core v) (core' v)) := by
  refine ⟨fun v => ?_, fun x hx => ?_⟩
  · obtain ⟨o, ho, hs, hg⟩ := hf.1 v
    obtain ⟨o', ho', hs', hg'⟩ := hf'.1 v
    refine ⟨⟨[], fun idx => k (o.get (bidx o.shape idx)) (o'.get (bidx o'.shape idx))⟩, ?_, rfl, ?_⟩
    · simp [ho, ho', FT.bzipE, FT.bzip, hs, hs', bs_same]
    · simp [hs, hs', bidx, hg, hg']
  · obtain ⟨o, ho, hs, hg⟩ := hf.2 x hx
    obtain ⟨o', ho', hs', hg'⟩ := hf'.2 x hx
    refine ⟨⟨x.shape, fun idx => k (o.get (bidx o.shape idx)) (o'.get (bidx o'.shape idx))⟩, ?_, rfl, ?_⟩
    · simp [ho, ho', FT.bzipE, FT.bzip, hs, hs', bs_same]
    · intro idx hin
      simp [hs, hs', bidx_inrange hin, hg idx hin, hg' idx hin]


/-! ### `prob_v_given_ha`: `@auto_unsqueeze_args(1, 2)` by rank combination -/
namespace PRBM

theorem _root_.QV.FT.squeeze0_cons_ne {β : Type} (B : Nat) (rest : List Nat) (g : List Nat → β) (hB : B ≠ 1) :
    FT.squeeze0 ⟨B :: rest, g⟩ = ⟨B :: rest, g⟩ := by
  unfold FT.squeeze0
  split
  · rename_i heq
    simp only [List.cons.injEq] at heq
    exact absurd heq.1 hB
  · rfl

macro "ha_unfold" : tactic => `(tactic|
  simp [PRBM.probVGivenHA, PRBM.probVGivenHABody, autoUnsqueeze2, unsqArg, FT.bzipInplace, FT.ofRows, FT.scalar,
    FT.unsqueeze0, FT.squeeze0, bs_same, bs_one_one, bdim_one_left, bdim_one_right, Except.map, bidx])

theorem probVGivenHA_vec_vec (r : PRBM α n h a) (hd : Fin h → α) (ax : Fin a → α) :
    ∃ o, r.probVGivenHA (.scalar hd) (.scalar ax) = .ok o ∧ o.shape = [] ∧ o.get [] = r.probV hd ax := by
  ha_unfold

theorem probVGivenHA_batch_batch (r : PRBM α n h a) (B : Nat) (hs : Nat → Fin h → α) (as : Nat → Fin a → α) :
    ∃ o, r.probVGivenHA (.ofRows B hs) (.ofRows B as) = .ok o ∧ o.shape = [B] ∧
      ∀ i, i < B → o.get [i] = r.probV (hs i) (as i) := by
  ha_unfold
  intro i hi
  simp [bsel_lt hi]

/-- `h` a batch of `B ≠ 1` rows, `a` 1-D: `a` is unsqueezed and broadcasts to every row; `squeeze_(0)` is a no-op -/
theorem probVGivenHA_batch_vec (r : PRBM α n h a) (B : Nat) (hB : B ≠ 1) (hs : Nat → Fin h → α) (ax : Fin a → α) :
    ∃ o, r.probVGivenHA (.ofRows B hs) (.scalar ax) = .ok o ∧ o.shape = [B] ∧
      ∀ i, i < B → o.get [i] = r.probV (hs i) ax := by
  simp [PRBM.probVGivenHA, PRBM.probVGivenHABody, autoUnsqueeze2, unsqArg, FT.bzipInplace, FT.ofRows, FT.scalar,
    FT.unsqueeze0, bs_one_one, bdim_one_right, Except.map, bidx, FT.squeeze0_cons_ne _ _ _ hB]
  intro i hi
  simp [bsel_lt hi]

/-- `h` a batch of exactly ONE row, `a` 1-D: the result loses its batch axis (it is squeezed because `a` was 1-D) -/
theorem probVGivenHA_batch1_vec (r : PRBM α n h a) (hs : Nat → Fin h → α) (ax : Fin a → α) :
    ∃ o, r.probVGivenHA (.ofRows 1 hs) (.scalar ax) = .ok o ∧ o.shape = [] ∧ o.get [] = r.probV (hs 0) ax := by
  ha_unfold

/-- `h` 1-D, `a` a batch: the in-place `add_` cannot grow the `(1, n)` buffer — refused unless the batch has one row -/
theorem probVGivenHA_vec_batch (r : PRBM α n h a) (B : Nat) (hB : B ≠ 1) (hd : Fin h → α) (as : Nat → Fin a → α) :
    r.probVGivenHA (.scalar hd) (.ofRows B as) = .error .RuntimeError := by
  ha_unfold
  simp [hB]

theorem probVGivenHA_vec_batch1 (r : PRBM α n h a) (hd : Fin h → α) (as : Nat → Fin a → α) :
    ∃ o, r.probVGivenHA (.scalar hd) (.ofRows 1 as) = .ok o ∧ o.shape = [] ∧ o.get [] = r.probV hd (as 0) := by
  ha_unfold

end PRBM

/-! ### `PositiveWaveFunction.phase` -/
namespace Wave

theorem phasePosCall_scalar (v : Fin n → α) :
    phasePosCall (FT.scalar v) = .ok (FT.scalar (0 : α)) := by
  simp [phasePosCall, autoUnsqueeze1, unsqArg, FT.scalar, FT.unsqueeze0, FT.squeeze0, Except.map, phasePos]

theorem phasePosCall_batch (B : Nat) (vs : Nat → Fin n → α) :
    ∃ o, phasePosCall (FT.ofRows B vs) = .ok o ∧ o.shape = [B] ∧ ∀ i, o.get [i] = (0 : α) := by
  simp [phasePosCall, autoUnsqueeze1, unsqArg, FT.ofRows, phasePos]

/-- the recorded scope note C01-1: on a rank-3 argument the result has ONE axis (`v.shape[0]`), not the two leading axes -/
theorem phasePosCall_rank3 (B1 B2 : Nat) (vs : Nat → Nat → Fin n → α) :
    ∃ o, phasePosCall (FT.ofRows2 B1 B2 vs) = .ok o ∧ o.shape = [B1] := by
  simp [phasePosCall, autoUnsqueeze1, unsqArg, FT.ofRows2]

end Wave
end QV
