/-
QV.Lemmas.MetricsSpectrum — spectral helper for the self-fidelity of a mixed state (C10.5): the characteristic
polynomial of `A·A` for a Hermitian `A` has the squares of the eigenvalues of `A` as its roots; the model's
`fidProd` is the matrix product over `ℂ`.
-/
import Mathlib.Analysis.Matrix.Spectrum
import Mathlib.Analysis.Matrix.PosDef
import QV.Model.Metrics
import QV.Lemmas.Metrics

namespace QV
namespace C10L
open Matrix Metrics
open scoped ComplexOrder

variable {N : ℕ}

theorem charpoly_sq_hermitian (A : Matrix (Fin N) (Fin N) ℂ) (hA : A.IsHermitian) :
    (A * A).charpoly = ∏ i, (Polynomial.X - Polynomial.C (((hA.eigenvalues i : ℝ) : ℂ) ^ 2)) := by
  have h : A * A = Unitary.conjStarAlgAut ℂ _ hA.eigenvectorUnitary
      (diagonal (fun i => ((hA.eigenvalues i : ℝ) : ℂ) ^ 2)) := by
    conv_lhs => rw [hA.spectral_theorem]
    rw [← map_mul, diagonal_mul_diagonal]
    congr 2
    funext i
    simp [pow_two]
  rw [h, Unitary.conjStarAlgAut_apply, charpoly_mul_comm, ← mul_assoc]
  simp [charpoly_diagonal]

theorem roots_charpoly_sq_hermitian (A : Matrix (Fin N) (Fin N) ℂ) (hA : A.IsHermitian) :
    (A * A).charpoly.roots = Multiset.map (fun i => (((hA.eigenvalues i) ^ 2 : ℝ) : ℂ)) Finset.univ.val := by
  rw [charpoly_sq_hermitian A hA, Polynomial.roots_prod]
  · simp_rw [Polynomial.roots_X_sub_C]
    rw [Multiset.bind_singleton]
    refine Multiset.map_congr rfl (fun i _ => ?_)
    push_cast; rfl
  · exact Finset.prod_ne_zero_iff.mpr (fun i _ => Polynomial.X_sub_C_ne_zero _)

/-- if `eig` is the spectrum (roots of the characteristic polynomial, with multiplicity) of `R·R` for a positive
semidefinite trace-one `R`, the code's mixed fidelity `(Σ √|Re λ|)²` is `(tr R)² = 1` -/
theorem fidelityMixed_self (R : Matrix (Fin N) (Fin N) ℂ) (hR : R.PosSemidef) (htr : R.trace = 1)
    (eig : List (C ℝ)) (heig : ((eig.map toC : List ℂ) : Multiset ℂ) = (R * R).charpoly.roots) :
    fidelityMixed eig = 1 := by
  have hA := hR.isHermitian
  have hval : fidelityMixed eig = ((eig.map (fun l => √|l.1|)).sum) ^ 2 := by
    simp only [fidelityMixed, sumList_eq, transc_sqrt, transc_abs]; ring
  rw [hval]
  have h1 : ((eig.map (fun l => √|l.1|) : List ℝ) : Multiset ℝ)
      = Multiset.map (fun z : ℂ => √|z.re|) ((eig.map toC : List ℂ) : Multiset ℂ) := by
    simp [Function.comp_def]
  have h2 : (eig.map (fun l => √|l.1|)).sum = ∑ i, hA.eigenvalues i := by
    rw [← Multiset.sum_coe, h1, heig, roots_charpoly_sq_hermitian R hA, Multiset.map_map]
    rw [Finset.sum_eq_multiset_sum]
    congr 1
    refine Multiset.map_congr rfl (fun i _ => ?_)
    simp only [Function.comp, Complex.ofReal_re]
    rw [abs_of_nonneg (by positivity), Real.sqrt_sq (hR.eigenvalues_nonneg i)]
  have h3 : (∑ i, hA.eigenvalues i : ℝ) = 1 := by
    have := hA.trace_eq_sum_eigenvalues
    rw [htr] at this
    have h' : ((∑ i, hA.eigenvalues i : ℝ) : ℂ) = 1 := by rw [this]; simp
    exact_mod_cast h'
  rw [h2, h3]; norm_num

theorem toC_foldl_add (n : ℕ) (f : Fin n → C ℝ) (a : C ℝ) :
    toC (Fin.foldl n (fun acc i => C.add acc (f i)) a) = toC a + ∑ i, toC (f i) := by
  induction n generalizing a with
  | zero => simp [Fin.foldl_zero]
  | succ k ih =>
    rw [Fin.foldl_succ, ih, Fin.sum_univ_succ, toC_add, add_assoc]

theorem toC_Csum (n : ℕ) (f : Fin n → C ℝ) : toC (C.sum n f) = ∑ i, toC (f i) := by
  simp [C.sum, toC_foldl_add, toC_zero]

/-- a model matrix (indexed by `ℕ`) as an `N × N` complex matrix -/
noncomputable def matC (N : ℕ) (M : ℕ → ℕ → C ℝ) : Matrix (Fin N) (Fin N) ℂ :=
  Matrix.of fun i j => toC (M i.val j.val)

/-- the matrix handed to `np.linalg.eigvals` is `target · (ρ/Z)` -/
theorem matC_fidProd (N : ℕ) (T rho : ℕ → ℕ → C ℝ) (Z : ℝ) :
    matC N (fidProd N T rho Z) = matC N T * matC N (fun i j => ((rho i j).1 / Z, (rho i j).2 / Z)) := by
  ext i j
  simp only [matC, fidProd, Matrix.of_apply, Matrix.mul_apply, toC_Csum, toC_mul]

end C10L
end QV
