/-
QV.Lemmas.Gen — the operations of the translator's target language (QV/Gen/Prelude.lean) at `ℝ`:
rewriting rules used by the bridge theorems of QV/GenBridge/*.lean.
-/
import Mathlib.Data.Real.Basic
import Mathlib.Tactic.Ring
import QV.Gen.Prelude
import QV.Real

namespace QV.Gen

section generic
set_option linter.unusedSectionVars false
variable {α : Type} [Add α] [Mul α] [Neg α] [Sub α] [Div α] [Zero α] [One α] [BEq α] [LT α] [DecidableLT α] [Transc α]

@[simp] theorem fadd_some (x y : α) : fadd (some x) (some y) = some (x + y) := rfl
@[simp] theorem fsub_some (x y : α) : fsub (some x) (some y) = some (x - y) := rfl
@[simp] theorem fmul_some (x y : α) : fmul (some x) (some y) = some (x * y) := rfl
@[simp] theorem fadd_none_left (b : Fl α) : fadd none b = none := rfl
@[simp] theorem fsub_none_left (b : Fl α) : fsub none b = none := rfl
@[simp] theorem fmul_none_left (b : Fl α) : fmul none b = none := rfl
@[simp] theorem fadd_none_right (a : Fl α) : fadd a none = none := by cases a <;> rfl
@[simp] theorem fsub_none_right (a : Fl α) : fsub a none = none := by cases a <;> rfl
@[simp] theorem fmul_none_right (a : Fl α) : fmul a none = none := by cases a <;> rfl
@[simp] theorem fdiv_none_left (b : Fl α) : fdiv none b = none := rfl
@[simp] theorem fdiv_none_right (a : Fl α) : fdiv a none = none := by cases a <;> rfl
@[simp] theorem fneg_some (x : α) : fneg (some x) = some (-x) := rfl
@[simp] theorem fneg_none : fneg (none : Fl α) = none := rfl
@[simp] theorem fabs_some (x : α) : fabs (some x) = some (Transc.abs x) := rfl
@[simp] theorem fabs_none : fabs (none : Fl α) = none := rfl
@[simp] theorem fsqrt_none : fsqrt (none : Fl α) = none := rfl
@[simp] theorem flt_none_left (b : Fl α) : flt none b = false := rfl
@[simp] theorem flt_none_right (a : Fl α) : flt a none = false := by cases a <;> rfl
@[simp] theorem flt_some (x y : α) : flt (some x) (some y) = decide (x < y) := rfl
theorem fgt_eq (a b : Fl α) : fgt a b = flt b a := rfl
end generic

/-- `float(i)` at `ℝ` is the cast -/
@[simp] theorem ofInt_real (i : Int) : (ofInt i : ℝ) = (i : ℝ) := by
  cases i with
  | ofNat n => simp [ofInt]
  | negSucc n => simp [ofInt, Int.negSucc_eq]

@[simp] theorem fint_real (i : Int) : (fint i : Fl ℝ) = some (i : ℝ) := by simp [fint]

/-- division at `ℝ`: a zero divisor gives the non-finite value, never Mathlib's `x / 0 = 0` -/
@[simp] theorem fdiv_some_real (x y : ℝ) : fdiv (some x) (some y) = if y = 0 then none else some (x / y) := by
  simp [fdiv]

@[simp] theorem fsqrt_some_real (x : ℝ) : fsqrt (some x) = if x < 0 then none else some (Real.sqrt x) := by
  simp [fsqrt]

end QV.Gen
