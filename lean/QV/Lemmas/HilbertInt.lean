/-
QV.Lemmas.HilbertInt — the int64 / Python-int model of `subspace_vector` and of the `generate_hilbert_space` guard
(`QV.Model.HilbertInt`) agrees with the `Nat` model on the documented domain; outcome classes outside it.
-/
import Mathlib.Tactic.Linarith
import Mathlib.Tactic.Positivity
import QV.Lemmas.Hilbert
import QV.Model.HilbertInt

namespace QV

theorem effSizeZ_nat (size : Option ℕ) (nv : ℕ) : effSizeZ (size.map Int.ofNat) nv = ((effSize size nv : ℕ) : ℤ) := by
  cases size with
  | none => rfl
  | some s =>
    cases s with
    | zero => simp [effSizeZ, effSize]
    | succ k =>
      have hne : ¬ (Int.ofNat (k + 1)) = 0 := by simp; omega
      simp only [Option.map_some, effSizeZ, if_neg hne, effSize]
      rfl

theorem inInt64_nat (m : ℕ) (hm : m < 2 ^ 63) : inInt64 (m : ℤ) = true := by
  have h1 : -(2 ^ 63 : ℤ) ≤ (m : ℤ) := by
    have : (0 : ℤ) ≤ (m : ℤ) := Int.natCast_nonneg m
    have : (0 : ℤ) ≤ 2 ^ 63 := by positivity
    linarith
  have h2 : (m : ℤ) < (2 ^ 63 : ℤ) := by exact_mod_cast hm
  simp only [inInt64, Bool.and_eq_true, decide_eq_true_eq]
  exact ⟨h1, h2⟩

theorem maskRowZ_nat (s m : ℕ) (hm : m < 2 ^ 63) : maskRowZ s (m : ℤ) = maskRow s m := by
  simp only [maskRowZ, maskRow]
  congr 1
  refine List.map_congr_left (fun i _ => ?_)
  rw [mask_pos_eq_testBit]
  show (decide (i ≤ 62) && m.testBit i) = m.testBit i
  by_cases hi : i ≤ 62
  · simp [hi]
  · have hlt : m < 2 ^ i := lt_of_lt_of_le hm (Nat.pow_le_pow_right (by decide) (by omega))
    have : m.testBit i = false := Nat.testBit_lt_two_pow hlt
    simp [this]

theorem subspaceVectorZ_overflow (nv : ℕ) (num : ℤ) (size : Option ℤ) (h : num < -(2 ^ 63) ∨ 2 ^ 63 ≤ num) :
    subspaceVectorZ num size nv = .overflowError := by
  have : inInt64 num = false := by
    simp only [inInt64, Bool.and_eq_false_iff, decide_eq_false_iff_not, not_le, not_lt]
    exact h
  simp [subspaceVectorZ, this]

theorem subspaceVectorZ_nat (nv m : ℕ) (size : Option ℕ) (hm : m < 2 ^ 63) :
    subspaceVectorZ (m : ℤ) (size.map Int.ofNat) nv = .ok (subspaceVector m size nv) := by
  simp only [subspaceVectorZ, inInt64_nat m hm, if_true, effSizeZ_nat, Int.toNat_natCast, maskRowZ_nat _ m hm,
    subspaceVector]

theorem subspaceVectorZ_negsize (nv m : ℕ) (s : ℤ) (hm : m < 2 ^ 63) (hs : s < 0) : subspaceVectorZ (m : ℤ) (some s) nv = .ok [] := by
  have h0 : ¬ s = 0 := by omega
  have : s.toNat = 0 := by omega
  simp only [subspaceVectorZ, inInt64_nat m hm, if_true, effSizeZ, if_neg h0, this, maskRowZ]
  rfl

theorem spaceGuardZ_nat (nv : ℕ) (size : Option ℕ) : spaceGuardZ (size.map Int.ofNat) nv = spaceGuard size nv := by
  have key : ∀ e : ℕ, (if (e : ℤ) > ((20 : ℕ) : ℤ) then (Except.error PyErr.ValueError : Except PyErr ℕ)
      else if (e : ℤ) < 0 then .error .TypeError else .ok (e : ℤ).toNat)
      = if e > 20 then .error .ValueError else .ok e := by
    intro e
    by_cases h : e > 20
    · have : (e : ℤ) > ((20 : ℕ) : ℤ) := by exact_mod_cast h
      rw [if_pos this, if_pos h]
    · have h1 : ¬ (e : ℤ) > ((20 : ℕ) : ℤ) := by exact_mod_cast h
      have h2 : ¬ (e : ℤ) < 0 := by omega
      rw [if_neg h1, if_neg h2, if_neg h, Int.toNat_natCast]
  have he : effSizeZ (size.map Int.ofNat) nv = ((effSize size nv : ℕ) : ℤ) := by
    cases size with
    | none => rfl
    | some s =>
      cases s with
      | zero => simp [effSizeZ, effSize]
      | succ k =>
        have hne : ¬ (Int.ofNat (k + 1)) = 0 := by simp; omega
        simp only [Option.map_some, effSizeZ, if_neg hne, effSize]
        rfl
  unfold spaceGuardZ spaceGuard
  simp only [he, maxSize]
  exact key _

theorem spaceGuardZ_neg (nv : ℕ) (s : ℤ) (hs : s < 0) : spaceGuardZ (some s) nv = .error .TypeError := by
  have h0 : ¬ s = 0 := by omega
  have h1 : ¬ s > ((20 : ℕ) : ℤ) := by omega
  unfold spaceGuardZ
  simp only [effSizeZ, if_neg h0, maxSize, if_neg h1, if_pos hs]

end QV
