/-
QV.Lemmas.CplxStorage — helper lemmas for the storage part of the complex-tensor kernel model (C15):
writing a list of values through a list of addresses (`copy_` into a strided view) and reading it back.
-/
import Mathlib.Data.List.Nodup
import QV.Model.Cplx
import QV.Lemmas.CplxTensor
namespace QV.Cplx
open List
set_option linter.unusedSectionVars false
set_option linter.unusedVariables false

section storage
variable {α : Type}

/-- cells that are not written keep their content -/
theorem writeList_of_notMem (m : Nat → α) (as : List Nat) (vs : List α) (a : Nat) (h : a ∉ as) :
    writeList m as vs a = m a := by
  induction as generalizing m vs with
  | nil => cases vs <;> rfl
  | cons b as ih =>
    cases vs with
    | nil => rfl
    | cons v vs =>
      simp only [writeList]
      rw [ih _ _ (fun hm => h (List.mem_cons_of_mem _ hm))]
      have : a ≠ b := fun hab => h (hab ▸ List.mem_cons_self)
      simp [this]

/-- reading back through the addresses that were written gives the written values, provided no address occurs twice -/
theorem map_writeList (m : Nat → α) (as : List Nat) (vs : List α) (hnd : as.Nodup) (hl : as.length = vs.length) :
    as.map (writeList m as vs) = vs := by
  induction as generalizing m vs with
  | nil =>
    cases vs with
    | nil => rfl
    | cons v vs => simp at hl
  | cons b as ih =>
    cases vs with
    | nil => simp at hl
    | cons v vs =>
      have hb : b ∉ as := (List.nodup_cons.mp hnd).1
      have hnd' : as.Nodup := (List.nodup_cons.mp hnd).2
      simp only [writeList, List.map_cons]
      rw [ih _ _ hnd' (by simpa using hl), writeList_of_notMem _ _ _ _ hb]
      simp

end storage
end QV.Cplx
