/-
QV.Lemmas.Prob — helper lemmas for finite probabilistic programs (`QV.Model.Prob`):
monad laws, `law`/`expect` of `bind`, product law of `flipVec`/`flipMat`, replay (`run`) versus
`paths`, and the abstract reversibility argument for two-block Gibbs kernels.
-/
import Mathlib.Algebra.BigOperators.Fin
import Mathlib.Algebra.BigOperators.Ring.Finset
import Mathlib.Data.Fintype.BigOperators
import Mathlib.Data.Fin.Tuple.Basic
import Mathlib.Data.Matrix.Mul
import QV.Model.Prob
import QV.Lemmas.Basic

namespace QV
open Finset

namespace Prog
variable {α β γ δ : Type}

/-! ### monad laws (any carrier) -/

theorem bind_assoc (m : Prog α β) (f : β → Prog α γ) (g : γ → Prog α δ) :
    (m.bind f).bind g = m.bind (fun b => (f b).bind g) := by
  induction m with
  | ret b => rfl
  | flip p k ih => simp only [bind]; congr 1; funext t; exact ih t

@[simp] theorem ret_bind (b : β) (f : β → Prog α γ) : (ret b : Prog α β).bind f = f b := rfl

@[simp] theorem bind_ret (m : Prog α β) : m.bind ret = m := by
  induction m with
  | ret b => rfl
  | flip p k ih => simp only [bind]; congr 1; funext t; exact ih t

/-- running `k₁` passes and then `k₂` more from the result IS the `(k₁+k₂)`-pass program -/
theorem iter_add (step : β → Prog α β) (k₁ k₂ : ℕ) (v : β) :
    (iter step k₁ v).bind (iter step k₂) = iter step (k₁ + k₂) v := by
  induction k₁ generalizing v with
  | zero => simp [iter]
  | succ k ih =>
    rw [Nat.succ_add]
    simp only [iter, bind_assoc]
    congr 1; funext u; exact ih u

/-! ### replay versus paths (any carrier) -/

theorem run_of_mem_paths (m : Prog α β) :
    ∀ x ∈ m.paths, ∀ rest : List Bool, m.run (x.2.2 ++ rest) = some (x.1, x.2.1, rest) := by
  induction m with
  | ret b => intro x hx rest; simp only [paths, List.mem_singleton] at hx; subst hx; rfl
  | flip p k ih =>
    intro x hx rest
    simp only [paths, List.mem_append, List.mem_map] at hx
    rcases hx with ⟨y, hy, rfl⟩ | ⟨y, hy, rfl⟩
    · simp only [List.cons_append, run, ih true y hy rest]
    · simp only [List.cons_append, run, ih false y hy rest]

theorem mem_paths_of_run (m : Prog α β) :
    ∀ (ds : List Bool) (b : β) (ps : List α) (rest : List Bool), m.run ds = some (b, ps, rest) →
      ∃ used, ds = used ++ rest ∧ (b, ps, used) ∈ m.paths := by
  induction m with
  | ret b0 =>
    intro ds b ps rest h
    simp only [run, Option.some.injEq, Prod.mk.injEq] at h
    obtain ⟨rfl, rfl, rfl⟩ := h
    exact ⟨[], rfl, by simp [paths]⟩
  | flip p k ih =>
    intro ds b ps rest h
    cases ds with
    | nil => simp [run] at h
    | cons d ds =>
      simp only [run] at h
      cases hr : (k d).run ds with
      | none => rw [hr] at h; simp at h
      | some y =>
        obtain ⟨b', ps', rest'⟩ := y
        rw [hr] at h
        simp only [Option.some.injEq, Prod.mk.injEq] at h
        obtain ⟨rfl, rfl, rfl⟩ := h
        obtain ⟨used, hds, hmem⟩ := ih d ds b' ps' rest' hr
        refine ⟨d :: used, by simp [hds], ?_⟩
        simp only [paths, List.mem_append, List.mem_map]
        cases d
        · right; exact ⟨_, hmem, rfl⟩
        · left; exact ⟨_, hmem, rfl⟩

theorem paths_length (m : Prog α β) : ∀ x ∈ m.paths, x.2.1.length = x.2.2.length := by
  induction m with
  | ret b => intro x hx; simp only [paths, List.mem_singleton] at hx; subst hx; rfl
  | flip p k ih =>
    intro x hx
    simp only [paths, List.mem_append, List.mem_map] at hx
    rcases hx with ⟨y, hy, rfl⟩ | ⟨y, hy, rfl⟩ <;> simp [ih _ y hy]

theorem paths_map (f : β → γ) (m : Prog α β) :
    (m.map f).paths = m.paths.map (fun y => (f y.1, y.2)) := by
  induction m with
  | ret b => rfl
  | flip p k ih =>
    have ih' : ∀ t, ((k t).bind fun b => ret (f b)).paths = (k t).paths.map (fun y => (f y.1, y.2)) := ih
    simp only [map, bind, paths, ih', List.map_append, List.map_map]
    rfl

/-! ### law and expectation over ℝ -/

theorem expect_bind (m : Prog ℝ β) (f : β → Prog ℝ γ) (g : γ → ℝ) :
    (m.bind f).expect g = m.expect (fun b => (f b).expect g) := by
  induction m with
  | ret b => rfl
  | flip p k ih => simp only [bind, expect, ih]

theorem law_eq_expect [DecidableEq β] (m : Prog ℝ β) (x : β) :
    m.law x = m.expect (fun b => if b = x then 1 else 0) := by
  induction m with
  | ret b => rfl
  | flip p k ih => simp only [law, expect, ih]

theorem expect_eq_sum [Fintype β] [DecidableEq β] (m : Prog ℝ β) (g : β → ℝ) :
    m.expect g = ∑ b, m.law b * g b := by
  induction m with
  | ret b => simp [expect, law]
  | flip p k ih =>
    simp only [expect, law, ih, Finset.mul_sum, ← Finset.sum_add_distrib]
    refine Finset.sum_congr rfl (fun b _ => ?_)
    ring

/-- Chapman–Kolmogorov for one `bind` -/
theorem law_bind [Fintype β] [DecidableEq β] [DecidableEq γ] (m : Prog ℝ β) (f : β → Prog ℝ γ) (x : γ) :
    (m.bind f).law x = ∑ b, m.law b * (f b).law x := by
  rw [law_eq_expect, expect_bind, expect_eq_sum]
  simp only [law_eq_expect]

/-- every program's law has total mass one -/
theorem sum_law [Fintype β] [DecidableEq β] (m : Prog ℝ β) : ∑ x, m.law x = 1 := by
  induction m with
  | ret b => simp [law]
  | flip p k ih =>
    simp only [law, Finset.sum_add_distrib, ← Finset.mul_sum, ih]
    ring

/-- the law is the sum of the weights of the complete executions returning `x` -/
theorem law_eq_sum_paths [DecidableEq β] (m : Prog ℝ β) (x : β) :
    m.law x = ((m.paths.filter (fun y => y.1 = x)).map (fun y => weight y.2.1 y.2.2)).sum := by
  induction m with
  | ret b =>
    by_cases hb : b = x <;> simp [law, paths, weight, hb]
  | flip p k ih =>
    simp only [law, paths, ih, List.filter_append, List.map_append, List.sum_append, List.filter_map,
      List.map_map]
    congr 1
    · rw [← List.sum_map_mul_left]
      congr 1
    · rw [← List.sum_map_mul_left]
      congr 1

theorem bern_nonneg {p : ℝ} (h0 : 0 ≤ p) (h1 : p ≤ 1) (t : Bool) : 0 ≤ bern p t := by
  cases t <;> simp [bern] <;> linarith

theorem sum_bern (p : ℝ) (f : Bool → ℝ) : ∑ t, bern p t * f t = p * f true + (1 - p) * f false := by
  simp [bern]

/-- law of one `torch.bernoulli` call on a vector: product of independent Bernoullis -/
theorem expect_flipVec (m : ℕ) (p : Fin m → ℝ) (g : (Fin m → Bool) → ℝ) :
    (flipVec m p).expect g = ∑ x : Fin m → Bool, (∏ i, bern (p i) (x i)) * g x := by
  induction m with
  | zero =>
    rw [Fintype.sum_unique]
    simp only [flipVec, expect, Finset.univ_eq_empty, Finset.prod_empty, one_mul]
    exact congrArg g (Subsingleton.elim _ _)
  | succ m ih =>
    simp only [flipVec, expect, expect_bind, ih]
    rw [← (Fin.consEquiv (fun _ : Fin (m + 1) => Bool)).sum_comp, Fintype.sum_prod_type, Fintype.sum_bool]
    simp only [Fin.consEquiv_apply, Fin.prod_univ_succ, Fin.cons_zero, Fin.cons_succ, bern, if_true,
      Bool.false_eq_true, if_false, mul_assoc, ← Finset.mul_sum]
    rfl

theorem law_flipVec (m : ℕ) (p : Fin m → ℝ) (x : Fin m → Bool) :
    (flipVec m p).law x = ∏ i, bern (p i) (x i) := by
  rw [law_eq_expect, expect_flipVec]
  simp

/-- law of one `torch.bernoulli` call on a `B × m` matrix -/
theorem expect_flipMat (B m : ℕ) (p : Fin B → Fin m → ℝ) (g : (Fin B → Fin m → Bool) → ℝ) :
    (flipMat B m p).expect g = ∑ X : Fin B → Fin m → Bool, (∏ b, ∏ i, bern (p b i) (X b i)) * g X := by
  induction B with
  | zero =>
    rw [Fintype.sum_unique]
    simp only [flipMat, expect, Finset.univ_eq_empty, Finset.prod_empty, one_mul]
    exact congrArg g (Subsingleton.elim _ _)
  | succ B ih =>
    simp only [flipMat, expect, expect_bind, ih, expect_flipVec]
    rw [← (Fin.consEquiv (fun _ : Fin (B + 1) => Fin m → Bool)).sum_comp, Fintype.sum_prod_type]
    simp only [Fin.consEquiv_apply, Fin.prod_univ_succ, Fin.cons_zero, Fin.cons_succ, mul_assoc,
      ← Finset.mul_sum]
    rfl

theorem law_flipMat (B m : ℕ) (p : Fin B → Fin m → ℝ) (X : Fin B → Fin m → Bool) :
    (flipMat B m p).law X = ∏ b, ∏ i, bern (p b i) (X b i) := by
  rw [law_eq_expect, expect_flipMat]
  simp

/-- transition matrix of a one-step program -/
noncomputable def kernelOf [DecidableEq β] (step : β → Prog ℝ β) : Matrix β β ℝ :=
  Matrix.of fun v w => (step v).law w

/-- the law of `k` iterations is the `k`-th matrix power of the one-step kernel -/
theorem law_iter [Fintype β] [DecidableEq β] (step : β → Prog ℝ β) (k : ℕ) (v w : β) :
    (iter step k v).law w = (kernelOf step ^ k) v w := by
  induction k generalizing v with
  | zero => simp [iter, law, Matrix.one_apply]
  | succ k ih =>
    rw [pow_succ', Matrix.mul_apply]
    simp only [iter, law_bind, ih, kernelOf, Matrix.of_apply]

/-- independent chains: if the batched step has the product law of the single-chain step, so do
`k` iterations -/
theorem law_iter_batch {B : ℕ} [Fintype β] [DecidableEq β] (step : β → Prog ℝ β)
    (stepB : (Fin B → β) → Prog ℝ (Fin B → β))
    (hstep : ∀ vs ws, (stepB vs).law ws = ∏ b, (step (vs b)).law (ws b)) (k : ℕ)
    (vs ws : Fin B → β) :
    (iter stepB k vs).law ws = ∏ b, (iter step k (vs b)).law (ws b) := by
  induction k generalizing vs with
  | zero =>
    simp only [iter, law]
    rw [Finset.prod_ite_zero]
    simp [funext_iff]
  | succ k ih =>
    simp only [iter, law_bind, ih, hstep, ← Finset.prod_mul_distrib]
    rw [← Fintype.prod_sum (fun (b : Fin B) (u : β) => (step (vs b)).law u * (iter step k u).law (ws b))]

end Prog

/-! ### abstract two-block Gibbs kernel -/

section kernel
variable {V Hd : Type} [Fintype Hd]

/-- If `J v h = π v · pH v h = m h · pV h v` (both conditionals are the exact conditionals of the joint
weight `J`), then the kernel `P v v' = Σ_h pH v h · pV h v'` is reversible w.r.t. `π`. -/
theorem kernel_detailed_balance (J : V → Hd → ℝ) (π : V → ℝ) (m : Hd → ℝ) (pH : V → Hd → ℝ)
    (pV : Hd → V → ℝ) (hH : ∀ v h, J v h = π v * pH v h) (hV : ∀ v h, J v h = m h * pV h v)
    (v v' : V) :
    π v * ∑ h, pH v h * pV h v' = π v' * ∑ h, pH v' h * pV h v := by
  rw [Finset.mul_sum, Finset.mul_sum]
  refine Finset.sum_congr rfl (fun h _ => ?_)
  rw [← mul_assoc, ← hH, hV, ← mul_assoc, ← hH, hV]
  ring

end kernel

section matrix
open Matrix

/-- generic: a distribution invariant under `P` is invariant under `P ^ k` -/
theorem vecMul_pow_of_invariant {V : Type} [Fintype V] [DecidableEq V] (π : V → ℝ)
    (P : Matrix V V ℝ) (hP : π ᵥ* P = π) (k : ℕ) : π ᵥ* P ^ k = π := by
  induction k with
  | zero => simp
  | succ k ih => rw [pow_succ, ← Matrix.vecMul_vecMul, ih, hP]

theorem detailed_balance_pow {V : Type} [Fintype V] [DecidableEq V] (π : V → ℝ)
    (P : Matrix V V ℝ) (hP : ∀ v w, π v * P v w = π w * P w v) (k : ℕ) :
    ∀ v w, π v * (P ^ k) v w = π w * (P ^ k) w v := by
  induction k with
  | zero =>
    intro v w
    by_cases hvw : v = w
    · subst hvw; rfl
    · simp [hvw, Ne.symm hvw]
  | succ k ih =>
    intro v w
    have e1 : (P ^ (k + 1)) v w = ∑ u, P v u * (P ^ k) u w := by rw [pow_succ', Matrix.mul_apply]
    have e2 : (P ^ (k + 1)) w v = ∑ u, (P ^ k) w u * P u v := by rw [pow_succ, Matrix.mul_apply]
    rw [e1, e2, Finset.mul_sum, Finset.mul_sum]
    refine Finset.sum_congr rfl fun u _ => ?_
    calc π v * (P v u * (P ^ k) u w) = (π v * P v u) * (P ^ k) u w := by ring
      _ = P u v * (π u * (P ^ k) u w) := by rw [hP]; ring
      _ = π w * ((P ^ k) w u * P u v) := by rw [ih]; ring

end matrix

end QV
