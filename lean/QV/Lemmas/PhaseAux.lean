/-
QV.Lemmas.PhaseAux — helper lemmas for C20.6: the phase aux-bias gradient entries vanish and a zero
coordinate with zero gradients is a fixed point of the SGD and Adam update rules (any field).
-/
import Mathlib.Algebra.Field.Basic
import QV.Lemmas.Basic
import QV.Model.PhaseAux

namespace QV.PhaseAux
open QV

variable {α : Type} [Field α] [Transc α]

theorem phGradsAux_eq_zero (sig : C α) : phGradsAux sig = ((0 : α), (0 : α)) := by
  simp [phGradsAux, gammaGradAux, piGradAux, C.add, C.mul, C.I]

theorem rotatedAux_eq_zero (N B : ℕ) (U : Fin N → Fin N → Fin B → C α) (inv : Fin B → α)
    (g : Fin N → Fin N → Fin B → C α) (hg : ∀ i j b, g i j b = ((0 : α), (0 : α))) :
    rotatedAux N B U inv g = 0 := by
  simp [rotatedAux, hg]

theorem foldl_add_zero (cs : List α) (hc : ∀ c ∈ cs, c = 0) (a : α) :
    cs.foldl (fun acc c => acc + c) a = a := by
  induction cs generalizing a with
  | nil => rfl
  | cons c r ih =>
    have h0 : c = 0 := hc c (by simp)
    simp only [List.foldl_cons, h0, add_zero]
    exact ih (fun x hx => hc x (List.mem_cons_of_mem _ hx)) a

theorem batchGradAux_eq_zero (cs : List α) (bs : α) (hc : ∀ c ∈ cs, c = 0) : batchGradAux cs bs = 0 := by
  simp [batchGradAux, foldl_add_zero cs hc]

/-- SGD: `p = 0` with an empty or zero momentum buffer is preserved by a zero-gradient step -/
theorem sgdStep_zero (c : SGDCfg α) (s : SGDState α) (hp : s.p = 0) (hb : s.buf = none ∨ s.buf = some 0) :
    (sgdStep c s 0).p = 0 ∧ ((sgdStep c s 0).buf = none ∨ (sgdStep c s 0).buf = some 0) := by
  obtain ⟨p, buf⟩ := s
  simp only at hp hb
  subst hp
  rcases hb with hb | hb <;> subst hb <;>
    cases hm : c.hasMomentum <;> cases hw : c.hasWd <;> cases hn : c.nesterov <;>
      simp [sgdStep, hm, hw, hn]

theorem sgdRun_zero (c : SGDCfg α) (gs : List α) (hg : ∀ g ∈ gs, g = 0) (s : SGDState α) (hp : s.p = 0)
    (hb : s.buf = none ∨ s.buf = some 0) : (sgdRun c s gs).p = 0 := by
  induction gs generalizing s with
  | nil => simpa [sgdRun] using hp
  | cons g r ih =>
    have h0 : g = 0 := hg g (by simp)
    subst h0
    have := sgdStep_zero c s hp hb
    simp only [sgdRun, List.foldl_cons] at ih ⊢
    exact ih (fun x hx => hg x (List.mem_cons_of_mem _ hx)) _ this.1 this.2

theorem adamStep_zero (c : AdamCfg α) (s : AdamState α) (hp : s.p = 0) (hm : s.m = 0) (hv : s.v = 0) :
    (adamStep c s 0).p = 0 ∧ (adamStep c s 0).m = 0 ∧ (adamStep c s 0).v = 0 := by
  obtain ⟨p, m, v, t⟩ := s
  simp only at hp hm hv
  subst hp; subst hm; subst hv
  cases hw : c.hasWd <;> simp [adamStep, hw]

theorem adamRun_zero (c : AdamCfg α) (gs : List α) (hg : ∀ g ∈ gs, g = 0) (s : AdamState α) (hp : s.p = 0)
    (hm : s.m = 0) (hv : s.v = 0) : (adamRun c s gs).p = 0 := by
  induction gs generalizing s with
  | nil => simpa [adamRun] using hp
  | cons g r ih =>
    have h0 : g = 0 := hg g (by simp)
    subst h0
    have := adamStep_zero c s hp hm hv
    simp only [adamRun, List.foldl_cons] at ih ⊢
    exact ih (fun x hx => hg x (List.mem_cons_of_mem _ hx)) _ this.1 this.2.1 this.2.2

end QV.PhaseAux
