/-
QV.Lemmas.Store — helper lemmas about the heap model `QV.Model.Store`:
association lists, frame properties of the heap primitives, the well-formedness invariant and its
preservation by every operation of the history machine.
-/
import QV.Model.Store

namespace QV.Store

/-! ### association lists -/
section alist
variable {κ β : Type} [DecidableEq κ]

@[simp] theorem aget_nil (k : κ) : aget ([] : List (κ × β)) k = none := rfl

theorem aget_cons (k x : κ) (v : β) (r : List (κ × β)) :
    aget ((k, v) :: r) x = if k = x then some v else aget r x := rfl

theorem aget_aset_same (d : List (κ × β)) (k : κ) (v : β) : aget (aset d k v) k = some v := by
  induction d with
  | nil => simp [aset, aget_cons]
  | cons a r ih =>
    obtain ⟨k', w⟩ := a
    by_cases h : k' = k
    · simp [aset, h, aget_cons]
    · simp [aset, h, aget_cons, ih]

theorem aget_aset_ne (d : List (κ × β)) (k k' : κ) (v : β) (hne : k' ≠ k) :
    aget (aset d k v) k' = aget d k' := by
  induction d with
  | nil => simp [aset, aget_cons, Ne.symm hne]
  | cons a r ih =>
    obtain ⟨k0, w⟩ := a
    by_cases h : k0 = k
    · subst h; simp [aset, aget_cons, Ne.symm hne]
    · by_cases h2 : k0 = k'
      · subst h2; simp [aset, h, aget_cons]
      · simp [aset, h, aget_cons, h2, ih]

theorem aget_aset (d : List (κ × β)) (k k' : κ) (v : β) :
    aget (aset d k v) k' = if k' = k then some v else aget d k' := by
  by_cases h : k' = k
  · subst h; simp [aget_aset_same]
  · simp [h, aget_aset_ne _ _ _ _ h]

/-- keys of an association list -/
def keys (d : List (κ × β)) : List κ := d.map Prod.fst

theorem aget_none_iff (d : List (κ × β)) (k : κ) : aget d k = none ↔ k ∉ keys d := by
  induction d with
  | nil => simp [keys]
  | cons a r ih =>
    obtain ⟨k0, w⟩ := a
    by_cases h : k0 = k
    · simp [aget_cons, h, keys]
    · have : ¬ k = k0 := fun e => h e.symm
      simp [aget_cons, h, keys, this] at ih ⊢
      exact ih

theorem ahas_iff (d : List (κ × β)) (k : κ) : ahas d k = true ↔ k ∈ keys d := by
  unfold ahas
  rw [Option.isSome_iff_ne_none, Ne, aget_none_iff]
  simp

theorem keys_aset (d : List (κ × β)) (k : κ) (v : β) :
    keys (aset d k v) = if k ∈ keys d then keys d else keys d ++ [k] := by
  induction d with
  | nil => simp [aset, keys]
  | cons a r ih =>
    obtain ⟨k0, w⟩ := a
    by_cases h : k0 = k
    · simp [aset, h, keys]
    · have hk : ¬ k = k0 := fun e => h e.symm
      simp only [keys] at ih
      by_cases hm : k ∈ List.map Prod.fst r
      · simp [aset, h, keys, hk, hm, ih]
      · simp [aset, h, keys, hk, hm, ih]

theorem nodup_keys_aset (d : List (κ × β)) (k : κ) (v : β) (hd : (keys d).Nodup) :
    (keys (aset d k v)).Nodup := by
  rw [keys_aset]
  by_cases hm : k ∈ keys d
  · simp [hm, hd]
  · simp only [hm, if_false]
    rw [List.nodup_append]
    refine ⟨hd, by simp, ?_⟩
    intro a ha b hb
    simp at hb
    subst hb
    intro e; subst e; exact hm ha

theorem nodup_keys_aupdate (d e : List (κ × β)) (hd : (keys d).Nodup) :
    (keys (aupdate d e)).Nodup := by
  unfold aupdate
  induction e generalizing d with
  | nil => simpa using hd
  | cons a r ih => exact ih _ (nodup_keys_aset d a.1 a.2 hd)

/-- when the keys of `e` are distinct, `d.update(e)` looks a key up in `e` first -/
theorem aget_aupdate (d e : List (κ × β)) (k : κ) (he : (keys e).Nodup) :
    aget (aupdate d e) k = match aget e k with
      | some v => some v
      | none => aget d k := by
  unfold aupdate
  induction e generalizing d with
  | nil => simp
  | cons a r ih =>
    obtain ⟨k0, w⟩ := a
    simp only [keys, List.map_cons, List.nodup_cons] at he
    simp only [List.foldl_cons]
    rw [ih _ he.2]
    by_cases h : k0 = k
    · subst h
      have : aget r k0 = none := (aget_none_iff r k0).2 he.1
      simp [aget_cons, this, aget_aset_same]
    · have hk : k ≠ k0 := fun e => h e.symm
      simp only [aget_cons, h, if_false]
      cases aget r k with
      | some v => rfl
      | none => simp [aget_aset_ne _ _ _ _ hk]

theorem aget_map_val {γ : Type} (d : List (κ × β)) (f : β → γ) (k : κ) :
    aget (d.map (fun kv => (kv.1, f kv.2))) k = (aget d k).map f := by
  induction d with
  | nil => simp
  | cons a r ih =>
    obtain ⟨k0, w⟩ := a
    by_cases h : k0 = k <;> simp [aget_cons, h, ih]

theorem keys_map_val {γ : Type} (d : List (κ × β)) (f : β → γ) :
    keys (d.map (fun kv => (kv.1, f kv.2))) = keys d := by
  simp [keys, List.map_map, Function.comp_def]

theorem aget_mem (d : List (κ × β)) (k : κ) (v : β) (h : aget d k = some v) : (k, v) ∈ d := by
  induction d with
  | nil => simp at h
  | cons a r ih =>
    obtain ⟨k0, w⟩ := a
    by_cases hk : k0 = k
    · simp [aget_cons, hk] at h; subst hk; subst h; simp
    · simp [aget_cons, hk] at h; exact List.mem_cons_of_mem _ (ih h)

theorem aget_of_mem_nodup (d : List (κ × β)) (k : κ) (v : β) (hm : (k, v) ∈ d) (hn : (keys d).Nodup) :
    aget d k = some v := by
  induction d with
  | nil => simp at hm
  | cons a r ih =>
    obtain ⟨k0, w⟩ := a
    simp only [keys, List.map_cons, List.nodup_cons] at hn
    rcases List.mem_cons.1 hm with h | h
    · cases h; simp [aget_cons]
    · have : k0 ≠ k := by
        intro e; subst e
        exact hn.1 (List.mem_map.2 ⟨(k0, v), h, rfl⟩)
      simp [aget_cons, this]; exact ih h hn.2

end alist

/-! ### `upd` -/
@[simp] theorem upd_same {β : Type} (f : Nat → Option β) (i : Nat) (v : β) : upd f i v i = some v := by
  simp [upd]
theorem upd_ne {β : Type} (f : Nat → Option β) (i j : Nat) (v : β) (h : j ≠ i) : upd f i v j = f j := by
  simp [upd, h]
theorem upd_apply {β : Type} (f : Nat → Option β) (i j : Nat) (v : β) :
    upd f i v j = if j = i then some v else f j := rfl


/-! ### tensors: reads, in-place writes, frames -/

/-- tensor ids of a parameter list -/
def ids (ps : List (String × ObjId)) : List ObjId := ps.map Prod.snd

/-- names and shapes of a `state_dict` -/
def shapesOf (sd : SD) : List (String × Shape) := sd.map (fun e => (e.1, e.2.1))

theorem setTok_tens (h : Heap) (id : ObjId) (tok : Tok) (j : ObjId) :
    (h.setTok id tok).tens j = if j = id then (h.tens id).map (fun x => (x.1, tok)) else h.tens j := by
  unfold Heap.setTok
  cases hx : h.tens id with
  | none => by_cases hj : j = id <;> simp [hj, hx]
  | some x => by_cases hj : j = id <;> simp [hj, upd_apply]

@[simp] theorem setTok_nets (h : Heap) (id : ObjId) (tok : Tok) : (h.setTok id tok).nets = h.nets := by
  unfold Heap.setTok; cases h.tens id <;> rfl
@[simp] theorem setTok_dicts (h : Heap) (id : ObjId) (tok : Tok) : (h.setTok id tok).dicts = h.dicts := by
  unfold Heap.setTok; cases h.tens id <;> rfl
@[simp] theorem setTok_next (h : Heap) (id : ObjId) (tok : Tok) : (h.setTok id tok).next = h.next := by
  unfold Heap.setTok; cases h.tens id <;> rfl

/-- `h'` arises from `h` by in-place writes into tensors among `S` only: same objects, same shapes. -/
structure Touches (h h' : Heap) (S : List ObjId) : Prop where
  nets : h'.nets = h.nets
  dicts : h'.dicts = h.dicts
  next : h'.next = h.next
  shape : ∀ i, (h'.tens i).map Prod.fst = (h.tens i).map Prod.fst
  frame : ∀ i, i ∉ S → h'.tens i = h.tens i

theorem Touches.refl (h : Heap) (S : List ObjId) : Touches h h S :=
  ⟨rfl, rfl, rfl, fun _ => rfl, fun _ _ => rfl⟩

theorem Touches.trans {h h' h'' : Heap} {S T U : List ObjId} (a : Touches h h' S) (b : Touches h' h'' T)
    (hS : ∀ x ∈ S, x ∈ U) (hT : ∀ x ∈ T, x ∈ U) : Touches h h'' U :=
  ⟨b.nets.trans a.nets, b.dicts.trans a.dicts, b.next.trans a.next,
   fun i => (b.shape i).trans (a.shape i),
   fun i hi => (b.frame i (fun m => hi (hT i m))).trans (a.frame i (fun m => hi (hS i m)))⟩

theorem Touches.mono {h h' : Heap} {S U : List ObjId} (a : Touches h h' S) (hS : ∀ x ∈ S, x ∈ U) :
    Touches h h' U :=
  ⟨a.nets, a.dicts, a.next, a.shape, fun i hi => a.frame i (fun m => hi (hS i m))⟩

theorem touches_setTok (h : Heap) (id : ObjId) (tok : Tok) : Touches h (h.setTok id tok) [id] := by
  refine ⟨by simp, by simp, by simp, ?_, ?_⟩
  · intro i
    rw [setTok_tens]
    by_cases hi : i = id
    · subst hi; simp [Option.map_map, Function.comp_def]
    · simp [hi]
  · intro i hi
    rw [setTok_tens]
    have : i ≠ id := by simpa using hi
    simp [this]

theorem readT_shape (h : Heap) (i : ObjId) : (h.readT i).1 = ((h.tens i).map Prod.fst).getD [] := by
  unfold Heap.readT; cases h.tens i <;> rfl

theorem Touches.readT_shape {h h' : Heap} {S : List ObjId} (a : Touches h h' S) (i : ObjId) :
    (h'.readT i).1 = (h.readT i).1 := by
  rw [QV.Store.readT_shape, QV.Store.readT_shape, a.shape]

theorem Touches.readT_frame {h h' : Heap} {S : List ObjId} (a : Touches h h' S) (i : ObjId) (hi : i ∉ S) :
    h'.readT i = h.readT i := by
  unfold Heap.readT; rw [a.frame i hi]

theorem Touches.isSome {h h' : Heap} {S : List ObjId} (a : Touches h h' S) (i : ObjId) :
    (h'.tens i).isSome = (h.tens i).isSome := by
  have := a.shape i
  cases h1 : h'.tens i <;> cases h2 : h.tens i <;> simp [h1, h2] at this ⊢

theorem viewParams_frame {h h' : Heap} {S : List ObjId} (a : Touches h h' S) (ps : List (String × ObjId))
    (hd : ∀ x ∈ ids ps, x ∉ S) : viewParams h' ps = viewParams h ps := by
  unfold viewParams
  apply List.map_congr_left
  intro p hp
  rw [a.readT_frame p.2 (hd p.2 (List.mem_map.2 ⟨p, hp, rfl⟩))]

theorem shapesOf_viewParams_touches {h h' : Heap} {S : List ObjId} (a : Touches h h' S)
    (ps : List (String × ObjId)) : shapesOf (viewParams h' ps) = shapesOf (viewParams h ps) := by
  unfold shapesOf viewParams
  simp only [List.map_map]
  apply List.map_congr_left
  intro p _
  simp [a.readT_shape]

theorem readT_setTok_same (h : Heap) (id : ObjId) (tok : Tok) (hs : (h.tens id).isSome) :
    (h.setTok id tok).readT id = ((h.readT id).1, tok) := by
  unfold Heap.readT
  rw [setTok_tens]
  cases hx : h.tens id with
  | none => simp [hx] at hs
  | some x => simp


/-! ### write-like operations only touch the parameters they are given -/

theorem touches_writeParams (h : Heap) (ps : List (String × ObjId)) (toks : List Tok) :
    Touches h (writeParams h ps toks) (ids ps) := by
  induction ps generalizing h toks with
  | nil => simpa [writeParams] using Touches.refl h _
  | cons p r ih =>
    obtain ⟨nm, id⟩ := p
    cases toks with
    | nil => simpa [writeParams] using Touches.refl h _
    | cons t ts =>
      simp only [writeParams]
      refine Touches.trans (touches_setTok h id t) (ih (h.setTok id t) ts) ?_ ?_
      · intro x hx; simp at hx; subst hx; simp [ids]
      · intro x hx; simp only [ids, List.map_cons, List.mem_cons]; exact Or.inr hx

theorem touches_trainParams (h : Heap) (fz : Bool) (ps : List (String × ObjId)) (toks : List Tok) :
    Touches h (trainParams h fz ps toks) (ids ps) := by
  induction ps generalizing h toks with
  | nil => simpa [trainParams] using Touches.refl h _
  | cons p r ih =>
    obtain ⟨nm, id⟩ := p
    cases toks with
    | nil => simpa [trainParams] using Touches.refl h _
    | cons t ts =>
      simp only [trainParams]
      split
      · exact (ih h ts).mono (fun x hx => by simp only [ids, List.map_cons, List.mem_cons]; exact Or.inr hx)
      · refine Touches.trans (touches_setTok h id t) (ih (h.setTok id t) ts) ?_ ?_
        · intro x hx; simp at hx; subst hx; simp [ids]
        · intro x hx; simp only [ids, List.map_cons, List.mem_cons]; exact Or.inr hx

theorem touches_copyParams (h : Heap) (sd : SD) (ps : List (String × ObjId)) :
    Touches h (copyParams h sd ps).1 (ids ps) := by
  induction ps generalizing h with
  | nil => simpa [copyParams] using Touches.refl h _
  | cons p r ih =>
    obtain ⟨nm, id⟩ := p
    have hr : ∀ h0 : Heap, Touches h0 (copyParams h0 sd r).1 (ids ((nm, id) :: r)) := fun h0 =>
      (ih h0).mono (fun x hx => by simp only [ids, List.map_cons, List.mem_cons]; exact Or.inr hx)
    simp only [copyParams]
    split
    · split
      · refine Touches.trans (touches_setTok h id _) (ih (h.setTok id _)) ?_ ?_
        · intro x hx; simp at hx; subst hx; simp [ids]
        · intro x hx; simp only [ids, List.map_cons, List.mem_cons]; exact Or.inr hx
      · exact hr h
    · exact hr h

theorem touches_writeNet (h : Heap) (id : ObjId) (toks : List Tok) (net : Net) (hn : h.nets id = some net) :
    Touches h (writeNet h id toks) (ids net.params) := by
  simp [writeNet, hn, touches_writeParams]

theorem touches_loadStateDict (h : Heap) (net : Net) (v : FVal) :
    Touches h (loadStateDict h net v).1 (ids net.params) := by
  unfold loadStateDict
  split
  · exact Touches.refl _ _
  · exact Touches.refl _ _
  · exact Touches.refl _ _
  · exact touches_copyParams h _ net.params

/-- all tensor ids reachable from a list of (name, network id) pairs -/
def netsIds (h : Heap) (nets : List (String × ObjId)) : List ObjId :=
  nets.flatMap (fun p => match h.nets p.2 with
    | some net => ids net.params
    | none => [])

theorem netsIds_touches {h h' : Heap} {S : List ObjId} (a : Touches h h' S) (nets : List (String × ObjId)) :
    netsIds h' nets = netsIds h nets := by
  unfold netsIds; rw [a.nets]

theorem touches_loadNets (h : Heap) (file : File) (nets : List (String × ObjId)) :
    Touches h (loadNets h file nets).1 (netsIds h nets) := by
  induction nets generalizing h with
  | nil => simpa [loadNets] using Touches.refl h _
  | cons p r ih =>
    obtain ⟨nm, id⟩ := p
    simp only [loadNets]
    cases hv : aget file (.str nm) with
    | none => exact Touches.refl _ _
    | some v =>
      cases hnet : h.nets id with
      | none => exact Touches.refl _ _
      | some net =>
        simp only []
        have h1 := touches_loadStateDict h net v
        have hsub : ∀ x ∈ ids net.params, x ∈ netsIds h ((nm, id) :: r) := by
          intro x hx; simp [netsIds, hnet]; exact Or.inl hx
        cases he : (loadStateDict h net v).2 with
        | some e => exact h1.mono hsub
        | none =>
          simp only []
          refine Touches.trans h1 (ih _) hsub ?_
          intro x hx
          rw [netsIds_touches h1] at hx
          simp only [netsIds, List.flatMap_cons, List.mem_append]
          exact Or.inr hx

theorem touches_trainNets (h : Heap) (kind : Kind) (nets : List (String × ObjId)) (toks : List (List Tok)) :
    Touches h (trainNets h kind nets toks) (netsIds h nets) := by
  induction nets generalizing h toks with
  | nil => simpa [trainNets] using Touches.refl h _
  | cons p r ih =>
    obtain ⟨nm, id⟩ := p
    simp only [trainNets]
    cases hnet : h.nets id with
    | none =>
      simp only []
      refine (ih h toks.tail).mono ?_
      intro x hx
      simp only [netsIds, List.flatMap_cons, List.mem_append]; exact Or.inr hx
    | some net =>
      simp only []
      have h1 := touches_trainParams h (kind == .dens && nm == "rbm_ph") net.params (toks.headD [])
      refine Touches.trans h1 (ih _ toks.tail) ?_ ?_
      · intro x hx; simp [netsIds, hnet]; exact Or.inl hx
      · intro x hx
        rw [netsIds_touches h1] at hx
        simp only [netsIds, List.flatMap_cons, List.mem_append]; exact Or.inr hx


/-! ### allocation -/

theorem allocTensors_nets (h : Heap) (specs : SD) : (allocTensors h specs).1.nets = h.nets := by
  induction specs generalizing h with
  | nil => rfl
  | cons e r ih => obtain ⟨nm, sh, t⟩ := e; simp only [allocTensors]; rw [ih]

theorem allocTensors_dicts (h : Heap) (specs : SD) : (allocTensors h specs).1.dicts = h.dicts := by
  induction specs generalizing h with
  | nil => rfl
  | cons e r ih => obtain ⟨nm, sh, t⟩ := e; simp only [allocTensors]; rw [ih]

theorem allocTensors_next (h : Heap) (specs : SD) : (allocTensors h specs).1.next = h.next + specs.length := by
  induction specs generalizing h with
  | nil => rfl
  | cons e r ih =>
    obtain ⟨nm, sh, t⟩ := e
    simp only [allocTensors]
    rw [ih]
    dsimp only
    simp only [List.length_cons]
    omega

/-- tensors outside the freshly allocated range are untouched -/
theorem allocTensors_frame (h : Heap) (specs : SD) (i : ObjId) (hi : i < h.next ∨ h.next + specs.length ≤ i) :
    (allocTensors h specs).1.tens i = h.tens i := by
  induction specs generalizing h with
  | nil => rfl
  | cons e r ih =>
    obtain ⟨nm, sh, t⟩ := e
    simp only [allocTensors]
    simp only [List.length_cons] at hi
    rw [ih]
    · show upd h.tens h.next (sh, t) i = h.tens i
      rw [upd_ne]; omega
    · dsimp only; omega

theorem allocTensors_ids (h : Heap) (specs : SD) :
    ids (allocTensors h specs).2 = List.range' h.next specs.length := by
  induction specs generalizing h with
  | nil => rfl
  | cons e r ih =>
    obtain ⟨nm, sh, t⟩ := e
    simp only [allocTensors, ids, List.map_cons, List.length_cons, List.range'_succ]
    congr 1
    exact ih _

theorem allocTensors_view (h : Heap) (specs : SD) :
    viewParams (allocTensors h specs).1 (allocTensors h specs).2 = specs := by
  induction specs generalizing h with
  | nil => rfl
  | cons e r ih =>
    obtain ⟨nm, sh, t⟩ := e
    simp only [allocTensors, viewParams, List.map_cons]
    congr 1
    · have : (allocTensors { h with tens := upd h.tens h.next (sh, t), next := h.next + 1 } r).1.tens h.next
          = some (sh, t) := by
        rw [allocTensors_frame _ _ _ (Or.inl (by simp))]; simp
      simp [Heap.readT, this]
    · exact ih _

theorem mem_ids_alloc (h : Heap) (specs : SD) (x : ObjId) :
    x ∈ ids (allocTensors h specs).2 ↔ h.next ≤ x ∧ x < h.next + specs.length := by
  rw [allocTensors_ids, List.mem_range'_1]

theorem allocTensors_isSome (h : Heap) (specs : SD) (x : ObjId) (hx : x ∈ ids (allocTensors h specs).2) :
    ((allocTensors h specs).1.tens x).isSome := by
  induction specs generalizing h with
  | nil => simp [allocTensors, ids] at hx
  | cons e r ih =>
    obtain ⟨nm, sh, t⟩ := e
    simp only [allocTensors, ids, List.map_cons, List.mem_cons] at hx ⊢
    rcases hx with hx | hx
    · subst hx
      rw [allocTensors_frame _ _ _ (Or.inl (by simp))]; simp
    · exact ih _ hx

theorem allocTensors_nodup (h : Heap) (specs : SD) : (ids (allocTensors h specs).2).Nodup := by
  rw [allocTensors_ids]; exact List.nodup_range'

theorem shapesOf_paramSpecs (k : NetKind) (nv nh na : Nat) (rand : List Tok) :
    shapesOf (paramSpecs k nv nh na rand) = shapesOf (paramSpecs k nv nh na []) := by
  cases k <;> rfl

/-! ### the heap invariant -/

/-- Well-formed heaps: ids at or above the allocation counter are unused; every parameter of every
network object is an allocated tensor; within a network object and across different network objects the
parameter tensors are pairwise different objects; parameter shapes agree with the size attributes;
dict objects have distinct keys. -/
structure HeapWF (h : Heap) : Prop where
  tens_lt : ∀ i, h.next ≤ i → h.tens i = none
  nets_lt : ∀ i, h.next ≤ i → h.nets i = none
  alloc : ∀ i net, h.nets i = some net → ∀ x ∈ ids net.params, (h.tens x).isSome
  nodup : ∀ i net, h.nets i = some net → (ids net.params).Nodup
  disj : ∀ i j ni nj, h.nets i = some ni → h.nets j = some nj → i ≠ j →
    ∀ x ∈ ids ni.params, x ∉ ids nj.params
  shapes : ∀ i net, h.nets i = some net →
    shapesOf (viewParams h net.params) = shapesOf (paramSpecs net.kind net.nv net.nh net.na [])
  dkeys : ∀ i d, h.dicts i = some d → (keys d).Nodup

theorem HeapWF.empty : HeapWF Heap.empty :=
  ⟨fun _ _ => rfl, fun _ _ => rfl, fun _ _ h => by simp [Heap.empty] at h, fun _ _ h => by simp [Heap.empty] at h,
   fun _ _ _ _ h => by simp [Heap.empty] at h, fun _ _ h => by simp [Heap.empty] at h,
   fun _ _ h => by simp [Heap.empty] at h⟩

theorem HeapWF.lt_of_isSome {h : Heap} (wf : HeapWF h) (x : ObjId) (hx : (h.tens x).isSome) : x < h.next := by
  refine Nat.lt_of_not_le (fun hc => ?_)
  have := wf.tens_lt x hc
  simp [this] at hx

theorem HeapWF.net_lt {h : Heap} (wf : HeapWF h) (i : ObjId) (hx : (h.nets i).isSome) : i < h.next := by
  refine Nat.lt_of_not_le (fun hc => ?_)
  have := wf.nets_lt i hc
  simp [this] at hx

theorem HeapWF.touches {h h' : Heap} {S : List ObjId} (wf : HeapWF h) (a : Touches h h' S) : HeapWF h' := by
  refine ⟨?_, ?_, ?_, ?_, ?_, ?_, ?_⟩
  · intro i hi
    rw [a.next] at hi
    have h1 := wf.tens_lt i hi
    have h2 := a.isSome i
    rw [h1] at h2
    simpa using h2
  · intro i hi; rw [a.nets]; rw [a.next] at hi; exact wf.nets_lt i hi
  · intro i net hn x hx; rw [a.nets] at hn; rw [a.isSome]; exact wf.alloc i net hn x hx
  · intro i net hn; rw [a.nets] at hn; exact wf.nodup i net hn
  · intro i j ni nj hi hj; rw [a.nets] at hi hj; exact wf.disj i j ni nj hi hj
  · intro i net hn; rw [a.nets] at hn; rw [shapesOf_viewParams_touches a]; exact wf.shapes i net hn
  · intro i d hd; rw [a.dicts] at hd; exact wf.dkeys i d hd

/-- allocating a network object with fresh parameter tensors -/
theorem HeapWF.allocNet {h : Heap} (wf : HeapWF h) (k : NetKind) (nv nh na : Nat) (specs : SD)
    (hs : shapesOf specs = shapesOf (paramSpecs k nv nh na [])) :
    HeapWF (allocNet h k nv nh na specs).1 := by
  have hnext := allocTensors_next h specs
  have hnets := allocTensors_nets h specs
  have hdicts := allocTensors_dicts h specs
  have hfr := allocTensors_frame h specs
  have hsome := allocTensors_isSome h specs
  have hnd := allocTensors_nodup h specs
  have hmem := mem_ids_alloc h specs
  have hview := allocTensors_view h specs
  unfold QV.Store.allocNet
  generalize allocTensors h specs = r at *
  obtain ⟨h1, ps⟩ := r
  dsimp only at hnext hnets hdicts hfr hsome hnd hmem hview ⊢
  refine ⟨?_, ?_, ?_, ?_, ?_, ?_, ?_⟩
  · intro i hi
    dsimp only at hi ⊢
    rw [hfr i (Or.inr (by omega))]
    exact wf.tens_lt i (by omega)
  · intro i hi
    dsimp only at hi ⊢
    rw [upd_ne _ _ _ _ (by omega), hnets]
    exact wf.nets_lt i (by omega)
  · intro i net hn x hx
    dsimp only at hn ⊢
    by_cases hi : i = h1.next
    · subst hi
      simp only [upd_same, Option.some.injEq] at hn
      subst hn
      exact hsome x hx
    · rw [upd_ne _ _ _ _ hi, hnets] at hn
      have hx' := wf.alloc i net hn x hx
      rw [hfr x (Or.inl (wf.lt_of_isSome x hx'))]
      exact hx'
  · intro i net hn
    dsimp only at hn
    by_cases hi : i = h1.next
    · subst hi
      simp only [upd_same, Option.some.injEq] at hn
      subst hn
      exact hnd
    · rw [upd_ne _ _ _ _ hi, hnets] at hn
      exact wf.nodup i net hn
  · intro i j ni nj hi hj hij x hx
    dsimp only at hi hj
    by_cases hi' : i = h1.next
    · subst hi'
      have hj' : j ≠ h1.next := fun e => hij e.symm
      simp only [upd_same, Option.some.injEq] at hi
      subst hi
      rw [upd_ne _ _ _ _ hj', hnets] at hj
      intro hx2
      have h3 := wf.lt_of_isSome x (wf.alloc j nj hj x hx2)
      have h4 := (hmem x).1 hx
      omega
    · rw [upd_ne _ _ _ _ hi', hnets] at hi
      by_cases hj' : j = h1.next
      · subst hj'
        simp only [upd_same, Option.some.injEq] at hj
        subst hj
        intro hx2
        have h3 := wf.lt_of_isSome x (wf.alloc i ni hi x hx)
        have h4 := (hmem x).1 hx2
        omega
      · rw [upd_ne _ _ _ _ hj', hnets] at hj
        exact wf.disj i j ni nj hi hj hij x hx
  · intro i net hn
    dsimp only at hn
    by_cases hi : i = h1.next
    · subst hi
      simp only [upd_same, Option.some.injEq] at hn
      subst hn
      show shapesOf (viewParams h1 ps) = _
      rw [hview]; exact hs
    · rw [upd_ne _ _ _ _ hi, hnets] at hn
      rw [← wf.shapes i net hn]
      unfold shapesOf viewParams
      simp only [List.map_map]
      apply List.map_congr_left
      intro p hp
      have hx' := wf.alloc i net hn p.2 (List.mem_map.2 ⟨p, hp, rfl⟩)
      simp [Heap.readT, hfr p.2 (Or.inl (wf.lt_of_isSome p.2 hx'))]
  · intro i d hd
    dsimp only at hd
    rw [hdicts] at hd
    exact wf.dkeys i d hd


/-- what `allocNet` returns: a fresh id holding a network whose parameters are fresh tensors with the
given contents; everything that existed before is untouched. -/
theorem allocNet_spec (h : Heap) (k : NetKind) (nv nh na : Nat) (specs : SD) :
    let r := allocNet h k nv nh na specs
    r.2 = h.next + specs.length ∧ r.1.next = h.next + specs.length + 1 ∧
    (∃ ps, r.1.nets r.2 = some ⟨k, nv, nh, na, ps⟩ ∧ viewParams r.1 ps = specs ∧
        (∀ x, x ∈ ids ps ↔ h.next ≤ x ∧ x < h.next + specs.length)) ∧
    (∀ i, i ≠ r.2 → r.1.nets i = h.nets i) ∧
    (∀ i, i < h.next → r.1.tens i = h.tens i) ∧
    r.1.dicts = h.dicts := by
  have hnext := allocTensors_next h specs
  have hnets := allocTensors_nets h specs
  have hdicts := allocTensors_dicts h specs
  have hfr := allocTensors_frame h specs
  have hmem := mem_ids_alloc h specs
  have hview := allocTensors_view h specs
  unfold QV.Store.allocNet
  generalize allocTensors h specs = r at *
  obtain ⟨h1, ps⟩ := r
  dsimp only at hnext hnets hdicts hfr hmem hview ⊢
  refine ⟨hnext, by omega, ⟨ps, by simp, hview, hmem⟩, ?_, ?_, hdicts⟩
  · intro i hi; rw [upd_ne _ _ _ _ hi, hnets]
  · intro i hi; exact hfr i (Or.inl hi)

theorem viewNet_allocNet (h : Heap) (k : NetKind) (nv nh na : Nat) (specs : SD) :
    viewNet (allocNet h k nv nh na specs).1 (allocNet h k nv nh na specs).2 = specs := by
  obtain ⟨_, _, ⟨ps, hn, hv, _⟩, _⟩ := allocNet_spec h k nv nh na specs
  simp only [viewNet, hn]; exact hv

theorem HeapWF.newNet {h : Heap} (wf : HeapWF h) (k : NetKind) (nv : Nat) (nh na : Option Nat) (rand : List Tok) :
    HeapWF (newNet h k nv nh na rand).1 :=
  wf.allocNet _ _ _ _ _ (shapesOf_paramSpecs _ _ _ _ _)

theorem HeapWF.deepcopyNet {h : Heap} (wf : HeapWF h) (id : Nat) : HeapWF (deepcopyNet h id).1 := by
  unfold QV.Store.deepcopyNet
  cases hn : h.nets id with
  | none => exact wf
  | some net => exact wf.allocNet _ _ _ _ _ (wf.shapes id net hn)

/-- re-initialising a network object: fresh parameter tensors, same object -/
theorem HeapWF.initParams {h : Heap} (wf : HeapWF h) (id : Nat) (rand : List Tok) :
    HeapWF (initParams h id rand) := by
  unfold QV.Store.initParams
  cases hn : h.nets id with
  | none => exact wf
  | some net =>
    dsimp only
    have hnext := allocTensors_next h (paramSpecs net.kind net.nv net.nh net.na rand)
    have hnets := allocTensors_nets h (paramSpecs net.kind net.nv net.nh net.na rand)
    have hdicts := allocTensors_dicts h (paramSpecs net.kind net.nv net.nh net.na rand)
    have hfr := allocTensors_frame h (paramSpecs net.kind net.nv net.nh net.na rand)
    have hsome := allocTensors_isSome h (paramSpecs net.kind net.nv net.nh net.na rand)
    have hnd := allocTensors_nodup h (paramSpecs net.kind net.nv net.nh net.na rand)
    have hmem := mem_ids_alloc h (paramSpecs net.kind net.nv net.nh net.na rand)
    have hview := allocTensors_view h (paramSpecs net.kind net.nv net.nh net.na rand)
    generalize allocTensors h (paramSpecs net.kind net.nv net.nh net.na rand) = r at *
    obtain ⟨h1, ps⟩ := r
    dsimp only at hnext hnets hdicts hfr hsome hnd hmem hview ⊢
    have hid : id < h.next := wf.net_lt id (by simp [hn])
    refine ⟨?_, ?_, ?_, ?_, ?_, ?_, ?_⟩
    · intro i hi
      dsimp only at hi ⊢
      rw [hfr i (Or.inr (by omega))]
      exact wf.tens_lt i (by omega)
    · intro i hi
      dsimp only at hi ⊢
      rw [upd_ne _ _ _ _ (by omega), hnets]
      exact wf.nets_lt i (by omega)
    · intro i n' hn' x hx
      dsimp only at hn' ⊢
      by_cases hi : i = id
      · subst hi
        simp only [upd_same, Option.some.injEq] at hn'
        subst hn'
        exact hsome x hx
      · rw [upd_ne _ _ _ _ hi, hnets] at hn'
        have hx' := wf.alloc i n' hn' x hx
        rw [hfr x (Or.inl (wf.lt_of_isSome x hx'))]
        exact hx'
    · intro i n' hn'
      dsimp only at hn'
      by_cases hi : i = id
      · subst hi
        simp only [upd_same, Option.some.injEq] at hn'
        subst hn'
        exact hnd
      · rw [upd_ne _ _ _ _ hi, hnets] at hn'
        exact wf.nodup i n' hn'
    · intro i j ni nj hi hj hij x hx
      dsimp only at hi hj
      by_cases hi' : i = id
      · subst hi'
        have hj' : j ≠ i := fun e => hij e.symm
        simp only [upd_same, Option.some.injEq] at hi
        subst hi
        rw [upd_ne _ _ _ _ hj', hnets] at hj
        intro hx2
        have h3 := wf.lt_of_isSome x (wf.alloc j nj hj x hx2)
        have h4 := (hmem x).1 hx
        omega
      · rw [upd_ne _ _ _ _ hi', hnets] at hi
        by_cases hj' : j = id
        · subst hj'
          simp only [upd_same, Option.some.injEq] at hj
          subst hj
          intro hx2
          have h3 := wf.lt_of_isSome x (wf.alloc i ni hi x hx)
          have h4 := (hmem x).1 hx2
          omega
        · rw [upd_ne _ _ _ _ hj', hnets] at hj
          exact wf.disj i j ni nj hi hj hij x hx
    · intro i n' hn'
      dsimp only at hn'
      by_cases hi : i = id
      · subst hi
        simp only [upd_same, Option.some.injEq] at hn'
        subst hn'
        show shapesOf (viewParams h1 ps) = _
        rw [hview]; exact shapesOf_paramSpecs _ _ _ _ _
      · rw [upd_ne _ _ _ _ hi, hnets] at hn'
        rw [← wf.shapes i n' hn']
        unfold shapesOf viewParams
        simp only [List.map_map]
        apply List.map_congr_left
        intro p hp
        have hx' := wf.alloc i n' hn' p.2 (List.mem_map.2 ⟨p, hp, rfl⟩)
        simp [Heap.readT, hfr p.2 (Or.inl (wf.lt_of_isSome p.2 hx'))]
    · intro i d hd
      dsimp only at hd
      rw [hdicts] at hd
      exact wf.dkeys i d hd

/-- what `initParams` does to an existing network object -/
theorem initParams_spec (h : Heap) (id : Nat) (rand : List Tok) (net : Net) (hn : h.nets id = some net) :
    let h' := initParams h id rand
    let specs := paramSpecs net.kind net.nv net.nh net.na rand
    h'.next = h.next + specs.length ∧
    (∃ ps, h'.nets id = some { net with params := ps } ∧ viewParams h' ps = specs ∧
        (∀ x, x ∈ ids ps ↔ h.next ≤ x ∧ x < h.next + specs.length)) ∧
    (∀ i, i ≠ id → h'.nets i = h.nets i) ∧
    (∀ i, i < h.next → h'.tens i = h.tens i) ∧
    h'.dicts = h.dicts := by
  unfold QV.Store.initParams
  simp only [hn]
  have hnext := allocTensors_next h (paramSpecs net.kind net.nv net.nh net.na rand)
  have hnets := allocTensors_nets h (paramSpecs net.kind net.nv net.nh net.na rand)
  have hdicts := allocTensors_dicts h (paramSpecs net.kind net.nv net.nh net.na rand)
  have hfr := allocTensors_frame h (paramSpecs net.kind net.nv net.nh net.na rand)
  have hmem := mem_ids_alloc h (paramSpecs net.kind net.nv net.nh net.na rand)
  have hview := allocTensors_view h (paramSpecs net.kind net.nv net.nh net.na rand)
  generalize allocTensors h (paramSpecs net.kind net.nv net.nh net.na rand) = r at *
  obtain ⟨h1, ps⟩ := r
  dsimp only at hnext hnets hdicts hfr hmem hview ⊢
  refine ⟨hnext, ⟨ps, by simp, hview, hmem⟩, ?_, ?_, hdicts⟩
  · intro i hi; rw [upd_ne _ _ _ _ hi, hnets]
  · intro i hi; exact hfr i (Or.inl hi)

/-- network objects are never deallocated -/
def NetsGrow (h h' : Heap) : Prop := ∀ i, (h.nets i).isSome → (h'.nets i).isSome

theorem NetsGrow.refl (h : Heap) : NetsGrow h h := fun _ x => x
theorem NetsGrow.trans {a b c : Heap} (x : NetsGrow a b) (y : NetsGrow b c) : NetsGrow a c :=
  fun i hi => y i (x i hi)
theorem Touches.netsGrow {h h' : Heap} {S : List Nat} (a : Touches h h' S) : NetsGrow h h' := by
  intro i hi; rw [a.nets]; exact hi

theorem netsGrow_allocNet {h : Heap} (wf : HeapWF h) (k : NetKind) (nv nh na : Nat) (specs : SD) :
    NetsGrow h (allocNet h k nv nh na specs).1 := by
  intro i hi
  obtain ⟨hid, _, _, hold, _⟩ := allocNet_spec h k nv nh na specs
  have := wf.net_lt i hi
  rw [hold i (by omega)]; exact hi

theorem netsGrow_initParams (h : Heap) (id : Nat) (rand : List Tok) : NetsGrow h (initParams h id rand) := by
  intro i hi
  cases hn : h.nets id with
  | none => simp [QV.Store.initParams, hn]; exact hi
  | some net =>
    obtain ⟨_, ⟨ps, hnew, _⟩, hold, _⟩ := initParams_spec h id rand net hn
    by_cases h1 : i = id
    · subst h1; simp [hnew]
    · rw [hold i h1]; exact hi


/-! ### the world invariant -/

/-- Well-formed worlds: a well-formed heap; every state's networks are existing, pairwise different
network objects under pairwise different names; module variables point to existing network objects. -/
structure WorldWF (w : World) : Prop where
  heap : HeapWF w.heap
  st_nets : ∀ s st, w.states s = some st → ∀ p ∈ st.nets, (w.heap.nets p.2).isSome
  st_ids : ∀ s st, w.states s = some st → (ids st.nets).Nodup
  st_names : ∀ s st, w.states s = some st → (keys st.nets).Nodup
  mods : ∀ s id, w.modules s = some id → (w.heap.nets id).isSome
  st_noud : ∀ s st, w.states s = some st → ∀ p ∈ st.nets, p.1 ≠ "unitary_dict"

theorem WorldWF.empty : WorldWF World.empty :=
  ⟨HeapWF.empty, fun _ _ h => by simp [World.empty] at h, fun _ _ h => by simp [World.empty] at h,
   fun _ _ h => by simp [World.empty] at h, fun _ _ h => by simp [World.empty] at h,
   fun _ _ h => by simp [World.empty] at h⟩

/-- a state record that may be bound to a caller variable in heap `h` -/
structure StateOK (h : Heap) (st : NState) : Prop where
  nets : ∀ p ∈ st.nets, (h.nets p.2).isSome
  idsNodup : (ids st.nets).Nodup
  names : (keys st.nets).Nodup
  noUD : ∀ p ∈ st.nets, p.1 ≠ "unitary_dict"

theorem StateOK.grow {h h' : Heap} {st : NState} (a : StateOK h st) (g : NetsGrow h h') : StateOK h' st :=
  ⟨fun p hp => g _ (a.nets p hp), a.idsNodup, a.names, a.noUD⟩

theorem WorldWF.stateOK {w : World} (wf : WorldWF w) {s : Nat} {st : NState} (hs : w.states s = some st) :
    StateOK w.heap st := ⟨wf.st_nets s st hs, wf.st_ids s st hs, wf.st_names s st hs, wf.st_noud s st hs⟩

/-- the general shape of a step: a new well-formed heap in which no network disappeared, possibly one
state variable and one module variable rebound, any change to metadata variables and files -/
theorem WorldWF.update {w : World} (wf : WorldWF w) (h' : Heap) (hwf : HeapWF h') (g : NetsGrow w.heap h')
    (states' : Nat → Option NState) (modules' : Nat → Option Nat) (metas' : Nat → Option Nat) (files' : Files)
    (hst : ∀ s st, states' s = some st → w.states s = some st ∨ StateOK h' st)
    (hmod : ∀ s id, modules' s = some id → w.modules s = some id ∨ (h'.nets id).isSome) :
    WorldWF ⟨h', states', modules', metas', files'⟩ := by
  have key : ∀ s st, states' s = some st → StateOK h' st := by
    intro s st hs
    rcases hst s st hs with h1 | h1
    · exact (wf.stateOK h1).grow g
    · exact h1
  refine ⟨hwf, fun s st hs => (key s st hs).nets, fun s st hs => (key s st hs).idsNodup,
    fun s st hs => (key s st hs).names, ?_, fun s st hs => (key s st hs).noUD⟩
  intro s id hm
  rcases hmod s id hm with h1 | h1
  · exact g _ (wf.mods s id h1)
  · exact h1

theorem upd_some_cases {β : Type} (f : Nat → Option β) (i : Nat) (v : β) (s : Nat) (x : β)
    (h : upd f i v s = some x) : f s = some x ∨ x = v := by
  by_cases hs : s = i
  · subst hs; simp at h; exact Or.inr h.symm
  · rw [upd_ne _ _ _ _ hs] at h; exact Or.inl h

/-! ### constructors -/

theorem newNet_eq (h : Heap) (k : NetKind) (nv : Nat) (nh na : Option Nat) (rand : List Tok) :
    newNet h k nv nh na rand = allocNet h k nv (defaultH k nv nh) (defaultA k nv na)
      (paramSpecs k nv (defaultH k nv nh) (defaultA k nv na) rand) := rfl

theorem newNet_facts {h : Heap} (wf : HeapWF h) (k : NetKind) (nv : Nat) (nh na : Option Nat) (rand : List Tok) :
    HeapWF (newNet h k nv nh na rand).1 ∧ NetsGrow h (newNet h k nv nh na rand).1 ∧
    ((newNet h k nv nh na rand).1.nets (newNet h k nv nh na rand).2).isSome ∧
    h.next ≤ (newNet h k nv nh na rand).2 ∧ (newNet h k nv nh na rand).2 < (newNet h k nv nh na rand).1.next := by
  rw [newNet_eq]
  obtain ⟨hid, hnx, ⟨ps, hn, _, _⟩, _⟩ := allocNet_spec h k nv (defaultH k nv nh) (defaultA k nv na)
    (paramSpecs k nv (defaultH k nv nh) (defaultA k nv na) rand)
  refine ⟨wf.allocNet _ _ _ _ _ (shapesOf_paramSpecs _ _ _ _ _), netsGrow_allocNet wf _ _ _ _ _, ?_, ?_, ?_⟩
  · simp [hn]
  · omega
  · omega

theorem deepcopyNet_facts {h : Heap} (wf : HeapWF h) (id : Nat) (net : Net) (hn : h.nets id = some net) :
    let r := deepcopyNet h id
    HeapWF r.1 ∧ NetsGrow h r.1 ∧ (r.1.nets r.2).isSome ∧ h.next ≤ r.2 := by
  have hw := wf.deepcopyNet id
  unfold QV.Store.deepcopyNet at hw ⊢
  simp only [hn] at hw ⊢
  obtain ⟨hid, hnx, ⟨ps, hn2, _, _⟩, _⟩ := allocNet_spec h net.kind net.nv net.nh net.na (viewParams h net.params)
  refine ⟨hw, netsGrow_allocNet wf _ _ _ _ _, by simp [hn2], by omega⟩

theorem constructSizes_facts {h : Heap} (wf : HeapWF h) (kind : Kind) (nv : Nat) (nh na : Option Nat)
    (ud : Option (List (String × Tok))) (rand : List (List Tok)) :
    let r := constructSizes h kind nv nh na ud rand
    HeapWF r.1 ∧ NetsGrow h r.1 ∧ StateOK r.1 r.2 := by
  cases kind with
  | pos =>
    simp only [constructSizes, netKindOf]
    obtain ⟨a1, a2, a3, _, _⟩ := newNet_facts wf .binary nv nh na (rand.getD 0 [])
    refine ⟨a1, a2, ⟨?_, by simp [ids], by simp [keys], by intro p hp; simp at hp; subst hp; dsimp only; decide⟩⟩
    intro p hp; simp at hp; subst hp; exact a3
  | cplx =>
    simp only [constructSizes, netKindOf]
    obtain ⟨a1, a2, a3, a4, a5⟩ := newNet_facts wf .binary nv nh na (rand.getD 0 [])
    obtain ⟨b1, b2, b3, b4, _⟩ := newNet_facts a1 .binary nv nh na (rand.getD 1 [])
    refine ⟨b1, a2.trans b2, ⟨?_, ?_, by simp [keys], by intro p hp; simp at hp; rcases hp with rfl | rfl <;> (dsimp only; decide)⟩⟩
    · intro p hp
      simp at hp
      rcases hp with hp | hp <;> subst hp
      · exact b2 _ a3
      · exact b3
    · simp only [ids, List.map_cons, List.map_nil, List.nodup_cons, List.mem_singleton, List.not_mem_nil,
        not_false_eq_true, List.nodup_nil, and_true]
      omega
  | dens =>
    simp only [constructSizes, netKindOf]
    obtain ⟨a1, a2, a3, a4, a5⟩ := newNet_facts wf .purif nv nh na (rand.getD 0 [])
    obtain ⟨b1, b2, b3, b4, _⟩ := newNet_facts a1 .purif nv nh na (rand.getD 1 [])
    refine ⟨b1, a2.trans b2, ⟨?_, ?_, by simp [keys], by intro p hp; simp at hp; rcases hp with rfl | rfl <;> (dsimp only; decide)⟩⟩
    · intro p hp
      simp at hp
      rcases hp with hp | hp <;> subst hp
      · exact b2 _ a3
      · exact b3
    · simp only [ids, List.map_cons, List.map_nil, List.nodup_cons, List.mem_singleton, List.not_mem_nil,
        not_false_eq_true, List.nodup_nil, and_true]
      omega

theorem constructFrom_facts {h : Heap} (wf : HeapWF h) (kind : Kind) (mid : Nat)
    (ud : Option (List (String × Tok))) (h' : Heap) (st : NState)
    (hc : constructFrom h kind mid ud = .ok (h', st)) :
    HeapWF h' ∧ NetsGrow h h' ∧ StateOK h' st := by
  unfold constructFrom at hc
  cases hn : h.nets mid with
  | none => simp [hn] at hc
  | some m =>
    simp only [hn] at hc
    have hmid : mid < h.next := wf.net_lt mid (by simp [hn])
    obtain ⟨c1, c2, c3, c4⟩ := deepcopyNet_facts wf mid m hn
    cases kind with
    | pos =>
      simp only [Except.ok.injEq, Prod.mk.injEq] at hc
      obtain ⟨rfl, rfl⟩ := hc
      refine ⟨wf, NetsGrow.refl _, ⟨?_, by simp [ids], by simp [keys], by intro p hp; simp at hp; subst hp; dsimp only; decide⟩⟩
      intro p hp; simp at hp; subst hp; simp [hn]
    | cplx =>
      simp only [Except.ok.injEq, Prod.mk.injEq] at hc
      obtain ⟨rfl, rfl⟩ := hc
      refine ⟨c1, c2, ⟨?_, ?_, by simp [keys], by intro p hp; simp at hp; rcases hp with rfl | rfl <;> (dsimp only; decide)⟩⟩
      · intro p hp
        simp at hp
        rcases hp with hp | hp <;> subst hp
        · exact c2 _ (by simp [hn])
        · exact c3
      · simp only [ids, List.map_cons, List.map_nil, List.nodup_cons, List.mem_singleton, List.not_mem_nil,
          not_false_eq_true, List.nodup_nil, and_true]
        omega
    | dens =>
      cases hk : m.kind with
      | binary => simp [hk] at hc
      | purif =>
        simp only [hk, Except.ok.injEq, Prod.mk.injEq] at hc
        obtain ⟨rfl, rfl⟩ := hc
        refine ⟨c1, c2, ⟨?_, ?_, by simp [keys], by intro p hp; simp at hp; rcases hp with rfl | rfl <;> (dsimp only; decide)⟩⟩
        · intro p hp
          simp at hp
          rcases hp with hp | hp <;> subst hp
          · exact c2 _ (by simp [hn])
          · exact c3
        · simp only [ids, List.map_cons, List.map_nil, List.nodup_cons, List.mem_singleton, List.not_mem_nil,
            not_false_eq_true, List.nodup_nil, and_true]
          omega

theorem reinit_facts {h : Heap} (wf : HeapWF h) (nets : List (String × Nat)) (rand : List (List Tok)) :
    HeapWF (reinit h nets rand) ∧ NetsGrow h (reinit h nets rand) := by
  induction nets generalizing h rand with
  | nil => exact ⟨wf, NetsGrow.refl _⟩
  | cons p r ih =>
    obtain ⟨nm, id⟩ := p
    simp only [reinit]
    obtain ⟨a, b⟩ := ih (wf.initParams id (rand.headD [])) rand.tail
    exact ⟨a, (netsGrow_initParams h id _).trans b⟩


/-! ### save never changes the heap -/

/-- the file `save` writes -/
def savedFile (h : Heap) (st : NState) (e0 : MDict) : File :=
  pickle h (aupdate (stateDicts h st.nets) ((saveMeta st e0).map (fun kv => (kv.1, DVal.val kv.2))))

/-- `save` in closed form -/
theorem save_eq (h : Heap) (fs : Files) (st : NState) (md : Option Nat) (path : Nat) :
    save h fs st md path =
      if st.ud.isSome && ahas (mdEntries h md) (.str "unitary_dict") then .error .ValueError
      else if st.nets.any (fun p => ahas (saveMeta st (mdEntries h md)) (.str p.1)) then .error .ValueError
      else if (saveMeta st (mdEntries h md)).any (fun kv => !isStrKey kv.1) then .error .TypeError
      else .ok (upd fs path (savedFile h st (mdEntries h md)), h) := by
  unfold save saveWith
  simp only [Bool.true_or, if_true, savedFile]
  cases hud : st.ud <;> rfl

theorem save_heap (h : Heap) (fs : Files) (st : NState) (md : Option Nat) (path : Nat)
    (fs' : Files) (h' : Heap) (hs : save h fs st md path = .ok (fs', h')) : h' = h := by
  rw [save_eq] at hs
  split at hs
  · simp at hs
  · split at hs
    · simp at hs
    · split at hs
      · simp at hs
      · simp only [Except.ok.injEq, Prod.mk.injEq] at hs; exact hs.2.symm

theorem fit_ok (h : Heap) (st : NState) (bases : Bool) (toks : List (List Tok)) (h' : Heap)
    (hf : fit h st bases toks = .ok h') : h' = trainNets h st.kind st.nets toks := by
  unfold fit at hf
  split at hf
  · simp at hf
  · simp only [Except.ok.injEq] at hf; exact hf.symm

theorem mkDict_nodup (es : MDict) : (keys (mkDict es)).Nodup :=
  nodup_keys_aupdate [] es (by simp [keys])

/-- allocating a dict object -/
theorem HeapWF.allocDict {h : Heap} (wf : HeapWF h) (d : MDict) (hd : (keys d).Nodup) :
    HeapWF { h with dicts := upd h.dicts h.next d, next := h.next + 1 } := by
  refine ⟨?_, ?_, wf.alloc, wf.nodup, wf.disj, wf.shapes, ?_⟩
  · intro i hi; exact wf.tens_lt i (by dsimp only at hi; omega)
  · intro i hi; exact wf.nets_lt i (by dsimp only at hi; omega)
  · intro i d' hd'
    dsimp only at hd'
    rcases upd_some_cases _ _ _ _ _ hd' with h1 | h1
    · exact wf.dkeys i d' h1
    · subst h1; exact hd

theorem saverSave_facts {h : Heap} (wf : HeapWF h) (fs : Files) (st : NState) (sm : SaverMeta) (mo : Bool)
    (path : Nat) (fs' : Files) (h' : Heap) (hd : ∀ es, sm = .callable es → (keys es).Nodup)
    (hs : saverSave h fs st sm mo path = .ok (fs', h')) : HeapWF h' ∧ h'.nets = h.nets := by
  unfold saverSave at hs
  cases sm with
  | absent =>
    dsimp only at hs
    cases mo with
    | true => simp at hs; obtain ⟨_, rfl⟩ := hs; exact ⟨wf, rfl⟩
    | false =>
      simp only [Bool.false_eq_true, if_false] at hs
      have := save_heap _ _ _ _ _ _ _ hs; subst this; exact ⟨wf, rfl⟩
  | dict id =>
    dsimp only at hs
    cases mo with
    | true => simp at hs; obtain ⟨_, rfl⟩ := hs; exact ⟨wf, rfl⟩
    | false =>
      simp only [Bool.false_eq_true, if_false] at hs
      have := save_heap _ _ _ _ _ _ _ hs; subst this; exact ⟨wf, rfl⟩
  | callable es =>
    dsimp only at hs
    have w2 := wf.allocDict es (hd es rfl)
    cases mo with
    | true => simp at hs; obtain ⟨_, rfl⟩ := hs; exact ⟨w2, rfl⟩
    | false =>
      simp only [Bool.false_eq_true, if_false] at hs
      have := save_heap _ _ _ _ _ _ _ hs; subst this; exact ⟨w2, rfl⟩

/-! ### every operation preserves the invariant -/

theorem load_facts (h : Heap) (fs : Files) (st : NState) (path : Nat) :
    Touches h (load h fs st path).1 (netsIds h st.nets) ∧ (load h fs st path).2.1.nets = st.nets := by
  unfold load
  cases hf : fs path with
  | none => exact ⟨Touches.refl _ _, rfl⟩
  | some file =>
    dsimp only
    have t := touches_loadNets h file st.nets
    cases he : (loadNets h file st.nets).2 with
    | some e => exact ⟨t, rfl⟩
    | none =>
      dsimp only
      cases hu : st.ud with
      | none => exact ⟨t, rfl⟩
      | some u =>
        cases hg : aget file (.str "unitary_dict") with
        | none => exact ⟨t, rfl⟩
        | some v => exact ⟨t, rfl⟩

theorem autoload_facts {h : Heap} (wf : HeapWF h) (fs : Files) (kind : Kind) (path : Nat) (rand : List (List Tok))
    (h' : Heap) (st : NState) (ha : autoload h fs kind path rand = .ok (h', st)) :
    HeapWF h' ∧ NetsGrow h h' ∧ StateOK h' st := by
  unfold autoload at ha
  cases hf : fs path with
  | none => simp [hf] at ha
  | some file =>
    simp only [hf] at ha
    cases hargs : autoloadArgs file kind with
    | error e => simp [hargs] at ha
    | ok args =>
      obtain ⟨ud, nv, nh, na⟩ := args
      simp only [hargs] at ha
      obtain ⟨c1, c2, c3⟩ := constructSizes_facts wf kind nv (some nh) na ud rand
      obtain ⟨t, hn⟩ := load_facts (constructSizes h kind nv (some nh) na ud rand).1 fs
        (constructSizes h kind nv (some nh) na ud rand).2 path
      cases he : (load (constructSizes h kind nv (some nh) na ud rand).1 fs
          (constructSizes h kind nv (some nh) na ud rand).2 path).2.2 with
      | some e => simp [he] at ha
      | none =>
        simp only [he, Except.ok.injEq, Prod.mk.injEq] at ha
        obtain ⟨rfl, rfl⟩ := ha
        refine ⟨c1.touches t, c2.trans t.netsGrow, ?_⟩
        have := c3.grow t.netsGrow
        exact ⟨by rw [hn]; exact this.nets, by rw [hn]; exact this.idsNodup, by rw [hn]; exact this.names, by rw [hn]; exact this.noUD⟩

theorem step_wf (w : World) (wf : WorldWF w) (op : Op) : WorldWF (step w op).1 := by
  have keep : ∀ (h' : Heap) (files' : Files), HeapWF h' → NetsGrow w.heap h' →
      WorldWF ⟨h', w.states, w.modules, w.metas, files'⟩ := fun h' files' a b =>
    wf.update h' a b _ _ _ _ (fun _ _ hs => Or.inl hs) (fun _ _ hm => Or.inl hm)
  cases op with
  | construct slot kind nv nh na ud rand =>
    obtain ⟨a, b, c⟩ := constructSizes_facts wf.heap kind nv nh na ud rand
    simp only [step]
    refine wf.update _ a b _ _ _ _ ?_ (fun _ _ hm => Or.inl hm)
    intro s st hs
    rcases upd_some_cases _ _ _ _ _ hs with h1 | h1
    · exact Or.inl h1
    · subst h1; exact Or.inr c
  | mkModule mslot k nv nh na zw rand =>
    obtain ⟨a, b, c, _, _⟩ := newNet_facts wf.heap k nv nh na (weightToks zw rand)
    simp only [step]
    refine wf.update _ a b _ _ _ _ (fun _ _ hs => Or.inl hs) ?_
    intro s id hm
    rcases upd_some_cases _ _ _ _ _ hm with h1 | h1
    · exact Or.inl h1
    · subst h1; exact Or.inr c
  | initModule mslot zw rand =>
    simp only [step]
    cases hm : w.modules mslot with
    | none => exact wf
    | some id =>
      exact keep _ _ (wf.heap.initParams id _) (netsGrow_initParams w.heap id _)
  | constructFrom slot kind mslot ud =>
    simp only [step]
    cases hm : w.modules mslot with
    | none => exact wf
    | some mid =>
      dsimp only
      cases hc : constructFrom w.heap kind mid ud with
      | error e => exact wf
      | ok r =>
        obtain ⟨h', st⟩ := r
        obtain ⟨a, b, c⟩ := constructFrom_facts wf.heap kind mid ud h' st hc
        dsimp only
        refine wf.update _ a b _ _ _ _ ?_ (fun _ _ hm => Or.inl hm)
        intro s st' hs
        rcases upd_some_cases _ _ _ _ _ hs with h1 | h1
        · exact Or.inl h1
        · subst h1; exact Or.inr c
  | write slot net toks =>
    simp only [step]
    cases hs : w.states slot with
    | none => exact wf
    | some st =>
      dsimp only
      cases hg : aget st.nets net with
      | none => exact wf
      | some id =>
        dsimp only
        cases hn : w.heap.nets id with
        | none => simp only [writeNet, hn]; exact wf
        | some n =>
          have t := touches_writeNet w.heap id toks n hn
          exact keep _ _ (wf.heap.touches t) t.netsGrow
  | writeModule mslot toks =>
    simp only [step]
    cases hm : w.modules mslot with
    | none => exact wf
    | some id =>
      dsimp only
      cases hn : w.heap.nets id with
      | none => simp only [writeNet, hn]; exact wf
      | some n =>
        have t := touches_writeNet w.heap id toks n hn
        exact keep _ _ (wf.heap.touches t) t.netsGrow
  | train slot bases toks =>
    simp only [step]
    cases hs : w.states slot with
    | none => exact wf
    | some st =>
      dsimp only
      cases hf : fit w.heap st bases toks with
      | error e => exact wf
      | ok h' =>
        have := fit_ok _ _ _ _ _ hf
        subst this
        have t := touches_trainNets w.heap st.kind st.nets toks
        exact keep _ _ (wf.heap.touches t) t.netsGrow
  | reinit slot rand =>
    simp only [step]
    cases hs : w.states slot with
    | none => exact wf
    | some st =>
      obtain ⟨a, b⟩ := reinit_facts wf.heap st.nets rand
      exact keep _ _ a b
  | addUnitary slot name tok =>
    simp only [step]
    cases hs : w.states slot with
    | none => exact wf
    | some st =>
      dsimp only
      cases hu : st.ud with
      | none => exact wf
      | some u =>
        cases u with
        | sd _ => exact wf
        | mv _ _ => exact wf
        | ud d =>
          dsimp only
          refine wf.update _ wf.heap (NetsGrow.refl _) _ _ _ _ ?_ (fun _ _ hm => Or.inl hm)
          intro s st' hs'
          rcases upd_some_cases _ _ _ _ _ hs' with h1 | h1
          · exact Or.inl h1
          · subst h1
            have := wf.stateOK hs
            exact Or.inr ⟨this.nets, this.idsNodup, this.names, this.noUD⟩
  | mkMeta mdslot entries =>
    simp only [step]
    exact wf.update _ (wf.heap.allocDict _ (mkDict_nodup entries)) (fun i hi => hi) _ _ _ _
      (fun _ _ hs => Or.inl hs) (fun _ _ hm => Or.inl hm)
  | save slot md path =>
    simp only [step]
    cases hs : w.states slot with
    | none => exact wf
    | some st =>
      dsimp only
      split
      · exact wf
      · split
        · exact wf
        · rename_i r hsv
          have := save_heap _ _ _ _ _ _ _ hsv
          dsimp only
          rw [this]
          exact keep _ _ wf.heap (NetsGrow.refl _)
  | saverSave slot src mo path =>
    simp only [step]
    cases hs : w.states slot with
    | none => exact wf
    | some st =>
      dsimp only
      split
      · exact wf
      · rename_i sm hsm
        split
        · exact wf
        · rename_i r hsv
          have hd : ∀ es, sm = .callable es → (keys es).Nodup := by
            intro es he
            subst he
            cases src with
            | absent => simp at hsm
            | dict s => dsimp only at hsm; split at hsm <;> simp at hsm
            | callable es' =>
              simp only [Except.ok.injEq, SaverMeta.callable.injEq] at hsm
              subst hsm; exact mkDict_nodup es'
          obtain ⟨a, b⟩ := saverSave_facts wf.heap _ _ _ _ _ _ _ hd hsv
          exact keep _ _ a (fun i hi => by rw [b]; exact hi)
  | load slot path =>
    simp only [step]
    cases hs : w.states slot with
    | none => exact wf
    | some st =>
      dsimp only
      obtain ⟨t, hn⟩ := load_facts w.heap w.files st path
      refine wf.update _ (wf.heap.touches t) t.netsGrow _ _ _ _ ?_ (fun _ _ hm => Or.inl hm)
      intro s st' hs'
      rcases upd_some_cases _ _ _ _ _ hs' with h1 | h1
      · exact Or.inl h1
      · subst h1
        have := (wf.stateOK hs).grow t.netsGrow
        exact Or.inr ⟨by rw [hn]; exact this.nets, by rw [hn]; exact this.idsNodup, by rw [hn]; exact this.names, by rw [hn]; exact this.noUD⟩
  | autoload slot kind path rand =>
    simp only [step]
    cases ha : autoload w.heap w.files kind path rand with
    | error e => exact wf
    | ok r =>
      obtain ⟨h', st⟩ := r
      obtain ⟨a, b, c⟩ := autoload_facts wf.heap _ _ _ _ _ _ ha
      dsimp only
      refine wf.update _ a b _ _ _ _ ?_ (fun _ _ hm => Or.inl hm)
      intro s st' hs'
      rcases upd_some_cases _ _ _ _ _ hs' with h1 | h1
      · exact Or.inl h1
      · subst h1; exact Or.inr c

theorem run_wf (w : World) (wf : WorldWF w) (ops : List Op) : WorldWF (run w ops) := by
  induction ops generalizing w with
  | nil => exact wf
  | cons op r ih => exact ih _ (step_wf w wf op)

end QV.Store
