/-
QV.Lemmas.Store — helper lemmas about the heap model `QV.Model.Store`:
association lists, frame properties of the heap primitives, the well-formedness invariant and its
preservation by every operation of the history machine.
-/
import QV.Model.Store

namespace QV.Store

/-! ### association lists -/
section alist
variable {κ β : Type} [DecidableEq κ]

@[simp] theorem aget_nil (k : κ) : aget ([] : List (κ × β)) k = none := rfl

theorem aget_cons (k x : κ) (v : β) (r : List (κ × β)) :
    aget ((k, v) :: r) x = if k = x then some v else aget r x := rfl

theorem aget_aset_same (d : List (κ × β)) (k : κ) (v : β) : aget (aset d k v) k = some v := by
  induction d with
  | nil => simp [aset, aget_cons]
  | cons a r ih =>
    obtain ⟨k', w⟩ := a
    by_cases h : k' = k
    · simp [aset, h, aget_cons]
    · simp [aset, h, aget_cons, ih]

theorem aget_aset_ne (d : List (κ × β)) (k k' : κ) (v : β) (hne : k' ≠ k) :
    aget (aset d k v) k' = aget d k' := by
  induction d with
  | nil => simp [aset, aget_cons, Ne.symm hne]
  | cons a r ih =>
    obtain ⟨k0, w⟩ := a
    by_cases h : k0 = k
    · subst h; simp [aset, aget_cons, Ne.symm hne]
    · by_cases h2 : k0 = k'
      · subst h2; simp [aset, h, aget_cons]
      · simp [aset, h, aget_cons, h2, ih]

theorem aget_aset (d : List (κ × β)) (k k' : κ) (v : β) :
    aget (aset d k v) k' = if k' = k then some v else aget d k' := by
  by_cases h : k' = k
  · subst h; simp [aget_aset_same]
  · simp [h, aget_aset_ne _ _ _ _ h]

/-- keys of an association list -/
def keys (d : List (κ × β)) : List κ := d.map Prod.fst

theorem aget_none_iff (d : List (κ × β)) (k : κ) : aget d k = none ↔ k ∉ keys d := by
  induction d with
  | nil => simp [keys]
  | cons a r ih =>
    obtain ⟨k0, w⟩ := a
    by_cases h : k0 = k
    · simp [aget_cons, h, keys]
    · have : ¬ k = k0 := fun e => h e.symm
      simp [aget_cons, h, keys, this] at ih ⊢
      exact ih

theorem ahas_iff (d : List (κ × β)) (k : κ) : ahas d k = true ↔ k ∈ keys d := by
  unfold ahas
  rw [Option.isSome_iff_ne_none, Ne, aget_none_iff]
  simp

theorem keys_aset (d : List (κ × β)) (k : κ) (v : β) :
    keys (aset d k v) = if k ∈ keys d then keys d else keys d ++ [k] := by
  induction d with
  | nil => simp [aset, keys]
  | cons a r ih =>
    obtain ⟨k0, w⟩ := a
    by_cases h : k0 = k
    · simp [aset, h, keys]
    · have hk : ¬ k = k0 := fun e => h e.symm
      simp only [keys] at ih
      by_cases hm : k ∈ List.map Prod.fst r
      · simp [aset, h, keys, hk, hm, ih]
      · simp [aset, h, keys, hk, hm, ih]

theorem nodup_keys_aset (d : List (κ × β)) (k : κ) (v : β) (hd : (keys d).Nodup) :
    (keys (aset d k v)).Nodup := by
  rw [keys_aset]
  by_cases hm : k ∈ keys d
  · simp [hm, hd]
  · simp only [hm, if_false]
    rw [List.nodup_append]
    refine ⟨hd, by simp, ?_⟩
    intro a ha b hb
    simp at hb
    subst hb
    intro e; subst e; exact hm ha

theorem nodup_keys_aupdate (d e : List (κ × β)) (hd : (keys d).Nodup) :
    (keys (aupdate d e)).Nodup := by
  unfold aupdate
  induction e generalizing d with
  | nil => simpa using hd
  | cons a r ih => exact ih _ (nodup_keys_aset d a.1 a.2 hd)

/-- when the keys of `e` are distinct, `d.update(e)` looks a key up in `e` first -/
theorem aget_aupdate (d e : List (κ × β)) (k : κ) (he : (keys e).Nodup) :
    aget (aupdate d e) k = match aget e k with
      | some v => some v
      | none => aget d k := by
  unfold aupdate
  induction e generalizing d with
  | nil => simp
  | cons a r ih =>
    obtain ⟨k0, w⟩ := a
    simp only [keys, List.map_cons, List.nodup_cons] at he
    simp only [List.foldl_cons]
    rw [ih _ he.2]
    by_cases h : k0 = k
    · subst h
      have : aget r k0 = none := (aget_none_iff r k0).2 he.1
      simp [aget_cons, this, aget_aset_same]
    · have hk : k ≠ k0 := fun e => h e.symm
      simp only [aget_cons, h, if_false]
      cases aget r k with
      | some v => rfl
      | none => simp [aget_aset_ne _ _ _ _ hk]

theorem aget_map_val {γ : Type} (d : List (κ × β)) (f : β → γ) (k : κ) :
    aget (d.map (fun kv => (kv.1, f kv.2))) k = (aget d k).map f := by
  induction d with
  | nil => simp
  | cons a r ih =>
    obtain ⟨k0, w⟩ := a
    by_cases h : k0 = k <;> simp [aget_cons, h, ih]

theorem keys_map_val {γ : Type} (d : List (κ × β)) (f : β → γ) :
    keys (d.map (fun kv => (kv.1, f kv.2))) = keys d := by
  simp [keys, List.map_map, Function.comp_def]

theorem aget_mem (d : List (κ × β)) (k : κ) (v : β) (h : aget d k = some v) : (k, v) ∈ d := by
  induction d with
  | nil => simp at h
  | cons a r ih =>
    obtain ⟨k0, w⟩ := a
    by_cases hk : k0 = k
    · simp [aget_cons, hk] at h; subst hk; subst h; simp
    · simp [aget_cons, hk] at h; exact List.mem_cons_of_mem _ (ih h)

theorem aget_of_mem_nodup (d : List (κ × β)) (k : κ) (v : β) (hm : (k, v) ∈ d) (hn : (keys d).Nodup) :
    aget d k = some v := by
  induction d with
  | nil => simp at hm
  | cons a r ih =>
    obtain ⟨k0, w⟩ := a
    simp only [keys, List.map_cons, List.nodup_cons] at hn
    rcases List.mem_cons.1 hm with h | h
    · cases h; simp [aget_cons]
    · have : k0 ≠ k := by
        intro e; subst e
        exact hn.1 (List.mem_map.2 ⟨(k0, v), h, rfl⟩)
      simp [aget_cons, this]; exact ih h hn.2

end alist

/-! ### `upd` -/
@[simp] theorem upd_same {β : Type} (f : Nat → Option β) (i : Nat) (v : β) : upd f i v i = some v := by
  simp [upd]
theorem upd_ne {β : Type} (f : Nat → Option β) (i j : Nat) (v : β) (h : j ≠ i) : upd f i v j = f j := by
  simp [upd, h]
theorem upd_apply {β : Type} (f : Nat → Option β) (i j : Nat) (v : β) :
    upd f i v j = if j = i then some v else f j := rfl

end QV.Store
