/-
QV.Lemmas.Stats — helper lemmas for C13: list sums over ℝ, the `collect` traversal, structure of the sampling
schedule `draws`, the projection of `System.statistics`' fold onto one observable, and the name-keyed dictionary of `System.__init__`.
-/
import Mathlib.Algebra.BigOperators.Group.List.Basic
import Mathlib.Data.Real.Basic
import Mathlib.Data.List.Basic
import Mathlib.Data.List.Nodup
import Mathlib.Tactic.Ring
import Mathlib.Tactic.Linarith
import QV.Real
import QV.Model.Stats

set_option linter.unusedSectionVars false

namespace QV.Stats

/-! ### sums -/

theorem foldl_add_eq_sum (xs : List ℝ) (a : ℝ) : xs.foldl (fun acc x => acc + x) a = a + xs.sum := by
  induction xs generalizing a with
  | nil => simp
  | cons x xs ih => rw [List.foldl_cons, ih, List.sum_cons, add_assoc]

@[simp] theorem sumList_eq_sum (xs : List ℝ) : sumList xs = xs.sum := by
  simp [sumList, foldl_add_eq_sum]

/-- `Σ (x-μ)(x-μ) = Σ x·x − 2μ Σ x + n μ²` for every `μ` -/
theorem sum_sq_sub (xs : List ℝ) (μ : ℝ) :
    (xs.map (fun x => (x - μ) * (x - μ))).sum
      = (xs.map (fun x => x * x)).sum - 2 * μ * xs.sum + (xs.length : ℝ) * (μ * μ) := by
  induction xs with
  | nil => simp
  | cons x xs ih =>
    simp only [List.map_cons, List.sum_cons, List.length_cons, ih]
    push_cast
    ring

/-! ### `collect` -/

theorem collect_map_ok {β γ : Type} (l : List γ) (g : γ → Except PyErr β) (h : γ → β)
    (H : ∀ x ∈ l, g x = .ok (h x)) : collect (l.map g) = .ok (l.map h) := by
  induction l with
  | nil => rfl
  | cons x xs ih =>
    have hx := H x (List.mem_cons_self ..)
    have hxs := ih (fun y hy => H y (List.mem_cons_of_mem _ hy))
    simp [collect, hx, hxs]

section generic
variable {α : Type} [Add α] [Mul α] [Neg α] [Sub α] [Div α] [Zero α] [One α] [Transc α]

theorem fromSamples_of_ne_nil (xs : List α) (h : xs ≠ []) : fromSamples xs = .ok (statOf xs) := by
  cases xs with
  | nil => contradiction
  | cons x xs => rfl

/-- the third component of `_update_statistics` is always `len_a + len_b` -/
theorem updateStatistics_len (avgA : α) (varA : Option α) (lenA : Nat) (avgB : α) (varB : Option α) (lenB : Nat) :
    (updateStatistics avgA varA lenA avgB varB lenB).2.2 = lenA + lenB := by
  unfold updateStatistics
  split
  · rename_i h
    simp only [Bool.and_eq_true, beq_iff_eq] at h
    simp [h.1, h.2]
  · rfl

theorem sysFold_total (c : Nat) (rows : List (List (Stat α))) (accs : List (α × Option α)) (total : Nat) :
    (rows.foldl (sysStep c) (accs, total)).2 = total + rows.length * c := by
  induction rows generalizing accs total with
  | nil => simp
  | cons r rows ih =>
    simp only [List.foldl_cons, List.length_cons]
    rw [show sysStep c (accs, total) r = (sysInner c total accs r, total + c) from rfl, ih]
    ring

/-! ### `System.statistics`' fold, projected on observable `j` -/

theorem sysFold_proj {φ δ : Type} (c : Nat) (fs : List φ) (F : φ → δ → Stat α) (ds : List δ)
    (accs : List (α × Option α)) (total : Nat) (hlen : accs.length = fs.length) (j : Nat) (hj : j < fs.length) :
    let r := (ds.map (fun d => fs.map (fun f => F f d))).foldl (sysStep c) (accs, total)
    let q := (ds.map (fun d => F fs[j] d)).foldl (accStep c)
      ((accs[j]'(hlen ▸ hj)).1, (accs[j]'(hlen ▸ hj)).2, total)
    r.2 = total + ds.length * c ∧ q.2.2 = total + ds.length * c ∧ r.1.length = fs.length
      ∧ r.1[j]? = some (q.1, q.2.1) := by
  induction ds generalizing accs total with
  | nil =>
    simp only [List.map_nil, List.foldl_nil, List.length_nil, Nat.zero_mul, Nat.add_zero, true_and]
    exact ⟨hlen, by simp [List.getElem?_eq_getElem (hlen ▸ hj)]⟩
  | cons d ds ih =>
    simp only [List.map_cons, List.foldl_cons]
    have hj' : j < accs.length := hlen ▸ hj
    -- the state after one draw
    have hlen' : (sysInner c total accs (fs.map (fun f => F f d))).length = fs.length := by
      simp [sysInner, hlen]
    have hstep : sysStep c (accs, total) (fs.map (fun f => F f d))
        = (sysInner c total accs (fs.map (fun f => F f d)), total + c) := rfl
    have hj'' : j < (sysInner c total accs (fs.map (fun f => F f d))).length := hlen' ▸ hj
    have hget : (sysInner c total accs (fs.map (fun f => F f d)))[j]'hj''
        = ((updateStatistics accs[j].1 accs[j].2 total (F fs[j] d).mean (F fs[j] d).variance c).1,
           (updateStatistics accs[j].1 accs[j].2 total (F fs[j] d).mean (F fs[j] d).variance c).2.1) := by
      simp [sysInner]
    have hacc : accStep c (accs[j].1, accs[j].2, total) (F fs[j] d)
        = (((sysInner c total accs (fs.map (fun f => F f d)))[j]'hj'').1,
           ((sysInner c total accs (fs.map (fun f => F f d)))[j]'hj'').2, total + c) := by
      rw [hget]
      have h3 := updateStatistics_len accs[j].1 accs[j].2 total (F fs[j] d).mean (F fs[j] d).variance c
      simp only [accStep]
      rw [← h3]
    rw [hstep, hacc]
    have := ih (sysInner c total accs (fs.map (fun f => F f d))) (total + c) hlen'
    simp only [List.length_cons]
    obtain ⟨h1, h2, h3, h4⟩ := this
    refine ⟨by rw [h1]; ring, by rw [h2]; ring, h3, h4⟩

end generic

/-! ### the sampling schedule -/

section schedule
variable {σ : Type}

theorem draws_length (env : Env σ) (c b s : Nat) (rem i : Nat) (ch : Option σ) :
    (draws env c b s rem i ch).length = rem := by
  induction rem generalizing i ch with
  | zero => rfl
  | succ n ih => simp [draws, ih]

/-- after the first iteration every call uses `steps` -/
theorem draws_k_later (env : Env σ) (c b s : Nat) (rem i : Nat) (hi : i ≠ 0) (ch : Option σ) :
    (draws env c b s rem i ch).map (fun d => d.1.k) = List.replicate rem s := by
  induction rem generalizing i ch with
  | zero => rfl
  | succ n ih =>
    simp only [draws, List.map_cons, List.replicate_succ]
    rw [ih (i + 1) (by omega)]
    simp [gibbsK, hi]

/-- if the starting `chains` object is not the object `u` and the sampler only returns `u` when handed `u`, no call of
the loop receives `u` and no drawn state is `u` -/
theorem draws_untouched (env : Env σ) (ident : σ → Nat) (u : σ) (c burnIn steps T i : Nat) (ch : Option σ)
    (hsamp : ∀ j call, ident (env.samp j call) = ident u → ∃ s, call.init = some s ∧ ident s = ident u)
    (hch : ∀ s, ch = some s → ident s ≠ ident u) :
    ∀ d ∈ draws env c burnIn steps T i ch, (∀ s, d.1.init = some s → ident s ≠ ident u) ∧ ident d.2 ≠ ident u := by
  induction T generalizing i ch with
  | zero => intro d hd; simp [draws] at hd
  | succ n ih =>
    intro d hd
    simp only [draws, List.mem_cons] at hd
    have hst : ident (env.samp i ⟨c, gibbsK burnIn steps i, ch, true⟩) ≠ ident u := by
      intro heq
      obtain ⟨s, hs, hs'⟩ := hsamp _ _ heq
      exact hch s hs hs'
    rcases hd with rfl | hd
    · exact ⟨fun s hs => hch s hs, hst⟩
    · exact ih (i + 1) _ (fun s hs => by cases hs; exact hst) d hd

end schedule
/-! ### `System.__init__`: the insertion-ordered dictionary keyed by name -/

section dict
variable {κ β : Type} [BEq κ] [LawfulBEq κ]

theorem any_key_iff (d : List (κ × β)) (k : κ) : d.any (fun e => e.1 == k) = true ↔ k ∈ d.map (·.1) := by
  simp only [List.any_eq_true, List.mem_map, beq_iff_eq]

theorem dictSet_keys (d : List (κ × β)) (k : κ) (v : β) :
    (dictSet d k v).map (·.1) = if k ∈ d.map (·.1) then d.map (·.1) else d.map (·.1) ++ [k] := by
  unfold dictSet
  by_cases h : k ∈ d.map (·.1)
  · rw [if_pos ((any_key_iff d k).mpr h), if_pos h, List.map_map]
    refine List.map_congr_left (fun e _ => ?_)
    simp only [Function.comp]
    split <;> rfl
  · have : ¬ d.any (fun e => e.1 == k) = true := fun h' => h ((any_key_iff d k).mp h')
    rw [if_neg this, if_neg h]; simp

theorem lookup_map_replace (d : List (κ × β)) (k n : κ) (v : β) :
    (d.map (fun e => if e.1 == k then (e.1, v) else e)).lookup n
      = if n == k then (if d.any (fun e => e.1 == k) then some v else none) else d.lookup n := by
  induction d with
  | nil => simp
  | cons e es ih =>
    obtain ⟨ek, ev⟩ := e
    simp only [List.map_cons, List.any_cons]
    by_cases hek : ek = k
    · subst hek
      by_cases hn : n = ek
      · subst hn; simp
      · have : (n == ek) = false := by simpa using hn
        simp only [beq_self_eq_true, if_true, List.lookup_cons, this, ih, Bool.false_eq_true, if_false]
    · have hek' : (ek == k) = false := by simpa using hek
      by_cases hn : n = k
      · subst hn
        have : (n == ek) = false := by simpa using (fun h => hek h.symm)
        simp only [hek', Bool.false_eq_true, if_false, List.lookup_cons, this, ih, beq_self_eq_true, if_true, Bool.false_or]
      · have hn' : (n == k) = false := by simpa using hn
        simp only [hek', Bool.false_eq_true, if_false, List.lookup_cons, ih, hn']

theorem dictSet_lookup (d : List (κ × β)) (k n : κ) (v : β) :
    (dictSet d k v).lookup n = if n == k then some v else d.lookup n := by
  unfold dictSet
  by_cases h : d.any (fun e => e.1 == k) = true
  · rw [if_pos h, lookup_map_replace, if_pos h]
  · rw [if_neg h, List.lookup_append]
    by_cases hn : n = k
    · subst hn
      have : d.lookup n = none := by
        rw [List.lookup_eq_none_iff]
        intro p hp
        simp only [bne_iff_ne, ne_eq]
        intro hnp
        exact h (List.any_eq_true.mpr ⟨p, hp, by simp [hnp]⟩)
      simp [this]
    · have hn' : (n == k) = false := by simpa using hn
      simp [hn', List.lookup_cons]

theorem systemInit_lookup_aux (obs d : List (κ × β)) (n : κ) :
    (obs.foldl (fun d o => dictSet d o.1 o.2) d).lookup n = (obs.reverse.lookup n).or (d.lookup n) := by
  induction obs generalizing d with
  | nil => simp
  | cons o os ih =>
    rw [List.foldl_cons, ih, dictSet_lookup, List.reverse_cons, List.lookup_append]
    obtain ⟨ok, ov⟩ := o
    cases h1 : os.reverse.lookup n with
    | some x => simp
    | none =>
      simp only [Option.none_or, List.lookup_cons, List.lookup_nil]
      cases h2 : (n == ok) <;> simp

/-- the entry stored under a name is the LAST observable given with that name -/
theorem systemInit_lookup (obs : List (κ × β)) (n : κ) : (systemInit obs).lookup n = obs.reverse.lookup n := by
  simp [systemInit, systemInit_lookup_aux]

theorem systemInit_keys_aux (obs d : List (κ × β)) :
    (obs.foldl (fun d o => dictSet d o.1 o.2) d).map (·.1)
      = (obs.map (·.1)).foldl (fun ks k => if k ∈ ks then ks else ks ++ [k]) (d.map (·.1)) := by
  induction obs generalizing d with
  | nil => rfl
  | cons o os ih => rw [List.foldl_cons, ih, dictSet_keys]; rfl


/-- the names in order of first occurrence (the key order of `{obs.name: obs for obs in observables}`) -/
def firstOcc : List κ → List κ
  | [] => []
  | x :: xs => x :: (firstOcc xs).filter (fun y => !(y == x))

theorem mem_firstOcc (xs : List κ) (y : κ) : y ∈ firstOcc xs ↔ y ∈ xs := by
  induction xs with
  | nil => simp [firstOcc]
  | cons x xs ih =>
    simp only [firstOcc, List.mem_cons, List.mem_filter, ih, Bool.not_eq_true', beq_eq_false_iff_ne]
    by_cases h : y = x <;> simp [h]

theorem firstOcc_nodup (xs : List κ) : (firstOcc xs).Nodup := by
  induction xs with
  | nil => simp [firstOcc]
  | cons x xs ih =>
    simp only [firstOcc, List.nodup_cons, List.mem_filter, beq_self_eq_true, Bool.not_true, Bool.false_eq_true,
      and_false, not_false_eq_true, true_and]
    exact ih.filter _

theorem firstOcc_of_nodup (xs : List κ) (h : xs.Nodup) : firstOcc xs = xs := by
  induction xs with
  | nil => rfl
  | cons x xs ih =>
    rw [List.nodup_cons] at h
    simp only [firstOcc, ih h.2]
    congr 1
    rw [List.filter_eq_self]
    intro y hy
    simp only [Bool.not_eq_true', beq_eq_false_iff_ne]
    rintro rfl; exact h.1 hy

theorem keyFold_eq (names ks : List κ) :
    names.foldl (fun ks k => if k ∈ ks then ks else ks ++ [k]) ks
      = ks ++ (firstOcc names).filter (fun y => !(ks.contains y)) := by
  induction names generalizing ks with
  | nil => simp [firstOcc]
  | cons x xs ih =>
    rw [List.foldl_cons, ih]
    by_cases hx : x ∈ ks
    · rw [if_pos hx]
      congr 1
      have hc : ks.contains x = true := by simpa using hx
      simp only [firstOcc, List.filter_cons, hc, Bool.not_true, Bool.false_eq_true, if_false, List.filter_filter]
      refine List.filter_congr (fun y _ => ?_)
      by_cases hy : y = x
      · subst hy; simp [hx]
      · simp [hy]
    · rw [if_neg hx]
      have hc : ks.contains x = false := by simpa using hx
      simp only [firstOcc, List.filter_cons, hc, Bool.not_false, if_true, List.filter_filter, List.append_assoc,
        List.singleton_append]
      congr 2
      refine List.filter_congr (fun y _ => ?_)
      by_cases hy : y = x
      · subst hy; simp
      · simp [hy]

/-- the dictionary's keys are the names in order of first occurrence -/
theorem systemInit_keys (obs : List (κ × β)) : (systemInit obs).map (·.1) = firstOcc (obs.map (·.1)) := by
  simp [systemInit, systemInit_keys_aux, keyFold_eq]

theorem mem_dictSet (d : List (κ × β)) (k : κ) (v : β) (e : κ × β) (h : e ∈ dictSet d k v) : e ∈ d ∨ e = (k, v) := by
  unfold dictSet at h
  split at h
  · obtain ⟨e', he', rfl⟩ := List.mem_map.mp h
    by_cases hk : e'.1 == k
    · right; simp only [hk, if_true]; rw [beq_iff_eq.mp hk]
    · left; simpa [hk] using he'
  · rcases List.mem_append.mp h with h | h
    · exact Or.inl h
    · exact Or.inr (by simpa using h)

theorem mem_systemInit_aux (obs d : List (κ × β)) (e : κ × β)
    (h : e ∈ obs.foldl (fun d o => dictSet d o.1 o.2) d) : e ∈ d ∨ e ∈ obs := by
  induction obs generalizing d with
  | nil => exact Or.inl h
  | cons o os ih =>
    rcases ih _ h with h | h
    · rcases mem_dictSet d o.1 o.2 e h with h | h
      · exact Or.inl h
      · exact Or.inr (by rw [h]; exact List.mem_cons_self ..)
    · exact Or.inr (List.mem_cons_of_mem _ h)

/-- every dictionary entry is one of the given observables (under its own name) -/
theorem mem_systemInit (obs : List (κ × β)) (e : κ × β) (h : e ∈ systemInit obs) : e ∈ obs := by
  rcases mem_systemInit_aux obs [] e h with h | h
  · cases h
  · exact h

theorem systemInit_of_nodup_aux (obs d : List (κ × β)) (h : ((d ++ obs).map (·.1)).Nodup) :
    obs.foldl (fun d o => dictSet d o.1 o.2) d = d ++ obs := by
  induction obs generalizing d with
  | nil => simp
  | cons o os ih =>
    have hnot : ¬ d.any (fun e => e.1 == o.1) = true := by
      rw [any_key_iff]
      intro hmem
      simp only [List.map_append, List.map_cons] at h
      have := (List.nodup_append.mp h).2.2 _ hmem _ (List.mem_cons_self ..)
      exact this rfl
    rw [List.foldl_cons, show dictSet d o.1 o.2 = d ++ [o] by simp [dictSet, hnot], ih]
    · simp
    · simpa using h

/-- with pairwise different names nothing is merged: the dictionary is the given list -/
theorem systemInit_of_nodup (obs : List (κ × β)) (h : (obs.map (·.1)).Nodup) : systemInit obs = obs := by
  simpa [systemInit] using systemInit_of_nodup_aux obs [] (by simpa using h)

theorem lookup_of_nodup (l : List (κ × β)) (h : (l.map (·.1)).Nodup) (e : κ × β) (he : e ∈ l) :
    l.lookup e.1 = some e.2 := by
  induction l with
  | nil => cases he
  | cons p ps ih =>
    obtain ⟨pk, pv⟩ := p
    simp only [List.map_cons, List.nodup_cons] at h
    rcases List.mem_cons.mp he with rfl | he'
    · simp
    · have hne : (e.1 == pk) = false := by
        simp only [beq_eq_false_iff_ne, ne_eq]
        rintro rfl
        exact h.1 (List.mem_map.mpr ⟨e, he', rfl⟩)
      simp only [List.lookup_cons, hne]
      exact ih h.2 he'

theorem lookup_map_snd {γ : Type} (l : List (κ × β)) (g : κ × β → γ) (n : κ) :
    (l.map (fun e => (e.1, g e))).lookup n = (l.find? (fun e => n == e.1)).map g := by
  induction l with
  | nil => rfl
  | cons p ps ih =>
    simp only [List.map_cons, List.lookup_cons, List.find?_cons]
    cases h : (n == p.1) <;> simp [ih]

theorem lookup_zip_at {γ : Type} (k₁ k₂ : List κ) (n : κ) (hn : n ∉ k₁) (ss : List γ) (s : γ)
    (hs : ss[k₁.length]? = some s) : ((k₁ ++ n :: k₂).zip ss).lookup n = some s := by
  induction k₁ generalizing ss with
  | nil =>
    cases ss with
    | nil => simp at hs
    | cons t ts => simp at hs; simp [hs]
  | cons k ks ih =>
    cases ss with
    | nil => simp at hs
    | cons t ts =>
      have hne : (n == k) = false := by
        simp only [beq_eq_false_iff_ne, ne_eq]
        rintro rfl; exact hn (List.mem_cons_self ..)
      simp only [List.cons_append, List.zip_cons_cons, List.lookup_cons, hne]
      exact ih (fun h => hn (List.mem_cons_of_mem _ h)) ts (by simpa using hs)

end dict
end QV.Stats
