/-
QV.Lemmas.Stats — helper lemmas for C13: list sums over ℝ, the `collect` traversal, structure of the sampling
schedule `draws`, and the projection of `System.statistics`' fold onto one observable.
-/
import Mathlib.Algebra.BigOperators.Group.List.Basic
import Mathlib.Data.Real.Basic
import Mathlib.Tactic.Ring
import Mathlib.Tactic.Linarith
import QV.Real
import QV.Model.Stats

set_option linter.unusedSectionVars false

namespace QV.Stats

/-! ### sums -/

theorem foldl_add_eq_sum (xs : List ℝ) (a : ℝ) : xs.foldl (fun acc x => acc + x) a = a + xs.sum := by
  induction xs generalizing a with
  | nil => simp
  | cons x xs ih => rw [List.foldl_cons, ih, List.sum_cons, add_assoc]

@[simp] theorem sumList_eq_sum (xs : List ℝ) : sumList xs = xs.sum := by
  simp [sumList, foldl_add_eq_sum]

/-- `Σ (x-μ)(x-μ) = Σ x·x − 2μ Σ x + n μ²` for every `μ` -/
theorem sum_sq_sub (xs : List ℝ) (μ : ℝ) :
    (xs.map (fun x => (x - μ) * (x - μ))).sum
      = (xs.map (fun x => x * x)).sum - 2 * μ * xs.sum + (xs.length : ℝ) * (μ * μ) := by
  induction xs with
  | nil => simp
  | cons x xs ih =>
    simp only [List.map_cons, List.sum_cons, List.length_cons, ih]
    push_cast
    ring

/-! ### `collect` -/

theorem collect_map_ok {β γ : Type} (l : List γ) (g : γ → Except PyErr β) (h : γ → β)
    (H : ∀ x ∈ l, g x = .ok (h x)) : collect (l.map g) = .ok (l.map h) := by
  induction l with
  | nil => rfl
  | cons x xs ih =>
    have hx := H x (List.mem_cons_self ..)
    have hxs := ih (fun y hy => H y (List.mem_cons_of_mem _ hy))
    simp [collect, hx, hxs]

section generic
variable {α : Type} [Add α] [Mul α] [Neg α] [Sub α] [Div α] [Zero α] [One α] [Transc α]

theorem fromSamples_of_ne_nil (xs : List α) (h : xs ≠ []) : fromSamples xs = .ok (statOf xs) := by
  cases xs with
  | nil => contradiction
  | cons x xs => rfl

/-- the third component of `_update_statistics` is always `len_a + len_b` -/
theorem updateStatistics_len (avgA : α) (varA : Option α) (lenA : Nat) (avgB : α) (varB : Option α) (lenB : Nat) :
    (updateStatistics avgA varA lenA avgB varB lenB).2.2 = lenA + lenB := by
  unfold updateStatistics
  split
  · rename_i h
    simp only [Bool.and_eq_true, beq_iff_eq] at h
    simp [h.1, h.2]
  · rfl

theorem sysFold_total (c : Nat) (rows : List (List (Stat α))) (accs : List (α × Option α)) (total : Nat) :
    (rows.foldl (sysStep c) (accs, total)).2 = total + rows.length * c := by
  induction rows generalizing accs total with
  | nil => simp
  | cons r rows ih =>
    simp only [List.foldl_cons, List.length_cons]
    rw [show sysStep c (accs, total) r = (sysInner c total accs r, total + c) from rfl, ih]
    ring

/-! ### `System.statistics`' fold, projected on observable `j` -/

theorem sysFold_proj {φ δ : Type} (c : Nat) (fs : List φ) (F : φ → δ → Stat α) (ds : List δ)
    (accs : List (α × Option α)) (total : Nat) (hlen : accs.length = fs.length) (j : Nat) (hj : j < fs.length) :
    let r := (ds.map (fun d => fs.map (fun f => F f d))).foldl (sysStep c) (accs, total)
    let q := (ds.map (fun d => F fs[j] d)).foldl (accStep c)
      ((accs[j]'(hlen ▸ hj)).1, (accs[j]'(hlen ▸ hj)).2, total)
    r.2 = total + ds.length * c ∧ q.2.2 = total + ds.length * c ∧ r.1.length = fs.length
      ∧ r.1[j]? = some (q.1, q.2.1) := by
  induction ds generalizing accs total with
  | nil =>
    simp only [List.map_nil, List.foldl_nil, List.length_nil, Nat.zero_mul, Nat.add_zero, true_and]
    exact ⟨hlen, by simp [List.getElem?_eq_getElem (hlen ▸ hj)]⟩
  | cons d ds ih =>
    simp only [List.map_cons, List.foldl_cons]
    have hj' : j < accs.length := hlen ▸ hj
    -- the state after one draw
    have hlen' : (sysInner c total accs (fs.map (fun f => F f d))).length = fs.length := by
      simp [sysInner, hlen]
    have hstep : sysStep c (accs, total) (fs.map (fun f => F f d))
        = (sysInner c total accs (fs.map (fun f => F f d)), total + c) := rfl
    have hj'' : j < (sysInner c total accs (fs.map (fun f => F f d))).length := hlen' ▸ hj
    have hget : (sysInner c total accs (fs.map (fun f => F f d)))[j]'hj''
        = ((updateStatistics accs[j].1 accs[j].2 total (F fs[j] d).mean (F fs[j] d).variance c).1,
           (updateStatistics accs[j].1 accs[j].2 total (F fs[j] d).mean (F fs[j] d).variance c).2.1) := by
      simp [sysInner]
    have hacc : accStep c (accs[j].1, accs[j].2, total) (F fs[j] d)
        = (((sysInner c total accs (fs.map (fun f => F f d)))[j]'hj'').1,
           ((sysInner c total accs (fs.map (fun f => F f d)))[j]'hj'').2, total + c) := by
      rw [hget]
      have h3 := updateStatistics_len accs[j].1 accs[j].2 total (F fs[j] d).mean (F fs[j] d).variance c
      simp only [accStep]
      rw [← h3]
    rw [hstep, hacc]
    have := ih (sysInner c total accs (fs.map (fun f => F f d))) (total + c) hlen'
    simp only [List.length_cons]
    obtain ⟨h1, h2, h3, h4⟩ := this
    refine ⟨by rw [h1]; ring, by rw [h2]; ring, h3, h4⟩

end generic

/-! ### the sampling schedule -/

section schedule
variable {σ : Type}

theorem draws_length (env : Env σ) (c b s : Nat) (rem i : Nat) (ch : Option σ) :
    (draws env c b s rem i ch).length = rem := by
  induction rem generalizing i ch with
  | zero => rfl
  | succ n ih => simp [draws, ih]

/-- after the first iteration every call uses `steps` -/
theorem draws_k_later (env : Env σ) (c b s : Nat) (rem i : Nat) (hi : i ≠ 0) (ch : Option σ) :
    (draws env c b s rem i ch).map (fun d => d.1.k) = List.replicate rem s := by
  induction rem generalizing i ch with
  | zero => rfl
  | succ n ih =>
    simp only [draws, List.map_cons, List.replicate_succ]
    rw [ih (i + 1) (by omega)]
    simp [gibbsK, hi]

/-- if the starting `chains` object is not the object `u` and the sampler only returns `u` when handed `u`, no call of
the loop receives `u` and no drawn state is `u` -/
theorem draws_untouched (env : Env σ) (ident : σ → Nat) (u : σ) (c burnIn steps T i : Nat) (ch : Option σ)
    (hsamp : ∀ j call, ident (env.samp j call) = ident u → ∃ s, call.init = some s ∧ ident s = ident u)
    (hch : ∀ s, ch = some s → ident s ≠ ident u) :
    ∀ d ∈ draws env c burnIn steps T i ch, (∀ s, d.1.init = some s → ident s ≠ ident u) ∧ ident d.2 ≠ ident u := by
  induction T generalizing i ch with
  | zero => intro d hd; simp [draws] at hd
  | succ n ih =>
    intro d hd
    simp only [draws, List.mem_cons] at hd
    have hst : ident (env.samp i ⟨c, gibbsK burnIn steps i, ch, true⟩) ≠ ident u := by
      intro heq
      obtain ⟨s, hs, hs'⟩ := hsamp _ _ heq
      exact hch s hs hs'
    rcases hd with rfl | hd
    · exact ⟨fun s hs => hch s hs, hst⟩
    · exact ih (i + 1) _ (fun s hs => by cases hs; exact hst) d hd

end schedule
end QV.Stats
