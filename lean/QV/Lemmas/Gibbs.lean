/-
QV.Lemmas.Gibbs — Boltzmann-weight algebra behind the block-Gibbs conditionals:
products of `Bernoulli(sigmoid x_i)` masses, sums of `exp(Σ t_i x_i)` over bit-vectors, closed
forms of `exp(-effEnergy)` for `RBM` / `PRBM`.
-/
import Mathlib.Algebra.BigOperators.Field
import Mathlib.Analysis.SpecialFunctions.Exp
import QV.Lemmas.Prob

namespace QV
open Finset Prog

/-- one factor: `Bern(clamp(σ(x)))(t) = e^{t·x} / (1 + e^x)` -/
theorem bern_sigmoid_factor (x : ℝ) (t : Bool) :
    bern (clamp01 (sigmoid x : ℝ)) t = Real.exp (bit t * x) / (1 + Real.exp x) := by
  rw [clamp01_sigmoid]
  cases t
  · simp [bern, bit, one_sub_sigmoid]
  · simp [bern, bit, sigmoid_eq']

theorem prod_bern_sigmoid (m : ℕ) (x : Fin m → ℝ) (t : Fin m → Bool) :
    ∏ i, bern (clamp01 (sigmoid (x i) : ℝ)) (t i)
      = Real.exp (∑ i, bit (t i) * x i) / ∏ i, (1 + Real.exp (x i)) := by
  simp_rw [bern_sigmoid_factor]
  rw [Finset.prod_div_distrib, Real.exp_sum]

theorem sum_exp_bits (m : ℕ) (x : Fin m → ℝ) :
    ∑ t : Fin m → Bool, Real.exp (∑ i, bit (t i) * x i) = ∏ i, (1 + Real.exp (x i)) := by
  simp_rw [Real.exp_sum]
  rw [← Fintype.prod_sum (fun (i : Fin m) (b : Bool) => Real.exp (bit b * x i))]
  refine Finset.prod_congr rfl (fun i _ => ?_)
  simp [bit]
  ring

theorem prod_one_add_exp_pos (m : ℕ) (x : Fin m → ℝ) : 0 < ∏ i, (1 + Real.exp (x i)) :=
  Finset.prod_pos (fun i _ => by positivity)

theorem bern_clamp_sigmoid_nonneg (x : ℝ) (t : Bool) : 0 ≤ bern (clamp01 (sigmoid x : ℝ)) t := by
  rw [bern_sigmoid_factor]; positivity

theorem exp_sum_log_one_add_exp (m : ℕ) (x : Fin m → ℝ) :
    Real.exp (∑ i, Real.log (1 + Real.exp (x i))) = ∏ i, (1 + Real.exp (x i)) := by
  rw [Real.exp_sum]
  exact Finset.prod_congr rfl (fun i _ => Real.exp_log (by positivity))

/-- `exp(-E(v)) = e^{b·v} Π_i (1 + e^{c_i + W_i·v})` for `BinaryRBM.effective_energy` -/
theorem RBM.exp_neg_effEnergy {n h : ℕ} (r : RBM ℝ n h) (v : Fin n → ℝ) :
    Real.exp (-(r.effEnergy v)) = Real.exp (∑ j, v j * r.b j) * ∏ i, (1 + Real.exp (r.preact v i)) := by
  simp only [RBM.effEnergy, neg_neg, dot_eq, sumFin_eq, softplus_eq]
  rw [Real.exp_add, exp_sum_log_one_add_exp]

/-- `exp(-E(v))` for `PurificationRBM.effective_energy(v)` (hidden and auxiliary units traced out) -/
theorem PRBM.exp_neg_effEnergy {n h a : ℕ} (r : PRBM ℝ n h a) (v : Fin n → ℝ) :
    Real.exp (-(r.effEnergy v))
      = Real.exp (∑ j, v j * r.b j) * (∏ i, (1 + Real.exp (r.preactH v i)))
          * ∏ k, (1 + Real.exp (r.preactA v k)) := by
  simp only [PRBM.effEnergy, PRBM.visTerm, neg_neg, dot_eq, sumFin_eq, softplus_eq]
  rw [Real.exp_add, Real.exp_add, exp_sum_log_one_add_exp, exp_sum_log_one_add_exp]

/-- `exp(-E(v, a))` for `PurificationRBM.effective_energy(v, a)` (hidden units traced out) -/
theorem PRBM.exp_neg_effEnergyAux {n h a : ℕ} (r : PRBM ℝ n h a) (v : Fin n → ℝ) (aux : Fin a → ℝ) :
    Real.exp (-(r.effEnergyAux v aux))
      = Real.exp (∑ j, v j * r.b j) * (∏ i, (1 + Real.exp (r.preactH v i)))
          * Real.exp (∑ k, aux k * r.d k + ∑ k, ∑ j, v j * r.U k j * aux k) := by
  simp only [PRBM.effEnergyAux, PRBM.visTerm, neg_neg, dot_eq, sumFin_eq, softplus_eq]
  rw [add_assoc, Real.exp_add, Real.exp_add, exp_sum_log_one_add_exp]

theorem rbm_hsum {n h : ℕ} (r : RBM ℝ n h) (v : Fin n → Bool) (hid : Fin h → Bool) :
    ∑ i, bit (hid i) * r.preact (bvec v) i
      = ∑ i, bit (hid i) * r.c i + ∑ i, ∑ j, bit (hid i) * r.W i j * bit (v j) := by
  simp only [RBM.preact, sumFin_eq, bvec, mul_add, Finset.mul_sum, Finset.sum_add_distrib]
  rw [add_comm]
  congr 1
  exact Finset.sum_congr rfl fun i _ => Finset.sum_congr rfl fun j _ => by ring

theorem prbm_hasum {n h a : ℕ} (r : PRBM ℝ n h a) (v : Fin n → Bool) (hid : Fin h → Bool) (aux : Fin a → Bool) :
    ∑ j, bit (v j) * r.b j + ∑ i, bit (hid i) * r.preactH (bvec v) i
        + ∑ k, bit (aux k) * r.preactA (bvec v) k
      = ∑ j, bit (v j) * r.b j + ∑ i, bit (hid i) * r.c i + ∑ k, bit (aux k) * r.d k
        + ∑ i, ∑ j, bit (hid i) * r.W i j * bit (v j) + ∑ k, ∑ j, bit (aux k) * r.U k j * bit (v j) := by
  simp only [PRBM.preactH, PRBM.preactA, sumFin_eq, bvec, mul_add, Finset.mul_sum,
    Finset.sum_add_distrib]
  have e1 : ∀ i j, bit (hid i) * (bit (v j) * r.W i j) = bit (hid i) * r.W i j * bit (v j) :=
    fun i j => by ring
  have e2 : ∀ k j, bit (aux k) * (bit (v j) * r.U k j) = bit (aux k) * r.U k j * bit (v j) :=
    fun k j => by ring
  simp only [e1, e2]
  ring

end QV
