/-
QV.Lemmas.Deriv — derivatives of the model's energies along differentiable parameter curves.
-/
import Mathlib.Analysis.SpecialFunctions.Log.Deriv
import Mathlib.Analysis.SpecialFunctions.ExpDeriv
import Mathlib.Analysis.Calculus.Deriv.Add
import Mathlib.Analysis.Calculus.Deriv.Mul
import QV.Model.Grads
import QV.Lemmas.Basic

namespace QV
open Finset

variable {n h a : ℕ}

/-- pairing of an RBM-shaped gradient with an RBM-shaped direction: `Σ_k g_k · d_k` over all parameters -/
def RBM.pair (g d : RBM ℝ n h) : ℝ :=
  (∑ i, ∑ j, g.W i j * d.W i j) + (∑ j, g.b j * d.b j) + (∑ i, g.c i * d.c i)

def PRBM.pair (g d : PRBM ℝ n h a) : ℝ :=
  (∑ i, ∑ j, g.W i j * d.W i j) + (∑ k, ∑ j, g.U k j * d.U k j) + (∑ j, g.b j * d.b j)
    + (∑ i, g.c i * d.c i) + (∑ k, g.d k * d.d k)

/-- every parameter of the network is differentiable at `t` along the curve `r`, with velocity `dr` -/
structure RBM.CurveAt (r : ℝ → RBM ℝ n h) (dr : RBM ℝ n h) (t : ℝ) : Prop where
  W : ∀ i j, HasDerivAt (fun s => (r s).W i j) (dr.W i j) t
  b : ∀ j, HasDerivAt (fun s => (r s).b j) (dr.b j) t
  c : ∀ i, HasDerivAt (fun s => (r s).c i) (dr.c i) t

structure PRBM.CurveAt (r : ℝ → PRBM ℝ n h a) (dr : PRBM ℝ n h a) (t : ℝ) : Prop where
  W : ∀ i j, HasDerivAt (fun s => (r s).W i j) (dr.W i j) t
  U : ∀ k j, HasDerivAt (fun s => (r s).U k j) (dr.U k j) t
  b : ∀ j, HasDerivAt (fun s => (r s).b j) (dr.b j) t
  c : ∀ i, HasDerivAt (fun s => (r s).c i) (dr.c i) t
  d : ∀ k, HasDerivAt (fun s => (r s).d k) (dr.d k) t

theorem hasDerivAt_softplus_comp (f : ℝ → ℝ) (f' t : ℝ) (hf : HasDerivAt f f' t) :
    HasDerivAt (fun s => (softplus (f s) : ℝ)) (sigmoid (f t) * f') t := by
  simp only [softplus_eq]
  have h1 : HasDerivAt (fun s => 1 + Real.exp (f s)) (Real.exp (f t) * f') t :=
    (hf.exp).const_add 1
  have hpos : (1 + Real.exp (f t)) ≠ 0 := by positivity
  have := h1.log hpos
  convert this using 1
  rw [sigmoid_eq']; ring

theorem RBM.hasDerivAt_preact (r : ℝ → RBM ℝ n h) (dr : RBM ℝ n h) (t : ℝ) (hr : RBM.CurveAt r dr t)
    (v : Fin n → ℝ) (i : Fin h) :
    HasDerivAt (fun s => (r s).preact v i) ((∑ j, v j * dr.W i j) + dr.c i) t := by
  simp only [RBM.preact, sumFin_eq]
  exact (HasDerivAt.fun_sum (fun j _ => (hr.W i j).const_mul (v j))).add (hr.c i)

/-- the effective energy of a BinaryRBM is differentiable along any parameter curve, with derivative the
pairing of the CODE's per-sample gradient vector with the velocity -/
theorem RBM.hasDerivAt_effEnergy (r : ℝ → RBM ℝ n h) (dr : RBM ℝ n h) (t : ℝ) (hr : RBM.CurveAt r dr t)
    (v : Fin n → ℝ) :
    HasDerivAt (fun s => (r s).effEnergy v) (((r t).effEnergyGrad1 v).pair dr) t := by
  have h1 : HasDerivAt (fun s => ∑ j, v j * (r s).b j) (∑ j, v j * dr.b j) t :=
    HasDerivAt.fun_sum (fun j _ => (hr.b j).const_mul (v j))
  have h2 : HasDerivAt (fun s => ∑ i, (softplus ((r s).preact v i) : ℝ))
      (∑ i, sigmoid ((r t).preact v i) * ((∑ j, v j * dr.W i j) + dr.c i)) t :=
    HasDerivAt.fun_sum (fun i _ => hasDerivAt_softplus_comp _ _ _ (RBM.hasDerivAt_preact r dr t hr v i))
  have := (h1.add h2).neg
  have hfun : (fun s => (r s).effEnergy v)
      = -((fun s => ∑ j, v j * (r s).b j) + fun s => ∑ i, (softplus ((r s).preact v i) : ℝ)) := by
    funext s; simp [RBM.effEnergy]
  rw [hfun]
  refine this.congr_deriv ?_
  simp only [RBM.pair, RBM.effEnergyGrad1, RBM.probH, clamp01_sigmoid]
  simp only [mul_add, Finset.sum_add_distrib, Finset.mul_sum, neg_mul, Finset.sum_neg_distrib]
  have : ∀ i j, sigmoid ((r t).preact v i) * v j * dr.W i j = sigmoid ((r t).preact v i) * (v j * dr.W i j) := by
    intro i j; ring
  simp only [this]
  ring

theorem PRBM.hasDerivAt_preactH (r : ℝ → PRBM ℝ n h a) (dr : PRBM ℝ n h a) (t : ℝ) (hr : PRBM.CurveAt r dr t)
    (v : Fin n → ℝ) (i : Fin h) :
    HasDerivAt (fun s => (r s).preactH v i) ((∑ j, v j * dr.W i j) + dr.c i) t := by
  simp only [PRBM.preactH, sumFin_eq]
  exact (HasDerivAt.fun_sum (fun j _ => (hr.W i j).const_mul (v j))).add (hr.c i)

theorem PRBM.hasDerivAt_preactA (r : ℝ → PRBM ℝ n h a) (dr : PRBM ℝ n h a) (t : ℝ) (hr : PRBM.CurveAt r dr t)
    (v : Fin n → ℝ) (k : Fin a) :
    HasDerivAt (fun s => (r s).preactA v k) ((∑ j, v j * dr.U k j) + dr.d k) t := by
  simp only [PRBM.preactA, sumFin_eq]
  exact (HasDerivAt.fun_sum (fun j _ => (hr.U k j).const_mul (v j))).add (hr.d k)

/-- the aux-traced effective energy of a PurificationRBM: derivative = pairing with the code's gradient vector -/
theorem PRBM.hasDerivAt_effEnergy (r : ℝ → PRBM ℝ n h a) (dr : PRBM ℝ n h a) (t : ℝ) (hr : PRBM.CurveAt r dr t)
    (v : Fin n → ℝ) :
    HasDerivAt (fun s => (r s).effEnergy v) (((r t).effEnergyGrad1 v).pair dr) t := by
  have h1 : HasDerivAt (fun s => ∑ j, v j * (r s).b j) (∑ j, v j * dr.b j) t :=
    HasDerivAt.fun_sum (fun j _ => (hr.b j).const_mul (v j))
  have h2 : HasDerivAt (fun s => ∑ i, (softplus ((r s).preactH v i) : ℝ))
      (∑ i, sigmoid ((r t).preactH v i) * ((∑ j, v j * dr.W i j) + dr.c i)) t :=
    HasDerivAt.fun_sum (fun i _ => hasDerivAt_softplus_comp _ _ _ (PRBM.hasDerivAt_preactH r dr t hr v i))
  have h3 : HasDerivAt (fun s => ∑ k, (softplus ((r s).preactA v k) : ℝ))
      (∑ k, sigmoid ((r t).preactA v k) * ((∑ j, v j * dr.U k j) + dr.d k)) t :=
    HasDerivAt.fun_sum (fun k _ => hasDerivAt_softplus_comp _ _ _ (PRBM.hasDerivAt_preactA r dr t hr v k))
  have := ((h1.add h2).add h3).neg
  have hfun : (fun s => (r s).effEnergy v)
      = -(((fun s => ∑ j, v j * (r s).b j) + fun s => ∑ i, (softplus ((r s).preactH v i) : ℝ))
          + fun s => ∑ k, (softplus ((r s).preactA v k) : ℝ)) := by
    funext s; simp [PRBM.effEnergy, PRBM.visTerm]
  rw [hfun]
  refine this.congr_deriv ?_
  simp only [PRBM.pair, PRBM.effEnergyGrad1, PRBM.probH, PRBM.probA, clamp01_sigmoid]
  simp only [mul_add, Finset.sum_add_distrib, Finset.mul_sum, neg_mul, Finset.sum_neg_distrib]
  have e1 : ∀ i j, sigmoid ((r t).preactH v i) * v j * dr.W i j = sigmoid ((r t).preactH v i) * (v j * dr.W i j) := by
    intro i j; ring
  have e2 : ∀ k j, sigmoid ((r t).preactA v k) * v j * dr.U k j = sigmoid ((r t).preactA v k) * (v j * dr.U k j) := by
    intro k j; ring
  simp only [e1, e2]
  ring

end QV
