/-
QV.Lemmas.Kron — `_kron_mult` stage by stage equals the dense tensor-product operator.
-/
import Mathlib.Algebra.Module.BigOperators
import Mathlib.Algebra.Module.Pi
import Mathlib.Data.Fintype.Pi
import QV.Model.Unitaries
import QV.Lemmas.Cplx
import QV.Lemmas.Index

namespace QV
open Finset Unitaries

variable {n : ℕ} {V : Type*} [AddCommMonoid V] [Module ℂ V]

/-- one stage acting on bit-vector-indexed data: the 2×2 block `m` applied at site `s` -/
def stageB (m : Bool → Bool → ℂ) (s : Fin n) (y : (Fin n → Bool) → V) : (Fin n → Bool) → V :=
  fun σ => m (σ s) false • y (Function.update σ s false) + m (σ s) true • y (Function.update σ s true)

/-- the dense operator restricted to a set `S` of sites (identity elsewhere) -/
def partialOp (ms : Fin n → Bool → Bool → ℂ) (S : Finset (Fin n)) (x : (Fin n → Bool) → V) :
    (Fin n → Bool) → V :=
  fun σ => ∑ τ : Fin n → Bool,
    if (∀ j, j ∉ S → τ j = σ j) then (∏ j ∈ S, ms j (σ j) (τ j)) • x τ else 0

theorem partialOp_empty (ms : Fin n → Bool → Bool → ℂ) (x : (Fin n → Bool) → V) :
    partialOp ms ∅ x = x := by
  funext σ
  simp only [partialOp, Finset.notMem_empty, not_false_eq_true, forall_const, Finset.prod_empty, one_smul]
  rw [Finset.sum_eq_single σ]
  · simp
  · intro τ _ hτ
    rw [if_neg]
    intro h; exact hτ (funext h)
  · simp

theorem stageB_partialOp (ms : Fin n → Bool → Bool → ℂ) (S : Finset (Fin n)) (s : Fin n) (hs : s ∉ S)
    (x : (Fin n → Bool) → V) :
    stageB (ms s) s (partialOp ms S x) = partialOp ms (insert s S) x := by
  funext σ
  simp only [stageB, partialOp]
  rw [Finset.smul_sum, Finset.smul_sum, ← Finset.sum_add_distrib]
  refine Finset.sum_congr rfl (fun τ _ => ?_)
  -- the product over S does not see the update at s
  have hprod : ∀ t : Bool, (∏ j ∈ S, ms j (Function.update σ s t j) (τ j)) = ∏ j ∈ S, ms j (σ j) (τ j) := by
    intro t
    refine Finset.prod_congr rfl (fun j hj => ?_)
    rw [Function.update_of_ne (by rintro rfl; exact hs hj)]
  have hcond : ∀ t : Bool, (∀ j, j ∉ S → τ j = Function.update σ s t j)
      ↔ (τ s = t ∧ ∀ j, j ∉ insert s S → τ j = σ j) := by
    intro t
    constructor
    · intro h
      refine ⟨by simpa using h s hs, fun j hj => ?_⟩
      have hjs : j ≠ s := fun e => hj (e ▸ Finset.mem_insert_self s S)
      have hjS : j ∉ S := fun e => hj (Finset.mem_insert_of_mem e)
      simpa [Function.update_of_ne hjs] using h j hjS
    · rintro ⟨h1, h2⟩ j hj
      by_cases hjs : j = s
      · subst hjs; simp [h1]
      · rw [Function.update_of_ne hjs]
        exact h2 j (by simp [Finset.mem_insert, hjs, hj])
  simp only [hprod]
  by_cases hD : ∀ j, j ∉ insert s S → τ j = σ j
  · rw [if_pos hD, Finset.prod_insert hs]
    cases hτ : τ s
    · rw [if_pos ((hcond false).mpr ⟨hτ, hD⟩),
        if_neg (fun h => by have := ((hcond true).mp h).1; simp [hτ] at this)]
      simp [mul_smul]
    · rw [if_neg (fun h => by have := ((hcond false).mp h).1; simp [hτ] at this),
        if_pos ((hcond true).mpr ⟨hτ, hD⟩)]
      simp [mul_smul]
  · rw [if_neg hD, if_neg (fun h => hD ((hcond false).mp h).2), if_neg (fun h => hD ((hcond true).mp h).2)]
    simp

theorem foldr_stageB (ms : Fin n → Bool → Bool → ℂ) (l : List (Fin n)) (hl : l.Nodup)
    (x : (Fin n → Bool) → V) :
    l.foldr (fun s y => stageB (ms s) s y) x = partialOp ms l.toFinset x := by
  induction l with
  | nil => simp [partialOp_empty]
  | cons s l ih =>
    rw [List.foldr_cons, ih (List.nodup_cons.mp hl).2, List.toFinset_cons]
    exact stageB_partialOp ms _ s (by simpa using (List.nodup_cons.mp hl).1) x

/-- all stages together: the dense operator `K(σ,τ) = Π_j m_j(σ_j, τ_j)` -/
theorem foldr_stageB_all (ms : Fin n → Bool → Bool → ℂ) (x : (Fin n → Bool) → V) (σ : Fin n → Bool) :
    (List.finRange n).foldr (fun s y => stageB (ms s) s y) x σ
      = ∑ τ : Fin n → Bool, (∏ j, ms j (σ j) (τ j)) • x τ := by
  rw [foldr_stageB ms _ (List.nodup_finRange n)]
  simp [partialOp, List.toFinset_finRange]

/-! ### the model's index-based stage is `stageB` after decoding -/

variable {β : Type}

/-- view Nat-indexed data through the big-endian index and a decoding into a ℂ-module -/
def liftIdx (dec : β → V) (y : ℕ → β) : (Fin n → Bool) → V := fun σ => dec (y (idxOf σ))

theorem liftIdx_stage (addβ : β → β → β) (act : C ℝ → β → β) (dec : β → V)
    (hadd : ∀ a b, dec (addβ a b) = dec a + dec b) (hact : ∀ c a, dec (act c a) = toC c • dec a)
    (m : M2 ℝ) (s : Fin n) (y : ℕ → β) :
    liftIdx dec (stage addβ act m (2 ^ (n - 1 - s.val)) y)
      = stageB (fun r c => toC (m r c)) s (liftIdx (n := n) dec y) := by
  funext σ
  simp only [liftIdx, stage, stageB, hadd, hact]
  have hb : ((idxOf σ / 2 ^ (n - 1 - s.val)) % 2 == 1) = σ s := by
    rw [idxOf_div_mod]; cases σ s <;> simp
  rw [hb]
  have hbase : (if σ s = true then idxOf σ - 2 ^ (n - 1 - s.val) else idxOf σ)
      = idxOf (Function.update σ s false) := (idxOf_update_false σ s).symm
  rw [hbase, ← idxOf_update_true]

theorem liftIdx_foldr (addβ : β → β → β) (act : C ℝ → β → β) (dec : β → V)
    (hadd : ∀ a b, dec (addβ a b) = dec a + dec b) (hact : ∀ c a, dec (act c a) = toC c • dec a)
    (us : Fin n → M2 ℝ) (l : List (Fin n)) (x : ℕ → β) :
    liftIdx dec (l.foldr (fun s y => stage addβ act (us s) (2 ^ (n - 1 - s.val)) y) x)
      = l.foldr (fun s y => stageB (fun r c => toC (us s r c)) s y) (liftIdx (n := n) dec x) := by
  induction l with
  | nil => rfl
  | cons s l ih => rw [List.foldr_cons, List.foldr_cons, liftIdx_stage addβ act dec hadd hact, ih]

/-- **core of C04.1**: decoding `_kron_mult` at the index of `σ` gives the dense tensor-product operator. -/
theorem kronMult_dense (addβ : β → β → β) (act : C ℝ → β → β) (dec : β → V)
    (hadd : ∀ a b, dec (addβ a b) = dec a + dec b) (hact : ∀ c a, dec (act c a) = toC c • dec a)
    (us : Fin n → M2 ℝ) (x : ℕ → β) (σ : Fin n → Bool) :
    dec (kronMult addβ act n us x (idxOf σ))
      = ∑ τ : Fin n → Bool, (∏ j, toC (us j (σ j) (τ j))) • dec (x (idxOf τ)) := by
  have h := liftIdx_foldr addβ act dec hadd hact us (List.finRange n) x
  have h2 := congrFun h σ
  unfold kronMult
  rw [Fin.foldr_eq_finRange_foldr]
  simp only [liftIdx] at h2
  rw [h2]
  exact foldr_stageB_all (fun j r c => toC (us j r c)) (liftIdx dec x) σ

end QV
