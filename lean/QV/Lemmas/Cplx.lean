/-
QV.Lemmas.Cplx — decoding of the model's real pairs into Mathlib's ℂ and the homomorphism lemmas.
-/
import Mathlib.Data.Complex.Basic
import Mathlib.Data.Complex.BigOperators
import Mathlib.Algebra.BigOperators.Fin
import QV.Model.CplxScalar
import QV.Lemmas.Basic

namespace QV
open Finset

/-- decode a real pair `(re, im)` as a complex number -/
def toC (p : C ℝ) : ℂ := ⟨p.1, p.2⟩

@[simp] theorem toC_re (p : C ℝ) : (toC p).re = p.1 := rfl
@[simp] theorem toC_im (p : C ℝ) : (toC p).im = p.2 := rfl
@[simp] theorem toC_mk (a b : ℝ) : toC (a, b) = ⟨a, b⟩ := rfl
@[simp] theorem toC_zero : toC (C.zero : C ℝ) = 0 := by apply Complex.ext <;> simp [C.zero]
@[simp] theorem toC_one : toC (C.one : C ℝ) = 1 := by apply Complex.ext <;> simp [C.one]
@[simp] theorem toC_I : toC (C.I : C ℝ) = Complex.I := by apply Complex.ext <;> simp [C.I]
@[simp] theorem toC_ofReal (x : ℝ) : toC (C.ofReal x) = (x : ℂ) := by apply Complex.ext <;> simp [C.ofReal]
@[simp] theorem toC_add (x y : C ℝ) : toC (C.add x y) = toC x + toC y := by
  apply Complex.ext <;> simp [C.add]
@[simp] theorem toC_sub (x y : C ℝ) : toC (C.sub x y) = toC x - toC y := by
  apply Complex.ext <;> simp [C.sub]
@[simp] theorem toC_neg (x : C ℝ) : toC (C.neg x) = -toC x := by
  apply Complex.ext <;> simp [C.neg]
@[simp] theorem toC_mul (x y : C ℝ) : toC (C.mul x y) = toC x * toC y := by
  apply Complex.ext <;> simp [C.mul]
@[simp] theorem toC_conj (x : C ℝ) : toC (C.conj x) = (starRingEnd ℂ) (toC x) := by
  apply Complex.ext <;> simp [C.conj]
@[simp] theorem toC_smul (s : ℝ) (x : C ℝ) : toC (C.smul s x) = (s : ℂ) * toC x := by
  apply Complex.ext <;> simp [C.smul]
theorem normSq_eq (x : C ℝ) : C.normSq x = Complex.normSq (toC x) := by
  simp [C.normSq, Complex.normSq_apply]

theorem toC_injective : Function.Injective toC := by
  intro x y h
  have h1 := congrArg Complex.re h
  have h2 := congrArg Complex.im h
  simp at h1 h2
  exact Prod.ext h1 h2

theorem C_foldl_add (n : ℕ) (f : Fin n → C ℝ) (a : C ℝ) :
    toC (Fin.foldl n (fun acc i => C.add acc (f i)) a) = toC a + ∑ i, toC (f i) := by
  induction n generalizing a with
  | zero => simp [Fin.foldl_zero]
  | succ k ih => rw [Fin.foldl_succ, ih, Fin.sum_univ_succ, toC_add, add_assoc]

@[simp] theorem toC_sum (n : ℕ) (f : Fin n → C ℝ) : toC (C.sum n f) = ∑ i, toC (f i) := by
  simp [C.sum, C_foldl_add]

theorem C_foldl_mul (n : ℕ) (f : Fin n → C ℝ) (a : C ℝ) :
    toC (Fin.foldl n (fun acc i => C.mul acc (f i)) a) = toC a * ∏ i, toC (f i) := by
  induction n generalizing a with
  | zero => simp [Fin.foldl_zero]
  | succ k ih => rw [Fin.foldl_succ, ih, Fin.prod_univ_succ, toC_mul, mul_assoc]

@[simp] theorem toC_prod (n : ℕ) (f : Fin n → C ℝ) : toC (C.prod n f) = ∏ i, toC (f i) := by
  simp [C.prod, C_foldl_mul]

/-- `cplx.inverse` is the complex inverse away from 0 -/
theorem toC_inv (z : C ℝ) (hz : toC z ≠ 0) : toC (C.inv z) = (toC z)⁻¹ := by
  have hn : Complex.normSq (toC z) ≠ 0 := by simpa [Complex.normSq_eq_zero] using hz
  apply Complex.ext
  · simp [C.inv, normSq_eq, Complex.inv_re, C.conj]
  · simp [C.inv, normSq_eq, Complex.inv_im, C.conj]

/-- `cplx.elementwise_division` is complex division away from 0 -/
theorem toC_div (x y : C ℝ) (hy : toC y ≠ 0) : toC (C.div x y) = toC x / toC y := by
  have hn : Complex.normSq (toC y) ≠ 0 := by simpa [Complex.normSq_eq_zero] using hy
  rw [div_eq_mul_inv, Complex.inv_def]
  apply Complex.ext
  · simp [C.div, normSq_eq, C.mul, C.conj]; field_simp
  · simp [C.div, normSq_eq, C.mul, C.conj]; field_simp

end QV
