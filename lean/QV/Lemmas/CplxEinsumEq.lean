/-
QV.Lemmas.CplxEinsumEq — the equation string of `einsum` (C15): tokens, implicit output, ellipsis (`elabEq`).
-/
import Mathlib.Data.List.Sort
import Mathlib.Data.List.Nodup
import QV.Model.Cplx
namespace QV.Cplx
open List

theorem labels_map_lab (l : List Nat) : Tok.labels (l.map Tok.lab) = l := by
  induction l with
  | nil => rfl
  | cons x l ih => simp [Tok.labels, ih]

theorem ellCount_map_lab (l : List Nat) : Tok.ellCount (l.map Tok.lab) = 0 := by
  induction l with
  | nil => rfl
  | cons x l ih => simp [Tok.ellCount, ih]

theorem expandSub_map_lab (base K k : Nat) (l : List Nat) : expandSub base K k (l.map Tok.lab) = l := by
  induction l with
  | nil => rfl
  | cons x l ih => simp [expandSub, ih]

@[simp] theorem ellLabels_length (base K k : Nat) : (ellLabels base K k).length = k := by simp [ellLabels]

theorem expandSub_length (base K k : Nat) (ts : List Tok) :
    (expandSub base K k ts).length = (Tok.labels ts).length + Tok.ellCount ts * k := by
  induction ts with
  | nil => simp [expandSub, Tok.labels, Tok.ellCount]
  | cons t ts ih =>
    cases t with
    | lab l => simp [expandSub, Tok.labels, Tok.ellCount, ih]; omega
    | ell => simp [expandSub, Tok.labels, Tok.ellCount, ih, Nat.add_mul]; omega

theorem expandSub_append (base K k : Nat) (s t : List Tok) :
    expandSub base K k (s ++ t) = expandSub base K k s ++ expandSub base K k t := by
  induction s with
  | nil => rfl
  | cons x s ih => cases x <;> simp [expandSub, ih]

theorem labels_append (s t : List Tok) : Tok.labels (s ++ t) = Tok.labels s ++ Tok.labels t := by
  induction s with
  | nil => rfl
  | cons x s ih => cases x <;> simp [Tok.labels, ih]

theorem ellCount_append (s t : List Tok) : Tok.ellCount (s ++ t) = Tok.ellCount s + Tok.ellCount t := by
  induction s with
  | nil => simp [Tok.ellCount]
  | cons x s ih => cases x <;> simp [Tok.ellCount, ih]; omega

/-- all `K` ellipsis labels: `base, base+1, …, base+K-1` -/
theorem ellLabels_full (base K : Nat) : ellLabels base K K = (List.range K).map (fun i => base + i) := by
  simp [ellLabels]

/-- an ellipsis covering `k ≤ K` axes carries the LAST `k` of the `K` labels: alignment from the right -/
theorem ellLabels_suffix (base : Nat) {K k : Nat} (h : k ≤ K) :
    ellLabels base K k = (ellLabels base K K).drop (K - k) := by
  apply List.ext_getElem
  · simp; omega
  · intro i h1 h2
    simp [ellLabels]
    omega

/-- `j` positions from the right end, every ellipsis (whatever its length) carries the label `base + (K-1-j)` -/
theorem ellLabels_from_right (base : Nat) {K k j : Nat} (hk : k ≤ K) (hj : j < k) :
    (ellLabels base K k).reverse[j]? = some (base + (K - 1 - j)) := by
  have hl : (ellLabels base K k).length = k := ellLabels_length _ _ _
  rw [List.getElem?_reverse (by rw [hl]; exact hj), hl]
  unfold ellLabels
  rw [List.getElem?_map, List.getElem?_range (by omega)]
  simp only [Option.map_some]
  congr 1
  omega

theorem sortNat_eq (l : List Nat) : sortNat l = l.insertionSort (· ≤ ·) := by
  have hins : ∀ (x : Nat) (l : List Nat), insertSorted x l = List.orderedInsert (· ≤ ·) x l := by
    intro x l
    induction l with
    | nil => rfl
    | cons y ys ih => simp only [insertSorted, List.orderedInsert_cons, ih]
  induction l with
  | nil => rfl
  | cons x l ih =>
    simp only [sortNat, List.foldr_cons, List.insertionSort_cons] at ih ⊢
    rw [ih, hins]

/-- the implicit output consists of exactly the labels that occur once -/
theorem mem_onceLabels {l : List Nat} {x : Nat} : x ∈ onceLabels l ↔ l.count x = 1 := by
  unfold onceLabels
  rw [sortNat_eq, List.mem_insertionSort, List.mem_filter]
  constructor
  · rintro ⟨_, h⟩; simpa using h
  · intro h
    refine ⟨?_, by simpa using h⟩
    exact List.count_pos_iff.1 (by omega)

theorem nodup_onceFilter (l : List Nat) : (l.filter (fun x => l.count x == 1)).Nodup := by
  rw [List.nodup_iff_count_le_one]
  intro a
  by_cases h : l.count a = 1
  · rw [List.count_filter (by simpa using h)]; omega
  · have : a ∉ l.filter (fun x => l.count x == 1) := by
      rw [List.mem_filter]; rintro ⟨_, h'⟩; exact h (by simpa using h')
    rw [List.count_eq_zero_of_not_mem this]; omega

/-- … in strictly increasing order (so without repetition) -/
theorem onceLabels_sorted (l : List Nat) : (onceLabels l).Pairwise (· < ·) := by
  unfold onceLabels
  rw [sortNat_eq]
  have h1 : ((l.filter (fun x => l.count x == 1)).insertionSort (· ≤ ·)).Pairwise (· ≤ ·) :=
    List.pairwise_insertionSort _ _
  have h2 : ((l.filter (fun x => l.count x == 1)).insertionSort (· ≤ ·)).Nodup :=
    (List.perm_insertionSort _ _).nodup_iff.2 (nodup_onceFilter l)
  have h3 := h1.and h2
  exact h3.imp (fun ⟨hle, hne⟩ => lt_of_le_of_ne hle hne)

theorem le_foldl_max (l : List Nat) (init : Nat) : init ≤ l.foldl max init ∧ ∀ x ∈ l, x ≤ l.foldl max init := by
  induction l generalizing init with
  | nil => simp
  | cons y l ih =>
    simp only [List.foldl_cons, List.mem_cons]
    obtain ⟨h1, h2⟩ := ih (max init y)
    refine ⟨le_trans (le_max_left _ _) h1, ?_⟩
    rintro x (rfl | hx)
    · exact le_trans (le_max_right _ _) h1
    · exact h2 x hx

/-- what `ellCover` accepts -/
theorem ellCover_eq_some {ts : List Tok} {r k : Nat} : ellCover ts r = some k ↔
    (Tok.ellCount ts = 0 ∧ (Tok.labels ts).length = r ∧ k = 0) ∨
    (Tok.ellCount ts = 1 ∧ (Tok.labels ts).length + k = r) := by
  unfold ellCover
  rcases h : Tok.ellCount ts with _ | _ | n
  · simp only
    split_ifs with h1
    · simp [h1, eq_comm]
    · simp [h1]
  · simp only
    split_ifs with h1
    · simp; omega
    · simp; omega
  · simp

end QV.Cplx
