/-
QV.Lemmas.Unbiased — helper lemmas for the composition "sampler theorems (C05) ∘ estimator theorems (C08, C09) ∘
streaming statistics (C13)": linearity of `Prog.expect`, stationarity in expectation form, product measures
(invariance under a product kernel, one- and two-coordinate marginals), the probabilistic sampling loop
`Stats.drawsProg` versus the recorded loop `Stats.draws`.
-/
import Mathlib.Algebra.BigOperators.Field
import Mathlib.Data.Fintype.BigOperators
import Mathlib.Tactic.Ring
import Mathlib.Tactic.FieldSimp
import QV.Model.StatsProg
import QV.Lemmas.Prob
import QV.Lemmas.CDChain
import QV.Lemmas.Stats

namespace QV
open Finset

namespace Prog
variable {β γ : Type}

theorem expect_const (m : Prog ℝ β) (c : ℝ) : m.expect (fun _ => c) = c := by
  induction m with
  | ret b => rfl
  | flip p k ih => simp only [expect, ih]; ring

theorem expect_add (m : Prog ℝ β) (f g : β → ℝ) :
    m.expect (fun b => f b + g b) = m.expect f + m.expect g := by
  induction m with
  | ret b => rfl
  | flip p k ih => simp only [expect, ih]; ring

theorem expect_div_const (m : Prog ℝ β) (g : β → ℝ) (d : ℝ) :
    m.expect (fun b => g b / d) = m.expect g / d := by
  induction m with
  | ret b => rfl
  | flip p k ih => simp only [expect, ih]; ring

/-- **stationarity in expectation form**: if `π` is invariant under the kernel `v ↦ law (prog v)` then, for a start drawn
from `π`, the expectation of ANY test function of the result is its `π`-average. -/
theorem expect_stationary {V : Type} [Fintype V] [DecidableEq V] (π : V → ℝ) (prog : V → Prog ℝ V)
    (hinv : ∀ w, ∑ v, π v * (prog v).law w = π w) (f : V → ℝ) :
    ∑ v, π v * (prog v).expect f = ∑ w, π w * f w := by
  simp only [expect_eq_sum, Finset.mul_sum]
  rw [Finset.sum_comm]
  refine Finset.sum_congr rfl (fun w _ => ?_)
  rw [← hinv w, Finset.sum_mul]
  refine Finset.sum_congr rfl (fun v _ => ?_)
  ring

end Prog

/-! ### product measures -/

section product
variable {V : Type} [Fintype V] [DecidableEq V]

omit [DecidableEq V] in
/-- `Σ_ws Π_b q(ws_b)·h_b(ws_b) = Π_b Σ_w q(w)·h_b(w)` -/
theorem sum_prod_weighted {M : ℕ} (q : V → ℝ) (h : Fin M → V → ℝ) :
    ∑ ws : Fin M → V, (∏ b, q (ws b)) * ∏ b, h b (ws b) = ∏ b : Fin M, ∑ w, q w * h b w := by
  simp only [← Finset.prod_mul_distrib]
  rw [← Fintype.prod_sum (fun (b : Fin M) (w : V) => q w * h b w)]

omit [DecidableEq V] in
/-- the product of an invariant distribution is invariant under the product kernel (independent chains) -/
theorem prod_invariant {M : ℕ} (π : V → ℝ) (K : V → V → ℝ) (hinv : ∀ w, ∑ v, π v * K v w = π w)
    (ws : Fin M → V) :
    ∑ vs : Fin M → V, (∏ b, π (vs b)) * ∏ b, K (vs b) (ws b) = ∏ b, π (ws b) := by
  rw [sum_prod_weighted π (fun b v => K v (ws b))]
  simp only [hinv]

/-- one-coordinate marginal of a product of one normalised weight -/
theorem sum_prod_marginal1 {M : ℕ} (q : V → ℝ) (hq : ∑ w, q w = 1) (m : Fin M) (f : V → ℝ) :
    ∑ ws : Fin M → V, (∏ b, q (ws b)) * f (ws m) = ∑ w, q w * f w :=
  sum_prod_marginal (fun _ w => q w) (fun _ => hq) m f

/-- two-coordinate marginal: two DIFFERENT coordinates of an i.i.d. vector are an independent pair -/
theorem sum_prod_marginal2 {M : ℕ} (q : V → ℝ) (hq : ∑ w, q w = 1) (i j : Fin M) (hij : i ≠ j)
    (g : V → V → ℝ) :
    ∑ ws : Fin M → V, (∏ b, q (ws b)) * g (ws i) (ws j) = ∑ a, ∑ c, q a * q c * g a c := by
  -- indicator weights of the event `ws i = a ∧ ws j = c`, in product form
  let H : V → V → Fin M → V → ℝ := fun a c b w =>
    (if b = i then (if w = a then 1 else 0) else 1) * (if b = j then (if w = c then 1 else 0) else 1)
  have hH : ∀ (ws : Fin M → V) (a c : V),
      ∏ b, H a c b (ws b) = (if ws i = a then 1 else 0) * (if ws j = c then 1 else 0) := by
    intro ws a c
    simp only [H]
    rw [Finset.prod_mul_distrib, Finset.prod_ite_eq' Finset.univ i (fun b => if ws b = a then (1 : ℝ) else 0),
      Finset.prod_ite_eq' Finset.univ j (fun b => if ws b = c then (1 : ℝ) else 0)]
    simp
  have hg : ∀ ws : Fin M → V, g (ws i) (ws j) = ∑ a, ∑ c, (∏ b, H a c b (ws b)) * g a c := by
    intro ws
    simp only [hH]
    rw [Finset.sum_eq_single (ws i) (fun a _ ha => by simp [Ne.symm ha]) (by simp)]
    rw [Finset.sum_eq_single (ws j) (fun c _ hc => by simp [Ne.symm hc]) (by simp)]
    simp
  have hone : ∀ (a c : V) (b : Fin M), ∑ w, q w * H a c b w
      = (if b = i then q a else 1) * (if b = j then q c else 1) := by
    intro a c b
    simp only [H]
    by_cases hbi : b = i
    · subst hbi
      simp [hij]
    · by_cases hbj : b = j
      · subst hbj
        simp [hbi]
      · simp [hbi, hbj, hq]
  calc ∑ ws : Fin M → V, (∏ b, q (ws b)) * g (ws i) (ws j)
      = ∑ ws : Fin M → V, ∑ a, ∑ c, g a c * ((∏ b, q (ws b)) * ∏ b, H a c b (ws b)) := by
        refine Finset.sum_congr rfl (fun ws _ => ?_)
        rw [hg ws, Finset.mul_sum]
        refine Finset.sum_congr rfl (fun a _ => ?_)
        rw [Finset.mul_sum]
        refine Finset.sum_congr rfl (fun c _ => ?_)
        ring
    _ = ∑ a, ∑ c, g a c * ∑ ws : Fin M → V, (∏ b, q (ws b)) * ∏ b, H a c b (ws b) := by
        rw [Finset.sum_comm]
        refine Finset.sum_congr rfl (fun a _ => ?_)
        rw [Finset.sum_comm]
        refine Finset.sum_congr rfl (fun c _ => ?_)
        rw [Finset.mul_sum]
    _ = ∑ a, ∑ c, q a * q c * g a c := by
        refine Finset.sum_congr rfl (fun a _ => Finset.sum_congr rfl (fun c _ => ?_))
        rw [sum_prod_weighted q (H a c)]
        simp only [hone]
        rw [Finset.prod_mul_distrib, Finset.prod_ite_eq' Finset.univ i (fun _ => q a),
          Finset.prod_ite_eq' Finset.univ j (fun _ => q c)]
        simp only [Finset.mem_univ, if_true]
        ring

end product

/-! ### the sampling loop: recorded (`draws`) versus probabilistic (`drawsProg`) -/

namespace Stats
variable {σ : Type}

/-- on the recorded sampler of an execution, the states `draws` sees are the recorded ones, in order -/
theorem draws_recEnv (c : ℕ) (sts : List σ) (dflt : σ) (b s : ℕ) (rem i : ℕ) (ch : Option σ) :
    (draws (recEnv c sts dflt) c b s rem i ch).map (·.2) = (List.range' i rem).map (fun j => sts.getD j dflt) := by
  induction rem generalizing i ch with
  | zero => rfl
  | succ n ih =>
    simp only [draws, List.map_cons, List.range'_succ]
    rw [ih (i + 1)]
    rfl

theorem draws_recEnv_all (c : ℕ) (sts : List σ) (dflt : σ) (b s : ℕ) (ch : Option σ) :
    (draws (recEnv c sts dflt) c b s sts.length 0 ch).map (·.2) = sts := by
  rw [draws_recEnv]
  apply List.ext_getElem
  · simp
  · intro j h1 h2
    simp only [List.getElem_map, List.getElem_range', Nat.zero_add, Nat.one_mul]
    simp [List.getD_eq_getElem?_getD, h2]

/-- two test functions that agree on lists of the length the loop produces have the same expectation -/
theorem drawsProg_expect_congr (sampleK : ℕ → σ → Prog ℝ σ) (b s : ℕ) (rem i : ℕ) (st : σ)
    (g g' : List σ → ℝ) (h : ∀ l, l.length = rem → g l = g' l) :
    (drawsProg sampleK b s rem i st).expect g = (drawsProg sampleK b s rem i st).expect g' := by
  induction rem generalizing i st g g' with
  | zero => exact h [] rfl
  | succ n ih =>
    simp only [drawsProg, Prog.expect_bind, Prog.expect_map]
    congr 1
    funext st'
    exact ih (i + 1) st' _ _ (fun l hl => h (st' :: l) (by simp [hl]))

/-- **linearity over the loop under a stationary start**: if `μ` is invariant under every call `sampleK k`, then for a
start drawn from `μ` the expected SUM of a per-draw quantity `G` over the `rem` draws is `rem` times its `μ`-average
(no independence between the draws is needed, and none holds: the chains continue). -/
theorem drawsProg_expect_sum [Fintype σ] [DecidableEq σ] (sampleK : ℕ → σ → Prog ℝ σ) (μ : σ → ℝ)
    (hinv : ∀ k w, ∑ v, μ v * (sampleK k v).law w = μ w) (G : σ → ℝ) (b s : ℕ) (rem i : ℕ) :
    ∑ st, μ st * (drawsProg sampleK b s rem i st).expect (fun l => (l.map G).sum)
      = rem * ∑ st, μ st * G st := by
  induction rem generalizing i with
  | zero => simp [drawsProg, Prog.expect]
  | succ n ih =>
    have hstep : ∀ st, (drawsProg sampleK b s (n + 1) i st).expect (fun l => (l.map G).sum)
        = (sampleK (gibbsK b s i) st).expect (fun st' =>
            G st' + (drawsProg sampleK b s n (i + 1) st').expect (fun l => (l.map G).sum)) := by
      intro st
      simp only [drawsProg, Prog.expect_bind, Prog.expect_map, List.map_cons, List.sum_cons]
      congr 1
      funext st'
      rw [Prog.expect_add, Prog.expect_const]
    simp only [hstep]
    rw [Prog.expect_stationary μ (sampleK (gibbsK b s i)) (hinv _)]
    simp only [mul_add, Finset.sum_add_distrib]
    rw [ih (i + 1)]
    push_cast
    ring

end Stats
end QV
