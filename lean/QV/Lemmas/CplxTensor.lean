/-
QV.Lemmas.Cplx — helper lemmas for the complex-tensor kernel model (C15): row-major indexing,
entries of `build`, real/imaginary planes, broadcasting, sums.
-/
import Mathlib.Algebra.BigOperators.Fin
import Mathlib.Data.List.Forall2
import Mathlib.Data.List.GetD
import Mathlib.Analysis.Complex.Norm
import Mathlib.Analysis.Complex.Trigonometric
import QV.Model.Cplx
import QV.Lemmas.Basic
namespace QV.Cplx
open List
set_option linter.unusedSectionVars false
set_option linter.unusedVariables false

/-- `idx` is a valid multi-index of shape `s` -/
def Valid (s idx : List Nat) : Prop := List.Forall₂ (fun i d => i < d) idx s

@[simp] theorem valid_nil : Valid [] [] := List.Forall₂.nil
@[simp] theorem valid_cons {d i : Nat} {s idx : List Nat} : Valid (d :: s) (i :: idx) ↔ i < d ∧ Valid s idx := by
  simp [Valid]
theorem Valid.length {s idx : List Nat} (h : Valid s idx) : idx.length = s.length := List.Forall₂.length_eq h

theorem flatten_lt {s idx : List Nat} (h : Valid s idx) : flatten s idx < numel s := by
  induction h with
  | nil => simp [flatten, numel]
  | @cons i d idx s hid _ ih =>
    simp only [flatten, numel]
    calc i * numel s + flatten s idx < i * numel s + numel s := by omega
      _ = (i + 1) * numel s := by ring
      _ ≤ d * numel s := Nat.mul_le_mul_right _ hid

theorem unflatten_flatten {s idx : List Nat} (h : Valid s idx) : unflatten s (flatten s idx) = idx := by
  induction h with
  | nil => simp [unflatten]
  | @cons i d idx s hid hv ih =>
    have hlt := flatten_lt hv
    have hpos : 0 < numel s := by omega
    simp only [flatten, unflatten]
    rw [Nat.mul_comm i, Nat.mul_add_div hpos, Nat.mul_add_mod, Nat.div_eq_of_lt hlt, Nat.mod_eq_of_lt hlt, ih]
    simp

theorem valid_unflatten {s : List Nat} {o : Nat} (h : o < numel s) : Valid s (unflatten s o) := by
  induction s generalizing o with
  | nil => simp [unflatten]
  | cons d s ih =>
    simp only [unflatten, valid_cons]
    simp only [numel] at h
    have hpos : 0 < numel s := by
      rcases Nat.eq_zero_or_pos (numel s) with h0 | h0
      · simp [h0] at h
      · exact h0
    refine ⟨?_, ih (Nat.mod_lt _ hpos)⟩
    rw [Nat.div_lt_iff_lt_mul hpos]; exact h

theorem flatten_unflatten {s : List Nat} {o : Nat} (h : o < numel s) : flatten s (unflatten s o) = o := by
  induction s generalizing o with
  | nil => simp [numel] at h; simp [flatten, h]
  | cons d s ih =>
    simp only [numel] at h
    have hpos : 0 < numel s := by
      rcases Nat.eq_zero_or_pos (numel s) with h0 | h0
      · simp [h0] at h
      · exact h0
    simp only [unflatten, flatten, ih (Nat.mod_lt _ hpos)]
    exact Nat.div_add_mod' o (numel s)

@[simp] theorem ok_bind {ε α β : Type} (a : α) (f : α → Except ε β) : (Except.ok a >>= f) = f a := rfl
@[simp] theorem error_bind {ε α β : Type} (e : ε) (f : α → Except ε β) : (Except.error e >>= f) = Except.error e := rfl
@[simp] theorem pure_eq_ok {ε α : Type} (a : α) : (pure a : Except ε α) = Except.ok a := rfl

section entries
variable {α : Type} [Zero α]
set_option linter.unusedSectionVars false

@[simp] theorem build_shape (s : List Nat) (f : List Nat → α) : (build s f).shape = s := rfl
@[simp] theorem build_length (s : List Nat) (f : List Nat → α) : (build s f).data.length = numel s := by
  simp [build]

/-- entries of `build` -/
theorem at_build {s idx : List Nat} (f : List Nat → α) (h : Valid s idx) : (build s f).at idx = f idx := by
  have hlt := flatten_lt h
  simp only [Tensor.at, build]
  rw [List.getD_eq_getElem _ _ (by simpa using hlt)]
  simp [unflatten_flatten h]

/-- well-formed: data length = number of elements -/
def WF (t : Tensor α) : Prop := t.data.length = numel t.shape

theorem wf_build (s : List Nat) (f : List Nat → α) : WF (build s f) := by simp [WF]

theorem at_map (f : α → α) (t : Tensor α) (hw : WF t) {idx : List Nat} (h : Valid t.shape idx) :
    (t.map f).at idx = f (t.at idx) := by
  have hlt : flatten t.shape idx < t.data.length := by rw [hw]; exact flatten_lt h
  simp only [Tensor.at, Tensor.map]
  rw [List.getD_eq_getElem _ _ (by simpa using hlt), List.getD_eq_getElem _ _ hlt]
  simp

theorem at_zip (f : α → α → α) (a b : Tensor α) (hs : b.shape = a.shape) (ha : WF a) (hb : WF b)
    {idx : List Nat} (h : Valid a.shape idx) : (a.zip f b).at idx = f (a.at idx) (b.at idx) := by
  have hlt := flatten_lt h
  simp only [Tensor.at, Tensor.zip, hs]
  have h1 : flatten a.shape idx < a.data.length := by rw [ha]; exact hlt
  have h2 : flatten a.shape idx < b.data.length := by rw [hb, hs]; exact hlt
  rw [List.getD_eq_getElem _ _ (by simp; omega), List.getD_eq_getElem _ _ h1, List.getD_eq_getElem _ _ h2]
  simp

/-- `x` is a complex tensor of tensor-shape `s`: leading axis 2, well-formed -/
def IsCplx (x : Tensor α) (s : List Nat) : Prop := x.shape = 2 :: s ∧ WF x

/-- decoded complex entry (as a real pair) of a complex tensor -/
def centry (x : Tensor α) (idx : List Nat) : C α := (x.at (0 :: idx), x.at (1 :: idx))

/-- real part tensor, explicitly -/
def reT (x : Tensor α) (s : List Nat) : Tensor α := ⟨s, x.data.take (numel s)⟩
/-- imaginary part tensor, explicitly -/
def imT (x : Tensor α) (s : List Nat) : Tensor α := ⟨s, (x.data.drop (numel s)).take (numel s)⟩

theorem IsCplx.length {x : Tensor α} {s : List Nat} (h : IsCplx x s) : x.data.length = 2 * numel s := by
  have := h.2; unfold WF at this; rw [this, h.1]; rfl

theorem real_eq {x : Tensor α} {s : List Nat} (h : IsCplx x s) : real x = .ok (reT x s) := by
  unfold real; rw [h.1]; rfl
theorem imag_eq {x : Tensor α} {s : List Nat} (h : IsCplx x s) : imag x = .ok (imT x s) := by
  unfold imag; rw [h.1]; rfl

@[simp] theorem reT_shape (x : Tensor α) (s : List Nat) : (reT x s).shape = s := rfl
@[simp] theorem imT_shape (x : Tensor α) (s : List Nat) : (imT x s).shape = s := rfl
theorem reT_wf {x : Tensor α} {s : List Nat} (h : IsCplx x s) : WF (reT x s) := by
  have := h.length; simp [WF, reT]; omega
theorem imT_wf {x : Tensor α} {s : List Nat} (h : IsCplx x s) : WF (imT x s) := by
  have := h.length; simp [WF, imT]; omega

theorem reT_at {x : Tensor α} {s idx : List Nat} (h : IsCplx x s) (hv : Valid s idx) :
    (reT x s).at idx = (centry x idx).1 := by
  have hlt := flatten_lt hv
  have hl := h.length
  simp only [Tensor.at, reT, centry, h.1, flatten, Nat.zero_mul, Nat.zero_add]
  rw [List.getD_eq_getElem _ _ (by simp; omega), List.getD_eq_getElem _ _ (by omega)]
  simp

theorem imT_at {x : Tensor α} {s idx : List Nat} (h : IsCplx x s) (hv : Valid s idx) :
    (imT x s).at idx = (centry x idx).2 := by
  have hlt := flatten_lt hv
  have hl := h.length
  simp only [Tensor.at, imT, centry, h.1, flatten, Nat.one_mul]
  rw [List.getD_eq_getElem _ _ (by simp; omega), List.getD_eq_getElem _ _ (by omega)]
  simp

/-- `cat2` of two well-formed tensors of shape `s` is the complex tensor with those parts -/
theorem cat2_eq {a b : Tensor α} (hs : a.shape = b.shape) : cat2 a b = .ok ⟨2 :: a.shape, a.data ++ b.data⟩ := by
  simp [cat2, hs]

theorem isCplx_cat {a b : Tensor α} (hs : b.shape = a.shape) (ha : WF a) (hb : WF b) :
    IsCplx (⟨2 :: a.shape, a.data ++ b.data⟩ : Tensor α) a.shape := by
  refine ⟨rfl, ?_⟩
  unfold WF at *; simp [numel, ha, hb, hs]; ring

theorem centry_cat {a b : Tensor α} (hs : b.shape = a.shape) (ha : WF a) (hb : WF b) {idx : List Nat}
    (hv : Valid a.shape idx) :
    centry (⟨2 :: a.shape, a.data ++ b.data⟩ : Tensor α) idx = (a.at idx, b.at idx) := by
  have hlt := flatten_lt hv
  unfold WF at ha hb
  simp only [centry, Tensor.at, flatten, Nat.zero_mul, Nat.zero_add, Nat.one_mul]
  rw [List.getD_append _ _ _ _ (by omega), List.getD_append_right _ _ _ _ (by omega), ha, hs, Nat.add_sub_cancel_left]

end entries
/-! ### broadcasting -/

/-- index map for operands already padded to the rank of the result -/
def bidxEq (src idx : List Nat) : List Nat := List.zipWith (fun d i => if d = 1 then 0 else i) src idx

theorem bdim_valid {a b d i : Nat} (h : bdim a b = some d) (hi : i < d) :
    (if a = 1 then 0 else i) < a ∧ (if b = 1 then 0 else i) < b := by
  unfold bdim at h
  by_cases hab : a = b
  · subst hab; simp only [if_true, Option.some.injEq] at h; subst h
    by_cases h1 : a = 1
    · simp [h1]
    · simp [h1]; omega
  · rw [if_neg hab] at h
    by_cases ha : a = 1
    · subst ha; simp only [if_true, Option.some.injEq] at h; subst h
      have : b ≠ 1 := fun hb => hab hb.symm
      simp [this]; omega
    · rw [if_neg ha] at h
      by_cases hb : b = 1
      · subst hb; simp only [if_true, Option.some.injEq] at h; subst h; simp [ha]; omega
      · rw [if_neg hb] at h; cases h

theorem bshapeEq_valid {a b r idx : List Nat} (h : bshapeEq a b = some r) (hv : Valid r idx) :
    Valid a (bidxEq a idx) ∧ Valid b (bidxEq b idx) := by
  induction a generalizing b r idx with
  | nil =>
    cases b with
    | nil => simp [bshapeEq] at h; subst h; cases hv; simp [bidxEq]
    | cons _ _ => simp [bshapeEq] at h
  | cons x a ih =>
    cases b with
    | nil => simp [bshapeEq] at h
    | cons y b =>
      simp only [bshapeEq] at h
      split at h
      · rename_i d r' hd hr
        simp only [Option.some.injEq] at h; subst h
        cases idx with
        | nil => cases hv
        | cons i idx =>
          rw [valid_cons] at hv
          have := ih hr hv.2
          have hb := bdim_valid hd hv.1
          simp only [bidxEq, List.zipWith_cons_cons, valid_cons]
          exact ⟨⟨hb.1, this.1⟩, ⟨hb.2, this.2⟩⟩
      · simp at h

theorem bshapeEq_length {a b r : List Nat} (h : bshapeEq a b = some r) : a.length = r.length ∧ b.length = r.length := by
  induction a generalizing b r with
  | nil =>
    cases b with
    | nil => simp [bshapeEq] at h; subst h; simp
    | cons _ _ => simp [bshapeEq] at h
  | cons x a ih =>
    cases b with
    | nil => simp [bshapeEq] at h
    | cons y b =>
      simp only [bshapeEq] at h
      split at h
      · rename_i d r' hd hr
        simp only [Option.some.injEq] at h; subst h
        have := ih hr
        simp [this.1, this.2]
      · simp at h

theorem bidxEq_padL (k : Nat) (s idx : List Nat) (hl : idx.length = k + s.length) :
    bidxEq (List.replicate k 1 ++ s) idx = List.replicate k 0 ++ bidx s idx := by
  induction k generalizing idx with
  | zero => simp [bidxEq, bidx, hl]
  | succ k ih =>
    cases idx with
    | nil => simp at hl; omega
    | cons i idx =>
      have hl' : idx.length = k + s.length := by simp at hl; omega
      have := ih idx hl'
      simp only [List.replicate_succ, List.cons_append, bidxEq, List.zipWith_cons_cons, if_true] at this ⊢
      rw [this]
      simp only [bidx, List.length_cons]
      have : idx.length + 1 - s.length = (idx.length - s.length) + 1 := by omega
      rw [this, List.drop_succ_cons]

theorem valid_padL {k : Nat} {s j : List Nat} :
    Valid (List.replicate k 1 ++ s) (List.replicate k 0 ++ j) ↔ Valid s j := by
  induction k with
  | zero => simp
  | succ k ih => simp [List.replicate_succ, ih]

/-- **the operand indices of a broadcast are valid** -/
theorem broadcast_valid {sx sy r idx : List Nat} (h : broadcastShape sx sy = .ok r) (hv : Valid r idx) :
    Valid sx (bidx sx idx) ∧ Valid sy (bidx sy idx) := by
  unfold broadcastShape at h
  simp only at h
  split at h
  · rename_i r' hr
    simp only [Except.ok.injEq] at h; subst h
    have hlen := bshapeEq_length hr
    have hb := bshapeEq_valid hr hv
    have hil := hv.length
    unfold padL at hr hlen hb
    simp only [List.length_append, List.length_replicate] at hlen
    rw [bidxEq_padL _ _ _ (by omega), valid_padL, bidxEq_padL _ _ _ (by omega), valid_padL] at hb
    exact hb
  · cases h

theorem broadcast_length {sx sy r : List Nat} (h : broadcastShape sx sy = .ok r) :
    r.length = max sx.length sy.length := by
  unfold broadcastShape at h
  simp only at h
  split at h
  · rename_i r' hr
    simp only [Except.ok.injEq] at h; subst h
    have hlen := bshapeEq_length hr
    unfold padL at hlen
    simp only [List.length_append, List.length_replicate] at hlen
    omega
  · cases h

/-- reading a full-shape operand: the index map is the identity -/
theorem bidx_self {s idx : List Nat} (hv : Valid s idx) : bidx s idx = idx := by
  have hl := hv.length
  simp only [bidx, hl, Nat.sub_self, List.drop_zero]
  induction hv with
  | nil => simp
  | @cons i d idx s hid _ ih =>
    simp only [List.zipWith_cons_cons, List.length_cons] at *
    rw [ih (by omega)]
    split_ifs with h1
    · subst h1; simp; omega
    · rfl

/-- reading an operand that lacks the leading axis -/
theorem bidx_tail {s idx : List Nat} (c : Nat) (hv : Valid s idx) : bidx s (c :: idx) = idx := by
  have hl := hv.length
  have : bidx s (c :: idx) = bidx s idx := by
    simp only [bidx, List.length_cons, hl]
    rw [show s.length + 1 - s.length = 1 by omega]; simp
  rw [this, bidx_self hv]

section bopl
variable {α : Type} [Zero α]

theorem bop_eq (f : α → α → α) (x y : Tensor α) {r : List Nat} (h : broadcastShape x.shape y.shape = .ok r) :
    bop f x y = .ok (build r (fun idx => f (x.at (bidx x.shape idx)) (y.at (bidx y.shape idx)))) := by
  simp [bop, h]

theorem bop_err (f : α → α → α) (x y : Tensor α) {e : PyErr} (h : broadcastShape x.shape y.shape = .error e) :
    bop f x y = .error e := by
  simp [bop, h]

theorem broadcastShape_err {sx sy : List Nat} {e : PyErr} (h : broadcastShape sx sy = .error e) : e = .RuntimeError := by
  unfold broadcastShape at h
  simp only at h
  split at h
  · cases h
  · simp only [Except.error.injEq] at h; exact h.symm

@[simp] theorem zip_shape (f : α → α → α) (a b : Tensor α) : (a.zip f b).shape = a.shape := rfl
@[simp] theorem map_shape (f : α → α) (a : Tensor α) : (a.map f).shape = a.shape := rfl

theorem wf_zip (f : α → α → α) (a b : Tensor α) (hs : b.shape = a.shape) (ha : WF a) (hb : WF b) : WF (a.zip f b) := by
  unfold WF at *
  simp [Tensor.zip, ha, hb, hs]

theorem wf_map (f : α → α) (a : Tensor α) (ha : WF a) : WF (a.map f) := by
  unfold WF at *
  simpa [Tensor.map] using ha

theorem at_zip_build (f : α → α → α) (s : List Nat) (g h : List Nat → α) {idx : List Nat} (hv : Valid s idx) :
    ((build s g).zip f (build s h)).at idx = f (g idx) (h idx) := by
  rw [at_zip f (build s g) (build s h) rfl (wf_build _ _) (wf_build _ _) (by simpa using hv), at_build _ hv, at_build _ hv]

theorem wf_zip_build (f : α → α → α) (s : List Nat) (g h : List Nat → α) : WF ((build s g).zip f (build s h)) :=
  wf_zip f (build s g) (build s h) rfl (wf_build _ _) (wf_build _ _)

/-- assembling a complex tensor from two planes of shape `s` -/
theorem cat2_spec {a b : Tensor α} {s : List Nat} (P : List Nat → C α) (hsa : a.shape = s) (hsb : b.shape = s)
    (ha : WF a) (hb : WF b) (h : ∀ idx, Valid s idx → (a.at idx, b.at idx) = P idx) :
    ∃ z, cat2 a b = .ok z ∧ IsCplx z s ∧ ∀ idx, Valid s idx → centry z idx = P idx := by
  subst hsa
  refine ⟨⟨2 :: a.shape, a.data ++ b.data⟩, by simp [cat2, hsb], isCplx_cat hsb ha hb, fun idx hv => ?_⟩
  rw [centry_cat hsb ha hb hv, h idx hv]

theorem makeComplex_some (x y : Tensor α) : makeComplex x (some y) = cat2 x y := rfl

end bopl
/-! ### sums of pairs -/
section sums
variable {R : Type} [CommRing R]

theorem csum_foldl (n : ℕ) (f : Fin n → C R) (a : C R) :
    Fin.foldl n (fun acc i => C.add acc (f i)) a = (a.1 + ∑ i, (f i).1, a.2 + ∑ i, (f i).2) := by
  induction n generalizing a with
  | zero => simp [Fin.foldl_zero]
  | succ k ih =>
    rw [Fin.foldl_succ, ih, Fin.sum_univ_succ, Fin.sum_univ_succ]
    simp only [C.add, add_assoc]

/-- the pair sum `C.sum` is the componentwise `∑` -/
theorem csum_eq (n : ℕ) (f : Fin n → C R) : C.sum n f = (∑ i, (f i).1, ∑ i, (f i).2) := by
  simp [C.sum, csum_foldl, C.zero]

theorem lsum_eq_sum (l : List R) : lsum l = l.sum := by
  unfold lsum
  have : ∀ (a : R), List.foldl (fun acc v => acc + v) a l = a + l.sum := by
    induction l with
    | nil => simp
    | cons x xs ih => intro a; simp [ih, add_assoc]
  simpa using this 0

end sums

section scalar0
variable {α : Type} [Zero α]

/-- the single complex entry of a complex scalar `(2,)` -/
theorem centry_scalar (p q : α) : centry (⟨[2], [p, q]⟩ : Tensor α) [] = (p, q) := by
  simp [centry, Tensor.at, flatten, numel]

theorem isCplx_scalar (p q : α) : IsCplx (⟨[2], [p, q]⟩ : Tensor α) [] := by
  refine ⟨rfl, ?_⟩; simp [WF, numel]

end scalar0
/-! ### shapes split as `batch ++ matrix`, views -/

theorem numel_append (a b : List Nat) : numel (a ++ b) = numel a * numel b := by
  induction a with
  | nil => simp [numel]
  | cons d a ih => simp [numel, ih, Nat.mul_assoc]

theorem valid_append {a b i j : List Nat} (hl : i.length = a.length) :
    Valid (a ++ b) (i ++ j) ↔ Valid a i ∧ Valid b j := by
  induction a generalizing i with
  | nil => cases i with
    | nil => simp
    | cons _ _ => simp at hl
  | cons d a ih => cases i with
    | nil => simp at hl
    | cons x i =>
      simp only [List.length_cons, Nat.add_right_cancel_iff] at hl
      simp [ih hl, and_assoc]

theorem flatten_append {a b i j : List Nat} (hl : i.length = a.length) :
    flatten (a ++ b) (i ++ j) = flatten a i * numel b + flatten b j := by
  induction a generalizing i with
  | nil => cases i with
    | nil => simp [flatten]
    | cons _ _ => simp at hl
  | cons d a ih => cases i with
    | nil => simp at hl
    | cons x i =>
      simp only [List.length_cons, Nat.add_right_cancel_iff] at hl
      simp only [List.cons_append, flatten, ih hl, numel_append]
      ring

theorem splitMat_cons3 (d e f : Nat) (t : List Nat) :
    splitMat (d :: e :: f :: t) = (splitMat (e :: f :: t)).map (fun r => (d :: r.1, r.2.1, r.2.2)) := by
  simp [splitMat]

theorem splitMat_append (b : List Nat) (m k : Nat) : splitMat (b ++ [m, k]) = some (b, m, k) := by
  induction b with
  | nil => simp [splitMat]
  | cons d b ih =>
    cases b with
    | nil => simp [splitMat]
    | cons e b' =>
      obtain ⟨f, t, ht⟩ : ∃ f t, b' ++ [m, k] = f :: t := by
        cases b' with
        | nil => exact ⟨m, [k], rfl⟩
        | cons f b'' => exact ⟨f, b'' ++ [m, k], rfl⟩
      simp only [List.cons_append] at ih ⊢
      rw [ht] at ih ⊢
      rw [splitMat_cons3, ih]
      simp

section views
variable {α : Type} [Zero α]

/-- two builds zipped are a build -/
theorem zip_build (f : α → α → α) (s : List Nat) (g h : List Nat → α) :
    (build s g).zip f (build s h) = build s (fun idx => f (g idx) (h idx)) := by
  simp [Tensor.zip, build, List.zipWith_map_left, List.zipWith_map_right, List.zipWith_self]

/-- entry of a re-shaped view of the same data -/
theorem at_view (t : Tensor α) {s' idx' idx : List Nat} (h : flatten s' idx' = flatten t.shape idx) :
    (⟨s', t.data⟩ : Tensor α).at idx' = t.at idx := by
  simp [Tensor.at, h]

end views
/-! ### einsum -/

theorem valid_nil_iff {idx : List Nat} : Valid [] idx ↔ idx = [] := by
  unfold Valid; exact List.forall₂_nil_right_iff

theorem mem_allIdx {s idx : List Nat} : idx ∈ allIdx s ↔ Valid s idx := by
  induction s generalizing idx with
  | nil => simp [allIdx, valid_nil_iff]
  | cons d s ih =>
    simp only [allIdx, List.mem_flatMap, List.mem_range, List.mem_map]
    constructor
    · rintro ⟨i, hi, t, ht, rfl⟩; exact valid_cons.2 ⟨hi, ih.1 ht⟩
    · intro h
      cases idx with
      | nil => cases h
      | cons i t => rw [valid_cons] at h; exact ⟨i, h.1, t, ih.2 h.2, rfl⟩

theorem nodup_allIdx (s : List Nat) : (allIdx s).Nodup := by
  induction s with
  | nil => simp [allIdx]
  | cons d s ih =>
    simp only [allIdx]
    rw [List.nodup_flatMap]
    refine ⟨fun i _ => ih.map (fun a b h => by simpa using h), ?_⟩
    refine List.Nodup.pairwise_of_forall_ne List.nodup_range ?_
    intro i _ j _ hij
    simp only [Function.onFun, List.disjoint_left, List.mem_map]
    rintro t ⟨a, _, rfl⟩ ⟨b, _, hb⟩
    simp at hb; exact hij hb.1.symm

theorem mem_dedup {xs : List Nat} {l : Nat} : l ∈ dedup xs ↔ l ∈ xs := by
  induction xs with
  | nil => simp [dedup]
  | cons x xs ih =>
    simp only [dedup, List.mem_cons, List.mem_filter, ih, bne_iff_ne, ne_eq]
    by_cases h : l = x <;> simp [h]

theorem nodup_dedup (xs : List Nat) : (dedup xs).Nodup := by
  induction xs with
  | nil => simp [dedup]
  | cons x xs ih =>
    simp only [dedup, List.nodup_cons, List.mem_filter, bne_self_eq_false, Bool.false_eq_true, and_false,
      not_false_eq_true, true_and]
    exact ih.filter _

theorem mem_sumLabels {eq : EinEq} {l : Nat} : l ∈ sumLabels eq ↔ (l ∈ eq.a ∨ l ∈ eq.b) ∧ l ∉ eq.out := by
  simp [sumLabels, mem_dedup]

theorem lookup_zip_lt (size : Nat → Nat) {ks vs : List Nat} (hv : Valid (ks.map size) vs) {l : Nat} (hl : l ∈ ks) :
    ∃ v, (ks.zip vs).lookup l = some v ∧ v < size l := by
  induction ks generalizing vs with
  | nil => simp at hl
  | cons k ks ih =>
    cases vs with
    | nil => cases hv
    | cons v vs =>
      simp only [List.map_cons, valid_cons] at hv
      simp only [List.zip_cons_cons, List.lookup_cons]
      by_cases h : l = k
      · subst h; simp [hv.1]
      · have hb : (l == k) = false := by simpa using h
        simp only [hb]
        exact ih hv.2 (by simpa [h] using hl)

theorem lookup_zip_none {ks vs : List Nat} {l : Nat} (hl : l ∉ ks) : (ks.zip vs).lookup l = none := by
  induction ks generalizing vs with
  | nil => simp
  | cons k ks ih =>
    cases vs with
    | nil => simp
    | cons v vs =>
      simp only [List.mem_cons, not_or] at hl
      have hb : (l == k) = false := by simpa using hl.1
      simp only [List.zip_cons_cons, List.lookup_cons, hb]
      exact ih hl.2

theorem envVal_lt (size : Nat → Nat) {out sl idx sidx : List Nat} (ho : Valid (out.map size) idx)
    (hs : Valid (sl.map size) sidx) {l : Nat} (hl : l ∈ out ∨ l ∈ sl) :
    envVal (out.zip idx ++ sl.zip sidx) l < size l := by
  unfold envVal
  rw [List.lookup_append]
  by_cases h : l ∈ out
  · obtain ⟨v, hv, hlt⟩ := lookup_zip_lt size ho h
    simp [hv, hlt]
  · obtain ⟨v, hv, hlt⟩ := lookup_zip_lt size hs (hl.resolve_left h)
    simp [lookup_zip_none h, hv, hlt]

theorem bdim_left {a b r : Nat} (h : bdim a b = some r) (ha : a ≠ 1) : r = a := by
  unfold bdim at h
  split_ifs at h <;> simp_all

theorem bdim_right {a b r : Nat} (h : bdim a b = some r) (hb : b ≠ 1) : r = b := by
  unfold bdim at h
  split_ifs at h <;> simp_all

theorem operandOk_iff {ls s : List Nat} : operandOk ls s = true ↔
    ls.length = s.length ∧ ∀ p ∈ ls.zip s, labelDim ls s p.1 = some p.2 := by
  simp [operandOk, List.all_eq_true]

theorem size_of_dim_a {eq : EinEq} {sa sb : List Nat} {l d : Nat} (hd : labelDim eq.a sa l = some d)
    (hs : (labelSize eq sa sb l).isSome) (h1 : d ≠ 1) : (labelSize eq sa sb l).getD 0 = d := by
  unfold labelSize at hs ⊢
  rw [hd] at hs ⊢
  cases hb : labelDim eq.b sb l with
  | none => simp
  | some db =>
    rw [hb] at hs
    simp only at hs ⊢
    obtain ⟨r, hr⟩ := Option.isSome_iff_exists.1 hs
    rw [hr, bdim_left hr h1]; rfl

theorem size_of_dim_b {eq : EinEq} {sa sb : List Nat} {l d : Nat} (hd : labelDim eq.b sb l = some d)
    (hs : (labelSize eq sa sb l).isSome) (h1 : d ≠ 1) : (labelSize eq sa sb l).getD 0 = d := by
  unfold labelSize at hs ⊢
  rw [hd] at hs ⊢
  cases ha : labelDim eq.a sa l with
  | none => simp
  | some da =>
    rw [ha] at hs
    simp only at hs ⊢
    obtain ⟨r, hr⟩ := Option.isSome_iff_exists.1 hs
    rw [hr, bdim_right hr h1]; rfl

theorem valid_map_zip {ls s : List Nat} (g : Nat × Nat → Nat) (hl : ls.length = s.length)
    (h : ∀ p ∈ ls.zip s, g p < p.2) : Valid s ((ls.zip s).map g) := by
  induction ls generalizing s with
  | nil => cases s with
    | nil => simp
    | cons _ _ => simp at hl
  | cons l ls ih => cases s with
    | nil => simp at hl
    | cons d s =>
      simp only [List.length_cons, Nat.add_right_cancel_iff] at hl
      simp only [List.zip_cons_cons, List.map_cons, valid_cons]
      exact ⟨h (l, d) (by simp), ih hl (fun p hp => h p (by simp [hp]))⟩

theorem mem_of_mem_zip_left {ls s : List Nat} {p : Nat × Nat} (h : p ∈ ls.zip s) : p.1 ∈ ls :=
  (List.of_mem_zip h).1

/-- the einsum checks, unpacked -/
theorem einOk_iff {eq : EinEq} {sa sb : List Nat} : einOk eq sa sb = true ↔
    operandOk eq.a sa = true ∧ operandOk eq.b sb = true ∧ (∀ l ∈ eq.a ++ eq.b, (labelSize eq sa sb l).isSome)
      ∧ nodupB eq.out = true ∧ ∀ l ∈ eq.out, l ∈ eq.a ++ eq.b := by
  simp [einOk, List.all_eq_true, and_assoc]
  intro _ _
  constructor
  · rintro ⟨h1, h2, h3⟩; exact ⟨fun l hl => hl.elim (h1 l) (h2 l), h3⟩
  · rintro ⟨h1, h3⟩; exact ⟨fun x hx => h1 x (Or.inl hx), fun x hx => h1 x (Or.inr hx), h3⟩

/-- operand indices of an einsum term are valid multi-indices of the operands -/
theorem valid_opIdx {eq : EinEq} {sa sb idx sidx : List Nat} (hok : einOk eq sa sb = true)
    (ho : Valid (eq.out.map (fun l => (labelSize eq sa sb l).getD 0)) idx)
    (hs : Valid ((sumLabels eq).map (fun l => (labelSize eq sa sb l).getD 0)) sidx) :
    Valid sa (opIdx eq.a sa (eq.out.zip idx ++ (sumLabels eq).zip sidx)) ∧
    Valid sb (opIdx eq.b sb (eq.out.zip idx ++ (sumLabels eq).zip sidx)) := by
  obtain ⟨ha, hb, hsz, _, _⟩ := einOk_iff.1 hok
  rw [operandOk_iff] at ha hb
  have hmem : ∀ l, l ∈ eq.a ∨ l ∈ eq.b → l ∈ eq.out ∨ l ∈ sumLabels eq := by
    intro l hl
    by_cases h : l ∈ eq.out
    · exact Or.inl h
    · exact Or.inr (mem_sumLabels.2 ⟨hl, h⟩)
  constructor
  · refine valid_map_zip _ ha.1 (fun p hp => ?_)
    have hpa : p.1 ∈ eq.a := mem_of_mem_zip_left hp
    by_cases h1 : p.2 = 1
    · simp [h1]
    · simp only [h1, if_false]
      have := envVal_lt (fun l => (labelSize eq sa sb l).getD 0) ho hs (hmem p.1 (Or.inl hpa))
      rw [size_of_dim_a (ha.2 p hp) (hsz p.1 (by simp [hpa])) h1] at this
      exact this
  · refine valid_map_zip _ hb.1 (fun p hp => ?_)
    have hpb : p.1 ∈ eq.b := mem_of_mem_zip_left hp
    by_cases h1 : p.2 = 1
    · simp [h1]
    · simp only [h1, if_false]
      have := envVal_lt (fun l => (labelSize eq sa sb l).getD 0) ho hs (hmem p.1 (Or.inr hpb))
      rw [size_of_dim_b (hb.2 p hp) (hsz p.1 (by simp [hpb])) h1] at this
      exact this


section einsumR
variable {α : Type} [Add α] [Mul α] [Zero α]

theorem einsumR_eq {eq : EinEq} {x y : Tensor α} {sa sb : List Nat} (hsx : x.shape = sa) (hsy : y.shape = sb)
    (hok : einOk eq sa sb = true) :
    einsumR eq x y = .ok (build (eq.out.map (fun l => (labelSize eq sa sb l).getD 0)) (fun idx =>
      lsum ((allIdx ((sumLabels eq).map (fun l => (labelSize eq sa sb l).getD 0))).map (fun sidx =>
        x.at (opIdx eq.a sa (eq.out.zip idx ++ (sumLabels eq).zip sidx))
          * y.at (opIdx eq.b sb (eq.out.zip idx ++ (sumLabels eq).zip sidx)))))) := by
  subst hsx; subst hsy
  unfold einsumR
  rw [if_pos hok]

theorem einsumR_err {eq : EinEq} {x y : Tensor α} {sa sb : List Nat} (hsx : x.shape = sa) (hsy : y.shape = sb)
    (hok : einOk eq sa sb = false) : einsumR eq x y = .error .RuntimeError := by
  subst hsx; subst hsy
  unfold einsumR
  rw [if_neg (by simp [hok])]

end einsumR

section einsumC
variable {R : Type} [CommRing R]

/-- componentwise sum of a list of pairs -/
def cpairSum (l : List (C R)) : C R := ((l.map Prod.fst).sum, (l.map Prod.snd).sum)

theorem list_sum_map_sub {ι : Type} (L : List ι) (f g : ι → R) :
    (L.map f).sum - (L.map g).sum = (L.map (fun a => f a - g a)).sum := by
  induction L with
  | nil => simp
  | cons a L ih => simp only [List.map_cons, List.sum_cons, ← ih]; ring

theorem list_sum_map_add {ι : Type} (L : List ι) (f g : ι → R) :
    (L.map f).sum + (L.map g).sum = (L.map (fun a => f a + g a)).sum := by
  induction L with
  | nil => simp
  | cons a L ih => simp only [List.map_cons, List.sum_cons, ← ih]; ring

end einsumC

/-! ### `torch.matmul` in explicit form -/
section
variable {α : Type} [Add α] [Mul α] [Zero α]

theorem matmulR_eq {x y : Tensor α} {sx sy xb yb bs : List Nat} {m k p : Nat}
    (hsx : x.shape = sx) (hsy : y.shape = sy) (hx0 : sx ≠ []) (hy0 : sy ≠ [])
    (hxs : (if sx.length == 1 then 1 :: sx else sx) = xb ++ [m, k])
    (hys : (if sy.length == 1 then sy ++ [1] else sy) = yb ++ [k, p])
    (hb : broadcastShape xb yb = .ok bs) :
    matmulR x y = .ok ⟨bs ++ (if sx.length == 1 then [] else [m]) ++ (if sy.length == 1 then [] else [p]),
      (build (bs ++ [m, p]) (fun idx =>
        sumFin k (fun c =>
          (⟨xb ++ [m, k], x.data⟩ : Tensor α).at (bidx xb (idx.take bs.length) ++ [idx.getD bs.length 0, c.val])
          * (⟨yb ++ [k, p], y.data⟩ : Tensor α).at (bidx yb (idx.take bs.length) ++ [c.val, idx.getD (bs.length + 1) 0])))).data⟩ := by
  subst hsx; subst hsy
  unfold matmulR
  split
  · rename_i h; exact absurd h hx0
  · rename_i h _; exact absurd h hy0
  · simp only [hxs, hys, splitMat_append, hb, ne_eq, not_true_eq_false, if_false]

theorem zip_view (f : α → α → α) (S' S : List Nat) (g h : List Nat → α) :
    (⟨S', (build S g).data⟩ : Tensor α).zip f ⟨S', (build S h).data⟩
      = ⟨S', (build S (fun idx => f (g idx) (h idx))).data⟩ := by
  rw [← zip_build]; rfl

/-- a complex tensor assembled from two re-shaped builds -/
theorem cat2_views {S S' : List Nat} (G1 G2 : List Nat → α) (hn : numel S' = numel S) :
    ∃ z, cat2 (⟨S', (build S G1).data⟩ : Tensor α) ⟨S', (build S G2).data⟩ = .ok z ∧ IsCplx z S' ∧
      ∀ idx' idx, Valid S' idx' → Valid S idx → flatten S' idx' = flatten S idx → centry z idx' = (G1 idx, G2 idx) := by
  obtain ⟨z, hz, hc, he⟩ := cat2_spec (a := (⟨S', (build S G1).data⟩ : Tensor α)) (b := ⟨S', (build S G2).data⟩) (s := S')
    (fun idx' => ((⟨S', (build S G1).data⟩ : Tensor α).at idx', (⟨S', (build S G2).data⟩ : Tensor α).at idx'))
    rfl rfl (by simp [WF, hn]) (by simp [WF, hn]) (fun _ _ => rfl)
  refine ⟨z, hz, hc, fun idx' idx hv' hv hf => ?_⟩
  rw [he idx' hv', at_view (build S G1) (by simpa using hf), at_view (build S G2) (by simpa using hf),
    at_build _ hv, at_build _ hv]

/-- complex entry of a promoted (re-shaped) operand -/
def pentry (s : List Nat) (x : Tensor α) (sx : List Nat) (idx : List Nat) : C α :=
  ((⟨s, (reT x sx).data⟩ : Tensor α).at idx, (⟨s, (imT x sx).data⟩ : Tensor α).at idx)

theorem pentry_self {x : Tensor α} {sx idx : List Nat} (hx : IsCplx x sx) (hv : Valid sx idx) :
    pentry sx x sx idx = centry x idx := by
  unfold pentry
  have h1 : (⟨sx, (reT x sx).data⟩ : Tensor α) = reT x sx := rfl
  have h2 : (⟨sx, (imT x sx).data⟩ : Tensor α) = imT x sx := rfl
  rw [h1, h2, reT_at hx hv, imT_at hx hv]

end

section
variable {α : Type} [Add α] [Mul α] [Zero α]

theorem matmulR_err_inner {x y : Tensor α} {sx sy xb yb : List Nat} {m k k' p : Nat}
    (hsx : x.shape = sx) (hsy : y.shape = sy) (hx0 : sx ≠ []) (hy0 : sy ≠ [])
    (hxs : (if sx.length == 1 then 1 :: sx else sx) = xb ++ [m, k])
    (hys : (if sy.length == 1 then sy ++ [1] else sy) = yb ++ [k', p]) (hk : k ≠ k') :
    matmulR x y = .error .RuntimeError := by
  subst hsx; subst hsy
  unfold matmulR
  split
  · rename_i h; exact absurd h hx0
  · rename_i h _; exact absurd h hy0
  · simp only [hxs, hys, splitMat_append, ne_eq, hk, not_false_eq_true, if_true]

theorem matmulR_err_scalar {x y : Tensor α} (h : x.shape = [] ∨ y.shape = []) :
    matmulR x y = .error .RuntimeError := by
  unfold matmulR
  split
  · rfl
  · rfl
  · rename_i h1 h2; rcases h with h | h
    · exact absurd h (by simpa using h1)
    · exact absurd h (by simpa using h2)

theorem pentry_vec_left {x : Tensor α} {k c : Nat} (hx : IsCplx x [k]) (hc : c < k) :
    pentry [1, k] x [k] [0, c] = centry x [c] := by
  have hv : Valid [k] [c] := by simp [hc]
  unfold pentry
  rw [at_view (reT x [k]) (idx := [c]) (by simp [flatten, numel]),
    at_view (imT x [k]) (idx := [c]) (by simp [flatten, numel]), reT_at hx hv, imT_at hx hv]

theorem pentry_vec_right {x : Tensor α} {k c : Nat} (hx : IsCplx x [k]) (hc : c < k) :
    pentry [k, 1] x [k] [c, 0] = centry x [c] := by
  have hv : Valid [k] [c] := by simp [hc]
  unfold pentry
  rw [at_view (reT x [k]) (idx := [c]) (by simp [flatten, numel]),
    at_view (imT x [k]) (idx := [c]) (by simp [flatten, numel]), reT_at hx hv, imT_at hx hv]

end

section
open Finset
variable {R : Type} [CommRing R]

/-- `Σ a·b − Σ c·d`, `Σ a·d' + Σ c·b'` as the pair sum of complex products -/
theorem sum_mul_pair (k : ℕ) (X Y : Fin k → C R) :
    (sumFin k (fun c => (X c).1 * (Y c).1) - sumFin k (fun c => (X c).2 * (Y c).2),
     sumFin k (fun c => (X c).1 * (Y c).2) + sumFin k (fun c => (X c).2 * (Y c).1))
      = C.sum k (fun c => C.mul (X c) (Y c)) := by
  simp only [sumFin_eq, csum_eq, C.mul, Finset.sum_sub_distrib, Finset.sum_add_distrib]

theorem matmul_core {x y : Tensor R} {sx sy xb yb bs : List Nat} {m k p : Nat}
    (hx : IsCplx x sx) (hy : IsCplx y sy) (hx0 : sx ≠ []) (hy0 : sy ≠ [])
    (hxs : (if sx.length == 1 then 1 :: sx else sx) = xb ++ [m, k])
    (hys : (if sy.length == 1 then sy ++ [1] else sy) = yb ++ [k, p])
    (hb : broadcastShape xb yb = .ok bs)
    (hn : numel (bs ++ (if sx.length == 1 then [] else [m]) ++ (if sy.length == 1 then [] else [p])) = numel (bs ++ [m, p])) :
    ∃ z, matmul x y = .ok z ∧
      IsCplx z (bs ++ (if sx.length == 1 then [] else [m]) ++ (if sy.length == 1 then [] else [p])) ∧
      ∀ idx' bi i j, Valid (bs ++ (if sx.length == 1 then [] else [m]) ++ (if sy.length == 1 then [] else [p])) idx' →
        Valid bs bi → i < m → j < p →
        flatten (bs ++ (if sx.length == 1 then [] else [m]) ++ (if sy.length == 1 then [] else [p])) idx'
          = flatten (bs ++ [m, p]) (bi ++ [i, j]) →
        centry z idx' = C.sum k (fun c => C.mul (pentry (xb ++ [m, k]) x sx (bidx xb bi ++ [i, c.val]))
          (pentry (yb ++ [k, p]) y sy (bidx yb bi ++ [c.val, j]))) := by
  unfold matmul
  rw [real_eq hx, real_eq hy, imag_eq hx, imag_eq hy]
  simp only [ok_bind]
  rw [matmulR_eq (x := reT x sx) (y := reT y sy) (sx := sx) (sy := sy) rfl rfl hx0 hy0 hxs hys hb,
    matmulR_eq (x := imT x sx) (y := imT y sy) (sx := sx) (sy := sy) rfl rfl hx0 hy0 hxs hys hb,
    matmulR_eq (x := reT x sx) (y := imT y sy) (sx := sx) (sy := sy) rfl rfl hx0 hy0 hxs hys hb,
    matmulR_eq (x := imT x sx) (y := reT y sy) (sx := sx) (sy := sy) rfl rfl hx0 hy0 hxs hys hb]
  simp only [ok_bind, makeComplex_some]
  rw [zip_view, zip_view]
  refine Exists.imp (fun z h => ⟨h.1, h.2.1, fun idx' bi i j hv' hbi hi hj hf => ?_⟩) (cat2_views _ _ hn)
  have hl := hbi.length
  have hv : Valid (bs ++ [m, p]) (bi ++ [i, j]) := by
    rw [valid_append hl]; exact ⟨hbi, by simp [hi, hj]⟩
  rw [h.2.2 idx' (bi ++ [i, j]) hv' hv hf]
  have e1 : (bi ++ [i, j]).take bs.length = bi := by rw [← hl]; simp
  have e2 : (bi ++ [i, j]).getD bs.length 0 = i := by
    rw [← hl, List.getD_append_right _ _ _ _ (le_refl _)]; simp
  have e3 : (bi ++ [i, j]).getD (bs.length + 1) 0 = j := by
    rw [← hl, List.getD_append_right _ _ _ _ (by omega)]; simp
  simp only [e1, e2, e3]
  exact sum_mul_pair k (fun c => pentry (xb ++ [m, k]) x sx (bidx xb bi ++ [i, c.val]))
    (fun c => pentry (yb ++ [k, p]) y sy (bidx yb bi ++ [c.val, j]))
end

/-! ### more broadcasting facts -/

theorem bdim_self (a : Nat) : bdim a a = some a := by simp [bdim]
theorem bdim_one_right (a : Nat) : bdim a 1 = some a := by
  unfold bdim; by_cases h : a = 1 <;> simp [h]

theorem bshapeEq_self (s : List Nat) : bshapeEq s s = some s := by
  induction s with
  | nil => rfl
  | cons d s ih => simp [bshapeEq, bdim_self, ih]

theorem broadcastShape_self (s : List Nat) : broadcastShape s s = .ok s := by
  simp [broadcastShape, padL, bshapeEq_self]

theorem broadcastShape_cons_tail (d : Nat) (s : List Nat) : broadcastShape (d :: s) s = .ok (d :: s) := by
  have h1 : padL (max (d :: s).length s.length) (d :: s) = d :: s := by simp [padL]
  have h2 : padL (max (d :: s).length s.length) s = 1 :: s := by
    simp only [padL, List.length_cons]
    rw [show max (s.length + 1) s.length - s.length = 1 by omega]; rfl
  unfold broadcastShape
  simp only [h1, h2, bshapeEq, bdim_one_right, bshapeEq_self]

theorem bshapeEq_ones (s : List Nat) : bshapeEq s (List.replicate s.length 1) = some s := by
  induction s with
  | nil => rfl
  | cons d s ih => simp [List.replicate_succ, bshapeEq, bdim_one_right, ih]

theorem broadcastShape_nil_right (s : List Nat) : broadcastShape s [] = .ok s := by
  simp [broadcastShape, padL, bshapeEq_ones]

theorem bshapeEq_ones_left (s : List Nat) : bshapeEq (List.replicate s.length 1) s = some s := by
  induction s with
  | nil => rfl
  | cons d s ih =>
    simp only [List.length_cons, List.replicate_succ, bshapeEq, ih]
    by_cases h : d = 1 <;> simp [bdim, h, eq_comm]

theorem broadcastShape_nil_left (s : List Nat) : broadcastShape [] s = .ok s := by
  simp [broadcastShape, padL, bshapeEq_ones_left]

theorem bidx_nil (idx : List Nat) : bidx [] idx = [] := by simp [bidx]

section cbuild
variable {α : Type} [Zero α]

theorem isCplx_build (s : List Nat) (f : List Nat → α) : IsCplx (build (2 :: s) f) s := ⟨rfl, wf_build _ _⟩

theorem centry_build {s idx : List Nat} (f : List Nat → α) (hv : Valid s idx) :
    centry (build (2 :: s) f) idx = (f (0 :: idx), f (1 :: idx)) := by
  simp only [centry]
  rw [at_build _ (by simp [hv]), at_build _ (by simp [hv])]

end cbuild

section planes
variable {α : Type} [Zero α]

/-- a complex tensor `(2 :: s)` combined (broadcast) with a real tensor of its tensor shape `s` (`z / scale`,
`conj(z) / denominator`): both planes are combined entrywise with the real tensor -/
theorem bop_planes (f : α → α → α) {z sc : Tensor α} {s : List Nat} (hz : IsCplx z s) (hs : sc.shape = s) :
    ∃ w, bop f z sc = .ok w ∧ IsCplx w s ∧
      ∀ idx, Valid s idx → centry w idx = (f (centry z idx).1 (sc.at idx), f (centry z idx).2 (sc.at idx)) := by
  rw [bop_eq f z sc (r := 2 :: s) (by rw [hz.1, hs]; exact broadcastShape_cons_tail 2 s)]
  refine ⟨_, rfl, isCplx_build _ _, fun idx hv => ?_⟩
  have hv0 : Valid (2 :: s) (0 :: idx) := by simp [hv]
  have hv1 : Valid (2 :: s) (1 :: idx) := by simp [hv]
  rw [centry_build _ hv]
  simp only [hz.1, hs, bidx_self hv0, bidx_self hv1, bidx_tail _ hv]
  rfl

/-- the two planes of a complex tensor combined entrywise (`torch.hypot(real x, imag x)`, `torch.max(|re|, |im|)`) -/
theorem zip_planes (f : α → α → α) {x : Tensor α} {s : List Nat} (hx : IsCplx x s) :
    ((reT x s).zip f (imT x s)).shape = s ∧ WF ((reT x s).zip f (imT x s)) ∧
    ∀ idx, Valid s idx → ((reT x s).zip f (imT x s)).at idx = f (centry x idx).1 (centry x idx).2 := by
  refine ⟨rfl, wf_zip f (reT x s) (imT x s) rfl (reT_wf hx) (imT_wf hx), fun idx hv => ?_⟩
  rw [at_zip f (reT x s) (imT x s) rfl (reT_wf hx) (imT_wf hx) (by simpa using hv), reT_at hx hv, imT_at hx hv]

/-- entrywise map of a complex tensor (`x / scale` with a 0-d `scale`) -/
theorem map_cplx (f : α → α) {x : Tensor α} {s : List Nat} (hx : IsCplx x s) :
    IsCplx (x.map f) s ∧ ∀ idx, Valid s idx → centry (x.map f) idx = (f (centry x idx).1, f (centry x idx).2) := by
  refine ⟨⟨hx.1, wf_map _ _ hx.2⟩, fun idx hv => ?_⟩
  simp only [centry]
  rw [at_map f x hx.2 (by rw [hx.1]; simp [hv]), at_map f x hx.2 (by rw [hx.1]; simp [hv])]

end planes

/-! ### decoding into ℂ -/

/-- decoding of a real pair as a complex number -/
def dec (p : C ℝ) : ℂ := ⟨p.1, p.2⟩

@[simp] theorem dec_re (p : C ℝ) : (dec p).re = p.1 := rfl
@[simp] theorem dec_im (p : C ℝ) : (dec p).im = p.2 := rfl

theorem dec_injective : Function.Injective dec := by
  intro a b h
  have h1 := congrArg Complex.re h
  have h2 := congrArg Complex.im h
  exact Prod.ext h1 h2

theorem dec_mul (a b : C ℝ) : dec (C.mul a b) = dec a * dec b := by
  apply Complex.ext <;> simp [C.mul]
theorem dec_add (a b : C ℝ) : dec (C.add a b) = dec a + dec b := by
  apply Complex.ext <;> simp [C.add]
theorem dec_sub (a b : C ℝ) : dec (C.sub a b) = dec a - dec b := by
  apply Complex.ext <;> simp [C.sub]
theorem dec_neg (a : C ℝ) : dec (C.neg a) = - dec a := by
  apply Complex.ext <;> simp [C.neg]
theorem dec_conj (a : C ℝ) : dec (C.conj a) = (starRingEnd ℂ) (dec a) := by
  apply Complex.ext <;> simp [C.conj]
theorem dec_pair_zero (x : ℝ) : dec (x, 0) = (x : ℂ) := by
  apply Complex.ext <;> simp
theorem dec_normSq (a : C ℝ) : C.normSq a = Complex.normSq (dec a) := by
  simp [C.normSq, Complex.normSq_apply]
theorem dec_sum (n : ℕ) (f : Fin n → C ℝ) : dec (C.sum n f) = ∑ i, dec (f i) := by
  rw [csum_eq]
  apply Complex.ext <;> simp
theorem dec_cpairSum (l : List (C ℝ)) : dec (cpairSum l) = (l.map dec).sum := by
  induction l with
  | nil => simp [cpairSum]; rfl
  | cons a l ih =>
    simp only [cpairSum, List.map_cons, List.sum_cons] at ih ⊢
    rw [← ih]
    apply Complex.ext <;> simp

theorem dec_eq_zero {a : C ℝ} : dec a = 0 ↔ a = (0, 0) := by
  constructor
  · intro h
    have h1 := congrArg Complex.re h
    have h2 := congrArg Complex.im h
    exact Prod.ext (by simpa using h1) (by simpa using h2)
  · rintro rfl; rfl

/-- the quotient as the code computes it: `a·conj(b)` divided by `(√(Re(b·conj b)))²` -/
theorem dec_div_code (a b : C ℝ) (hb : dec b ≠ 0) :
    dec ((C.mul a (C.conj b)).1 / (Real.sqrt ((C.mul b (C.conj b)).1) * Real.sqrt ((C.mul b (C.conj b)).1)),
         (C.mul a (C.conj b)).2 / (Real.sqrt ((C.mul b (C.conj b)).1) * Real.sqrt ((C.mul b (C.conj b)).1)))
      = dec a / dec b := by
  have hn : (C.mul b (C.conj b)).1 = Complex.normSq (dec b) := by
    simp [C.mul, C.conj, Complex.normSq_apply]
  have hpos : 0 < Complex.normSq (dec b) := Complex.normSq_pos.2 hb
  rw [hn, Real.mul_self_sqrt hpos.le]
  apply Complex.ext
  · simp only [dec_re, Complex.div_re, C.mul, C.conj, dec_im]
    field_simp; ring
  · simp only [dec_im, Complex.div_im, C.mul, C.conj, dec_re]
    field_simp; ring

/-- the inverse as the code computes it: `conj(z) / Re(z·conj z)` -/
theorem dec_inv_code (z : C ℝ) :
    dec ((C.conj z).1 / (C.mul z (C.conj z)).1, (C.conj z).2 / (C.mul z (C.conj z)).1) = (dec z)⁻¹ := by
  have hn : (C.mul z (C.conj z)).1 = Complex.normSq (dec z) := by
    simp [C.mul, C.conj, Complex.normSq_apply]
  rw [hn]
  apply Complex.ext
  · simp [Complex.inv_re, C.conj]
  · simp [Complex.inv_im, C.conj]

/-- numpy's complex quotient (`C.div`) -/
theorem dec_div (a b : C ℝ) (hb : dec b ≠ 0) : dec (C.div a b) = dec a / dec b := by
  have hpos : 0 < Complex.normSq (dec b) := Complex.normSq_pos.2 hb
  unfold C.div
  rw [dec_normSq]
  apply Complex.ext
  · simp only [dec_re, Complex.div_re, C.mul, C.conj, dec_im]
    field_simp; ring
  · simp only [dec_im, Complex.div_im, C.mul, C.conj, dec_re]
    field_simp; ring

theorem dec_expC (z : C ℝ) : dec (expC z) = Complex.exp (dec z) := by
  apply Complex.ext
  · simp [expC, Complex.exp_re]
  · simp [expC, Complex.exp_im]

theorem dec_one_add_expC (z : C ℝ) : dec (1 + (expC z).1, (expC z).2) = 1 + Complex.exp (dec z) := by
  rw [← dec_expC]; apply Complex.ext <;> simp

/-- the logistic function as coded after F17_sigmoid (`1/(1+e^{-z})` for `Re z > 0`, `e^z/(1+e^z)` otherwise) is
`e^z / (1 + e^z)` wherever that is defined -/
theorem dec_sigC (z : C ℝ) (h : 1 + Complex.exp (dec z) ≠ 0) :
    dec (sigC z) = Complex.exp (dec z) / (1 + Complex.exp (dec z)) := by
  unfold sigC
  split_ifs with hpos
  · have hne : Complex.exp (dec z) ≠ 0 := Complex.exp_ne_zero _
    have h2 : 1 + Complex.exp (dec (C.neg z)) ≠ 0 := by
      rw [dec_neg, Complex.exp_neg]
      intro h0
      apply h
      have : (1 + (Complex.exp (dec z))⁻¹) * Complex.exp (dec z) = 0 := by rw [h0, zero_mul]
      rw [add_mul, one_mul, inv_mul_cancel₀ hne] at this
      rw [add_comm]; exact this
    simp only
    rw [dec_div _ _ (by rw [dec_one_add_expC]; exact h2), dec_one_add_expC, dec_neg, Complex.exp_neg]
    have h1 : dec (C.one : C ℝ) = 1 := by apply Complex.ext <;> simp [C.one]
    rw [h1]
    have h3 : 1 + (Complex.exp (dec z))⁻¹ = (1 + Complex.exp (dec z)) / Complex.exp (dec z) := by
      field_simp; ring
    rw [h3, one_div, inv_div]
  · simp only
    rw [dec_div _ _ (by rw [dec_one_add_expC]; exact h), dec_one_add_expC, dec_expC]

/-- the exponential the repaired sigmoid forms has modulus at most 1 (it cannot overflow) -/
theorem sigC_exp_bounded (z : C ℝ) :
    ‖dec (expC (if 0 < z.1 then C.neg z else z))‖ ≤ 1 := by
  rw [dec_expC, Complex.norm_exp]
  split_ifs with h
  · rw [dec_neg]; simp only [Complex.neg_re, dec_re]; rw [Real.exp_le_one_iff]; linarith
  · simp only [dec_re]; rw [Real.exp_le_one_iff]; linarith

theorem abs_code (z : C ℝ) : Real.sqrt ((C.mul z (C.conj z)).1) = ‖dec z‖ := by
  rw [Complex.norm_def]
  congr 1
  simp [C.mul, C.conj, Complex.normSq_apply]


/-- `hypot` (the scaled formula of the model) is `√(a² + b²)` -/
theorem hypot_eq (a b : ℝ) : hypot a b = Real.sqrt (a * a + b * b) := by
  unfold hypot
  simp only [transc_max, transc_abs, transc_sqrt]
  split_ifs with hm
  · have hm0 : max |a| |b| ≠ 0 := ne_of_gt hm
    set m := max |a| |b| with hmdef
    have h1 : m * Real.sqrt (a / m * (a / m) + b / m * (b / m))
        = Real.sqrt (m * m) * Real.sqrt (a / m * (a / m) + b / m * (b / m)) := by
      rw [Real.sqrt_mul_self hm.le]
    rw [h1, ← Real.sqrt_mul (mul_self_nonneg _)]
    congr 1
    field_simp
  · have h0 : max |a| |b| = 0 := le_antisymm (not_lt.1 hm) (le_trans (abs_nonneg a) (le_max_left _ _))
    have ha : a = 0 := abs_eq_zero.1 (le_antisymm (h0 ▸ le_max_left |a| |b|) (abs_nonneg a))
    have hb : b = 0 := abs_eq_zero.1 (le_antisymm (h0 ▸ le_max_right |a| |b|) (abs_nonneg b))
    rw [h0, ha, hb]; simp

theorem hypot_eq_norm (z : C ℝ) : hypot z.1 z.2 = ‖dec z‖ := by
  rw [hypot_eq, Complex.norm_def, Complex.normSq_apply]; rfl

/-- the larger component of a non-zero complex number is positive -/
theorem cscale_pos {z : C ℝ} (h : dec z ≠ 0) : 0 < max |z.1| |z.2| := by
  rcases lt_or_eq_of_le (le_trans (abs_nonneg z.1) (le_max_left |z.1| |z.2|)) with h1 | h1
  · exact h1
  · exfalso; apply h
    have ha : z.1 = 0 := abs_eq_zero.1 (le_antisymm (h1 ▸ le_max_left |z.1| |z.2|) (abs_nonneg _))
    have hb : z.2 = 0 := abs_eq_zero.1 (le_antisymm (h1 ▸ le_max_right |z.1| |z.2|) (abs_nonneg _))
    apply Complex.ext <;> simp [ha, hb]

/-- the components scaled by the larger one lie in `[-1, 1]` and the sum of their squares in `[1, 2]`: nothing the
repaired division / modulus forms from them can overflow or underflow -/
theorem scaled_bounds (a b : ℝ) (hm : 0 < max |a| |b|) :
    abs (a / max |a| |b|) ≤ 1 ∧ abs (b / max |a| |b|) ≤ 1 ∧
    1 ≤ (a / max |a| |b|) * (a / max |a| |b|) + (b / max |a| |b|) * (b / max |a| |b|) ∧
    (a / max |a| |b|) * (a / max |a| |b|) + (b / max |a| |b|) * (b / max |a| |b|) ≤ 2 := by
  set m := max |a| |b| with hmdef
  have ha : |a / m| ≤ 1 := by rw [abs_div, abs_of_pos hm, div_le_one hm]; exact le_max_left _ _
  have hb : |b / m| ≤ 1 := by rw [abs_div, abs_of_pos hm, div_le_one hm]; exact le_max_right _ _
  have hsqa : (a / m) * (a / m) = |a / m| * |a / m| := (abs_mul_abs_self _).symm
  have hsqb : (b / m) * (b / m) = |b / m| * |b / m| := (abs_mul_abs_self _).symm
  refine ⟨ha, hb, ?_, ?_⟩
  · rcases max_choice |a| |b| with h | h
    · have : |a / m| = 1 := by rw [abs_div, abs_of_pos hm, hmdef, h, div_self]; rw [← h]; exact ne_of_gt hm
      rw [hsqa, this]; nlinarith [mul_self_nonneg (b / m)]
    · have : |b / m| = 1 := by rw [abs_div, abs_of_pos hm, hmdef, h, div_self]; rw [← h]; exact ne_of_gt hm
      rw [hsqb, this]; nlinarith [mul_self_nonneg (a / m)]
  · rw [hsqa, hsqb]
    nlinarith [abs_nonneg (a / m), abs_nonneg (b / m)]

/-- the inverse as the repaired code computes it: `w = z/s`, `conj(w) / Re(w·conj w) / s` (any non-zero scale `s`) -/
theorem dec_inv_scaled (z : C ℝ) (s : ℝ) (hs : s ≠ 0) :
    dec ((C.conj (z.1 / s, z.2 / s)).1 / (C.mul (z.1 / s, z.2 / s) (C.conj (z.1 / s, z.2 / s))).1 / s,
         (C.conj (z.1 / s, z.2 / s)).2 / (C.mul (z.1 / s, z.2 / s) (C.conj (z.1 / s, z.2 / s))).1 / s) = (dec z)⁻¹ := by
  have h := dec_inv_code (z.1 / s, z.2 / s)
  have hz : dec (z.1 / s, z.2 / s) = dec z / (s : ℂ) := by
    apply Complex.ext <;> simp [Complex.div_re, Complex.div_im, Complex.normSq_apply] <;> field_simp
  have hl : ∀ p : C ℝ, dec (p.1 / s, p.2 / s) = dec p / (s : ℂ) := by
    intro p
    apply Complex.ext <;> simp [Complex.div_re, Complex.div_im, Complex.normSq_apply] <;> field_simp
  have := hl ((C.conj (z.1 / s, z.2 / s)).1 / (C.mul (z.1 / s, z.2 / s) (C.conj (z.1 / s, z.2 / s))).1,
    (C.conj (z.1 / s, z.2 / s)).2 / (C.mul (z.1 / s, z.2 / s) (C.conj (z.1 / s, z.2 / s))).1)
  simp only at this
  rw [this, h, hz]
  have hsc : (s : ℂ) ≠ 0 := by exact_mod_cast hs
  by_cases h0 : dec z = 0
  · simp [h0]
  · field_simp

/-- the quotient as the repaired code computes it: `(x/s)·conj(y/s)` divided by `hypot(y/s)²` (any non-zero `s`) -/
theorem dec_div_scaled (a b : C ℝ) (s : ℝ) (hs : s ≠ 0) (hb : dec b ≠ 0) :
    dec ((C.mul (a.1 / s, a.2 / s) (C.conj (b.1 / s, b.2 / s))).1 / (hypot (b.1 / s) (b.2 / s) * hypot (b.1 / s) (b.2 / s)),
         (C.mul (a.1 / s, a.2 / s) (C.conj (b.1 / s, b.2 / s))).2 / (hypot (b.1 / s) (b.2 / s) * hypot (b.1 / s) (b.2 / s)))
      = dec a / dec b := by
  have hl : ∀ p : C ℝ, dec (p.1 / s, p.2 / s) = dec p / (s : ℂ) := by
    intro p
    apply Complex.ext <;> simp [Complex.div_re, Complex.div_im, Complex.normSq_apply] <;> field_simp
  have hsc : (s : ℂ) ≠ 0 := by exact_mod_cast hs
  have hb' : dec (b.1 / s, b.2 / s) ≠ 0 := by rw [hl]; exact div_ne_zero hb hsc
  have h := dec_div_code (a.1 / s, a.2 / s) (b.1 / s, b.2 / s) hb'
  rw [abs_code, ← hypot_eq_norm] at h
  simp only at h
  rw [h, hl, hl]
  field_simp

/-! ### broadcasting: the right-aligned specification -/

/-- axis length `k` positions from the RIGHT, missing axes count as length 1 (the textbook statement of
broadcasting) -/
def rdim (s : List Nat) (k : Nat) : Nat := s.reverse.getD k 1
/-- index component `k` positions from the right -/
def ridx (idx : List Nat) (k : Nat) : Nat := idx.reverse.getD k 0

theorem bdim_iff {a b c : Nat} : bdim a b = some c ↔ (a = b ∨ a = 1 ∨ b = 1) ∧ c = if a = 1 then b else a := by
  unfold bdim
  by_cases hab : a = b
  · subst hab; simp; exact eq_comm
  · by_cases ha : a = 1
    · subst ha; simp [hab]; exact eq_comm
    · by_cases hb : b = 1
      · subst hb; simp [hab]; exact eq_comm
      · simp [hab, ha, hb]

theorem bshapeEq_iff {a b r : List Nat} : bshapeEq a b = some r ↔
    a.length = r.length ∧ b.length = r.length ∧ ∀ i, i < r.length → bdim (a.getD i 1) (b.getD i 1) = some (r.getD i 1) := by
  induction a generalizing b r with
  | nil =>
    cases b with
    | nil =>
      simp only [bshapeEq, Option.some.injEq, List.length_nil]
      constructor
      · rintro rfl; simp
      · rintro ⟨h, _, _⟩; exact (List.length_eq_zero_iff.1 h.symm).symm
    | cons y b =>
      simp only [bshapeEq, List.length_nil, List.length_cons]
      constructor
      · intro h; cases h
      · rintro ⟨h1, h2, _⟩; omega
  | cons x a ih =>
    cases b with
    | nil =>
      simp only [bshapeEq, List.length_nil, List.length_cons]
      constructor
      · intro h; cases h
      · rintro ⟨h1, h2, _⟩; omega
    | cons y b =>
      cases r with
      | nil =>
        simp only [bshapeEq, List.length_cons, List.length_nil]
        constructor
        · intro h; split at h <;> cases h
        · rintro ⟨h1, _, _⟩; omega
      | cons d r =>
        constructor
        · intro h
          simp only [bshapeEq] at h
          split at h
          · rename_i d' r' hd hr
            simp only [Option.some.injEq, List.cons.injEq] at h
            obtain ⟨rfl, rfl⟩ := h
            obtain ⟨h1, h2, h3⟩ := ih.1 hr
            refine ⟨by simp [h1], by simp [h2], fun i hi => ?_⟩
            cases i with
            | zero => simpa using hd
            | succ i => simpa using h3 i (by simpa using hi)
          · cases h
        · rintro ⟨h1, h2, h3⟩
          have hd : bdim x y = some d := by simpa using h3 0 (by simp)
          have hr : bshapeEq a b = some r := ih.2 ⟨by simpa using h1, by simpa using h2, fun i hi => by
            simpa using h3 (i + 1) (by simpa using hi)⟩
          simp [bshapeEq, hd, hr]

theorem rdim_of_lt {l : List Nat} {k : Nat} (h : k < l.length) : rdim l k = l.getD (l.length - 1 - k) 1 := by
  unfold rdim; exact congrFun (List.getD_reverse k h) 1
theorem rdim_of_ge {l : List Nat} {k : Nat} (h : l.length ≤ k) : rdim l k = 1 := by
  unfold rdim; exact List.getD_eq_default _ _ (by simpa using h)

theorem rdim_padL {n : Nat} {s : List Nat} (h : s.length ≤ n) (k : Nat) : rdim (padL n s) k = rdim s k := by
  unfold rdim padL
  rw [List.reverse_append, List.reverse_replicate]
  by_cases hk : k < s.length
  · rw [List.getD_append _ _ _ _ (by simpa using hk)]
  · have hk' : s.reverse.length ≤ k := by simpa using hk
    rw [List.getD_append_right _ _ _ _ hk', List.getD_eq_default s.reverse 1 hk']
    by_cases h2 : k - s.reverse.length < n - s.length
    · rw [List.getD_replicate _ h2]
    · rw [List.getD_eq_default _ _ (by simpa using h2)]

/-- left-indexed ↔ right-indexed statements for lists of a common length -/
theorem forall_getD_iff_rdim {a b r : List Nat} (ha : a.length = r.length) (hb : b.length = r.length)
    (P : Nat → Nat → Nat → Prop) (h1 : P 1 1 1) :
    (∀ i, i < r.length → P (a.getD i 1) (b.getD i 1) (r.getD i 1)) ↔ ∀ k, P (rdim a k) (rdim b k) (rdim r k) := by
  constructor
  · intro h k
    by_cases hk : k < r.length
    · rw [rdim_of_lt (by omega), rdim_of_lt (by omega), rdim_of_lt hk, ha, hb]
      exact h _ (by omega)
    · rw [rdim_of_ge (by omega), rdim_of_ge (by omega), rdim_of_ge (by omega)]; exact h1
  · intro h i hi
    have := h (r.length - 1 - i)
    rw [rdim_of_lt (by omega), rdim_of_lt (by omega), rdim_of_lt (by omega), ha, hb] at this
    rwa [show r.length - 1 - (r.length - 1 - i) = i by omega] at this

/-- **broadcasting is the standard right-aligned rule** -/
theorem broadcastShape_iff {sx sy r : List Nat} : broadcastShape sx sy = .ok r ↔
    r.length = max sx.length sy.length ∧
    ∀ k, (rdim sx k = rdim sy k ∨ rdim sx k = 1 ∨ rdim sy k = 1) ∧
      rdim r k = if rdim sx k = 1 then rdim sy k else rdim sx k := by
  have hpx : (padL (max sx.length sy.length) sx).length = max sx.length sy.length := by simp [padL]
  have hpy : (padL (max sx.length sy.length) sy).length = max sx.length sy.length := by simp [padL]
  have key : bshapeEq (padL (max sx.length sy.length) sx) (padL (max sx.length sy.length) sy) = some r ↔
      r.length = max sx.length sy.length ∧
      ∀ k, (rdim sx k = rdim sy k ∨ rdim sx k = 1 ∨ rdim sy k = 1) ∧
        rdim r k = if rdim sx k = 1 then rdim sy k else rdim sx k := by
    rw [bshapeEq_iff]
    constructor
    · rintro ⟨h1, h2, h3⟩
      refine ⟨by omega, ?_⟩
      have := (forall_getD_iff_rdim h1 h2 (fun a b c => bdim a b = some c) rfl).1 h3
      intro k
      have hk := bdim_iff.1 (this k)
      rwa [rdim_padL (by omega), rdim_padL (by omega)] at hk
    · rintro ⟨h1, h2⟩
      refine ⟨by omega, by omega, ?_⟩
      refine (forall_getD_iff_rdim (by omega) (by omega) (fun a b c => bdim a b = some c) rfl).2 (fun k => ?_)
      rw [rdim_padL (by omega), rdim_padL (by omega)]
      exact bdim_iff.2 (h2 k)
  unfold broadcastShape
  simp only
  split
  · rename_i r' hr
    simp only [Except.ok.injEq]
    constructor
    · rintro rfl; exact key.1 hr
    · intro h
      have := key.2 h
      rw [hr] at this; simpa using this
  · rename_i hnone
    constructor
    · intro h; cases h
    · intro h
      have := key.2 h
      rw [hnone] at this; cases this

/-- **the broadcast index map is the right-aligned one**: the operand is read, `k` positions from the right, at
position 0 if its axis there has length 1, otherwise at the result's own index component. -/
theorem bidx_spec {sx idx : List Nat} (hl : sx.length ≤ idx.length) :
    (bidx sx idx).length = sx.length ∧
    ∀ k, k < sx.length → ridx (bidx sx idx) k = if rdim sx k = 1 then 0 else ridx idx k := by
  have hlen : (bidx sx idx).length = sx.length := by simp [bidx]; omega
  refine ⟨hlen, fun k hk => ?_⟩
  have hdl : (idx.drop (idx.length - sx.length)).length = sx.length := by simp; omega
  unfold ridx
  rw [congrFun (List.getD_reverse k (by omega)) 0, rdim_of_lt hk, hlen]
  have hi : sx.length - 1 - k < sx.length := by omega
  simp only [bidx]
  rw [List.getD_eq_getElem _ _ (by simp; omega), List.getElem_zipWith, ← List.getD_eq_getElem sx 1 hi]
  have : (idx.drop (idx.length - sx.length))[sx.length - 1 - k]'(by omega) = idx.reverse.getD k 0 := by
    rw [List.getElem_drop, congrFun (List.getD_reverse k (by omega)) 0, List.getD_eq_getElem _ _ (by omega)]
    congr 1; omega
  rw [this]


/-! ### the shape `scalar_mult` requires of an `out=` buffer -/
section outshape
variable {α : Type} [Add α] [Mul α] [Sub α] [Zero α]

theorem resultShape_eq {x y : Tensor α} {sx sy r : List Nat} (hx : IsCplx x sx) (hy : IsCplx y sy)
    (hb : broadcastShape sx sy = .ok r) : resultShape x y = .ok (2 :: r) := by
  unfold resultShape
  rw [real_eq hx, real_eq hy]
  simp only [ok_bind, reT_shape, hb, pure_eq_ok]

theorem resultShape_err {x y : Tensor α} {sx sy : List Nat} {e : PyErr} (hx : IsCplx x sx) (hy : IsCplx y sy)
    (hb : broadcastShape sx sy = .error e) : resultShape x y = .error .RuntimeError := by
  unfold resultShape
  rw [real_eq hx, real_eq hy]
  simp only [ok_bind, reT_shape, hb, error_bind, broadcastShape_err hb]

/-- whatever the operands (well-formed or not): when `scalar_mult` returns, the value has exactly the shape
`(2, *broadcast_shapes(real(x).shape, real(y).shape))` -/
theorem scalarMult_shape {x y z : Tensor α} {rs : List Nat} (h : resultShape x y = .ok rs)
    (hz : scalarMult x y = .ok z) : z.shape = rs := by
  unfold resultShape at h
  cases hxr : real x with
  | error e => rw [hxr] at h; cases h
  | ok xr =>
    cases hyr : real y with
    | error e => rw [hxr, hyr] at h; cases h
    | ok yr =>
      rw [hxr, hyr] at h
      simp only [ok_bind] at h
      cases hb : broadcastShape xr.shape yr.shape with
      | error e => rw [hb] at h; cases h
      | ok r =>
        rw [hb] at h
        simp only [ok_bind, pure_eq_ok, Except.ok.injEq] at h
        subst h
        unfold scalarMult at hz
        rw [hxr, hyr] at hz
        simp only [ok_bind] at hz
        rw [bop_eq _ xr yr hb] at hz
        simp only [ok_bind] at hz
        cases hxi : imag x with
        | error e => rw [hxi] at hz; cases hz
        | ok xi =>
          cases hyi : imag y with
          | error e => rw [hxi, hyi] at hz; cases hz
          | ok yi =>
            rw [hxi, hyi] at hz
            simp only [ok_bind] at hz
            cases hii : bop (fun a b => a * b) xi yi with
            | error e => rw [hii] at hz; cases hz
            | ok ii =>
              cases hri : bop (fun a b => a * b) xr yi with
              | error e => rw [hii, hri] at hz; cases hz
              | ok ri =>
                cases hir : bop (fun a b => a * b) xi yr with
                | error e => rw [hii, hri, hir] at hz; cases hz
                | ok ir =>
                  rw [hii, hri, hir] at hz
                  simp only [ok_bind, cat2] at hz
                  split at hz
                  · simp only [Except.ok.injEq] at hz
                    rw [← hz]; rfl
                  · cases hz

end outshape

theorem flatMap_singletons (l : List ℕ) : List.flatMap (fun i => [[i]]) l = l.map (fun i => [i]) := by
  induction l with
  | nil => rfl
  | cons x l ih => simp [List.flatMap_cons, ih]

theorem range_map_sum (F : ℕ → ℂ) (n : ℕ) : ((List.range n).map F).sum = ∑ i : Fin n, F i.val := by
  induction n with
  | zero => simp
  | succ n ih => rw [List.range_succ, List.map_append, List.sum_append, ih, Fin.sum_univ_castSucc]; simp

end QV.Cplx
