/-
Lemmas for QV.Model.GradArgs (C03, extension round 2): the call forms of `bases`, and the index arithmetic of the flat
`[W, U, b, c, d]` layout of `gamma_grad` / `pi_grad`.
-/
import Mathlib.Data.List.Basic
import Mathlib.Data.Real.Basic
import Mathlib.Tactic.Ring
import Mathlib.Tactic.Linarith
import QV.Model.GradArgs

namespace QV
namespace Grads

/-! ### call forms -/

theorem rect_ok_of_lengths (rows : List (List Letter)) (L : ℕ) (hL : ∀ r ∈ rows, r.length = L) :
    rect rows = .ok rows := by
  cases rows with
  | nil => rfl
  | cons r rs =>
    have h0 : r.length = L := hL r (by simp)
    have : rs.all (fun x => x.length == r.length) = true := by
      rw [List.all_eq_true]
      intro x hx
      have := hL x (by simp [hx])
      simp [this, h0]
    simp [rect, this]

theorem rect_error_of_ragged (r : List Letter) (rs : List (List Letter)) (x : List Letter) (hx : x ∈ rs)
    (hne : x.length ≠ r.length) : rect (r :: rs) = .error .ValueError := by
  have : rs.all (fun x => x.length == r.length) = false := by
    rw [List.all_eq_false]
    exact ⟨x, hx, by simpa using hne⟩
  simp [rect, this]

theorem rect_ok_inv (rows out : List (List Letter)) (h : rect rows = .ok out) : out = rows := by
  cases rows with
  | nil => simp [rect] at h; exact h
  | cons r rs =>
    by_cases hc : rs.all (fun x => x.length == r.length) = true
    · rw [rect, if_pos hc] at h
      cases h; rfl
    · rw [rect, if_neg hc] at h
      cases h

theorem length_lettersOf (s : List Char) : (lettersOf s).length = s.length := by simp [lettersOf]

theorem rowOk_lettersOf (keys : List Char) (b : List Char) (k : ℕ) (hk : b.length ≤ k)
    (hb : ∀ c ∈ b, c = 'Z' ∨ c ∈ keys) : rowOk keys k (lettersOf b) = true := by
  induction b generalizing k with
  | nil => rfl
  | cons c cs ih =>
    have hk' : 0 < k := by simp at hk; omega
    have hcs : cs.length ≤ k - 1 := by simp at hk; omega
    have hc := hb c (by simp)
    have ih' := ih (k - 1) hcs (fun c' hc' => hb c' (by simp [hc']))
    simp only [lettersOf, List.map_cons, rowOk] at ih' ⊢
    rw [ih', Bool.and_true]
    rcases hc with rfl | hc
    · simp
    · simp [isKey, hk', hc]

theorem toSample_lettersOf {n : ℕ} (σ : Fin n → Bool) (b : List Char) : toSample σ (lettersOf b) = ⟨σ, b⟩ := by
  simp [toSample, lettersOf, List.map_map, Function.comp_def]

theorem zipWith_toSample_lettersOf {n : ℕ} (σs : List (Fin n → Bool)) (bs : List (List Char)) :
    List.zipWith toSample σs (bs.map lettersOf) = List.zipWith Sample.mk σs bs := by
  induction σs generalizing bs with
  | nil => simp
  | cons σ σs ih =>
    cases bs with
    | nil => simp
    | cons b bs => simp [ih, toSample_lettersOf]

/-- a row that passed the check has only entries `"Z"` or one-letter dictionary keys -/
theorem rowOk_entries (keys : List Char) (k : ℕ) (row : List Letter) (h : rowOk keys k row = true) :
    ∀ e ∈ row, e = ['Z'] ∨ ∃ c ∈ keys, e = [c] := by
  induction row generalizing k with
  | nil => simp
  | cons e es ih =>
    simp only [rowOk, Bool.and_eq_true, Bool.or_eq_true, beq_iff_eq, decide_eq_true_eq] at h
    intro x hx
    rcases List.mem_cons.1 hx with rfl | hx
    · rcases h.1 with hz | ⟨_, hkey⟩
      · exact Or.inl hz
      · right
        unfold isKey at hkey
        split at hkey
        · rename_i c
          exact ⟨c, by simpa using hkey, rfl⟩
        · cases hkey
    · exact ih (k - 1) h.2 x hx

/-! ### flat layout -/

/-- row-major view: entry `(i, j)` of a matrix block is element `i*n + j` of its flattening -/
theorem flatMap_rows_getElem? {β : Type} {h n : ℕ} (W : Fin h → Fin n → β) (i : Fin h) (j : Fin n) :
    ((List.finRange h).flatMap (fun i => (List.finRange n).map (fun j => W i j)))[i.val * n + j.val]?
      = some (W i j) := by
  induction h with
  | zero => exact i.elim0
  | succ k ih =>
    rw [List.finRange_succ, List.flatMap_cons, List.flatMap_map]
    refine Fin.cases ?_ (fun i' => ?_) i
    · simp [List.getElem?_append_left, j.isLt]
    · have := ih (fun a b => W a.succ b) i'
      rw [List.getElem?_append_right (by simp; nlinarith [i'.isLt, j.isLt])]
      simp only [List.length_map, List.length_finRange, Fin.val_succ]
      have e : (i'.val + 1) * n + j.val - n = i'.val * n + j.val := by
        rw [Nat.add_mul, Nat.one_mul]; omega
      rw [e]
      exact this

theorem length_flatMap_rows' {β : Type} (r c : ℕ) (f : Fin r → Fin c → β) :
    ((List.finRange r).flatMap (fun i => (List.finRange c).map (fun j => f i j))).length = r * c := by
  induction r with
  | zero => simp
  | succ k ih =>
    rw [List.finRange_succ, List.flatMap_cons, List.flatMap_map, List.length_append, ih (fun a b => f a.succ b)]
    simp; ring

theorem flatMap_rows_getD {β : Type} {h n : ℕ} (W : Fin h → Fin n → β) (q : ℕ) (_hq : q < h * n) (d : β)
    (h1 : q / n < h) (h2 : q % n < n) :
    ((List.finRange h).flatMap (fun i => (List.finRange n).map (fun j => W i j))).getD q d = W ⟨q / n, h1⟩ ⟨q % n, h2⟩ := by
  have := flatMap_rows_getElem? W ⟨q / n, h1⟩ ⟨q % n, h2⟩
  have e : q / n * n + q % n = q := by rw [Nat.mul_comm]; exact Nat.div_add_mod q n
  simp only [e] at this
  rw [List.getD_eq_getElem?_getD, this]; rfl

theorem map_finRange_getD {β : Type} {m : ℕ} (f : Fin m → β) (q : ℕ) (hq : q < m) (d : β) :
    ((List.finRange m).map f).getD q d = f ⟨q, hq⟩ := by
  rw [List.getD_eq_getElem?_getD, List.getElem?_map, List.getElem?_eq_getElem (by simpa using hq)]
  simp

theorem getD_append_left' {β : Type} (l1 l2 : List β) (q : ℕ) (d : β) (hq : q < l1.length) :
    (l1 ++ l2).getD q d = l1.getD q d := by
  rw [List.getD_eq_getElem?_getD, List.getD_eq_getElem?_getD, List.getElem?_append_left hq]

theorem getD_append_right' {β : Type} (l1 l2 : List β) (q : ℕ) (d : β) (hq : l1.length ≤ q) :
    (l1 ++ l2).getD q d = l2.getD (q - l1.length) d := by
  rw [List.getD_eq_getElem?_getD, List.getD_eq_getElem?_getD, List.getElem?_append_right hq]

/-- **the index arithmetic of `torch.cat([W.view(-1), U.view(-1), b, c, d], -1)` is the `parameters()` layout**:
position `q` of the concatenation is position `q` of `PRBM.flatten` of the record. -/
theorem catEntry_eq_flatten {n h a : ℕ} (g : PRBM ℝ n h a) (q : ℕ) : catEntry g q = g.flatten.getD q 0 := by
  unfold catEntry PRBM.flatten
  have lW := length_flatMap_rows' h n g.W
  have lU := length_flatMap_rows' a n g.U
  by_cases hW : q < h * n
  · rw [dif_pos hW, getD_append_left' _ _ _ _ (by simp [lW, lU]; omega), getD_append_left' _ _ _ _ (by simp [lW, lU]; omega),
      getD_append_left' _ _ _ _ (by simp [lW, lU]; omega), getD_append_left' _ _ _ _ (by simp [lW]; omega)]
    exact (flatMap_rows_getD g.W q hW 0 _ _).symm
  rw [dif_neg hW]
  by_cases hU : q - h * n < a * n
  · rw [dif_pos hU, getD_append_left' _ _ _ _ (by simp [lW, lU]; omega), getD_append_left' _ _ _ _ (by simp [lW, lU]; omega),
      getD_append_left' _ _ _ _ (by simp [lW, lU]; omega), getD_append_right' _ _ _ _ (by simp [lW]; omega), lW]
    exact (flatMap_rows_getD g.U (q - h * n) hU 0 _ _).symm
  rw [dif_neg hU]
  by_cases hb : q - h * n - a * n < n
  · rw [dif_pos hb, getD_append_left' _ _ _ _ (by simp [lW, lU]; omega), getD_append_left' _ _ _ _ (by simp [lW, lU]; omega),
      getD_append_right' _ _ _ _ (by simp [lW, lU]; omega)]
    simp only [List.length_append, lW, lU]
    rw [map_finRange_getD g.b (q - (h * n + a * n)) (by omega) 0]
    congr 1; ext; simp; omega
  rw [dif_neg hb]
  by_cases hc : q - h * n - a * n - n < h
  · rw [dif_pos hc, getD_append_left' _ _ _ _ (by simp [lW, lU]; omega), getD_append_right' _ _ _ _ (by simp [lW, lU]; omega)]
    simp only [List.length_append, lW, lU, List.length_map, List.length_finRange]
    rw [map_finRange_getD g.c (q - (h * n + a * n + n)) (by omega) 0]
    congr 1; ext; simp; omega
  rw [dif_neg hc]
  by_cases hd : q - h * n - a * n - n - h < a
  · rw [dif_pos hd, getD_append_right' _ _ _ _ (by simp [lW, lU]; omega)]
    simp only [List.length_append, lW, lU, List.length_map, List.length_finRange]
    rw [map_finRange_getD g.d (q - (h * n + a * n + n + h)) (by omega) 0]
    congr 1; ext; simp; omega
  rw [dif_neg hd]
  symm
  rw [List.getD_eq_getElem?_getD, List.getElem?_eq_none (by simp [lW, lU]; omega)]
  rfl

/-- `squeeze_(0)` leaves a tensor whose first axis is not 1 alone -/
theorem _root_.QV.FT.squeeze0_cons_ne' {β : Type} (B : Nat) (rest : List Nat) (g : List Nat → β) (hB : B ≠ 1) :
    FT.squeeze0 ⟨B :: rest, g⟩ = ⟨B :: rest, g⟩ := by
  unfold FT.squeeze0
  split
  · rename_i heq; simp at heq; exact absurd heq.1 hB
  · rfl

/-! ### batch layout (generic in the per-pair record) -/

/-- `expand=True`: shape `(B, B', P)`, entry `[i, j, :]` is the flat record of the pair (row `i` of `v`, row `j` of `vp`) -/
theorem layoutT_expand {n h a : ℕ} (v vp : RowsArg ℝ n) (entry : ℕ → ℕ → PRBM ℝ n h a) :
    ∃ t, layoutT true v vp entry = .ok t ∧ t.shape = [v.B, vp.B, h * n + a * n + n + h + a]
      ∧ ∀ i j q, t.get [i, j, q] = (entry i j).flatten.getD q 0 := by
  refine ⟨_, by simp only [layoutT, if_true]; rfl, rfl, fun i j q => ?_⟩
  simp [catEntry_eq_flatten]

/-- `expand=False`, two 2-D batches of the same size (`B ≠ 1` or not: no 1-D operand, so no squeeze): shape `(B, P)`,
entry `[i, :]` is the flat record of the pair (row `i`, row `i`) -/
theorem layoutT_paired {n h a : ℕ} (v vp : RowsArg ℝ n) (entry : ℕ → ℕ → PRBM ℝ n h a) (B : ℕ)
    (hv : v.batch = some B) (hvp : vp.batch = some B) :
    ∃ t, layoutT false v vp entry = .ok t ∧ t.shape = [B, h * n + a * n + n + h + a]
      ∧ ∀ i q, i < B → t.get [i, q] = (entry i i).flatten.getD q 0 := by
  have hB : v.B = B := by simp [RowsArg.B, hv]
  have hBp : vp.B = B := by simp [RowsArg.B, hvp]
  refine ⟨_, by simp [layoutT, RowsArg.isOne, hv, hvp, hB, hBp]; rfl, by simp [numPars], fun i q hi => ?_⟩
  by_cases h1 : B = 1
  · subst h1
    have : i = 0 := by omega
    subst this
    simp [catEntry_eq_flatten]
  · simp [catEntry_eq_flatten, h1]

/-- `expand=False`, a one-row or 1-D `vp` against a 2-D batch `v` of `B ≠ 1` rows (broadcast; `squeeze_(0)` is a no-op):
shape `(B, P)`, entry `[i, :]` is the flat record of the pair (row `i`, row `0`) -/
theorem layoutT_broadcast {n h a : ℕ} (v vp : RowsArg ℝ n) (entry : ℕ → ℕ → PRBM ℝ n h a) (B : ℕ) (hB1 : B ≠ 1)
    (hv : v.batch = some B) (hvp : vp.B = 1) :
    ∃ t, layoutT false v vp entry = .ok t ∧ t.shape = [B, h * n + a * n + n + h + a]
      ∧ ∀ i q, t.get [i, q] = (entry i 0).flatten.getD q 0 := by
  have hB : v.B = B := by simp [RowsArg.B, hv]
  by_cases hu : (v.isOne || vp.isOne) = true
  · refine ⟨_, by simp only [layoutT, Bool.false_eq_true, if_false, hvp, or_true, if_true, hu, hB,
      FT.squeeze0_cons_ne' _ _ _ hB1]; rfl, by simp [numPars], fun i q => ?_⟩
    simp [catEntry_eq_flatten]
  · refine ⟨_, by simp only [layoutT, Bool.false_eq_true, if_false, hvp, or_true, if_true, hu, hB]; rfl,
      by simp [numPars], fun i q => ?_⟩
    simp [catEntry_eq_flatten]

/-- `expand=False`, at least one 1-D operand and one row on each side: every block is squeezed, shape `(P,)`, the flat
record of the single pair -/
theorem layoutT_1d {n h a : ℕ} (v vp : RowsArg ℝ n) (entry : ℕ → ℕ → PRBM ℝ n h a)
    (hu : v.batch = none ∨ vp.batch = none) (hB : v.B = 1) (hBp : vp.B = 1) :
    ∃ t, layoutT false v vp entry = .ok t ∧ t.shape = [h * n + a * n + n + h + a]
      ∧ ∀ q, t.get [q] = (entry 0 0).flatten.getD q 0 := by
  have hu' : (v.isOne || vp.isOne) = true := by
    rcases hu with h | h <;> simp [RowsArg.isOne, h]
  refine ⟨_, by simp only [layoutT, Bool.false_eq_true, if_false, hBp, hB, or_true, if_true, hu']; rfl,
    by simp [FT.squeeze0, numPars], fun q => ?_⟩
  simp [FT.squeeze0, catEntry_eq_flatten]

/-- `expand=False` with batch sizes that neither agree nor broadcast onto `v`'s: refused -/
theorem layoutT_refused {n h a : ℕ} (v vp : RowsArg ℝ n) (entry : ℕ → ℕ → PRBM ℝ n h a)
    (h1 : vp.B ≠ v.B) (h2 : vp.B ≠ 1) : layoutT false v vp entry = .error .RuntimeError := by
  simp [layoutT, h1, h2]

end Grads
end QV
