/-
QV.Lemmas.Metrics — helper lemmas for C10: the pair-complex kernel vs `ℂ`, `absSq`, `innerProd`, the clamp,
list sums, linearity of the model's rotations in the state, grouping of samples by basis, `basisIndex` is
inverse to `row`.
-/
import Mathlib.Analysis.SpecialFunctions.Log.Basic
import Mathlib.Analysis.SpecialFunctions.Sqrt
import Mathlib.Analysis.Complex.Basic
import Mathlib.Algebra.BigOperators.Fin
import Mathlib.Algebra.BigOperators.Field
import Mathlib.Data.Nat.Bitwise
import Mathlib.Tactic.IntervalCases
import QV.Model.Metrics
import QV.Real
import QV.Lemmas.Basic
import QV.Lemmas.Hilbert

namespace QV
namespace C10L
open Finset Metrics

/-- a real pair as a complex number -/
def toC (z : C ℝ) : ℂ := ⟨z.1, z.2⟩

@[simp] theorem toC_re (z : C ℝ) : (toC z).re = z.1 := rfl
@[simp] theorem toC_im (z : C ℝ) : (toC z).im = z.2 := rfl

theorem toC_mul (x y : C ℝ) : toC (C.mul x y) = toC x * toC y := by
  apply Complex.ext <;> simp [C.mul, Complex.mul_re, Complex.mul_im]

theorem toC_conj (x : C ℝ) : toC (C.conj x) = (starRingEnd ℂ) (toC x) := by
  apply Complex.ext <;> simp [C.conj]

theorem toC_add (x y : C ℝ) : toC (C.add x y) = toC x + toC y := by
  apply Complex.ext <;> simp [C.add]

theorem toC_zero : toC (C.zero : C ℝ) = 0 := by
  apply Complex.ext <;> simp [C.zero]

theorem toC_one : toC (C.one : C ℝ) = 1 := by
  apply Complex.ext <;> simp [C.one]

theorem toC_inj {x y : C ℝ} (h : toC x = toC y) : x = y := by
  have h1 := congrArg Complex.re h
  have h2 := congrArg Complex.im h
  simp only [toC_re, toC_im] at h1 h2
  exact Prod.ext h1 h2

theorem normSq_toC (z : C ℝ) : Complex.normSq (toC z) = z.1 ^ 2 + z.2 ^ 2 := by
  simp [Complex.normSq_apply, toC]; ring

/-- `|z|² = (√(re² + im²))²` as the code computes it is the squared modulus -/
theorem absSq_eq (z : C ℝ) : absSq z = Complex.normSq (toC z) := by
  have h : 0 ≤ z.1 * z.1 - z.2 * -z.2 := by nlinarith [mul_self_nonneg z.1, mul_self_nonneg z.2]
  simp only [absSq, absVal, C.mul, C.conj, transc_sqrt]
  rw [Real.mul_self_sqrt h, normSq_toC]; ring

theorem absSq_nonneg (z : C ℝ) : 0 ≤ absSq z := by
  rw [absSq_eq]; exact Complex.normSq_nonneg _

/-- `cplx.inner_prod(x, y) = Σ_k conj(x_k) · y_k` -/
theorem innerProd_eq (N : ℕ) (x y : ℕ → C ℝ) :
    toC (innerProd N x y) = ∑ k : Fin N, (starRingEnd ℂ) (toC (x k.val)) * toC (y k.val) := by
  apply Complex.ext
  · simp only [innerProd, toC_re, sumFin_eq, Complex.re_sum, Complex.mul_re, Complex.conj_re, Complex.conj_im,
      toC_im, ← Finset.sum_add_distrib]
    refine Finset.sum_congr rfl (fun k _ => ?_); ring
  · simp only [innerProd, toC_im, sumFin_eq, Complex.im_sum, Complex.mul_im, Complex.conj_re, Complex.conj_im,
      toC_re, ← Finset.sum_sub_distrib]
    refine Finset.sum_congr rfl (fun k _ => ?_); ring

/-! ### clamp and logits -/

theorem clampProbs_of_mem {eps x : ℝ} (h1 : eps ≤ x) (h2 : x ≤ 1 - eps) : clampProbs eps x = x := by
  simp only [clampProbs, transc_min, transc_max]
  rw [max_eq_left h1, min_eq_left h2]

theorem probsToLogits_of_mem {eps x : ℝ} (h1 : eps ≤ x) (h2 : x ≤ 1 - eps) :
    probsToLogits eps x = Real.log x := by
  simp [probsToLogits, clampProbs_of_mem h1 h2]

/-! ### list sums -/

theorem foldl_add_list {β : Type} (f : β → ℝ) (l : List β) (a : ℝ) :
    l.foldl (fun acc x => acc + f x) a = a + (l.map f).sum := by
  induction l generalizing a with
  | nil => simp
  | cons x xs ih => simp [List.foldl_cons, ih, add_assoc]

theorem foldl_sub_list {β : Type} (f : β → ℝ) (l : List β) (a : ℝ) :
    l.foldl (fun acc x => acc - f x) a = a - (l.map f).sum := by
  induction l generalizing a with
  | nil => simp
  | cons x xs ih => simp [List.foldl_cons, ih]; ring

@[simp] theorem sumList_eq (l : List ℝ) : sumList l = l.sum := by
  have := foldl_add_list (fun x : ℝ => x) l 0
  simpa [sumList] using this

/-! ### linearity of the model's rotations in the state -/

theorem smul_eq_div (z : C ℝ) (s : ℝ) : ((z.1 / s, z.2 / s) : C ℝ) = C.smul s⁻¹ z := by
  apply Prod.ext <;> simp [C.smul, div_eq_inv_mul]

theorem toC_smul (c : ℝ) (z : C ℝ) : toC (C.smul c z) = (c : ℂ) * toC z := by
  apply Complex.ext <;> simp [C.smul]

theorem absSq_smul (c : ℝ) (z : C ℝ) : absSq (C.smul c z) = c ^ 2 * absSq z := by
  rw [absSq_eq, absSq_eq, toC_smul, Complex.normSq_mul, Complex.normSq_ofReal]; ring

theorem foldr_rel {β : Type} (R : β → β → Prop) :
    ∀ (n : ℕ) (f : Fin n → β → β), (∀ s y y', R y y' → R (f s y) (f s y')) →
      ∀ x x', R x x' → R (Fin.foldr n f x) (Fin.foldr n f x') := by
  intro n
  induction n with
  | zero => intro f _ x x' h; simpa [Fin.foldr_zero] using h
  | succ k ih =>
    intro f hf x x' h
    rw [Fin.foldr_succ, Fin.foldr_succ]
    exact hf 0 _ _ (ih (fun i => f i.succ) (fun s y y' hy => hf s.succ y y' hy) x x' h)

theorem stage_smul (c : ℝ) (m : M2 ℝ) (r : ℕ) (y : ℕ → C ℝ) :
    Unitaries.stage C.add C.mul m r (fun k => C.smul c (y k))
      = fun k => C.smul c (Unitaries.stage C.add C.mul m r y k) := by
  funext idx
  simp only [Unitaries.stage]
  apply Prod.ext <;> simp [C.add, C.mul, C.smul] <;> ring

/-- `rotate_psi` (the `_kron_mult` sweep) is homogeneous in the state: `U(c·ψ) = c·Uψ`. -/
theorem rotatePsi_smul (n : ℕ) (us : Fin n → M2 ℝ) (c : ℝ) (v : ℕ → C ℝ) :
    Unitaries.rotatePsi n us (fun k => C.smul c (v k)) = fun k => C.smul c (Unitaries.rotatePsi n us v k) := by
  unfold Unitaries.rotatePsi Unitaries.kronMult
  refine foldr_rel (fun (y y' : ℕ → C ℝ) => y' = fun k => C.smul c (y k)) n _ ?_ v _ rfl
  intro s y y' hy
  subst hy
  exact stage_smul c _ _ y

/-- `rotate_rho_probs` is homogeneous in the density matrix. -/
theorem rotateRhoProbs_smul (n : ℕ) (us : Fin n → M2 ℝ) (rot : Fin n → Bool) (c : ℝ)
    (rho : (Fin n → Bool) → (Fin n → Bool) → C ℝ) (σ : Fin n → Bool) :
    Unitaries.rotateRhoProbs n us rot (fun a b => C.smul c (rho a b)) σ
      = c * Unitaries.rotateRhoProbs n us rot rho σ := by
  simp only [Unitaries.rotateRhoProbs, sumFin_eq, Finset.mul_sum]
  refine Finset.sum_congr rfl (fun k _ => Finset.sum_congr rfl (fun l _ => ?_))
  split_ifs
  · simp [C.mul, C.smul]; ring
  · simp

/-! ### `_convert_basis_element_to_index` inverts the rows of the generated Hilbert space -/

theorem testBit_basisIndexL (l : List Bool) :
    ∀ (i : ℕ) (hi : i < l.length), Nat.testBit (basisIndexL l) (l.length - 1 - i) = l[i] := by
  induction l with
  | nil => intro i hi; simp at hi
  | cons b rest ih =>
    intro i hi
    have hr := basisIndexL_lt rest
    cases i with
    | zero =>
      simp only [basisIndexL, List.length_cons, Nat.add_sub_cancel, Nat.sub_zero, List.getElem_cons_zero]
      cases b
      · simp [Nat.testBit_lt_two_pow hr]
      · simp [Nat.testBit_two_pow_add_eq, Nat.testBit_lt_two_pow hr]
    | succ j =>
      have hj : j < rest.length := by simpa using hi
      have e : (b :: rest).length - 1 - (j + 1) = rest.length - 1 - j := by simp; omega
      rw [e, List.getElem_cons_succ, ← ih j hj]
      simp only [basisIndexL]
      cases b
      · simp
      · simp only [if_true]
        exact Nat.testBit_two_pow_add_gt (by omega) _

theorem row_basisIndex (n : ℕ) (σ : Fin n → Bool) : Metrics.row n (basisIndex σ) = σ := by
  funext j
  simp only [Metrics.row, spaceBit, basisIndex]
  have h := testBit_basisIndexL ((List.finRange n).map σ) j.val (by simp)
  simp only [List.length_map, List.length_finRange] at h
  rw [h]
  simp

/-! ### grouping samples by basis -/

theorem sum_map_ite_of_not_mem {K : Type} [DecidableEq K] (a : K) (h : K → ℝ) (ks : List K) (ha : a ∉ ks) :
    (ks.map (fun key => if a = key then h key else 0)).sum = 0 := by
  induction ks with
  | nil => simp
  | cons k ks ih =>
    have h1 : a ≠ k := fun e => ha (by simp [e])
    have h2 : a ∉ ks := fun e => ha (by simp [e])
    simp [h1, ih h2]

theorem sum_map_ite_of_mem {K : Type} [DecidableEq K] (a : K) (h : K → ℝ) (ks : List K)
    (hn : ks.Nodup) (ha : a ∈ ks) :
    (ks.map (fun key => if a = key then h key else 0)).sum = h a := by
  induction ks with
  | nil => simp at ha
  | cons k ks ih =>
    rw [List.nodup_cons] at hn
    by_cases e : a = k
    · subst e
      simp [sum_map_ite_of_not_mem a h ks hn.1]
    · have : a ∈ ks := by simpa [e] using ha
      simp [e, ih hn.2 this]

/-- summing group by group over a duplicate-free list of keys that covers the samples is summing over the
samples -/
theorem sum_groups {K S : Type} [DecidableEq K] (g : K → S → ℝ) (keys : List K) (hn : keys.Nodup) :
    ∀ (samples : List (K × S)), (∀ s ∈ samples, s.1 ∈ keys) →
    (keys.map (fun key => ((samples.filter (fun s => decide (s.1 = key))).map (fun s => g key s.2)).sum)).sum
      = (samples.map (fun s => g s.1 s.2)).sum := by
  intro samples
  induction samples with
  | nil => intro _; simp
  | cons s rest ih =>
    intro hmem
    have hs : s.1 ∈ keys := hmem s (by simp)
    have hrest : ∀ t ∈ rest, t.1 ∈ keys := fun t ht => hmem t (by simp [ht])
    have hsplit : ∀ key, (((s :: rest).filter (fun t => decide (t.1 = key))).map (fun t => g key t.2)).sum
        = (if s.1 = key then g key s.2 else 0)
          + ((rest.filter (fun t => decide (t.1 = key))).map (fun t => g key t.2)).sum := by
      intro key
      by_cases e : s.1 = key <;> simp [e]
    simp_rw [hsplit]
    rw [List.sum_map_add, ih hrest, sum_map_ite_of_mem s.1 (fun key => g key s.2) keys hn hs]
    simp

theorem perm_orderedInsert {n : ℕ} (k : Basis n) (l : List (Basis n)) :
    (orderedInsert k l).Perm (k :: l) := by
  induction l with
  | nil => simp [orderedInsert]
  | cons x xs ih =>
    simp only [orderedInsert]
    split_ifs
    · exact List.Perm.refl _
    · exact (List.Perm.cons x ih).trans (List.Perm.swap k x xs)

theorem uniqueSorted_aux {n : ℕ} (ks : List (Basis n)) :
    ∀ acc : List (Basis n), acc.Nodup →
      (ks.foldl (fun acc k => if acc.contains k then acc else orderedInsert k acc) acc).Nodup ∧
      ∀ x, x ∈ ks.foldl (fun acc k => if acc.contains k then acc else orderedInsert k acc) acc ↔ x ∈ acc ∨ x ∈ ks := by
  induction ks with
  | nil => intro acc h; simp [h]
  | cons k ks ih =>
    intro acc h
    simp only [List.foldl_cons]
    by_cases hk : k ∈ acc
    · have hc : acc.contains k = true := by simpa using hk
      simp only [hc, if_true]
      obtain ⟨h1, h2⟩ := ih acc h
      refine ⟨h1, fun x => ?_⟩
      rw [h2 x]
      constructor
      · rintro (hx | hx)
        · exact Or.inl hx
        · exact Or.inr (by simp [hx])
      · rintro (hx | hx)
        · exact Or.inl hx
        · rcases List.mem_cons.mp hx with e | e
          · exact Or.inl (e ▸ hk)
          · exact Or.inr e
    · have hc : acc.contains k = false := by simpa using hk
      simp only [hc]
      have hp := perm_orderedInsert k acc
      have hnd : (orderedInsert k acc).Nodup := hp.nodup_iff.mpr (List.nodup_cons.mpr ⟨hk, h⟩)
      obtain ⟨h1, h2⟩ := ih _ hnd
      refine ⟨by simpa using h1, fun x => ?_⟩
      have := h2 x
      simp only [Bool.false_eq_true, if_false] at this ⊢
      rw [this, hp.mem_iff]
      simp only [List.mem_cons]
      tauto

theorem uniqueSorted_nodup {n : ℕ} (ks : List (Basis n)) : (uniqueSorted ks).Nodup :=
  (uniqueSorted_aux ks [] List.nodup_nil).1

theorem mem_uniqueSorted {n : ℕ} (ks : List (Basis n)) (x : Basis n) : x ∈ uniqueSorted ks ↔ x ∈ ks := by
  have := (uniqueSorted_aux ks [] List.nodup_nil).2 x
  simpa [uniqueSorted] using this

/-! ### small helpers for the C10 theorems -/

/-- equal inputs clamp equally: no guard needed -/
theorem singleBasisKL_self (ε : ℝ) (N : ℕ) (p : ℕ → ℝ) : singleBasisKL ε N p p = 0 := by
  unfold singleBasisKL; exact sub_self _

theorem singleBasisKL_congr (ε : ℝ) (N : ℕ) (t t' p p' : ℕ → ℝ) (ht : ∀ k, k < N → t k = t' k)
    (hp : ∀ k, k < N → p k = p' k) : singleBasisKL ε N t p = singleBasisKL ε N t' p' := by
  unfold singleBasisKL
  simp only [sumFin_eq]
  congr 1
  · exact Finset.sum_congr rfl (fun k _ => by rw [ht k.val k.isLt])
  · exact Finset.sum_congr rfl (fun k _ => by rw [ht k.val k.isLt, hp k.val k.isLt])

theorem kind_fold_tensor {β : Type} (items : List β) (h : items ≠ []) (k0 : Kind) :
    items.foldl (fun k _ => Kind.arith k .tensor) k0 = .tensor := by
  have hstep : ∀ k : Kind, Kind.arith k .tensor = .tensor := by intro k; cases k <;> rfl
  have hall : ∀ (l : List β), l.foldl (fun k _ => Kind.arith k .tensor) .tensor = .tensor := by
    intro l; induction l with
    | nil => rfl
    | cons x xs ih => rw [List.foldl_cons, hstep]; exact ih
  cases items with
  | nil => exact absurd rfl h
  | cons x xs => rw [List.foldl_cons, hstep]; exact hall xs

theorem list_sum_div_nonneg {β : Type} (items : List β) (g : β → ℝ) (h : ∀ it ∈ items, 0 ≤ g it) :
    0 ≤ (items.map g).sum / items.length := by
  apply div_nonneg _ (Nat.cast_nonneg _)
  apply List.sum_nonneg
  intro x hx
  obtain ⟨it, hit, rfl⟩ := List.mem_map.mp hx
  exact h it hit

theorem inv_sqrt_sq {Z : ℝ} (hZ : 0 ≤ Z) : (√Z)⁻¹ ^ 2 = Z⁻¹ := by
  rw [inv_pow, Real.sq_sqrt hZ]

theorem beq_basis {n : ℕ} (a b : Basis n) : (a == b) = decide (a = b) := by
  by_cases h : a = b <;> simp [h]

/-! ### a concrete instance used by the non-vacuity examples of C10: one site, a rational real rotation as the
dictionary entry, a non-real target -/

/-- every letter ↦ the orthogonal matrix `[[3/5, 4/5], [4/5, -3/5]]` -/
noncomputable def exDict : Char → M2 ℝ := fun _ r c => ((if r && c then -(3/5) else if r || c then 4/5 else 3/5), 0)
def exBasis : Basis 1 := ⟨#['X'], rfl⟩
/-- `ψ = (1, 0)` (so `Z = 1`) -/
def exPsi : (Fin 1 → Bool) → C ℝ := fun σ => if σ 0 then (0, 0) else (1, 0)
/-- `t = (0, i)` -/
def exTarget : ℕ → C ℝ := fun k => if k = 0 then (0, 0) else (0, 1)

theorem ex_rot_target (k : ℕ) (hk : k < 2) :
    Complex.normSq (toC (Unitaries.rotatePsi 1 (usOf exDict exBasis) exTarget k)) = if k = 0 then 16 / 25 else 9 / 25 := by
  interval_cases k <;>
  simp [Unitaries.rotatePsi, Unitaries.kronMult, Fin.foldr_succ, Fin.foldr_zero, Unitaries.stage, usOf, exDict, exTarget,
    C.add, C.mul, normSq_toC] <;> norm_num

theorem ex_rot_psi (k : ℕ) (hk : k < 2) :
    Complex.normSq (toC (Unitaries.rotatePsi 1 (usOf exDict exBasis) (fun k' => exPsi (Metrics.row 1 k')) k))
      = if k = 0 then 9 / 25 else 16 / 25 := by
  interval_cases k <;>
  simp [Unitaries.rotatePsi, Unitaries.kronMult, Fin.foldr_succ, Fin.foldr_zero, Unitaries.stage, usOf, exDict, exPsi,
    Metrics.row, spaceBit, C.add, C.mul, normSq_toC] <;> norm_num

end C10L
end QV
