/-
QV.Lemmas.Hilbert — the row map of `generate_hilbert_space` is a bijection
`Fin (2^n) ≃ (Fin n → Bool)`; sums over rows are sums over bit-vectors.
-/
import Mathlib.Data.Fintype.BigOperators
import Mathlib.Data.Fintype.Pi
import Mathlib.Data.Nat.Bitwise
import Mathlib.Algebra.BigOperators.Fin
import QV.Model.Hilbert

namespace QV
open Finset

/-- row `k` of the space as a bit-vector -/
def rowBits (n : ℕ) (k : ℕ) : Fin n → Bool := fun j => spaceBit n k j

theorem rowBits_injective (n : ℕ) :
    Function.Injective (fun k : Fin (2 ^ n) => rowBits n k.val) := by
  intro k k' hkk
  apply Fin.ext
  apply Nat.eq_of_testBit_eq
  intro i
  by_cases hi : i < n
  · have := congrFun hkk ⟨n - 1 - i, by omega⟩
    simp only [rowBits, spaceBit] at this
    have e : n - 1 - (n - 1 - i) = i := by omega
    rwa [e] at this
  · have h1 : k.val < 2 ^ i := lt_of_lt_of_le k.isLt (Nat.pow_le_pow_right (by decide) (by omega))
    have h2 : k'.val < 2 ^ i := lt_of_lt_of_le k'.isLt (Nat.pow_le_pow_right (by decide) (by omega))
    rw [Nat.testBit_lt_two_pow h1, Nat.testBit_lt_two_pow h2]

theorem rowBits_bijective (n : ℕ) :
    Function.Bijective (fun k : Fin (2 ^ n) => rowBits n k.val) := by
  rw [Fintype.bijective_iff_injective_and_card]
  refine ⟨rowBits_injective n, ?_⟩
  simp

/-- The rows of the generated Hilbert space enumerate every bit-vector exactly once. -/
noncomputable def rowEquiv (n : ℕ) : Fin (2 ^ n) ≃ (Fin n → Bool) :=
  Equiv.ofBijective _ (rowBits_bijective n)

@[simp] theorem rowEquiv_apply (n : ℕ) (k : Fin (2 ^ n)) : rowEquiv n k = rowBits n k.val := rfl

theorem sum_rows {M : Type*} [AddCommMonoid M] (n : ℕ) (f : (Fin n → Bool) → M) :
    ∑ k : Fin (2 ^ n), f (rowBits n k.val) = ∑ σ : Fin n → Bool, f σ :=
  Fintype.sum_bijective _ (rowBits_bijective n) _ _ (fun _ => rfl)

end QV
