/-
QV.Lemmas.Hilbert — the row map of `generate_hilbert_space` is a bijection
`Fin (2^n) ≃ (Fin n → Bool)`; sums over rows are sums over bit-vectors.
-/
import Mathlib.Data.Fintype.BigOperators
import Mathlib.Data.Fintype.Pi
import Mathlib.Data.Nat.Bitwise
import Mathlib.Algebra.BigOperators.Fin
import Mathlib.Data.List.OfFn
import Mathlib.Tactic.Ring
import Mathlib.Data.List.FinRange
import QV.Model.Hilbert

namespace QV
open Finset

/-- row `k` of the space as a bit-vector -/
def rowBits (n : ℕ) (k : ℕ) : Fin n → Bool := fun j => spaceBit n k j

theorem rowBits_injective (n : ℕ) :
    Function.Injective (fun k : Fin (2 ^ n) => rowBits n k.val) := by
  intro k k' hkk
  apply Fin.ext
  apply Nat.eq_of_testBit_eq
  intro i
  by_cases hi : i < n
  · have := congrFun hkk ⟨n - 1 - i, by omega⟩
    simp only [rowBits, spaceBit] at this
    have e : n - 1 - (n - 1 - i) = i := by omega
    rwa [e] at this
  · have h1 : k.val < 2 ^ i := lt_of_lt_of_le k.isLt (Nat.pow_le_pow_right (by decide) (by omega))
    have h2 : k'.val < 2 ^ i := lt_of_lt_of_le k'.isLt (Nat.pow_le_pow_right (by decide) (by omega))
    rw [Nat.testBit_lt_two_pow h1, Nat.testBit_lt_two_pow h2]

theorem rowBits_bijective (n : ℕ) :
    Function.Bijective (fun k : Fin (2 ^ n) => rowBits n k.val) := by
  rw [Fintype.bijective_iff_injective_and_card]
  refine ⟨rowBits_injective n, ?_⟩
  simp

/-- The rows of the generated Hilbert space enumerate every bit-vector exactly once. -/
noncomputable def rowEquiv (n : ℕ) : Fin (2 ^ n) ≃ (Fin n → Bool) :=
  Equiv.ofBijective _ (rowBits_bijective n)

@[simp] theorem rowEquiv_apply (n : ℕ) (k : Fin (2 ^ n)) : rowEquiv n k = rowBits n k.val := rfl

theorem sum_rows {M : Type*} [AddCommMonoid M] (n : ℕ) (f : (Fin n → Bool) → M) :
    ∑ k : Fin (2 ^ n), f (rowBits n k.val) = ∑ σ : Fin n → Bool, f σ :=
  Fintype.sum_bijective _ (rowBits_bijective n) _ _ (fun _ => rfl)

/-! ### C19: the code's mask-and-reverse row, the `matmul` index, and their big-endian meaning -/

/-- the mask test `(num & (1 << i)) > 0` is bit `i` of `num` -/
theorem mask_pos_eq_testBit (k i : ℕ) : decide (k &&& (1 <<< i) > 0) = k.testBit i := by
  rw [Nat.one_shiftLeft, Nat.and_two_pow]
  cases h : k.testBit i <;> simp

/-- the row as coded (little-endian masks, then `[::-1]`) is the big-endian bit list -/
theorem maskRow_eq_ofFn (s k : ℕ) :
    maskRow s k = List.ofFn (fun j : Fin s => k.testBit (s - 1 - j.val)) := by
  apply List.ext_getElem
  · simp [maskRow]
  · intro i h1 h2
    have hi : i < s := by simpa [maskRow] using h1
    simp only [maskRow, List.getElem_reverse, List.getElem_map, List.getElem_range, List.length_map,
      List.length_range, List.getElem_ofFn, mask_pos_eq_testBit]

theorem maskRow_eq_map_spaceBit (s k : ℕ) : maskRow s k = (List.finRange s).map (spaceBit s k) := by
  rw [maskRow_eq_ofFn, List.ofFn_eq_map]; rfl

theorem spaceGuard_eq (size : Option ℕ) (nv : ℕ) :
    spaceGuard size nv = if 20 < effSize size nv then .error .ValueError else .ok (effSize size nv) := rfl

@[simp] theorem maskRow_length (s k : ℕ) : (maskRow s k).length = s := by simp [maskRow]

theorem indexPowers_succ (m : ℕ) : indexPowers (m + 1) = 2 ^ m :: indexPowers m := by
  simp only [indexPowers, List.range_succ_eq_map, List.map_cons, List.map_map]
  refine congrArg₂ _ (by simp) (List.map_congr_left (fun j _ => ?_))
  simp only [Function.comp, Nat.succ_eq_add_one]
  congr 1; omega

/-- the `matmul` with `2 ** (arange(n,0,-1) - 1)` is the recursive big-endian index -/
theorem convertBasisElementToIndex_eq (st : List Bool) : convertBasisElementToIndex st = basisIndexL st := by
  induction st with
  | nil => simp [convertBasisElementToIndex, basisIndexL, indexPowers]
  | cons b rest ih =>
    simp only [convertBasisElementToIndex] at ih ⊢
    simp only [List.length_cons, indexPowers_succ, List.zip_cons_cons, List.map_cons, List.sum_cons,
      basisIndexL, ih]
    cases b <;> simp

theorem basisIndexL_lt (l : List Bool) : basisIndexL l < 2 ^ l.length := by
  induction l with
  | nil => simp [basisIndexL]
  | cons b rest ih =>
    simp only [basisIndexL, List.length_cons, Nat.pow_succ]
    split <;> omega

theorem basisIndexL_append (σ τ : List Bool) :
    basisIndexL (σ ++ τ) = basisIndexL σ * 2 ^ τ.length + basisIndexL τ := by
  induction σ with
  | nil => simp [basisIndexL]
  | cons b rest ih =>
    simp only [List.cons_append, basisIndexL, ih, List.length_append, Nat.pow_add]
    split <;> ring

/-- index of the big-endian bit list of `k` is `k` reduced mod `2^n` -/
theorem basisIndexL_ofFn_testBit (n k : ℕ) :
    basisIndexL (List.ofFn (fun j : Fin n => k.testBit (n - 1 - j.val))) = k % 2 ^ n := by
  induction n with
  | zero => simp [basisIndexL, Nat.mod_one]
  | succ n ih =>
    rw [List.ofFn_succ]
    simp only [basisIndexL, List.length_ofFn, Fin.val_zero, Fin.val_succ]
    have e : ∀ j : Fin n, n - (j.val + 1) = n - 1 - j.val := fun j => by omega
    simp only [e, ih, Nat.add_sub_cancel, Nat.sub_zero]
    rw [Nat.mod_pow_succ, ← Nat.toNat_testBit]
    cases k.testBit n <;> simp [Nat.add_comm]

theorem basisIndexL_maskRow (n k : ℕ) : basisIndexL (maskRow n k) = k % 2 ^ n := by
  rw [maskRow_eq_ofFn, basisIndexL_ofFn_testBit]

/-- every bit list is the coded row of its own index -/
theorem maskRow_basisIndexL (σ : List Bool) : maskRow σ.length (basisIndexL σ) = σ := by
  obtain ⟨k, hk⟩ := (rowBits_bijective σ.length).2 (fun j => σ[j.val])
  have h1 : maskRow σ.length k.val = σ := by
    rw [maskRow_eq_ofFn]
    have : (fun j : Fin σ.length => k.val.testBit (σ.length - 1 - j.val)) = fun j => σ[j.val] := hk
    rw [this, List.ofFn_getElem]
  have h2 : basisIndexL σ = k.val := by
    conv_lhs => rw [← h1]
    rw [basisIndexL_maskRow, Nat.mod_eq_of_lt k.isLt]
  rw [h2, h1]

/-- the index as the declarative big-endian digit sum `Σ_j σ_j 2^(n-1-j)` -/
theorem basisIndex_eq_sum {n : ℕ} (σ : Fin n → Bool) :
    basisIndex σ = ∑ j : Fin n, (if σ j then 2 ^ (n - 1 - j.val) else 0) := by
  induction n with
  | zero => simp [basisIndex, basisIndexL]
  | succ n ih =>
    have := ih (fun j => σ j.succ)
    simp only [basisIndex] at this ⊢
    rw [List.finRange_succ, List.map_cons, List.map_map, Fin.sum_univ_succ]
    simp only [basisIndexL, List.length_map, List.length_finRange, Function.comp_def, this, Fin.val_zero,
      Fin.val_succ]
    have e : ∀ j : Fin n, n - (j.val + 1) = n - 1 - j.val := fun j => by omega
    simp [e]

/-- setting a 0 site `j` to 1 raises the index by exactly `2^(n-1-j)` -/
theorem basisIndexL_set_true (σ : List Bool) (j : ℕ) (hj : j < σ.length) (h0 : σ[j] = false) :
    basisIndexL (σ.set j true) = basisIndexL σ + 2 ^ (σ.length - 1 - j) := by
  induction σ generalizing j with
  | nil => simp at hj
  | cons b rest ih =>
    cases j with
    | zero =>
      simp only [List.getElem_cons_zero] at h0
      subst h0
      simp [basisIndexL, Nat.add_comm]
    | succ j =>
      simp only [List.getElem_cons_succ] at h0
      have hj' : j < rest.length := by simpa using hj
      simp only [List.set_cons_succ, basisIndexL, List.length_set, ih j hj' h0, List.length_cons]
      have : rest.length + 1 - 1 - (j + 1) = rest.length - 1 - j := by omega
      rw [this]; omega

/-- the row the code computes for index `k` (masks, then reversal), read as a scalar vector, is the function form
`spaceRow n k` that the state models (`Wave.*`, `Density.rhoFull`, C04's rotations) are evaluated on -/
theorem rowVec_maskRow {α : Type} [Zero α] [One α] (n k : ℕ) :
    (rowVec n (maskRow n k) : Fin n → α) = spaceRow n k := by
  funext j
  simp only [rowVec, spaceRow, maskRow_eq_map_spaceBit]
  congr 1
  rw [List.getD_eq_getElem?_getD, List.getElem?_map, List.getElem?_eq_getElem (by simp)]
  simp

end QV
