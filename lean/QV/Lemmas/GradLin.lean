/-
QV.Lemmas.GradLin — linearity of the gradient/velocity pairing in the model's record operations.
-/
import QV.Lemmas.Deriv
import Mathlib.Algebra.BigOperators.Field

namespace QV
open Finset
variable {n h a : ℕ}

theorem RBM.pair_sub (x y d : RBM ℝ n h) : (x.sub y).pair d = x.pair d - y.pair d := by
  simp only [RBM.pair, RBM.sub, sub_mul, Finset.sum_sub_distrib]; ring

theorem RBM.pair_add (x y d : RBM ℝ n h) : (x.add y).pair d = x.pair d + y.pair d := by
  simp only [RBM.pair, RBM.add, add_mul, Finset.sum_add_distrib]; ring

theorem RBM.pair_zero (d : RBM ℝ n h) : (RBM.zero : RBM ℝ n h).pair d = 0 := by
  simp [RBM.pair, RBM.zero]

theorem RBM.pair_sdiv (x d : RBM ℝ n h) (s : ℝ) : (x.sdiv s).pair d = x.pair d / s := by
  simp only [RBM.pair, RBM.sdiv, div_mul_eq_mul_div, ← Finset.sum_div, add_div]

theorem RBM.pair_smul (x d : RBM ℝ n h) (s : ℝ) : (RBM.smul s x).pair d = s * x.pair d := by
  simp only [RBM.pair, RBM.smul, mul_assoc, ← Finset.mul_sum, mul_add]

/-- the batch gradient (`reduce=True`) pairs as the sum of the per-sample gradients -/
theorem RBM.pair_effEnergyGrad (r d : RBM ℝ n h) {B : ℕ} (vs : Fin B → Fin n → ℝ) :
    (r.effEnergyGrad vs).pair d = ∑ s, (r.effEnergyGrad1 (vs s)).pair d := by
  simp only [RBM.pair, RBM.effEnergyGrad, RBM.effEnergyGrad1, sumFin_eq]
  rw [Finset.sum_add_distrib, Finset.sum_add_distrib]
  congr 1
  · congr 1
    · conv_rhs => rw [Finset.sum_comm]
      refine Finset.sum_congr rfl (fun i _ => ?_)
      conv_rhs => rw [Finset.sum_comm]
      refine Finset.sum_congr rfl (fun j _ => ?_)
      rw [neg_mul, Finset.sum_mul, ← Finset.sum_neg_distrib]
      refine Finset.sum_congr rfl (fun s _ => by ring)
    · conv_rhs => rw [Finset.sum_comm]
      refine Finset.sum_congr rfl (fun j _ => ?_)
      rw [neg_mul, Finset.sum_mul, ← Finset.sum_neg_distrib]
      refine Finset.sum_congr rfl (fun s _ => by ring)
  · conv_rhs => rw [Finset.sum_comm]
    refine Finset.sum_congr rfl (fun i _ => ?_)
    rw [neg_mul, Finset.sum_mul, ← Finset.sum_neg_distrib]
    refine Finset.sum_congr rfl (fun s _ => by ring)

theorem PRBM.pair_sub (x y d : PRBM ℝ n h a) : (x.sub y).pair d = x.pair d - y.pair d := by
  simp only [PRBM.pair, PRBM.sub, sub_mul, Finset.sum_sub_distrib]; ring

theorem PRBM.pair_sdiv (x d : PRBM ℝ n h a) (s : ℝ) : (x.sdiv s).pair d = x.pair d / s := by
  simp only [PRBM.pair, PRBM.sdiv, div_mul_eq_mul_div, ← Finset.sum_div, add_div]

/-- pairing of a weighted combination of records -/
theorem RBM.pair_weighted {ι : Type*} [Fintype ι] (f : ι → RBM ℝ n h) (w : ι → ℝ) (d : RBM ℝ n h) :
    RBM.pair ⟨fun i j => ∑ k, (f k).W i j * w k, fun j => ∑ k, (f k).b j * w k, fun i => ∑ k, (f k).c i * w k⟩ d
      = ∑ k, w k * (f k).pair d := by
  simp only [RBM.pair, mul_add, Finset.sum_add_distrib, Finset.mul_sum]
  congr 1
  · congr 1
    · conv_rhs => rw [Finset.sum_comm]
      refine Finset.sum_congr rfl (fun i _ => ?_)
      conv_rhs => rw [Finset.sum_comm]
      refine Finset.sum_congr rfl (fun j _ => ?_)
      rw [Finset.sum_mul]
      refine Finset.sum_congr rfl (fun s _ => by ring)
    · conv_rhs => rw [Finset.sum_comm]
      refine Finset.sum_congr rfl (fun j _ => ?_)
      rw [Finset.sum_mul]
      refine Finset.sum_congr rfl (fun s _ => by ring)
  · conv_rhs => rw [Finset.sum_comm]
    refine Finset.sum_congr rfl (fun i _ => ?_)
    rw [Finset.sum_mul]
    refine Finset.sum_congr rfl (fun s _ => by ring)

theorem PRBM.pair_weighted {ι : Type*} [Fintype ι] (f : ι → PRBM ℝ n h a) (w : ι → ℝ) (d : PRBM ℝ n h a) :
    PRBM.pair ⟨fun i j => ∑ k, (f k).W i j * w k, fun i j => ∑ k, (f k).U i j * w k, fun j => ∑ k, (f k).b j * w k,
        fun i => ∑ k, (f k).c i * w k, fun i => ∑ k, (f k).d i * w k⟩ d
      = ∑ k, w k * (f k).pair d := by
  simp only [PRBM.pair, mul_add, Finset.sum_add_distrib, Finset.mul_sum]
  congr 1
  · congr 1
    · congr 1
      · congr 1
        · conv_rhs => rw [Finset.sum_comm]
          refine Finset.sum_congr rfl (fun i _ => ?_)
          conv_rhs => rw [Finset.sum_comm]
          refine Finset.sum_congr rfl (fun j _ => ?_)
          rw [Finset.sum_mul]
          refine Finset.sum_congr rfl (fun s _ => by ring)
        · conv_rhs => rw [Finset.sum_comm]
          refine Finset.sum_congr rfl (fun i _ => ?_)
          conv_rhs => rw [Finset.sum_comm]
          refine Finset.sum_congr rfl (fun j _ => ?_)
          rw [Finset.sum_mul]
          refine Finset.sum_congr rfl (fun s _ => by ring)
      · conv_rhs => rw [Finset.sum_comm]
        refine Finset.sum_congr rfl (fun j _ => ?_)
        rw [Finset.sum_mul]
        refine Finset.sum_congr rfl (fun s _ => by ring)
    · conv_rhs => rw [Finset.sum_comm]
      refine Finset.sum_congr rfl (fun i _ => ?_)
      rw [Finset.sum_mul]
      refine Finset.sum_congr rfl (fun s _ => by ring)
  · conv_rhs => rw [Finset.sum_comm]
    refine Finset.sum_congr rfl (fun i _ => ?_)
    rw [Finset.sum_mul]
    refine Finset.sum_congr rfl (fun s _ => by ring)

/-- the batch gradient of the purification RBM pairs as the sum of the per-sample gradients -/
theorem PRBM.pair_effEnergyGrad (r d : PRBM ℝ n h a) {B : ℕ} (vs : Fin B → Fin n → ℝ) :
    (r.effEnergyGrad vs).pair d = ∑ s, (r.effEnergyGrad1 (vs s)).pair d := by
  have := PRBM.pair_weighted (fun s => r.effEnergyGrad1 (vs s)) (fun _ : Fin B => (1 : ℝ)) d
  simp only [mul_one, one_mul] at this
  rw [← this]
  simp only [PRBM.pair, PRBM.effEnergyGrad, PRBM.effEnergyGrad1, sumFin_eq, Finset.sum_neg_distrib]

theorem PRBM.pair_add (x y d : PRBM ℝ n h a) : (x.add y).pair d = x.pair d + y.pair d := by
  simp only [PRBM.pair, PRBM.add, add_mul, Finset.sum_add_distrib]; ring

theorem PRBM.pair_zero (d : PRBM ℝ n h a) : (PRBM.zero : PRBM ℝ n h a).pair d = 0 := by
  simp [PRBM.pair, PRBM.zero]

end QV
