/-
QV.Lemmas.Batching — helper lemmas about `_shuffle_data`'s indexing and slicing (QV.Model.Batching), used by C07.
-/
import QV.Model.Batching
namespace QV.Batching
open QV

section rows
variable {α : Type}

/-- `ys` are the rows of `xs` at the indices `idx` (all in range), in that order -/
def Rows (xs : List α) (idx : List Nat) (ys : List α) : Prop := ys.map some = idx.map (fun i => xs[i]?)

theorem map_some_inj {ys zs : List α} (h : ys.map some = zs.map some) : ys = zs :=
  (List.map_inj_right (fun _ _ hxy => Option.some.inj hxy)).mp h

theorem takeRows_ok_iff (xs : List α) (idx : List Nat) (ys : List α) :
    takeRows xs idx = .ok ys ↔ Rows xs idx ys := by
  unfold Rows
  induction idx generalizing ys with
  | nil => cases ys <;> simp [takeRows]
  | cons i rest ih =>
    simp only [takeRows, getRow, List.map_cons]
    cases hx : xs[i]? with
    | none =>
      simp only
      constructor
      · intro h; cases h
      · intro h; cases ys <;> simp at h
    | some x =>
      simp only
      cases hr : takeRows xs rest with
      | error e =>
        simp only
        constructor
        · intro h; cases h
        · intro h
          cases ys with
          | nil => simp at h
          | cons y ys' =>
            simp only [List.map_cons, List.cons.injEq, Option.some.injEq] at h
            have := (ih ys').mpr h.2
            rw [hr] at this; cases this
      | ok zs =>
        simp only
        have hz := (ih zs).mp hr
        constructor
        · intro h; cases h; simp [hz]
        · intro h
          cases ys with
          | nil => simp at h
          | cons y ys' =>
            simp only [List.map_cons, List.cons.injEq, Option.some.injEq] at h
            have h2 : ys'.map some = zs.map some := by rw [h.2, hz]
            rw [h.1, map_some_inj h2]

theorem takeRows_error (xs : List α) (idx : List Nat) (e : PyErr) (h : takeRows xs idx = .error e) :
    e = .IndexError := by
  induction idx with
  | nil => simp [takeRows] at h
  | cons i rest ih =>
    simp only [takeRows, getRow] at h
    cases hx : xs[i]? with
    | none => rw [hx] at h; cases h; rfl
    | some x =>
      rw [hx] at h
      simp only at h
      cases hr : takeRows xs rest with
      | error e' => rw [hr] at h; simp only at h; cases h; exact ih hr
      | ok zs => rw [hr] at h; cases h

/-- indexing with in-range indices succeeds -/
theorem takeRows_exists (xs : List α) (idx : List Nat) (h : ∀ i ∈ idx, i < xs.length) :
    ∃ ys, takeRows xs idx = .ok ys := by
  induction idx with
  | nil => exact ⟨[], rfl⟩
  | cons i rest ih =>
    obtain ⟨zs, hz⟩ := ih (fun j hj => h j (List.mem_cons_of_mem _ hj))
    have hi : i < xs.length := h i (List.mem_cons_self ..)
    refine ⟨xs[i] :: zs, (takeRows_ok_iff _ _ _).mpr ?_⟩
    have := (takeRows_ok_iff _ _ _).mp hz
    simp [Rows, List.getElem?_eq_getElem hi] at this ⊢
    exact this

theorem Rows.length {xs : List α} {idx : List Nat} {ys : List α} (h : Rows xs idx ys) : ys.length = idx.length := by
  have := congrArg List.length h
  simpa using this

theorem Rows.unique {xs : List α} {idx : List Nat} {ys ys' : List α} (h : Rows xs idx ys) (h' : Rows xs idx ys') :
    ys = ys' := map_some_inj (h.trans h'.symm)

theorem Rows.slice {xs : List α} {idx : List Nat} {ys : List α} (h : Rows xs idx ys) (a b : Nat) :
    Rows xs ((idx.drop a).take b) ((ys.drop a).take b) := by
  unfold Rows at *
  rw [List.map_take, List.map_drop, h, List.map_take, List.map_drop]

theorem Rows.mem {xs : List α} {idx : List Nat} {ys : List α} (h : Rows xs idx ys) : ∀ y ∈ ys, y ∈ xs := by
  intro y hy
  have : some y ∈ ys.map some := List.mem_map_of_mem hy
  rw [h] at this
  obtain ⟨i, _, hi⟩ := List.mem_map.mp this
  exact List.mem_of_getElem? hi

theorem Rows.index_lt {xs : List α} {idx : List Nat} {ys : List α} (h : Rows xs idx ys) : ∀ i ∈ idx, i < xs.length := by
  intro i hi
  have : xs[i]? ∈ idx.map (fun i => xs[i]?) := List.mem_map_of_mem hi
  rw [← h] at this
  obtain ⟨y, _, hy⟩ := List.mem_map.mp this
  exact (List.getElem?_eq_some_iff.mp hy.symm).1

/-- the rows at the indices `0 … N-1` are the list itself -/
theorem rows_range (xs : List α) : Rows xs (List.range xs.length) xs := by
  unfold Rows
  apply List.ext_getElem?
  intro k
  simp only [List.getElem?_map]
  by_cases hk : k < xs.length
  · simp [List.getElem?_range hk, List.getElem?_eq_getElem hk]
  · have : xs.length ≤ k := Nat.le_of_not_lt hk
    have h2 : (List.range xs.length)[k]? = none := List.getElem?_eq_none (by simpa using this)
    simp [List.getElem?_eq_none this, h2]

/-- reindexing by a permutation of `0 … N-1` yields a permutation of the rows (as a multiset: duplicates count) -/
theorem Rows.perm {xs : List α} {perm : List Nat} {ys : List α} (h : Rows xs perm ys)
    (hp : perm.Perm (List.range xs.length)) : ys.Perm xs := by
  have h1 : (ys.map some).Perm (xs.map some) := by
    rw [h, rows_range xs]
    exact hp.map _
  have h2 := h1.filterMap id
  simpa [List.filterMap_map] using h2
end rows

section slices
variable {α : Type}

/-- `⌈len / B⌉` -/
def ceilDiv (len B : Nat) : Nat := (len + B - 1) / B

theorem batchStarts_length (len B : Nat) : (batchStarts len B).length = ceilDiv len B := by
  simp [batchStarts, ceilDiv]

theorem ceilDiv_mul_ge (len B : Nat) (hB : 1 ≤ B) : len ≤ ceilDiv len B * B := by
  unfold ceilDiv
  have h1 := Nat.div_add_mod (len + B - 1) B
  have h2 := Nat.mod_lt (len + B - 1) (by omega : B > 0)
  have : (len + B - 1) / B * B = B * ((len + B - 1) / B) := Nat.mul_comm _ _
  omega

theorem ceilDiv_pred_mul_lt (len B : Nat) (hB : 1 ≤ B) (hl : 1 ≤ len) : (ceilDiv len B - 1) * B < len := by
  unfold ceilDiv
  have h1 := Nat.div_add_mod (len + B - 1) B
  have h2 := Nat.mod_lt (len + B - 1) (by omega : B > 0)
  have hpos : 1 ≤ (len + B - 1) / B := by
    apply (Nat.le_div_iff_mul_le (by omega)).mpr; omega
  have : ((len + B - 1) / B - 1) * B = B * ((len + B - 1) / B) - B := by
    rw [Nat.sub_mul, Nat.one_mul, Nat.mul_comm]
  omega

/-- the first `m` slices concatenate to the first `m*B` elements -/
theorem slices_flatten_take (B : Nat) (xs : List α) (m : Nat) :
    (((List.range m).map (fun j => j * B)).map (fun st => (xs.drop st).take B)).flatten = xs.take (m * B) := by
  induction m with
  | zero => simp
  | succ m ih =>
    rw [List.range_succ, List.map_append, List.map_append, List.flatten_append, ih]
    simp only [List.map_cons, List.map_nil, List.flatten_cons, List.flatten_nil, List.append_nil]
    rw [Nat.succ_mul, List.take_add]

theorem sliceBatches_ok (B : Nat) (xs : List α) (hB : 1 ≤ B) :
    sliceBatches B xs = .ok ((batchStarts xs.length B).map (fun st => (xs.drop st).take B)) := by
  unfold sliceBatches
  rw [if_neg (by omega)]

/-- slicing loses and duplicates nothing: the batches concatenate to the list -/
theorem slices_flatten (B : Nat) (xs : List α) (hB : 1 ≤ B) :
    ((batchStarts xs.length B).map (fun st => (xs.drop st).take B)).flatten = xs := by
  unfold batchStarts
  rw [slices_flatten_take]
  exact List.take_of_length_le (ceilDiv_mul_ge xs.length B hB)

theorem slices_length (B : Nat) (xs : List α) :
    ((batchStarts xs.length B).map (fun st => (xs.drop st).take B)).length = ceilDiv xs.length B := by
  simp [batchStarts_length]

theorem slices_getElem_length (B : Nat) (xs : List α) (j : Nat) (hj : j < ceilDiv xs.length B) :
    (((batchStarts xs.length B).map (fun st => (xs.drop st).take B))[j]'(by simpa [batchStarts_length] using hj)).length
      = min B (xs.length - j * B) := by
  simp [batchStarts]

/-- slicing commutes with mapping the rows -/
theorem slices_map {β : Type} (f : α → β) (B : Nat) (xs : List α) :
    (batchStarts (xs.map f).length B).map (fun st => ((xs.map f).drop st).take B)
      = ((batchStarts xs.length B).map (fun st => (xs.drop st).take B)).map (List.map f) := by
  simp [List.map_take, List.map_drop]
end slices

section zips
variable {ρ : Type}

theorem zip2_length (ps ns : List (List ρ)) : (zip2 ps ns).length = min ps.length ns.length := by
  induction ps generalizing ns with
  | nil => simp [zip2]
  | cons p ps ih => cases ns with
    | nil => simp [zip2]
    | cons n ns => simp [zip2, ih]

theorem zip3_length (ps ns : List (List ρ)) (bs : List (List (List String))) :
    (zip3 ps ns bs).length = min (min ps.length ns.length) bs.length := by
  induction ps generalizing ns bs with
  | nil => simp [zip3]
  | cons p ps ih => cases ns with
    | nil => simp [zip3]
    | cons n ns => cases bs with
      | nil => simp [zip3]
      | cons b bs => simp [zip3, ih]

theorem zip2_proj (ps ns : List (List ρ)) (h : ps.length = ns.length) :
    (zip2 ps ns).map (·.pos) = ps ∧ (zip2 ps ns).map (·.neg) = ns ∧ ∀ b ∈ zip2 ps ns, b.bases = none := by
  induction ps generalizing ns with
  | nil => cases ns <;> simp_all [zip2]
  | cons p ps ih => cases ns with
    | nil => simp at h
    | cons n ns =>
      obtain ⟨h1, h2, h3⟩ := ih ns (by simpa using h)
      simp [zip2, h1, h2]
      exact h3

theorem zip3_proj (ps ns : List (List ρ)) (bs : List (List (List String))) (h : ps.length = ns.length)
    (h' : ps.length = bs.length) :
    (zip3 ps ns bs).map (·.pos) = ps ∧ (zip3 ps ns bs).map (·.neg) = ns ∧
      (zip3 ps ns bs).map (·.bases) = bs.map some := by
  induction ps generalizing ns bs with
  | nil => cases ns <;> cases bs <;> simp_all [zip3]
  | cons p ps ih => cases ns with
    | nil => simp at h
    | cons n ns => cases bs with
      | nil => simp at h'
      | cons b bs =>
        obtain ⟨h1, h2, h3⟩ := ih ns bs (by simpa using h) (by simpa using h')
        simp [zip3, h1, h2, h3]
end zips

/-! ### closed form of `shuffleData` on valid inputs -/
section closed
variable {ρ : Type}

/-- the slices `xs[0:B], xs[B:2B], …` -/
def slices {α : Type} (B : Nat) (xs : List α) : List (List α) :=
  (batchStarts xs.length B).map (fun st => (xs.drop st).take B)

theorem sliceBatches_eq {α : Type} (B : Nat) (xs : List α) (hB : 1 ≤ B) : sliceBatches B xs = .ok (slices B xs) :=
  sliceBatches_ok B xs hB

/-- no bases, `neg_batch_size == pos_batch_size`: the negative batches mirror the positive ones; no `randint` -/
theorem shuffleData_mirror (perm negIdx : List Nat) (B nb : Nat) (samples z : List ρ) (hB : 1 ≤ B)
    (hperm : ∀ i ∈ perm, i < samples.length) :
    ∃ sp, Rows samples perm sp ∧
      shuffleData perm negIdx B B nb samples none z =
        .ok { batches := zip2 (slices B sp) (slices B sp), randint := none } := by
  obtain ⟨sp, hsp⟩ := takeRows_exists samples perm hperm
  refine ⟨sp, (takeRows_ok_iff _ _ _).mp hsp, ?_⟩
  simp [shuffleData, hsp, sliceBatches_eq B sp hB, bind, Except.bind, pure, Except.pure]

/-- no bases, different negative batch size: negative rows are drawn by `randint` over all `N` rows -/
theorem shuffleData_randint (perm negIdx : List Nat) (posB negB nb : Nat) (samples z : List ρ)
    (hne : negB ≠ posB) (hB : 1 ≤ posB) (hnB : 1 ≤ negB) (hN : 1 ≤ samples.length)
    (hperm : ∀ i ∈ perm, i < samples.length) (hneg : ∀ i ∈ negIdx, i < samples.length) :
    ∃ sp sn, Rows samples perm sp ∧ Rows samples negIdx sn ∧
      shuffleData perm negIdx posB negB nb samples none z =
        .ok { batches := zip2 (slices posB sp) (slices negB sn), randint := some (samples.length, nb * negB) } := by
  obtain ⟨sp, hsp⟩ := takeRows_exists samples perm hperm
  obtain ⟨sn, hsn⟩ := takeRows_exists samples negIdx hneg
  refine ⟨sp, sn, (takeRows_ok_iff _ _ _).mp hsp, (takeRows_ok_iff _ _ _).mp hsn, ?_⟩
  have h0 : samples.length ≠ 0 := by omega
  simp [shuffleData, hsp, hsn, hne, randintReq, h0, sliceBatches_eq posB sp hB, sliceBatches_eq negB sn hnB,
    bind, Except.bind, pure, Except.pure]

/-- with bases: negative rows are drawn by `randint` over the reference-basis rows; bases are indexed by the
same permutation as the samples -/
theorem shuffleData_bases (perm negIdx : List Nat) (posB negB nb : Nat) (samples z : List ρ)
    (bs : List (List String)) (hB : 1 ≤ posB) (hnB : 1 ≤ negB) (hz : 1 ≤ z.length)
    (hperm : ∀ i ∈ perm, i < samples.length) (hpermb : ∀ i ∈ perm, i < bs.length)
    (hneg : ∀ i ∈ negIdx, i < z.length) :
    ∃ sp sn sb, Rows samples perm sp ∧ Rows z negIdx sn ∧ Rows bs perm sb ∧
      shuffleData perm negIdx posB negB nb samples (some bs) z =
        .ok { batches := zip3 (slices posB sp) (slices negB sn)
                ((batchStarts samples.length posB).map (fun st => (sb.drop st).take posB)),
              randint := some (z.length, nb * negB) } := by
  obtain ⟨sp, hsp⟩ := takeRows_exists samples perm hperm
  obtain ⟨sn, hsn⟩ := takeRows_exists z negIdx hneg
  obtain ⟨sb, hsb⟩ := takeRows_exists bs perm hpermb
  refine ⟨sp, sn, sb, (takeRows_ok_iff _ _ _).mp hsp, (takeRows_ok_iff _ _ _).mp hsn,
    (takeRows_ok_iff _ _ _).mp hsb, ?_⟩
  have h0 : z.length ≠ 0 := by omega
  simp [shuffleData, hsp, hsn, hsb, randintReq, h0, sliceBatches_eq posB sp hB, sliceBatches_eq negB sn hnB,
    bind, Except.bind, pure, Except.pure]
end closed

end QV.Batching
