/-
QV.Lemmas.Grouping — summing a batch group-by-group (groups = distinct keys) gives the plain sum;
pairing of folded record sums.
-/
import Mathlib.Algebra.BigOperators.Group.List.Basic
import Mathlib.Data.List.Nodup
import QV.Lemmas.GradLin

namespace QV
open Grads
variable {n h a : ℕ}

theorem foldr_insert_nodup {κ : Type} [BEq κ] [LawfulBEq κ] (l : List κ) : (l.foldr List.insert []).Nodup := by
  induction l with
  | nil => simp
  | cons x xs ih =>
    rw [List.foldr_cons]
    by_cases hx : x ∈ xs.foldr List.insert []
    · rw [List.insert_of_mem hx]; exact ih
    · rw [List.insert_of_not_mem hx]; exact List.nodup_cons.mpr ⟨hx, ih⟩

theorem mem_foldr_insert {κ : Type} [BEq κ] [LawfulBEq κ] (l : List κ) (x : κ) :
    x ∈ l.foldr List.insert [] ↔ x ∈ l := by
  induction l with
  | nil => simp
  | cons y ys ih => simp [List.mem_insert_iff, ih]

theorem sum_map_ite_eq_of_nodup {κ : Type} [BEq κ] [LawfulBEq κ] (L : List κ) (hL : L.Nodup) (a : κ) (ha : a ∈ L) (c : ℝ) :
    (L.map (fun u => if a == u then c else 0)).sum = c := by
  induction L with
  | nil => simp at ha
  | cons x xs ih =>
    rw [List.map_cons, List.sum_cons]
    rcases List.mem_cons.mp ha with rfl | hmem
    · have hx : a ∉ xs := (List.nodup_cons.mp hL).1
      have : (xs.map (fun u => if a == u then c else 0)).sum = 0 := by
        apply List.sum_eq_zero
        intro y hy
        obtain ⟨u, hu, rfl⟩ := List.mem_map.mp hy
        rw [if_neg]; intro hbe; rw [beq_iff_eq] at hbe; subst hbe; exact hx hu
      simp [this]
    · have hne : ¬ (a == x) = true := by
        rw [beq_iff_eq]; rintro rfl; exact (List.nodup_cons.mp hL).1 hmem
      rw [if_neg hne, zero_add]
      exact ih (List.nodup_cons.mp hL).2 hmem

/-- group-by-key summation equals plain summation, for any duplicate-free key list covering the batch -/
theorem sum_groups_of {ι κ : Type} [BEq κ] [LawfulBEq κ] (D : List ι) (key : ι → κ) (f : ι → ℝ)
    (L : List κ) (hL : L.Nodup) (hcov : ∀ s ∈ D, key s ∈ L) :
    (L.map (fun u => ((D.filter (fun s => key s == u)).map f).sum)).sum = (D.map f).sum := by
  induction D with
  | nil => simp
  | cons s D ih =>
    have hstep : ∀ u, (((s :: D).filter (fun s => key s == u)).map f).sum
        = (if key s == u then f s else 0) + ((D.filter (fun s => key s == u)).map f).sum := by
      intro u
      by_cases hk : (key s == u) = true
      · simp [List.filter_cons, hk]
      · simp [List.filter_cons, hk]
    simp only [hstep]
    rw [List.sum_map_add, sum_map_ite_eq_of_nodup L hL (key s) (hcov s List.mem_cons_self),
      ih (fun s' hs' => hcov s' (List.mem_cons_of_mem _ hs')), List.map_cons, List.sum_cons]

theorem sum_groups {ι κ : Type} [BEq κ] [LawfulBEq κ] (D : List ι) (key : ι → κ) (f : ι → ℝ) :
    (((D.map key).foldr List.insert []).map (fun u => ((D.filter (fun s => key s == u)).map f).sum)).sum
      = (D.map f).sum :=
  sum_groups_of D key f _ (foldr_insert_nodup _)
    (fun s hs => (mem_foldr_insert _ _).mpr (List.mem_map_of_mem hs))

theorem pair_foldl_add (l : List (RBM ℝ n h)) (acc d : RBM ℝ n h) :
    (l.foldl RBM.add acc).pair d = acc.pair d + (l.map (fun x => x.pair d)).sum := by
  induction l generalizing acc with
  | nil => simp
  | cons x xs ih => rw [List.foldl_cons, ih, RBM.pair_add, List.map_cons, List.sum_cons, add_assoc]

theorem pair_sumRBM (l : List (RBM ℝ n h)) (d : RBM ℝ n h) :
    (sumRBM l).pair d = (l.map (fun x => x.pair d)).sum := by
  simp [sumRBM, pair_foldl_add, RBM.pair_zero]

/-- grouped accumulation of per-sample records (as `NeuralStateBase.gradient` does, one unique basis at a time)
pairs as the plain sum over the batch -/
theorem pair_grouped {ι κ : Type} [BEq κ] [LawfulBEq κ] (D : List ι) (key : ι → κ) (f : ι → RBM ℝ n h) (d : RBM ℝ n h) :
    (sumRBM ((((D.map key).foldr List.insert []).map (fun u => D.filter (fun s => key s == u))).map
        (fun g => sumRBM (g.map f)))).pair d
      = (D.map (fun s => (f s).pair d)).sum := by
  rw [pair_sumRBM, List.map_map, List.map_map]
  have := sum_groups D key (fun s => (f s).pair d)
  rw [← this]
  congr 1
  refine List.map_congr_left (fun u _ => ?_)
  simp only [Function.comp, pair_sumRBM, List.map_map]
  rfl

end QV
