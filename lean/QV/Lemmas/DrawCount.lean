/-
QV.Lemmas.DrawCount — how many Bernoulli draws a `Prog` consumes (`QV.Model.Prob`): the complete executions
(`paths`) of a `bind`, "every execution path makes exactly `c` draws" (`Draws`), and the counts of the
`torch.bernoulli` helpers `flipVec` (`m`), `flipMat` (`B·m`) and of `iter` (`k` times the step's count).
Used by `C05_call_shapes`.
-/
import QV.Model.Prob
import QV.Lemmas.Prob

namespace QV
namespace Prog
variable {α β γ : Type}

/-- the complete executions of `m >>= f`: an execution of `m` followed by an execution of `f` on its result; the
probabilities presented and the draws made are concatenated. -/
theorem paths_bind (m : Prog α β) (f : β → Prog α γ) :
    (m.bind f).paths
      = m.paths.flatMap (fun x => (f x.1).paths.map fun y => (y.1, x.2.1 ++ y.2.1, x.2.2 ++ y.2.2)) := by
  induction m with
  | ret b => simp [bind, paths]
  | flip p k ih =>
    simp only [bind, paths, ih, List.flatMap_append, List.flatMap_map, List.map_flatMap, List.map_map]
    rfl

/-- every complete execution of `m` makes exactly `c` Bernoulli draws (and so presents exactly `c` probabilities) -/
def Draws (m : Prog α β) (c : ℕ) : Prop := ∀ x ∈ m.paths, x.2.2.length = c ∧ x.2.1.length = c

theorem draws_ret (b : β) : Draws (ret b : Prog α β) 0 := by
  intro x hx; simp only [paths, List.mem_singleton] at hx; subst hx; exact ⟨rfl, rfl⟩

theorem draws_flip (p : α) (k : Bool → Prog α β) (c : ℕ) (hk : ∀ t, Draws (k t) c) : Draws (flip p k) (c + 1) := by
  intro x hx
  simp only [paths, List.mem_append, List.mem_map] at hx
  rcases hx with ⟨y, hy, rfl⟩ | ⟨y, hy, rfl⟩ <;> simp [(hk _ y hy).1, (hk _ y hy).2]

/-- path-length lemma for `bind`: counts add, on every path -/
theorem draws_bind {m : Prog α β} {f : β → Prog α γ} {c d : ℕ} (hm : Draws m c) (hf : ∀ b, Draws (f b) d) :
    Draws (m.bind f) (c + d) := by
  intro z hz
  rw [paths_bind] at hz
  simp only [List.mem_flatMap, List.mem_map] at hz
  obtain ⟨x, hx, y, hy, rfl⟩ := hz
  simp [(hm x hx).1, (hm x hx).2, (hf _ y hy).1, (hf _ y hy).2]

theorem draws_map {m : Prog α β} (f : β → γ) {c : ℕ} (hm : Draws m c) : Draws (m.map f) c := by
  have := draws_bind hm (fun b => draws_ret (α := α) (f b))
  simpa [map] using this

/-- one `torch.bernoulli` call on a length-`m` vector makes `m` draws on every path -/
theorem draws_flipVec (m : ℕ) (p : Fin m → α) : Draws (flipVec m p) m := by
  induction m with
  | zero => exact draws_ret _
  | succ m ih =>
    refine draws_flip _ _ m (fun t => ?_)
    have h2 : Draws ((flipVec m (fun i => p i.succ)).bind fun rest =>
        ret (fun i => Fin.cases t rest i : Fin (m + 1) → Bool)) (m + 0) :=
      draws_bind (ih (fun i => p i.succ)) (fun rest => draws_ret _)
    exact h2

/-- one `torch.bernoulli` call on a `B × m` matrix makes `B·m` draws on every path -/
theorem draws_flipMat (B m : ℕ) (p : Fin B → Fin m → α) : Draws (flipMat B m p) (B * m) := by
  induction B with
  | zero => rw [Nat.zero_mul]; exact draws_ret _
  | succ B ih =>
    have h2 : ∀ row : Fin m → Bool, Draws ((flipMat B m (fun b => p b.succ)).bind fun rest =>
        ret (fun b => Fin.cases row rest b : Fin (B + 1) → Fin m → Bool)) (B * m + 0) :=
      fun row => draws_bind (ih _) (fun rest => draws_ret _)
    have := draws_bind (draws_flipVec m (p 0)) h2
    have e : m + (B * m + 0) = (B + 1) * m := by ring
    rw [e] at this
    exact this

/-- `k` passes of a loop whose body makes `c` draws on every path make `k·c` draws on every path -/
theorem draws_iter {step : β → Prog α β} {c : ℕ} (hs : ∀ v, Draws (step v) c) (k : ℕ) (v : β) :
    Draws (iter step k v) (k * c) := by
  induction k generalizing v with
  | zero => simpa [iter] using draws_ret (α := α) v
  | succ k ih =>
    have := draws_bind (hs v) (fun u => ih u)
    have e : c + k * c = (k + 1) * c := by ring
    rw [e] at this
    exact this

/-- replay form: a recording that `m` replays successfully was consumed by exactly `c` draws -/
theorem draws_run {m : Prog α β} {c : ℕ} (hm : Draws m c) {ds : List Bool} {b : β} {ps : List α} {rest : List Bool}
    (h : m.run ds = some (b, ps, rest)) : ps.length = c ∧ ds.length = c + rest.length := by
  obtain ⟨used, rfl, hmem⟩ := mem_paths_of_run m ds b ps rest h
  have := hm _ hmem
  simp only at this
  exact ⟨this.2, by simp [this.1]⟩

/-! ### what one `torch.bernoulli` call presents and returns, on every path -/

/-- a `B × m` tensor flattened row-major (the order in which the recorder flattens it) -/
def flatM {δ : Type} {B m : ℕ} (f : Fin B → Fin m → δ) : List δ := (List.ofFn fun b => List.ofFn (f b)).flatten

theorem flatM_length {δ : Type} {B m : ℕ} (f : Fin B → Fin m → δ) : (flatM f).length = B * m := by
  simp [flatM, List.length_flatten, Function.comp_def]

/-- prepend an entry to a finite vector (the `Fin.cases` of `flipVec` / `flipMat`) -/
def consB {δ : Type} {m : ℕ} (t : δ) (rest : Fin m → δ) : Fin (m + 1) → δ := fun i => Fin.cases t rest i

/-- on every path, `flipVec m p` presents exactly the vector `p` in index order, and its result is the vector of the draws made -/
theorem paths_flipVec (m : ℕ) (p : Fin m → α) :
    ∀ x ∈ (flipVec m p).paths, x.2.1 = List.ofFn p ∧ x.2.2 = List.ofFn x.1 := by
  induction m with
  | zero => intro x hx; simp only [flipVec, paths, List.mem_singleton] at hx; subst hx; simp
  | succ m ih =>
    intro x hx
    have hk : ∀ t : Bool, ((flipVec m (fun i => p i.succ)).bind fun rest =>
        ret (fun i => Fin.cases t rest i : Fin (m + 1) → Bool)).paths
          = (flipVec m (fun i => p i.succ)).paths.map (fun y => ((fun i => Fin.cases t y.1 i : Fin (m + 1) → Bool), y.2)) :=
      fun t => paths_map (β := Fin m → Bool) (γ := Fin (m + 1) → Bool) (consB t) (flipVec m (fun i => p i.succ))
    simp only [flipVec, paths, hk, List.mem_append, List.mem_map] at hx
    rcases hx with ⟨y, ⟨z, hz, rfl⟩, rfl⟩ | ⟨y, ⟨z, hz, rfl⟩, rfl⟩ <;>
      simp [List.ofFn_succ, (ih _ z hz).1, (ih _ z hz).2]

/-- on every path, `flipMat B m p` presents exactly the matrix `p` row-major, and its result is the matrix of the draws made -/
theorem paths_flipMat (B m : ℕ) (p : Fin B → Fin m → α) :
    ∀ x ∈ (flipMat B m p).paths, x.2.1 = flatM p ∧ x.2.2 = flatM x.1 := by
  induction B with
  | zero => intro x hx; simp only [flipMat, paths, List.mem_singleton] at hx; subst hx; simp [flatM]
  | succ B ih =>
    intro x hx
    have hk : ∀ row : Fin m → Bool, ((flipMat B m (fun b => p b.succ)).bind fun rest =>
        ret (fun b => Fin.cases row rest b : Fin (B + 1) → Fin m → Bool)).paths
          = (flipMat B m (fun b => p b.succ)).paths.map
              (fun y => ((fun b => Fin.cases row y.1 b : Fin (B + 1) → Fin m → Bool), y.2)) :=
      fun row => paths_map (β := Fin B → Fin m → Bool) (γ := Fin (B + 1) → Fin m → Bool) (consB row)
        (flipMat B m (fun b => p b.succ))
    simp only [flipMat, paths_bind, hk, List.mem_flatMap, List.mem_map] at hx
    obtain ⟨y, hy, _, ⟨z, hz, rfl⟩, rfl⟩ := hx
    simp [flatM, List.ofFn_succ, (ih _ z hz).1, (ih _ z hz).2, (paths_flipVec m (p 0) y hy).1,
      (paths_flipVec m (p 0) y hy).2]

/-! ### replay succeeds exactly on recordings that are long enough -/

theorem paths_ne_nil (m : Prog α β) : m.paths ≠ [] := by
  induction m with
  | ret b => simp [paths]
  | flip p k ih => simp [paths, ih]

/-- a replay either succeeds or the recording is shorter than some complete execution -/
theorem run_isSome_or_short (m : Prog α β) (ds : List Bool) :
    (m.run ds).isSome ∨ ∃ x ∈ m.paths, ds.length < x.2.2.length := by
  induction m generalizing ds with
  | ret b => left; rfl
  | flip p k ih =>
    cases ds with
    | nil =>
      right
      obtain ⟨y, hy⟩ := List.exists_mem_of_ne_nil _ (paths_ne_nil (k true))
      exact ⟨(y.1, p :: y.2.1, true :: y.2.2), by simp only [paths, List.mem_append, List.mem_map]; exact Or.inl ⟨y, hy, rfl⟩,
        by simp⟩
    | cons d ds =>
      rcases ih d ds with hs | ⟨y, hy, hlt⟩
      · left
        obtain ⟨r, hr⟩ := Option.isSome_iff_exists.mp hs
        simp [run, hr]
      · right
        refine ⟨(y.1, p :: y.2.1, d :: y.2.2), ?_, by simpa using hlt⟩
        simp only [paths, List.mem_append, List.mem_map]
        cases d
        · exact Or.inr ⟨y, hy, rfl⟩
        · exact Or.inl ⟨y, hy, rfl⟩

/-- if every execution of `m` makes `c` draws, a recording is replayed successfully iff it holds at least `c` draws -/
theorem draws_run_isSome {m : Prog α β} {c : ℕ} (hm : Draws m c) (ds : List Bool) : (m.run ds).isSome ↔ c ≤ ds.length := by
  constructor
  · intro hs
    obtain ⟨⟨b, ps, rest⟩, hr⟩ := Option.isSome_iff_exists.mp hs
    have := (draws_run hm hr).2
    omega
  · intro hc
    rcases run_isSome_or_short m ds with hs | ⟨x, hx, hlt⟩
    · exact hs
    · have := (hm x hx).1
      omega

end Prog
end QV
