/-
QV.Lemmas.Train — helper lemmas about the `fit` state machine (QV.Model.Train) used by C12 (and C06.4).
No Mathlib needed.
-/
import QV.Model.Train
namespace QV.Train

/-- some user callback requests a stop while `ev` is dispatched -/
def reqEv (c : Cfg) (R : Req) (ev : Event) : Bool := c.cbs.any (fun i => R.cb i ev)

/-! ### projections distribute over append / cons -/
section proj
variable (l₁ l₂ : List Entry)
@[simp] theorem events_append : events (l₁ ++ l₂) = events l₁ ++ events l₂ := by simp [events]
@[simp] theorem rets_append : rets (l₁ ++ l₂) = rets l₁ ++ rets l₂ := by simp [rets]
@[simp] theorem calls_append : calls (l₁ ++ l₂) = calls l₁ ++ calls l₂ := by simp [calls]
@[simp] theorem skeleton_append : skeleton (l₁ ++ l₂) = skeleton l₁ ++ skeleton l₂ := by simp [skeleton]
@[simp] theorem prints_append : prints (l₁ ++ l₂) = prints l₁ ++ prints l₂ := by simp [prints]
@[simp] theorem events_nil : events [] = [] := rfl
@[simp] theorem rets_nil : rets [] = [] := rfl
@[simp] theorem calls_nil : calls [] = [] := rfl
@[simp] theorem skeleton_nil : skeleton [] = [] := rfl
@[simp] theorem prints_nil : prints [] = [] := rfl
variable (x : Entry) (l : List Entry)
theorem events_cons : events (x :: l) = events [x] ++ events l := by
  rw [← events_append]; rfl
theorem rets_cons : rets (x :: l) = rets [x] ++ rets l := by
  rw [← rets_append]; rfl
theorem calls_cons : calls (x :: l) = calls [x] ++ calls l := by
  rw [← calls_append]; rfl
theorem skeleton_cons : skeleton (x :: l) = skeleton [x] ++ skeleton l := by
  rw [← skeleton_append]; rfl
theorem prints_cons : prints (x :: l) = prints [x] ++ prints l := by
  rw [← prints_append]; rfl
end proj

section single
variable (ev : Event) (i : Nat) (f : Bool) (v : Nat) (m : TimerMsg) (e : Int) (b : Nat) (l : List Entry)
@[simp] theorem events_emit : events (.emit ev :: l) = ev :: events l := by simp [events]
@[simp] theorem events_call : events (.call i ev f v :: l) = events l := by simp [events]
@[simp] theorem events_print : events (.print m :: l) = events l := by simp [events]
@[simp] theorem events_ret : events (.ret ev f :: l) = events l := by simp [events]
@[simp] theorem events_shuffle : events (.shuffle e :: l) = events l := by simp [events]
@[simp] theorem events_opt : events (.optStep e b :: l) = events l := by simp [events]
@[simp] theorem events_sched : events (.schedStep e :: l) = events l := by simp [events]
@[simp] theorem rets_emit : rets (.emit ev :: l) = rets l := by simp [rets]
@[simp] theorem rets_call : rets (.call i ev f v :: l) = rets l := by simp [rets]
@[simp] theorem rets_print : rets (.print m :: l) = rets l := by simp [rets]
@[simp] theorem rets_ret : rets (.ret ev f :: l) = (ev, f) :: rets l := by simp [rets]
@[simp] theorem rets_shuffle : rets (.shuffle e :: l) = rets l := by simp [rets]
@[simp] theorem rets_opt : rets (.optStep e b :: l) = rets l := by simp [rets]
@[simp] theorem rets_sched : rets (.schedStep e :: l) = rets l := by simp [rets]
@[simp] theorem calls_emit : calls (.emit ev :: l) = calls l := by simp [calls]
@[simp] theorem calls_call : calls (.call i ev f v :: l) = (i, ev) :: calls l := by simp [calls]
@[simp] theorem calls_print : calls (.print m :: l) = calls l := by simp [calls]
@[simp] theorem calls_ret : calls (.ret ev f :: l) = calls l := by simp [calls]
@[simp] theorem calls_shuffle : calls (.shuffle e :: l) = calls l := by simp [calls]
@[simp] theorem calls_opt : calls (.optStep e b :: l) = calls l := by simp [calls]
@[simp] theorem calls_sched : calls (.schedStep e :: l) = calls l := by simp [calls]
@[simp] theorem skeleton_emit : skeleton (.emit ev :: l) = .emit ev :: skeleton l := by simp [skeleton]
@[simp] theorem skeleton_call : skeleton (.call i ev f v :: l) = skeleton l := by simp [skeleton]
@[simp] theorem skeleton_print : skeleton (.print m :: l) = skeleton l := by simp [skeleton]
@[simp] theorem skeleton_ret : skeleton (.ret ev f :: l) = skeleton l := by simp [skeleton]
@[simp] theorem skeleton_shuffle : skeleton (.shuffle e :: l) = .shuffle e :: skeleton l := by simp [skeleton]
@[simp] theorem skeleton_opt : skeleton (.optStep e b :: l) = .optStep e b :: skeleton l := by simp [skeleton]
@[simp] theorem skeleton_sched : skeleton (.schedStep e :: l) = .schedStep e :: skeleton l := by simp [skeleton]
@[simp] theorem prints_emit : prints (.emit ev :: l) = prints l := by simp [prints]
@[simp] theorem prints_call : prints (.call i ev f v :: l) = prints l := by simp [prints]
@[simp] theorem prints_print : prints (.print m :: l) = m :: prints l := by simp [prints]
@[simp] theorem prints_ret : prints (.ret ev f :: l) = prints l := by simp [prints]
@[simp] theorem prints_shuffle : prints (.shuffle e :: l) = prints l := by simp [prints]
@[simp] theorem prints_opt : prints (.optStep e b :: l) = prints l := by simp [prints]
@[simp] theorem prints_sched : prints (.schedStep e :: l) = prints l := by simp [prints]
end single

/-! ### dispatch -/
section dispatch
variable (c : Cfg) (R : Req) (ev : Event)

theorem dispatchCbs_stop (ver : Nat) (cbs : List Nat) (stop : Bool) :
    (dispatchCbs R ev ver cbs stop).2 = (stop || cbs.any (fun i => R.cb i ev)) := by
  induction cbs generalizing stop with
  | nil => simp [dispatchCbs]
  | cons i rest ih => simp [dispatchCbs, ih, Bool.or_assoc]

theorem dispatchCbs_proj (ver : Nat) (cbs : List Nat) (stop : Bool) :
    events (dispatchCbs R ev ver cbs stop).1 = [] ∧ rets (dispatchCbs R ev ver cbs stop).1 = [] ∧
    skeleton (dispatchCbs R ev ver cbs stop).1 = [] ∧ prints (dispatchCbs R ev ver cbs stop).1 = [] ∧
    calls (dispatchCbs R ev ver cbs stop).1 = cbs.map (fun i => (i, ev)) := by
  induction cbs generalizing stop with
  | nil => simp [dispatchCbs]
  | cons i rest ih =>
    obtain ⟨h1, h2, h3, h4, h5⟩ := ih (stop || R.cb i ev)
    simp [dispatchCbs, h1, h2, h3, h4, h5]

theorem timerHandle_state (s : S) :
    (timerHandle ev s).2.stop = s.stop ∧ (timerHandle ev s).2.ver = s.ver ∧ (timerHandle ev s).2.sched = s.sched := by
  unfold timerHandle
  split <;> (try split) <;> simp

theorem timerHandle_proj (s : S) :
    events (timerHandle ev s).1 = [] ∧ rets (timerHandle ev s).1 = [] ∧
    skeleton (timerHandle ev s).1 = [] ∧ calls (timerHandle ev s).1 = [] := by
  unfold timerHandle
  split <;> (try split) <;> simp

@[simp] theorem dispatch_stop (s : S) : (dispatch c R ev s).2.stop = (s.stop || reqEv c R ev) := by
  unfold dispatch
  by_cases ht : c.timer <;> simp [ht, timerHandle_state, dispatchCbs_stop, reqEv]

@[simp] theorem dispatch_ver (s : S) : (dispatch c R ev s).2.ver = s.ver := by
  unfold dispatch
  by_cases ht : c.timer <;> simp [ht, timerHandle_state]

@[simp] theorem dispatch_sched (s : S) : (dispatch c R ev s).2.sched = s.sched := by
  unfold dispatch
  by_cases ht : c.timer <;> simp [ht, timerHandle_state]

@[simp] theorem dispatch_events (s : S) : events (dispatch c R ev s).1 = [ev] := by
  unfold dispatch
  by_cases ht : c.timer <;> simp [ht, timerHandle_proj, dispatchCbs_proj]

@[simp] theorem dispatch_rets (s : S) : rets (dispatch c R ev s).1 = [(ev, s.stop || reqEv c R ev)] := by
  unfold dispatch
  by_cases ht : c.timer <;> simp [ht, timerHandle_proj, timerHandle_state, dispatchCbs_proj, dispatchCbs_stop, reqEv]

@[simp] theorem dispatch_calls (s : S) : calls (dispatch c R ev s).1 = c.cbs.map (fun i => (i, ev)) := by
  unfold dispatch
  by_cases ht : c.timer <;> simp [ht, timerHandle_proj, dispatchCbs_proj]

@[simp] theorem dispatch_skeleton (s : S) : skeleton (dispatch c R ev s).1 = [.emit ev] := by
  unfold dispatch
  by_cases ht : c.timer <;> simp [ht, timerHandle_proj, dispatchCbs_proj]

end dispatch

/-! ### closed form of the loops: how far they run -/

/-- the two events of one batch -/
def pairEv (e : Int) (b : Nat) : List Event := [.batchStart e b, .batchEnd e b]

/-- a stop is requested at `on_batch_start`, during, or at `on_batch_end` of batch `(e,b)` -/
def batchReq (c : Cfg) (R : Req) (e : Int) (b : Nat) : Bool :=
  reqEv c R (.batchStart e b) || R.mid e b || reqEv c R (.batchEnd e b)

/-- how many iterations a loop with `break`-on-stop performs over `l`: exactly one when the flag is
already set on entry, otherwise up to and including the first element at which a stop is requested -/
def cut {α : Type} (stop : Bool) (p : α → Bool) (l : List α) : Nat :=
  if stop then 1 else l.findIdx p + 1

section loops
variable (c : Cfg) (R : Req)

@[simp] theorem batchStep_stop (e : Int) (b : Nat) (s : S) :
    (batchStep c R e b s).2.stop = (s.stop || batchReq c R e b) := by
  simp [batchStep, batchReq, Bool.or_assoc]
@[simp] theorem batchStep_ver (e : Int) (b : Nat) (s : S) : (batchStep c R e b s).2.ver = s.ver + 1 := by
  simp [batchStep]
@[simp] theorem batchStep_sched (e : Int) (b : Nat) (s : S) : (batchStep c R e b s).2.sched = s.sched := by
  simp [batchStep]
@[simp] theorem batchStep_events (e : Int) (b : Nat) (s : S) : events (batchStep c R e b s).1 = pairEv e b := by
  simp [batchStep, pairEv]
@[simp] theorem batchStep_calls (e : Int) (b : Nat) (s : S) :
    calls (batchStep c R e b s).1 = (pairEv e b).flatMap (fun ev => c.cbs.map (fun i => (i, ev))) := by
  simp [batchStep, pairEv]
@[simp] theorem batchStep_skeleton (e : Int) (b : Nat) (s : S) :
    skeleton (batchStep c R e b s).1 = [.emit (.batchStart e b), .optStep e b, .emit (.batchEnd e b)] := by
  simp [batchStep]
@[simp] theorem batchStep_rets (e : Int) (b : Nat) (s : S) :
    rets (batchStep c R e b s).1 = [(.batchStart e b, s.stop || reqEv c R (.batchStart e b)),
      (.batchEnd e b, s.stop || batchReq c R e b)] := by
  simp [batchStep, batchReq, Bool.or_assoc]

theorem batchLoop_events (e : Int) (bs : List Nat) (s : S) :
    events (batchLoop c R e bs s).1 = (bs.take (cut s.stop (batchReq c R e) bs)).flatMap (pairEv e) ∧
    (batchLoop c R e bs s).2.stop = (s.stop || bs.any (batchReq c R e)) := by
  induction bs generalizing s with
  | nil => simp [batchLoop]
  | cons b rest ih =>
    unfold batchLoop
    simp only [batchStep_stop]
    by_cases hs : s.stop = true
    · simp [hs, cut]
    · have hs' : s.stop = false := by simpa using hs
      by_cases hb : batchReq c R e b = true
      · simp [hs', cut, hb, List.findIdx_cons]
      · have hb' : batchReq c R e b = false := by simpa using hb
        have h2 := ih (batchStep c R e b s).2
        simp only [batchStep_stop, hs', hb', Bool.or_false] at h2
        simp [hs', hb', h2, cut, List.findIdx_cons]

/-- events of epoch `e` when it is entered with stop flag `stopIn` -/
def epochEv (stopIn : Bool) (e : Int) : List Event :=
  .epochStart e ::
    (((List.range c.numBatches).take
        (cut (stopIn || reqEv c R (.epochStart e)) (batchReq c R e) (List.range c.numBatches))).flatMap (pairEv e)
      ++ [.epochEnd e])

/-- a stop is requested at some point of epoch `e` (if it runs in full) -/
def epochReq (e : Int) : Bool :=
  reqEv c R (.epochStart e) || (List.range c.numBatches).any (batchReq c R e) || reqEv c R (.epochEnd e)

@[simp] theorem schedPhase_stop (e : Int) (s : S) : (schedPhase c e s).2.stop = s.stop := by
  unfold schedPhase; split <;> rfl
@[simp] theorem schedPhase_ver (e : Int) (s : S) : (schedPhase c e s).2.ver = s.ver := by
  unfold schedPhase; split <;> rfl
@[simp] theorem schedPhase_sched (e : Int) (s : S) :
    (schedPhase c e s).2.sched = s.sched + (if c.hasSched then 1 else 0) := by
  unfold schedPhase; split <;> rfl
@[simp] theorem schedPhase_events (e : Int) (s : S) : events (schedPhase c e s).1 = [] := by
  unfold schedPhase; split <;> rfl
@[simp] theorem schedPhase_rets (e : Int) (s : S) : rets (schedPhase c e s).1 = [] := by
  unfold schedPhase; split <;> rfl
@[simp] theorem schedPhase_calls (e : Int) (s : S) : calls (schedPhase c e s).1 = [] := by
  unfold schedPhase; split <;> rfl
@[simp] theorem schedPhase_skeleton (e : Int) (s : S) :
    skeleton (schedPhase c e s).1 = if c.hasSched then [.schedStep e] else [] := by
  unfold schedPhase; split <;> rfl

theorem runEpoch_events (e : Int) (s : S) :
    events (runEpoch c R e s).1 = epochEv c R s.stop e ∧
    (runEpoch c R e s).2.stop = (s.stop || epochReq c R e) := by
  unfold runEpoch
  have h := batchLoop_events c R e (List.range c.numBatches) (dispatch c R (.epochStart e) s).2
  simp only [dispatch_stop] at h
  simp [h.1, h.2, epochEv, epochReq, Bool.or_assoc]

@[simp] theorem runEpoch_stop (e : Int) (s : S) :
    (runEpoch c R e s).2.stop = (s.stop || epochReq c R e) := (runEpoch_events c R e s).2

theorem epochLoop_events (es : List Int) (s : S) :
    events (epochLoop c R es s).1 =
      (if s.stop then (es.take 1).flatMap (epochEv c R true)
       else (es.take (es.findIdx (epochReq c R) + 1)).flatMap (epochEv c R false)) ∧
    (epochLoop c R es s).2.stop = (s.stop || es.any (epochReq c R)) := by
  induction es generalizing s with
  | nil => simp [epochLoop]
  | cons e rest ih =>
    unfold epochLoop
    have h1 := runEpoch_events c R e s
    simp only [runEpoch_stop]
    by_cases hs : s.stop = true
    · simp [hs, h1.1]
    · have hs' : s.stop = false := by simpa using hs
      by_cases hb : epochReq c R e = true
      · simp [hs', hb, h1.1, List.findIdx_cons]
      · have hb' : epochReq c R e = false := by simpa using hb
        have h2 := ih (runEpoch c R e s).2
        simp only [runEpoch_stop, hs', hb', Bool.or_false] at h2
        simp [hs', hb', h2, h1.1, List.findIdx_cons]

theorem fit_events :
    events (fit c R false).1 = .trainStart ::
      ((if reqEv c R .trainStart then ((epochRange c.start c.epochs).take 1).flatMap (epochEv c R true)
        else ((epochRange c.start c.epochs).take
          ((epochRange c.start c.epochs).findIdx (epochReq c R) + 1)).flatMap (epochEv c R false))
       ++ [.trainEnd]) ∧
    (fit c R false).2.stop =
      (reqEv c R .trainStart || (epochRange c.start c.epochs).any (epochReq c R) || reqEv c R .trainEnd) := by
  unfold fit
  have h := epochLoop_events c R (epochRange c.start c.epochs)
    (dispatch c R .trainStart { stop := false, notified := false, ver := 0, sched := 0 }).2
  simp only [dispatch_stop, Bool.false_or] at h
  simp [h.1, h.2]

theorem fit_stopped : fit c R true = ([], { stop := true, notified := false, ver := 0, sched := 0 }) := by
  simp [fit]

/-! ### what surrounds each event in the control skeleton; who is called -/

/-- The control-skeleton entries `fit` produces around the emission of `ev`: the data are shuffled
right before `on_epoch_start`, `optimizer.step()` follows `on_batch_start`, `scheduler.step()`
(if there is a scheduler) precedes `on_epoch_end`. -/
def expandEv : Event → List Entry
  | .epochStart e => [.shuffle e, .emit (.epochStart e)]
  | .batchStart e b => [.emit (.batchStart e b), .optStep e b]
  | .epochEnd e => (if c.hasSched then [.schedStep e] else []) ++ [.emit (.epochEnd e)]
  | ev => [.emit ev]

/-- handler invocations caused by one event: every user callback, in list order -/
def callsOf (ev : Event) : List (Nat × Event) := c.cbs.map (fun i => (i, ev))

theorem batchLoop_cons_stop (e : Int) (b : Nat) (rest : List Nat) (s : S)
    (h : (batchStep c R e b s).2.stop = true) : batchLoop c R e (b :: rest) s = batchStep c R e b s := by
  rw [batchLoop]; simp only [h, if_true]

theorem batchLoop_cons_go (e : Int) (b : Nat) (rest : List Nat) (s : S)
    (h : (batchStep c R e b s).2.stop = false) :
    batchLoop c R e (b :: rest) s =
      ((batchStep c R e b s).1 ++ (batchLoop c R e rest (batchStep c R e b s).2).1,
       (batchLoop c R e rest (batchStep c R e b s).2).2) := by
  rw [batchLoop]; simp only [h]; rfl

theorem epochLoop_cons_stop (e : Int) (rest : List Int) (s : S)
    (h : (runEpoch c R e s).2.stop = true) : epochLoop c R (e :: rest) s = runEpoch c R e s := by
  rw [epochLoop]; simp only [h, if_true]

theorem epochLoop_cons_go (e : Int) (rest : List Int) (s : S)
    (h : (runEpoch c R e s).2.stop = false) :
    epochLoop c R (e :: rest) s =
      ((runEpoch c R e s).1 ++ (epochLoop c R rest (runEpoch c R e s).2).1,
       (epochLoop c R rest (runEpoch c R e s).2).2) := by
  rw [epochLoop]; simp only [h]; rfl

theorem batchLoop_proj (e : Int) (bs : List Nat) (s : S) :
    skeleton (batchLoop c R e bs s).1 = (events (batchLoop c R e bs s).1).flatMap (expandEv c) ∧
    calls (batchLoop c R e bs s).1 = (events (batchLoop c R e bs s).1).flatMap (callsOf c) := by
  induction bs generalizing s with
  | nil => simp [batchLoop]
  | cons b rest ih =>
    cases h : (batchStep c R e b s).2.stop
    · rw [batchLoop_cons_go c R e b rest s h]; simp [pairEv, expandEv, callsOf, ih]
    · rw [batchLoop_cons_stop c R e b rest s h]; simp [pairEv, expandEv, callsOf]

theorem runEpoch_proj (e : Int) (s : S) :
    skeleton (runEpoch c R e s).1 = (events (runEpoch c R e s).1).flatMap (expandEv c) ∧
    calls (runEpoch c R e s).1 = (events (runEpoch c R e s).1).flatMap (callsOf c) := by
  unfold runEpoch
  simp [batchLoop_proj, expandEv, callsOf]

theorem epochLoop_proj (es : List Int) (s : S) :
    skeleton (epochLoop c R es s).1 = (events (epochLoop c R es s).1).flatMap (expandEv c) ∧
    calls (epochLoop c R es s).1 = (events (epochLoop c R es s).1).flatMap (callsOf c) := by
  induction es generalizing s with
  | nil => simp [epochLoop]
  | cons e rest ih =>
    cases h : (runEpoch c R e s).2.stop
    · rw [epochLoop_cons_go c R e rest s h]; simp [ih, runEpoch_proj]
    · rw [epochLoop_cons_stop c R e rest s h]; exact runEpoch_proj c R e s

theorem fit_proj (stop₀ : Bool) :
    skeleton (fit c R stop₀).1 = (events (fit c R stop₀).1).flatMap (expandEv c) ∧
    calls (fit c R stop₀).1 = (events (fit c R stop₀).1).flatMap (callsOf c) := by
  unfold fit
  cases stop₀ <;> simp [epochLoop_proj, expandEv, callsOf]
end loops

/-! ### replay semantics of a log: the recorded flags / versions are the running OR / count -/

/-- running values while replaying a log: (stop flag, parameter version, scheduler steps) -/
abbrev RunSt := Bool × Nat × Nat

/-- the observable part of the model state -/
def S.key (s : S) : RunSt := (s.stop, s.ver, s.sched)

/-- replay one entry: requests OR into the flag, `optStep` bumps the version, `schedStep` the scheduler
count; a `call` / `ret` entry is *checked* against the running values (`none` = inconsistent log) -/
def trackStep (R : Req) (st : RunSt) : Entry → Option RunSt
  | .call i ev seen v => if seen = st.1 ∧ v = st.2.1 then some (st.1 || R.cb i ev, st.2) else none
  | .optStep e b => some (st.1 || R.mid e b, st.2.1 + 1, st.2.2)
  | .schedStep _ => some (st.1, st.2.1, st.2.2 + 1)
  | .ret _ f => if f = st.1 then some st else none
  | _ => some st

/-- replay a whole log -/
def track (R : Req) (st : RunSt) (l : List Entry) : Option RunSt := l.foldlM (trackStep R) st

@[simp] theorem track_nil (R : Req) (st : RunSt) : track R st [] = some st := rfl
theorem track_cons (R : Req) (st : RunSt) (x : Entry) (l : List Entry) :
    track R st (x :: l) = (trackStep R st x).bind (fun st' => track R st' l) := by
  simp [track, List.foldlM_cons]
theorem track_append (R : Req) (st : RunSt) (l₁ l₂ : List Entry) :
    track R st (l₁ ++ l₂) = (track R st l₁).bind (fun st' => track R st' l₂) := by
  simp [track, List.foldlM_append]

/-- composition of two tracked segments -/
theorem track_comp {R : Req} {a b d : RunSt} {l₁ l₂ : List Entry}
    (h₁ : track R a l₁ = some b) (h₂ : track R b l₂ = some d) : track R a (l₁ ++ l₂) = some d := by
  rw [track_append, h₁]; exact h₂

/-- a successful replay ends with flag = initial flag OR all requests, version = initial + number of
`optStep`s, scheduler count = initial + number of `schedStep`s -/
theorem trackStep_val {R : Req} {st st1 : RunSt} {x : Entry} (hx : trackStep R st x = some st1) :
    st1.1 = (st.1 || R.at x) ∧ st1.2.1 = st.2.1 + (if x.isOpt then 1 else 0) ∧
    st1.2.2 = st.2.2 + (if x.isSched then 1 else 0) := by
  cases x with
  | call i ev seen v =>
    simp only [trackStep] at hx
    split at hx
    · cases hx; simp [Req.at, Entry.isOpt, Entry.isSched]
    · cases hx
  | ret ev f =>
    simp only [trackStep] at hx
    split at hx
    · cases hx; simp [Req.at, Entry.isOpt, Entry.isSched]
    · cases hx
  | optStep e b => simp only [trackStep] at hx; cases hx; simp [Req.at, Entry.isOpt, Entry.isSched]
  | schedStep e => simp only [trackStep] at hx; cases hx; simp [Req.at, Entry.isOpt, Entry.isSched]
  | emit ev => simp only [trackStep] at hx; cases hx; simp [Req.at, Entry.isOpt, Entry.isSched]
  | print m => simp only [trackStep] at hx; cases hx; simp [Req.at, Entry.isOpt, Entry.isSched]
  | shuffle e => simp only [trackStep] at hx; cases hx; simp [Req.at, Entry.isOpt, Entry.isSched]

theorem track_val {R : Req} {l : List Entry} : ∀ {st st' : RunSt}, track R st l = some st' →
    st'.1 = (st.1 || l.any R.at) ∧ st'.2.1 = st.2.1 + l.countP Entry.isOpt ∧
    st'.2.2 = st.2.2 + l.countP Entry.isSched := by
  induction l with
  | nil => intro st st' h; simp at h; subst h; simp
  | cons x l ih =>
    intro st st' h
    rw [track_cons] at h
    cases hx : trackStep R st x with
    | none => simp [hx] at h
    | some st1 =>
      rw [hx] at h
      obtain ⟨h1, h2, h3⟩ := ih (st := st1) (st' := st') h
      obtain ⟨g1, g2, g3⟩ := trackStep_val hx
      refine ⟨?_, ?_, ?_⟩
      · rw [h1, g1]; simp [Bool.or_assoc]
      · rw [h2, g2, List.countP_cons]; omega
      · rw [h3, g3, List.countP_cons]; omega

/-- in a consistent log, what a handler invocation observed is the running flag / version -/
theorem track_call {R : Req} {st st' : RunSt} {pre post : List Entry} {i : Nat} {ev : Event} {seen : Bool} {v : Nat}
    (h : track R st (pre ++ .call i ev seen v :: post) = some st') :
    seen = (st.1 || pre.any R.at) ∧ v = st.2.1 + pre.countP Entry.isOpt := by
  rw [track_append] at h
  cases hp : track R st pre with
  | none => simp [hp] at h
  | some st1 =>
    rw [hp] at h
    simp only [Option.bind_some, track_cons] at h
    obtain ⟨h1, h2, _⟩ := track_val hp
    cases hx : trackStep R st1 (.call i ev seen v) with
    | none => simp [hx] at h
    | some st2 =>
      simp only [trackStep] at hx
      split at hx
      · rename_i hc; rw [← h1, ← h2]; exact hc
      · simp at hx

/-- in a consistent log, the flag `fit` reads after a dispatch is the running flag -/
theorem track_ret {R : Req} {st st' : RunSt} {pre post : List Entry} {ev : Event} {f : Bool}
    (h : track R st (pre ++ .ret ev f :: post) = some st') : f = (st.1 || pre.any R.at) := by
  rw [track_append] at h
  cases hp : track R st pre with
  | none => simp [hp] at h
  | some st1 =>
    rw [hp] at h
    simp only [Option.bind_some, track_cons] at h
    obtain ⟨h1, _, _⟩ := track_val hp
    cases hx : trackStep R st1 (.ret ev f) with
    | none => simp [hx] at h
    | some st2 =>
      simp only [trackStep] at hx
      split at hx
      · rename_i hc; rw [← h1]; exact hc
      · simp at hx

section tracked
variable (c : Cfg) (R : Req)

theorem dispatchCbs_track (ev : Event) (ver sch : Nat) (cbs : List Nat) (stop : Bool) :
    track R (stop, ver, sch) (dispatchCbs R ev ver cbs stop).1 = some ((dispatchCbs R ev ver cbs stop).2, ver, sch) := by
  induction cbs generalizing stop with
  | nil => simp [dispatchCbs]
  | cons i rest ih =>
    simp only [dispatchCbs]
    rw [track_cons]
    simp [trackStep, ih]

theorem timerHandle_track (ev : Event) (s : S) (st : RunSt) :
    track R st (timerHandle ev s).1 = some st := by
  unfold timerHandle
  split <;> (try split) <;> simp [track_cons, trackStep]

theorem timerHandle_key (ev : Event) (s : S) : (timerHandle ev s).2.key = s.key := by
  simp [S.key, timerHandle_state]

theorem dispatch_track (ev : Event) (s : S) :
    track R s.key (dispatch c R ev s).1 = some (dispatch c R ev s).2.key := by
  unfold dispatch
  simp only [track_cons, trackStep, Option.bind_some]
  rw [track_append, track_append]
  simp only [S.key]
  rw [dispatchCbs_track]
  by_cases ht : c.timer
  · simp [ht, timerHandle_track, track_cons, trackStep, timerHandle_state]
  · simp [ht, track_cons, trackStep]

theorem batchStep_track (e : Int) (b : Nat) (s : S) :
    track R s.key (batchStep c R e b s).1 = some (batchStep c R e b s).2.key := by
  unfold batchStep
  refine track_comp (dispatch_track c R _ s) ?_
  rw [track_cons]
  simp only [trackStep, Option.bind_some]
  exact dispatch_track c R (.batchEnd e b)
    { (dispatch c R (.batchStart e b) s).2 with
      stop := (dispatch c R (.batchStart e b) s).2.stop || R.mid e b,
      ver := (dispatch c R (.batchStart e b) s).2.ver + 1 }

theorem batchLoop_track (e : Int) (bs : List Nat) (s : S) :
    track R s.key (batchLoop c R e bs s).1 = some (batchLoop c R e bs s).2.key := by
  induction bs generalizing s with
  | nil => simp [batchLoop]
  | cons b rest ih =>
    cases h : (batchStep c R e b s).2.stop
    · rw [batchLoop_cons_go c R e b rest s h]
      exact track_comp (batchStep_track c R e b s) (ih _)
    · rw [batchLoop_cons_stop c R e b rest s h]; exact batchStep_track c R e b s

theorem schedPhase_track (e : Int) (s : S) :
    track R s.key (schedPhase c e s).1 = some (schedPhase c e s).2.key := by
  unfold schedPhase; split <;> simp [track_cons, trackStep, S.key]

theorem runEpoch_track (e : Int) (s : S) :
    track R s.key (runEpoch c R e s).1 = some (runEpoch c R e s).2.key := by
  unfold runEpoch
  rw [track_cons]
  simp only [trackStep, Option.bind_some]
  exact track_comp (track_comp (track_comp (dispatch_track c R _ s) (batchLoop_track c R e _ _))
    (schedPhase_track c R e _)) (dispatch_track c R _ _)

theorem epochLoop_track (es : List Int) (s : S) :
    track R s.key (epochLoop c R es s).1 = some (epochLoop c R es s).2.key := by
  induction es generalizing s with
  | nil => simp [epochLoop]
  | cons e rest ih =>
    cases h : (runEpoch c R e s).2.stop
    · rw [epochLoop_cons_go c R e rest s h]
      exact track_comp (runEpoch_track c R e s) (ih _)
    · rw [epochLoop_cons_stop c R e rest s h]; exact runEpoch_track c R e s

theorem fit_track (stop₀ : Bool) :
    track R (stop₀, 0, 0) (fit c R stop₀).1 = some (fit c R stop₀).2.key := by
  unfold fit
  cases stop₀
  · exact track_comp (track_comp
      (dispatch_track c R .trainStart { stop := false, notified := false, ver := 0, sched := 0 })
      (epochLoop_track c R _ _)) (dispatch_track c R _ _)
  · simp [S.key]
end tracked

/-! ### nothing starts after an end event at which the flag is set -/

/-- `on_batch_start` / `on_epoch_start` -/
def Event.isStart : Event → Bool
  | .batchStart .. => true
  | .epochStart _ => true
  | _ => false

/-- `on_batch_end` / `on_epoch_end` (the two places where `fit` tests the flag) -/
def Event.isEnd : Event → Bool
  | .batchEnd .. => true
  | .epochEnd _ => true
  | _ => false

/-- relation between an earlier and a later `(event, flag after its dispatch)`: if the earlier one is an
end event that left the flag set, the later one is not a start event -/
def AfterStopOK (x y : Event × Bool) : Prop := x.1.isEnd = true → x.2 = true → y.1.isStart = false

theorem mem_rets_split {l : List Entry} {x : Event × Bool} (h : x ∈ rets l) :
    ∃ pre post, l = pre ++ .ret x.1 x.2 :: post := by
  simp only [rets, List.mem_filterMap] at h
  obtain ⟨a, ha, hx⟩ := h
  cases a <;> simp at hx
  subst hx
  exact List.append_of_mem ha

/-- recorded flags never exceed the final flag (the flag is sticky) -/
theorem rets_flag_le {R : Req} {st st' : RunSt} {l : List Entry} (h : track R st l = some st')
    (x : Event × Bool) (hx : x ∈ rets l) (hf : x.2 = true) : st'.1 = true := by
  obtain ⟨pre, post, hl⟩ := mem_rets_split hx
  subst hl
  have h1 := track_ret h
  have h2 := (track_val h).1
  rw [hf] at h1
  rw [h2]
  simp only [List.any_append, List.any_cons]
  cases hs : st.1 <;> simp [hs] at h1 ⊢
  simp [h1]

section afterstop
variable (c : Cfg) (R : Req)

theorem batchLoop_afterStop (e : Int) (bs : List Nat) (s : S) :
    (rets (batchLoop c R e bs s).1).Pairwise AfterStopOK := by
  induction bs generalizing s with
  | nil => simp [batchLoop]
  | cons b rest ih =>
    cases h : (batchStep c R e b s).2.stop
    · rw [batchLoop_cons_go c R e b rest s h]
      simp only [rets_append, List.pairwise_append]
      simp only [batchStep_stop] at h
      refine ⟨by simp [AfterStopOK, Event.isEnd], ih _, ?_⟩
      intro a ha y _
      simp only [batchStep_rets, List.mem_cons, List.not_mem_nil, or_false] at ha
      rcases ha with rfl | rfl
      · simp [AfterStopOK, Event.isEnd]
      · simp [AfterStopOK, h]
    · rw [batchLoop_cons_stop c R e b rest s h]; simp [AfterStopOK, Event.isEnd]

theorem runEpoch_afterStop (e : Int) (s : S) : (rets (runEpoch c R e s).1).Pairwise AfterStopOK := by
  unfold runEpoch
  simp only [rets_shuffle, rets_append, dispatch_rets, schedPhase_rets, List.append_nil]
  simp only [List.pairwise_append, List.pairwise_cons, List.Pairwise.nil, List.mem_cons,
    List.not_mem_nil, or_false, List.mem_append]
  refine ⟨⟨⟨fun _ h => h.elim, trivial⟩, batchLoop_afterStop c R e _ _, ?_⟩, ⟨fun _ h => h.elim, trivial⟩, ?_⟩
  · intro a ha; subst ha; simp [AfterStopOK, Event.isEnd]
  · intro a _ y hy; subst hy; simp [AfterStopOK, Event.isStart]

theorem epochLoop_afterStop (es : List Int) (s : S) :
    (rets (epochLoop c R es s).1).Pairwise AfterStopOK := by
  induction es generalizing s with
  | nil => simp [epochLoop]
  | cons e rest ih =>
    cases h : (runEpoch c R e s).2.stop
    · rw [epochLoop_cons_go c R e rest s h]
      simp only [rets_append, List.pairwise_append]
      refine ⟨runEpoch_afterStop c R e s, ih _, ?_⟩
      intro a ha y _ _ hf
      have := rets_flag_le (runEpoch_track c R e s) a ha hf
      simp only [S.key] at this
      rw [h] at this
      cases this
    · rw [epochLoop_cons_stop c R e rest s h]; exact runEpoch_afterStop c R e s

theorem fit_afterStop (stop₀ : Bool) : (rets (fit c R stop₀).1).Pairwise AfterStopOK := by
  unfold fit
  cases stop₀
  · simp only [Bool.false_eq_true, if_false, rets_append, dispatch_rets]
    simp only [List.pairwise_append, List.pairwise_cons, List.Pairwise.nil, List.mem_cons,
      List.not_mem_nil, or_false, List.mem_append]
    refine ⟨⟨⟨fun _ h => h.elim, trivial⟩, epochLoop_afterStop c R _ _, ?_⟩, ⟨fun _ h => h.elim, trivial⟩, ?_⟩
    · intro a ha; subst ha; simp [AfterStopOK, Event.isEnd]
    · intro a _ y hy; subst hy; simp [AfterStopOK, Event.isStart]
  · simp
end afterstop

/-! ### the closed form, made convenient -/
section closed
variable (c : Cfg) (R : Req)

/-- number of batches epoch `e` runs when entered with flag `stopIn` -/
def batchesRun (stopIn : Bool) (e : Int) : Nat :=
  min (cut (stopIn || reqEv c R (.epochStart e)) (batchReq c R e) (List.range c.numBatches)) c.numBatches

theorem epochEv_eq (stopIn : Bool) (e : Int) :
    epochEv c R stopIn e =
      .epochStart e :: ((List.range (batchesRun c R stopIn e)).flatMap (pairEv e) ++ [.epochEnd e]) := by
  simp [epochEv, batchesRun, List.take_range]

theorem batchesRun_le (stopIn : Bool) (e : Int) : batchesRun c R stopIn e ≤ c.numBatches := by
  unfold batchesRun; omega

theorem batchesRun_pos (stopIn : Bool) (e : Int) (h : 1 ≤ c.numBatches) : 1 ≤ batchesRun c R stopIn e := by
  unfold batchesRun cut; split <;> omega

theorem batchesRun_of_stop (stopIn : Bool) (e : Int) (h : 1 ≤ c.numBatches)
    (hs : (stopIn || reqEv c R (.epochStart e)) = true) : batchesRun c R stopIn e = 1 := by
  unfold batchesRun cut; rw [hs]; simp; omega

theorem batchesRun_quiet (e : Int) (hs : reqEv c R (.epochStart e) = false)
    (hq : ∀ b, b < c.numBatches → batchReq c R e b = false) : batchesRun c R false e = c.numBatches := by
  unfold batchesRun cut
  have : (List.range c.numBatches).findIdx (batchReq c R e) = c.numBatches := by
    have h0 := List.findIdx_eq_length_of_false (p := batchReq c R e) (xs := List.range c.numBatches)
      (fun x hx => hq x (List.mem_range.mp hx))
    simpa using h0
  simp [hs, this]

theorem batchesRun_first (e : Int) (j : Nat) (hs : reqEv c R (.epochStart e) = false) (hj : j < c.numBatches)
    (hq : ∀ b, b < j → batchReq c R e b = false) (hr : batchReq c R e j = true) :
    batchesRun c R false e = j + 1 := by
  unfold batchesRun cut
  have : (List.range c.numBatches).findIdx (batchReq c R e) = j := by
    rw [List.findIdx_eq (by simpa using hj)]
    constructor
    · simpa using hr
    · intro k hk; simpa using hq k hk
  simp [hs, this]; omega

/-- an epoch without any request (`epochReq = false`) runs all its batches -/
theorem batchesRun_of_not_epochReq (e : Int) (h : epochReq c R e = false) :
    batchesRun c R false e = c.numBatches := by
  simp only [epochReq, Bool.or_eq_false_iff, List.any_eq_false, List.mem_range] at h
  exact batchesRun_quiet c R e h.1.1 (fun b hb => by simpa using h.1.2 b hb)

/-- events of the epoch loop entered with the flag clear -/
def runEpochs (es : List Int) : List Event :=
  (es.take (es.findIdx (epochReq c R) + 1)).flatMap (epochEv c R false)

@[simp] theorem runEpochs_nil : runEpochs c R [] = [] := by simp [runEpochs]

theorem runEpochs_cons (e : Int) (es : List Int) :
    runEpochs c R (e :: es) = epochEv c R false e ++ (if epochReq c R e then [] else runEpochs c R es) := by
  unfold runEpochs
  by_cases h : epochReq c R e = true
  · simp [List.findIdx_cons, h]
  · have h' : epochReq c R e = false := by simpa using h
    simp [List.findIdx_cons, h']

theorem epochRange_rec (a b : Int) :
    epochRange a b = if b < a then [] else a :: epochRange (a + 1) b := by
  unfold epochRange
  split
  · rename_i h
    have : (b + 1 - a).toNat = 0 := by omega
    simp [this]
  · rename_i h
    have : (b + 1 - a).toNat = (b + 1 - (a + 1)).toNat + 1 := by omega
    rw [this, List.range_succ_eq_map]
    simp only [List.map_cons, List.map_map]
    congr 1
    · simp
    · apply List.map_congr_left
      intro k _
      simp only [Function.comp, Nat.succ_eq_add_one]
      omega

theorem epochRange_snoc (a e : Int) (h : a ≤ e) : epochRange a e = epochRange a (e - 1) ++ [e] := by
  unfold epochRange
  have : (e + 1 - a).toNat = (e - 1 + 1 - a).toNat + 1 := by omega
  rw [this, List.range_succ, List.map_append]
  congr 1
  simp only [List.map_cons, List.map_nil, List.cons.injEq, and_true]
  omega

theorem mem_epochRange (a b e : Int) : e ∈ epochRange a b ↔ a ≤ e ∧ e ≤ b := by
  unfold epochRange
  simp only [List.mem_map, List.mem_range]
  constructor
  · rintro ⟨k, hk, rfl⟩; omega
  · intro h; exact ⟨(e - a).toNat, by omega, by omega⟩

theorem fit_events_go (h : reqEv c R .trainStart = false) :
    events (fit c R false).1 = .trainStart :: (runEpochs c R (epochRange c.start c.epochs) ++ [.trainEnd]) := by
  rw [(fit_events c R).1]; simp [h, runEpochs]

theorem fit_events_tsStop (h : reqEv c R .trainStart = true) :
    events (fit c R false).1 =
      .trainStart :: (((epochRange c.start c.epochs).take 1).flatMap (epochEv c R true) ++ [.trainEnd]) := by
  rw [(fit_events c R).1]; simp [h]
end closed

/-! ### the flagged trace lists the same events as the trace -/
section retsfst
variable (c : Cfg) (R : Req)

theorem batchLoop_rets_fst (e : Int) (bs : List Nat) (s : S) :
    (rets (batchLoop c R e bs s).1).map Prod.fst = events (batchLoop c R e bs s).1 := by
  induction bs generalizing s with
  | nil => simp [batchLoop]
  | cons b rest ih =>
    cases h : (batchStep c R e b s).2.stop
    · rw [batchLoop_cons_go c R e b rest s h]; simp [pairEv, ih]
    · rw [batchLoop_cons_stop c R e b rest s h]; simp [pairEv]

theorem runEpoch_rets_fst (e : Int) (s : S) :
    (rets (runEpoch c R e s).1).map Prod.fst = events (runEpoch c R e s).1 := by
  unfold runEpoch; simp [batchLoop_rets_fst]

theorem epochLoop_rets_fst (es : List Int) (s : S) :
    (rets (epochLoop c R es s).1).map Prod.fst = events (epochLoop c R es s).1 := by
  induction es generalizing s with
  | nil => simp [epochLoop]
  | cons e rest ih =>
    cases h : (runEpoch c R e s).2.stop
    · rw [epochLoop_cons_go c R e rest s h]; simp [ih, runEpoch_rets_fst]
    · rw [epochLoop_cons_stop c R e rest s h]; exact runEpoch_rets_fst c R e s

theorem fit_rets_fst (stop₀ : Bool) :
    (rets (fit c R stop₀).1).map Prod.fst = events (fit c R stop₀).1 := by
  unfold fit
  cases stop₀ <;> simp [epochLoop_rets_fst]
end retsfst

/-! ### the `Timer` is transparent: with `time=True` the log is the log without it plus `print` entries -/

/-- a log without the lines the `Timer` prints -/
def noPrint (l : List Entry) : List Entry := l.filter fun | .print _ => false | _ => true

section noprint
variable (l₁ l₂ l : List Entry) (ev : Event) (i : Nat) (f : Bool) (v : Nat) (m : TimerMsg) (e : Int) (b : Nat)
@[simp] theorem noPrint_append : noPrint (l₁ ++ l₂) = noPrint l₁ ++ noPrint l₂ := by simp [noPrint]
@[simp] theorem noPrint_nil : noPrint [] = [] := rfl
@[simp] theorem noPrint_emit : noPrint (.emit ev :: l) = .emit ev :: noPrint l := by simp [noPrint]
@[simp] theorem noPrint_call : noPrint (.call i ev f v :: l) = .call i ev f v :: noPrint l := by simp [noPrint]
@[simp] theorem noPrint_print : noPrint (.print m :: l) = noPrint l := by simp [noPrint]
@[simp] theorem noPrint_ret : noPrint (.ret ev f :: l) = .ret ev f :: noPrint l := by simp [noPrint]
@[simp] theorem noPrint_shuffle : noPrint (.shuffle e :: l) = .shuffle e :: noPrint l := by simp [noPrint]
@[simp] theorem noPrint_opt : noPrint (.optStep e b :: l) = .optStep e b :: noPrint l := by simp [noPrint]
@[simp] theorem noPrint_sched : noPrint (.schedStep e :: l) = .schedStep e :: noPrint l := by simp [noPrint]
end noprint

/-- projections do not see `print` entries -/
theorem noPrint_proj (l : List Entry) :
    events (noPrint l) = events l ∧ calls (noPrint l) = calls l ∧ rets (noPrint l) = rets l ∧
    skeleton (noPrint l) = skeleton l := by
  induction l with
  | nil => simp
  | cons x l ih =>
    obtain ⟨h1, h2, h3, h4⟩ := ih
    cases x <;> simp [h1, h2, h3, h4]

/-- the same configuration with `time=` set to `t` -/
def Cfg.withTimer (c : Cfg) (t : Bool) : Cfg := { c with timer := t }

/-- "equal up to what the Timer adds": same log after dropping printed lines, same flag / version / scheduler count -/
def TimerEq (r r' : List Entry × S) : Prop := noPrint r.1 = r'.1 ∧ r.2.key = r'.2.key

section timer
variable (c : Cfg) (R : Req)

theorem noPrint_dispatchCbs (ev : Event) (ver : Nat) (cbs : List Nat) (stop : Bool) :
    noPrint (dispatchCbs R ev ver cbs stop).1 = (dispatchCbs R ev ver cbs stop).1 := by
  induction cbs generalizing stop with
  | nil => simp [dispatchCbs]
  | cons i rest ih => simp [dispatchCbs, ih]

theorem noPrint_timerHandle (ev : Event) (s : S) : noPrint (timerHandle ev s).1 = [] := by
  unfold timerHandle
  split <;> (try split) <;> simp

theorem key_eq {s s' : S} (h : s.key = s'.key) : s.stop = s'.stop ∧ s.ver = s'.ver ∧ s.sched = s'.sched := by
  simp only [S.key, Prod.mk.injEq] at h
  exact h

theorem dispatch_timerEq (ev : Event) {s s' : S} (h : s.key = s'.key) :
    TimerEq (dispatch (c.withTimer true) R ev s) (dispatch (c.withTimer false) R ev s') := by
  obtain ⟨h1, h2, h3⟩ := key_eq h
  unfold TimerEq dispatch Cfg.withTimer
  simp only [if_true, Bool.false_eq_true, if_false, noPrint_emit, noPrint_append, noPrint_dispatchCbs,
    noPrint_timerHandle, noPrint_ret, noPrint_nil, List.append_nil, timerHandle_state, S.key, h1, h2, h3]
  exact ⟨trivial, trivial⟩

theorem batchStep_timerEq (e : Int) (b : Nat) {s s' : S} (h : s.key = s'.key) :
    TimerEq (batchStep (c.withTimer true) R e b s) (batchStep (c.withTimer false) R e b s') := by
  unfold batchStep
  obtain ⟨g1, g2⟩ := dispatch_timerEq c R (.batchStart e b) h
  obtain ⟨k1, k2, k3⟩ := key_eq g2
  have h2 : ({ (dispatch (c.withTimer true) R (.batchStart e b) s).2 with
        stop := (dispatch (c.withTimer true) R (.batchStart e b) s).2.stop || R.mid e b,
        ver := (dispatch (c.withTimer true) R (.batchStart e b) s).2.ver + 1 } : S).key =
      ({ (dispatch (c.withTimer false) R (.batchStart e b) s').2 with
        stop := (dispatch (c.withTimer false) R (.batchStart e b) s').2.stop || R.mid e b,
        ver := (dispatch (c.withTimer false) R (.batchStart e b) s').2.ver + 1 } : S).key := by
    simp only [S.key, k1, k2, k3]
  obtain ⟨g3, g4⟩ := dispatch_timerEq c R (.batchEnd e b) h2
  exact ⟨by simp only [noPrint_append, noPrint_opt, g1, g3], g4⟩

theorem batchLoop_timerEq (e : Int) (bs : List Nat) {s s' : S} (h : s.key = s'.key) :
    TimerEq (batchLoop (c.withTimer true) R e bs s) (batchLoop (c.withTimer false) R e bs s') := by
  induction bs generalizing s s' with
  | nil => exact ⟨by simp [batchLoop], by simpa [batchLoop] using h⟩
  | cons b rest ih =>
    obtain ⟨g1, g2⟩ := batchStep_timerEq c R e b h
    have hs := (key_eq g2).1
    cases hstop : (batchStep (c.withTimer false) R e b s').2.stop
    · rw [batchLoop_cons_go _ R e b rest s (by rw [hs, hstop]), batchLoop_cons_go _ R e b rest s' hstop]
      obtain ⟨g3, g4⟩ := ih g2
      exact ⟨by simp only [noPrint_append, g1, g3], g4⟩
    · rw [batchLoop_cons_stop _ R e b rest s (by rw [hs, hstop]), batchLoop_cons_stop _ R e b rest s' hstop]
      exact ⟨g1, g2⟩

theorem schedPhase_timerEq (e : Int) {s s' : S} (h : s.key = s'.key) :
    TimerEq (schedPhase (c.withTimer true) e s) (schedPhase (c.withTimer false) e s') := by
  obtain ⟨h1, h2, h3⟩ := key_eq h
  unfold TimerEq schedPhase Cfg.withTimer
  split <;> simp [S.key, h1, h2, h3]

theorem runEpoch_timerEq (e : Int) {s s' : S} (h : s.key = s'.key) :
    TimerEq (runEpoch (c.withTimer true) R e s) (runEpoch (c.withTimer false) R e s') := by
  unfold runEpoch
  obtain ⟨a1, a2⟩ := dispatch_timerEq c R (.epochStart e) h
  obtain ⟨b1, b2⟩ := batchLoop_timerEq c R e (List.range c.numBatches) a2
  obtain ⟨c1, c2⟩ := schedPhase_timerEq c e b2
  obtain ⟨d1, d2⟩ := dispatch_timerEq c R (.epochEnd e) c2
  exact ⟨by simp only [noPrint_shuffle, noPrint_append, a1]; simp only [Cfg.withTimer] at *; rw [b1, c1, d1], d2⟩

theorem epochLoop_timerEq (es : List Int) {s s' : S} (h : s.key = s'.key) :
    TimerEq (epochLoop (c.withTimer true) R es s) (epochLoop (c.withTimer false) R es s') := by
  induction es generalizing s s' with
  | nil => exact ⟨by simp [epochLoop], by simpa [epochLoop] using h⟩
  | cons e rest ih =>
    obtain ⟨g1, g2⟩ := runEpoch_timerEq c R e h
    have hs := (key_eq g2).1
    cases hstop : (runEpoch (c.withTimer false) R e s').2.stop
    · rw [epochLoop_cons_go _ R e rest s (by rw [hs, hstop]), epochLoop_cons_go _ R e rest s' hstop]
      obtain ⟨g3, g4⟩ := ih g2
      exact ⟨by simp only [noPrint_append, g1, g3], g4⟩
    · rw [epochLoop_cons_stop _ R e rest s (by rw [hs, hstop]), epochLoop_cons_stop _ R e rest s' hstop]
      exact ⟨g1, g2⟩

theorem fit_timerEq (stop₀ : Bool) :
    TimerEq (fit (c.withTimer true) R stop₀) (fit (c.withTimer false) R stop₀) := by
  cases stop₀
  · unfold fit
    simp only [Bool.false_eq_true, if_false]
    obtain ⟨a1, a2⟩ := dispatch_timerEq c R .trainStart
      (s := { stop := false, notified := false, ver := 0, sched := 0 })
      (s' := { stop := false, notified := false, ver := 0, sched := 0 }) rfl
    obtain ⟨b1, b2⟩ := epochLoop_timerEq c R (epochRange c.start c.epochs) a2
    obtain ⟨c1, c2⟩ := dispatch_timerEq c R .trainEnd b2
    exact ⟨by simp only [noPrint_append, a1]; simp only [Cfg.withTimer] at *; rw [b1, c1], c2⟩
  · simp only [fit_stopped]; exact ⟨rfl, rfl⟩

/-- without the Timer nothing is printed -/
theorem prints_noPrint (l : List Entry) : prints (noPrint l) = [] := by
  induction l with
  | nil => rfl
  | cons x l ih => cases x <;> simp [ih]
end timer

/-! ### the first handler invocation that raises -/

theorem cutAtRaise_some {X : Nat → Event → Option PyErr} :
    ∀ {l pre : List Entry} {e : PyErr}, cutAtRaise X l = some (pre, e) →
      ∃ pre' i ev seen ver post, pre = pre' ++ [Entry.call i ev seen ver] ∧ l = pre ++ post ∧ X i ev = some e ∧
        (∀ p ∈ calls pre', X p.1 p.2 = none) := by
  intro l
  induction l with
  | nil => intro pre e h; simp [cutAtRaise] at h
  | cons x l ih =>
    intro pre e h
    have other : ∀ (y : Entry), calls [y] = [] → (cutAtRaise X l).map (fun p => (y :: p.1, p.2)) = some (pre, e) →
        ∃ pre' i ev seen ver post, pre = pre' ++ [Entry.call i ev seen ver] ∧ y :: l = pre ++ post ∧ X i ev = some e ∧
          (∀ p ∈ calls pre', X p.1 p.2 = none) := by
      intro y hy hm
      cases hc : cutAtRaise X l with
      | none => simp [hc] at hm
      | some q =>
        obtain ⟨q1, q2⟩ := q
        simp only [hc, Option.map_some, Option.some.injEq, Prod.mk.injEq] at hm
        obtain ⟨pre', i, ev, seen, ver, post, e1, e2, e3, e4⟩ := ih hc
        refine ⟨y :: pre', i, ev, seen, ver, post, ?_, ?_, ?_, ?_⟩
        · rw [← hm.1, e1]; rfl
        · rw [← hm.1, e2]; rfl
        · rw [← hm.2]; exact e3
        · intro p hp
          rw [calls_cons, hy] at hp
          exact e4 p hp
    cases x with
    | call i ev seen ver =>
      simp only [cutAtRaise] at h
      cases hx : X i ev with
      | some e' =>
        simp only [hx, Option.some.injEq, Prod.mk.injEq] at h
        refine ⟨[], i, ev, seen, ver, l, ?_, ?_, ?_, ?_⟩
        · rw [← h.1]; rfl
        · rw [← h.1]; rfl
        · rw [← h.2]; exact hx
        · intro p hp; simp at hp
      | none =>
        simp only [hx] at h
        cases hc : cutAtRaise X l with
        | none => simp [hc] at h
        | some q =>
          obtain ⟨q1, q2⟩ := q
          simp only [hc, Option.map_some, Option.some.injEq, Prod.mk.injEq] at h
          obtain ⟨pre', i', ev', seen', ver', post, e1, e2, e3, e4⟩ := ih hc
          refine ⟨.call i ev seen ver :: pre', i', ev', seen', ver', post, ?_, ?_, ?_, ?_⟩
          · rw [← h.1, e1]; rfl
          · rw [← h.1, e2]; rfl
          · rw [← h.2]; exact e3
          · intro p hp
            simp only [calls_call, List.mem_cons] at hp
            rcases hp with rfl | hp
            · exact hx
            · exact e4 p hp
    | emit ev => exact other _ rfl (by simpa [cutAtRaise] using h)
    | print m => exact other _ rfl (by simpa [cutAtRaise] using h)
    | ret ev f => exact other _ rfl (by simpa [cutAtRaise] using h)
    | shuffle e' => exact other _ rfl (by simpa [cutAtRaise] using h)
    | optStep e' b => exact other _ rfl (by simpa [cutAtRaise] using h)
    | schedStep e' => exact other _ rfl (by simpa [cutAtRaise] using h)

theorem cutAtRaise_none {X : Nat → Event → Option PyErr} :
    ∀ {l : List Entry}, (∀ p ∈ calls l, X p.1 p.2 = none) → cutAtRaise X l = none := by
  intro l
  induction l with
  | nil => intro _; rfl
  | cons x l ih =>
    intro h
    have hl : cutAtRaise X l = none := ih (fun p hp => h p (by rw [calls_cons]; exact List.mem_append_right _ hp))
    cases x with
    | call i ev seen ver =>
      have := h (i, ev) (by simp)
      simp only at this
      simp [cutAtRaise, this, hl]
    | emit ev => simp [cutAtRaise, hl]
    | print m => simp [cutAtRaise, hl]
    | ret ev f => simp [cutAtRaise, hl]
    | shuffle e' => simp [cutAtRaise, hl]
    | optStep e' b => simp [cutAtRaise, hl]
    | schedStep e' => simp [cutAtRaise, hl]

/-! ### `CallbackList` container operations as plain list surgery -/

theorem insertIdx_take_drop {α : Type} (x : α) : ∀ (l : List α) (i : Nat), i ≤ l.length →
    l.insertIdx i x = l.take i ++ x :: l.drop i := by
  intro l
  induction l with
  | nil => intro i h; have : i = 0 := by simpa using h
           subst this; rfl
  | cons a l ih =>
    intro i h
    cases i with
    | zero => rfl
    | succ i =>
      rw [List.insertIdx_succ_cons, ih i (by simpa using h)]
      rfl

theorem pyIdx_some {n : Nat} {k : Int} {j : Nat} (h : pyIdx n k = some j) :
    j < n ∧ (j : Int) = (if k < 0 then k + n else k) := by
  unfold pyIdx at h
  by_cases hk : k < 0
  · simp only [hk, if_true] at h ⊢
    by_cases h1 : k + (n : Int) < 0
    · simp [h1] at h
    · by_cases h2 : (k + (n : Int)).toNat < n
      · simp only [h1, if_false, h2, if_true, Option.some.injEq] at h
        subst h; exact ⟨h2, by omega⟩
      · simp [h1, h2] at h
  · simp only [hk, if_false] at h ⊢
    by_cases h2 : k.toNat < n
    · simp only [h2, if_true, Option.some.injEq] at h
      subst h; exact ⟨h2, by omega⟩
    · simp [h2] at h

theorem pyIdx_none {n : Nat} {k : Int} (h : pyIdx n k = none) : k < -(n : Int) ∨ (n : Int) ≤ k := by
  unfold pyIdx at h
  by_cases hk : k < 0
  · simp only [hk, if_true] at h
    by_cases h1 : k + (n : Int) < 0
    · left; omega
    · by_cases h2 : (k + (n : Int)).toNat < n
      · simp [h1, h2] at h
      · omega
  · simp only [hk, if_false] at h
    by_cases h2 : k.toNat < n
    · simp [h2] at h
    · right; omega

theorem insIdx_le (n : Nat) (k : Int) : insIdx n k ≤ n := by
  unfold insIdx
  by_cases hk : k < 0 <;> simp only [hk, if_true, if_false] <;> (try split) <;> omega

/-! ### what the `Timer` prints -/

/-- an end event (`on_batch_end` / `on_epoch_end`) after whose user callbacks the flag is set -/
def endSet (x : Event × Bool) : Bool := x.1.isEnd && x.2

/-- the line the Timer prints when it first sees the flag set at this event -/
def timerLine : Event → List TimerMsg
  | .batchEnd e b => [.terminatedBatch e b]
  | .epochEnd e => [.terminatedEpoch e]
  | _ => []

/-- the "Training terminated" line of a flagged trace: at its first end event with the flag set -/
def firstMsg (r : List (Event × Bool)) : List TimerMsg :=
  match r.find? endSet with
  | some x => timerLine x.1
  | none => []

theorem firstMsg_append (r1 r2 : List (Event × Bool)) :
    firstMsg (r1 ++ r2) = if r1.any endSet then firstMsg r1 else firstMsg r2 := by
  unfold firstMsg
  rw [List.find?_append]
  cases h : r1.find? endSet with
  | some x =>
    have : r1.any endSet = true := by
      rw [List.any_eq_true]
      exact ⟨x, List.mem_of_find?_eq_some h, List.find?_some h⟩
    simp [this]
  | none =>
    have : r1.any endSet = false := by
      rw [List.any_eq_false]
      intro x hx
      have := List.find?_eq_none.mp h x hx
      simpa using this
    simp [this]

theorem firstMsg_of_not_any {r : List (Event × Bool)} (h : r.any endSet = false) : firstMsg r = [] := by
  unfold firstMsg
  have : r.find? endSet = none := by
    rw [List.find?_eq_none]
    intro x hx
    rw [List.any_eq_false] at h
    simpa using h x hx
  rw [this]

/-- a log segment run from a state with `already_notified = n` to one with `n'` behaves like the Timer: it prints
the terminated-line of its first flagged end event unless already notified -/
def TimerSeg (l : List Entry) (n n' : Bool) : Prop :=
  prints l = (if n then [] else firstMsg (rets l)) ∧ n' = (n || (rets l).any endSet)

theorem TimerSeg.append {l1 l2 : List Entry} {n n1 n2 : Bool} (h1 : TimerSeg l1 n n1) (h2 : TimerSeg l2 n1 n2) :
    TimerSeg (l1 ++ l2) n n2 := by
  obtain ⟨a1, a2⟩ := h1
  obtain ⟨b1, b2⟩ := h2
  refine ⟨?_, ?_⟩
  · rw [prints_append, rets_append, a1, b1, a2, firstMsg_append]
    cases n <;> cases h : (rets l1).any endSet <;> simp [firstMsg_of_not_any, h]
  · rw [rets_append, List.any_append, b2, a2, Bool.or_assoc]

theorem TimerSeg.nil (n : Bool) : TimerSeg [] n n := by simp [TimerSeg, firstMsg]

theorem TimerSeg.silent {l : List Entry} (n : Bool) (hp : prints l = []) (hr : rets l = []) : TimerSeg l n n := by
  simp [TimerSeg, hp, hr, firstMsg]

section timerprints
variable (c : Cfg) (R : Req)

theorem dispatch_timerSeg (ev : Event) (s : S) (hev : ev ≠ .trainEnd) :
    TimerSeg (dispatch (c.withTimer true) R ev s).1 s.notified (dispatch (c.withTimer true) R ev s).2.notified := by
  unfold TimerSeg
  rw [dispatch_rets]
  unfold dispatch Cfg.withTimer
  simp only [if_true, prints_emit, prints_append, (dispatchCbs_proj R ev s.ver c.cbs s.stop).2.2.2.1, List.nil_append,
    dispatchCbs_stop, reqEv]
  cases ev with
  | trainEnd => exact absurd rfl hev
  | batchEnd e b =>
    cases hn : s.notified <;> cases hs : (s.stop || c.cbs.any fun i => R.cb i (.batchEnd e b)) <;>
      simp [timerHandle, firstMsg, endSet, Event.isEnd, timerLine, *]
  | epochEnd e =>
    cases hn : s.notified <;> cases hs : (s.stop || c.cbs.any fun i => R.cb i (.epochEnd e)) <;>
      simp [timerHandle, firstMsg, endSet, Event.isEnd, timerLine, *]
  | trainStart => cases hn : s.notified <;> simp [timerHandle, firstMsg, endSet, Event.isEnd]
  | epochStart e => cases hn : s.notified <;> simp [timerHandle, firstMsg, endSet, Event.isEnd]
  | batchStart e b => cases hn : s.notified <;> simp [timerHandle, firstMsg, endSet, Event.isEnd]

theorem batchStep_timerSeg (e : Int) (b : Nat) (s : S) :
    TimerSeg (batchStep (c.withTimer true) R e b s).1 s.notified (batchStep (c.withTimer true) R e b s).2.notified := by
  unfold batchStep
  have h1 := dispatch_timerSeg c R (.batchStart e b) s (by simp)
  have h2 := dispatch_timerSeg c R (.batchEnd e b)
    { (dispatch (c.withTimer true) R (.batchStart e b) s).2 with
      stop := (dispatch (c.withTimer true) R (.batchStart e b) s).2.stop || R.mid e b,
      ver := (dispatch (c.withTimer true) R (.batchStart e b) s).2.ver + 1 } (by simp)
  have h3 : TimerSeg [Entry.optStep e b] (dispatch (c.withTimer true) R (.batchStart e b) s).2.notified
      (dispatch (c.withTimer true) R (.batchStart e b) s).2.notified := TimerSeg.silent _ rfl rfl
  have := (h1.append h3).append h2
  simpa [List.append_assoc] using this

theorem batchLoop_timerSeg (e : Int) (bs : List Nat) (s : S) :
    TimerSeg (batchLoop (c.withTimer true) R e bs s).1 s.notified (batchLoop (c.withTimer true) R e bs s).2.notified := by
  induction bs generalizing s with
  | nil => simpa [batchLoop] using TimerSeg.nil s.notified
  | cons b rest ih =>
    cases h : (batchStep (c.withTimer true) R e b s).2.stop
    · rw [batchLoop_cons_go _ R e b rest s h]
      exact (batchStep_timerSeg c R e b s).append (ih _)
    · rw [batchLoop_cons_stop _ R e b rest s h]; exact batchStep_timerSeg c R e b s

theorem schedPhase_timerSeg (e : Int) (s : S) :
    TimerSeg (schedPhase (c.withTimer true) e s).1 s.notified (schedPhase (c.withTimer true) e s).2.notified := by
  unfold schedPhase
  split
  · exact TimerSeg.silent _ rfl rfl
  · exact TimerSeg.nil _

theorem runEpoch_timerSeg (e : Int) (s : S) :
    TimerSeg (runEpoch (c.withTimer true) R e s).1 s.notified (runEpoch (c.withTimer true) R e s).2.notified := by
  unfold runEpoch
  have h0 : TimerSeg [Entry.shuffle e] s.notified s.notified := TimerSeg.silent _ rfl rfl
  have h1 := dispatch_timerSeg c R (.epochStart e) s (by simp)
  have h2 := batchLoop_timerSeg c R e (List.range (c.withTimer true).numBatches) (dispatch (c.withTimer true) R (.epochStart e) s).2
  have h3 := schedPhase_timerSeg c e (batchLoop (c.withTimer true) R e (List.range (c.withTimer true).numBatches)
    (dispatch (c.withTimer true) R (.epochStart e) s).2).2
  have h4 := dispatch_timerSeg c R (.epochEnd e) (schedPhase (c.withTimer true) e (batchLoop (c.withTimer true) R e
    (List.range (c.withTimer true).numBatches) (dispatch (c.withTimer true) R (.epochStart e) s).2).2).2 (by simp)
  have := (((h0.append h1).append h2).append h3).append h4
  simpa [List.append_assoc] using this

theorem epochLoop_timerSeg (es : List Int) (s : S) :
    TimerSeg (epochLoop (c.withTimer true) R es s).1 s.notified (epochLoop (c.withTimer true) R es s).2.notified := by
  induction es generalizing s with
  | nil => simpa [epochLoop] using TimerSeg.nil s.notified
  | cons e rest ih =>
    cases h : (runEpoch (c.withTimer true) R e s).2.stop
    · rw [epochLoop_cons_go _ R e rest s h]
      exact (runEpoch_timerSeg c R e s).append (ih _)
    · rw [epochLoop_cons_stop _ R e rest s h]; exact runEpoch_timerSeg c R e s

theorem dispatch_trainEnd_prints (s : S) :
    prints (dispatch (c.withTimer true) R .trainEnd s).1 = [.total] := by
  unfold dispatch Cfg.withTimer
  simp [timerHandle, (dispatchCbs_proj R .trainEnd s.ver c.cbs s.stop).2.2.2.1]

/-- what the Timer prints in a run that was not silent: the terminated-line of the first end event (before train-end) after
whose user callbacks the flag is set, then the elapsed-time line -/
theorem fit_prints :
    ∃ pre, rets (fit (c.withTimer true) R false).1 = pre ++ [(.trainEnd, (fit (c.withTimer true) R false).2.stop)] ∧
      prints (fit (c.withTimer true) R false).1 = firstMsg pre ++ [.total] := by
  have key : ∀ (A : List Entry) (sE : S), prints A = firstMsg (rets A) →
      ∃ pre, rets (A ++ (dispatch (c.withTimer true) R .trainEnd sE).1) =
          pre ++ [(.trainEnd, (dispatch (c.withTimer true) R .trainEnd sE).2.stop)] ∧
        prints (A ++ (dispatch (c.withTimer true) R .trainEnd sE).1) = firstMsg pre ++ [.total] := by
    intro A sE hA
    refine ⟨rets A, ?_, ?_⟩
    · rw [rets_append, dispatch_rets, dispatch_stop]
    · rw [prints_append, hA, dispatch_trainEnd_prints]
  unfold fit
  simp only [Bool.false_eq_true, if_false]
  have h1 := dispatch_timerSeg c R .trainStart { stop := false, notified := false, ver := 0, sched := 0 } (by simp)
  have h2 := epochLoop_timerSeg c R (epochRange (c.withTimer true).start (c.withTimer true).epochs)
    (dispatch (c.withTimer true) R .trainStart { stop := false, notified := false, ver := 0, sched := 0 }).2
  obtain ⟨p1, _⟩ := h1.append h2
  exact key _ _ (by simpa using p1)
end timerprints

/-! ### every handler invocation is for the event emitted last -/

/-- the event being dispatched after the log `l` (the last one emitted), `cur` if none was emitted in `l` -/
def curAfter (cur : Option Event) : List Entry → Option Event
  | [] => cur
  | .emit ev :: l => curAfter (some ev) l
  | _ :: l => curAfter cur l

/-- every handler invocation in `l` is for the event emitted last before it -/
def callsOK (cur : Option Event) : List Entry → Bool
  | [] => true
  | .emit ev :: l => callsOK (some ev) l
  | .call _ ev _ _ :: l => (cur == some ev) && callsOK cur l
  | _ :: l => callsOK cur l

theorem curAfter_append (cur : Option Event) (l₁ l₂ : List Entry) :
    curAfter cur (l₁ ++ l₂) = curAfter (curAfter cur l₁) l₂ := by
  induction l₁ generalizing cur with
  | nil => rfl
  | cons x l ih => cases x <;> simp [curAfter, ih]

theorem callsOK_append (cur : Option Event) (l₁ l₂ : List Entry) :
    callsOK cur (l₁ ++ l₂) = (callsOK cur l₁ && callsOK (curAfter cur l₁) l₂) := by
  induction l₁ generalizing cur with
  | nil => simp [callsOK, curAfter]
  | cons x l ih => cases x <;> simp [callsOK, curAfter, ih, Bool.and_assoc]

theorem curAfter_none (l : List Entry) (cur : Option Event) :
    curAfter cur l = ((events l).getLast?).or cur := by
  induction l generalizing cur with
  | nil => simp [curAfter]
  | cons x l ih =>
    cases x <;> simp [curAfter, ih]
    rename_i ev
    cases h : (events l).getLast? with
    | none => simp [List.getLast?_eq_none_iff.mp h]
    | some y => 
      have hne : events l ≠ [] := by intro h0; rw [h0] at h; simp at h
      rw [List.getLast?_cons_of_ne_nil hne] <;> simp [h]

section callsok
variable (c : Cfg) (R : Req)

theorem dispatchCbs_callsOK (ev : Event) (ver : Nat) (cbs : List Nat) (stop : Bool) :
    callsOK (some ev) (dispatchCbs R ev ver cbs stop).1 = true ∧
    curAfter (some ev) (dispatchCbs R ev ver cbs stop).1 = some ev := by
  induction cbs generalizing stop with
  | nil => simp [dispatchCbs, callsOK, curAfter]
  | cons i rest ih => simp [dispatchCbs, callsOK, curAfter, ih]

theorem timerHandle_callsOK (ev : Event) (s : S) (cur : Option Event) :
    callsOK cur (timerHandle ev s).1 = true ∧ curAfter cur (timerHandle ev s).1 = cur := by
  unfold timerHandle
  split <;> (try split) <;> simp [callsOK, curAfter]

theorem dispatch_callsOK (ev : Event) (s : S) (cur : Option Event) :
    callsOK cur (dispatch c R ev s).1 = true := by
  unfold dispatch
  simp only [callsOK, callsOK_append, (dispatchCbs_callsOK R ev s.ver c.cbs s.stop).1,
    (dispatchCbs_callsOK R ev s.ver c.cbs s.stop).2, Bool.true_and]
  split <;> simp [callsOK, (timerHandle_callsOK _ _ _).1]

theorem batchStep_callsOK (e : Int) (b : Nat) (s : S) (cur : Option Event) :
    callsOK cur (batchStep c R e b s).1 = true := by
  unfold batchStep
  simp [callsOK_append, callsOK, dispatch_callsOK]

theorem batchLoop_callsOK (e : Int) (bs : List Nat) (s : S) (cur : Option Event) :
    callsOK cur (batchLoop c R e bs s).1 = true := by
  induction bs generalizing s cur with
  | nil => simp [batchLoop, callsOK]
  | cons b rest ih =>
    cases h : (batchStep c R e b s).2.stop
    · rw [batchLoop_cons_go c R e b rest s h]; simp [callsOK_append, batchStep_callsOK, ih]
    · rw [batchLoop_cons_stop c R e b rest s h]; exact batchStep_callsOK c R e b s cur

theorem schedPhase_callsOK (e : Int) (s : S) (cur : Option Event) :
    callsOK cur (schedPhase c e s).1 = true := by
  unfold schedPhase; split <;> simp [callsOK]

theorem runEpoch_callsOK (e : Int) (s : S) (cur : Option Event) :
    callsOK cur (runEpoch c R e s).1 = true := by
  unfold runEpoch
  simp [callsOK_append, callsOK, dispatch_callsOK, batchLoop_callsOK, schedPhase_callsOK]

theorem epochLoop_callsOK (es : List Int) (s : S) (cur : Option Event) :
    callsOK cur (epochLoop c R es s).1 = true := by
  induction es generalizing s cur with
  | nil => simp [epochLoop, callsOK]
  | cons e rest ih =>
    cases h : (runEpoch c R e s).2.stop
    · rw [epochLoop_cons_go c R e rest s h]; simp [callsOK_append, runEpoch_callsOK, ih]
    · rw [epochLoop_cons_stop c R e rest s h]; exact runEpoch_callsOK c R e s cur

theorem fit_callsOK (stop₀ : Bool) : callsOK none (fit c R stop₀).1 = true := by
  unfold fit
  cases stop₀ <;> simp [callsOK_append, callsOK, dispatch_callsOK, epochLoop_callsOK]
end callsok

/-- in a log whose invocations are all for the event emitted last, the event of an invocation is the last one emitted before it -/
theorem callsOK_split {cur : Option Event} {pre post : List Entry} {i : Nat} {ev : Event} {seen : Bool} {v : Nat}
    (h : callsOK cur (pre ++ Entry.call i ev seen v :: post) = true) : curAfter cur pre = some ev := by
  rw [callsOK_append] at h
  simp only [callsOK, Bool.and_eq_true, beq_iff_eq] at h
  exact h.2.1


end QV.Train
