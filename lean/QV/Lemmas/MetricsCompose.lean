/-
QV.Lemmas.MetricsCompose — glue lemmas for composing C10 with C04 (dense Kronecker rotations): the two decodings of a real
pair, `basisIndex ∘ row = id`, dictionaries with `Z ↦ 1`, the fast-path operator of an all-`Z` basis, re-indexing by a
permutation of the positions (`space[perm]`).
-/
import QV.Props.C04
import QV.Lemmas.Metrics

namespace QV
namespace C10L
open Finset Metrics QV.Props
variable {n : ℕ}

/-- the two decodings of a real pair agree -/
theorem toC_eq (z : C ℝ) : C10L.toC z = QV.toC z := rfl

/-- `_convert_basis_element_to_index` inverts `generate_hilbert_space` the other way round too -/
theorem basisIndex_row (k : ℕ) (hk : k < 2 ^ n) : basisIndex (row n k) = k := by
  have h1 : (List.finRange n).map (row n k) = maskRow n k := (maskRow_eq_map_spaceBit n k).symm
  unfold basisIndex
  rw [h1, basisIndexL_maskRow, Nat.mod_eq_of_lt hk]


/-- a dictionary whose `Z` entry is the identity: every non-rotated site of every basis carries the identity -/
theorem usOf_Z (d : Char → M2 ℝ) (hZ : m2c (d 'Z') = 1) (b : Basis n) :
    ∀ j, rotOf b j = false → m2c (usOf d b j) = 1 := by
  intro j hj
  have : b.get j = 'Z' := by simpa [rotOf] using hj
  simp only [usOf, this, hZ]


theorem fastK_one (us : Fin n → M2 ℝ) (rot : Fin n → Bool) (h : ∀ j, rot j = false) : fastK us rot = 1 := by
  funext σ τ
  unfold fastK
  simp only [h, Bool.false_eq_true, if_false, Matrix.one_apply]
  by_cases e : σ = τ
  · subst e; simp
  · rw [if_neg e]
    obtain ⟨j, hj⟩ := Function.ne_iff.mp e
    exact Finset.prod_eq_zero (mem_univ j) (by simp [hj])

theorem anyRot_false {b : Basis n} (h : anyRot b = false) : ∀ j, rotOf b j = false := by
  intro j
  have := List.any_eq_false.mp h j (List.mem_finRange j)
  simpa using this


/-- a vector over the first `N` positions re-indexed by a permutation of the positions (`v[perm]`) -/
def reidx {β : Type} (N : ℕ) (π : Equiv.Perm (Fin N)) (v : ℕ → β) : ℕ → β :=
  fun k => if hk : k < N then v (π ⟨k, hk⟩).val else v k

theorem reidx_val {β : Type} (N : ℕ) (π : Equiv.Perm (Fin N)) (v : ℕ → β) (k : Fin N) :
    reidx N π v k.val = v (π k).val := by
  simp [reidx, k.isLt]


end C10L
end QV
