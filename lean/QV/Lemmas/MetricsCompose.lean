/-
QV.Lemmas.MetricsCompose — glue lemmas for composing C10 with C04 (dense Kronecker rotations): the two decodings of a real
pair, `basisIndex ∘ row = id`, dictionaries with `Z ↦ 1`, the fast-path operator of an all-`Z` basis, re-indexing by a
permutation of the positions (`space[perm]`).
-/
import QV.Props.C04
import QV.Lemmas.Metrics

namespace QV
namespace C10L
open Finset Metrics QV.Props
variable {n : ℕ}

/-- the two decodings of a real pair agree -/
theorem toC_eq (z : C ℝ) : C10L.toC z = QV.toC z := rfl

/-- `_convert_basis_element_to_index` inverts `generate_hilbert_space` the other way round too -/
theorem basisIndex_row (k : ℕ) (hk : k < 2 ^ n) : basisIndex (row n k) = k := by
  have h1 : (List.finRange n).map (row n k) = maskRow n k := (maskRow_eq_map_spaceBit n k).symm
  unfold basisIndex
  rw [h1, basisIndexL_maskRow, Nat.mod_eq_of_lt hk]


/-- a dictionary whose `Z` entry is the identity: every non-rotated site of every basis carries the identity -/
theorem usOf_Z (d : Char → M2 ℝ) (hZ : m2c (d 'Z') = 1) (b : Basis n) :
    ∀ j, rotOf b j = false → m2c (usOf d b j) = 1 := by
  intro j hj
  have : b.get j = 'Z' := by simpa [rotOf] using hj
  simp only [usOf, this, hZ]


theorem fastK_one (us : Fin n → M2 ℝ) (rot : Fin n → Bool) (h : ∀ j, rot j = false) : fastK us rot = 1 := by
  funext σ τ
  unfold fastK
  simp only [h, Bool.false_eq_true, if_false, Matrix.one_apply]
  by_cases e : σ = τ
  · subst e; simp
  · rw [if_neg e]
    obtain ⟨j, hj⟩ := Function.ne_iff.mp e
    exact Finset.prod_eq_zero (mem_univ j) (by simp [hj])

theorem anyRot_false {b : Basis n} (h : anyRot b = false) : ∀ j, rotOf b j = false := by
  intro j
  have := List.any_eq_false.mp h j (List.mem_finRange j)
  simpa using this


/-! ### dictionaries given as Python association lists (`Metrics.dictFn`, `Metrics.userDict`) -/

/-- a lookup either finds the FIRST entry with that key, or there is no such key and the fallback `dZ` is read -/
theorem dictFn_cases (d : Unitaries.UDict ℝ) (c : Char) :
    (∃ e ∈ d, e.1 = c ∧ dictFn d c = e.2) ∨ ((∀ e ∈ d, e.1 ≠ c) ∧ dictFn d c = Unitaries.dZ) := by
  induction d with
  | nil => right; exact ⟨by simp, rfl⟩
  | cons e d ih =>
    obtain ⟨k, v⟩ := e
    by_cases h : c = k
    · left
      refine ⟨(k, v), by simp, h.symm, ?_⟩
      simp [dictFn, h]
    · have hb : (c == k) = false := by simpa using h
      have hstep : dictFn ((k, v) :: d) c = dictFn d c := by
        simp only [dictFn, List.lookup_cons, hb]
      rcases ih with ⟨e', he', h1, h2⟩ | ⟨h1, h2⟩
      · left; exact ⟨e', by simp [he'], h1, by rw [hstep, h2]⟩
      · right
        refine ⟨?_, by rw [hstep, h2]⟩
        intro e' he'
        rcases List.mem_cons.mp he' with rfl | he'
        · exact fun hk => h hk.symm
        · exact h1 e' he'

theorem dictFn_of_lookup (d : Unitaries.UDict ℝ) (c : Char) (m : M2 ℝ) (h : d.lookup c = some m) : dictFn d c = m := by
  simp [dictFn, h]

theorem lookup_append_none {β : Type} (xs ys : List (Char × β)) (c : Char) (h : xs.lookup c = none) :
    (xs ++ ys).lookup c = ys.lookup c := by
  induction xs with
  | nil => rfl
  | cons e xs ih =>
    obtain ⟨k, v⟩ := e
    simp only [List.cons_append, List.lookup_cons] at h ⊢
    cases hb : (c == k) with
    | true => simp [hb] at h
    | false => simp only [hb] at h ⊢; exact ih h

theorem lookup_append_some {β : Type} (xs ys : List (Char × β)) (c : Char) (m : β) (h : xs.lookup c = some m) :
    (xs ++ ys).lookup c = some m := by
  induction xs with
  | nil => simp at h
  | cons e xs ih =>
    obtain ⟨k, v⟩ := e
    simp only [List.cons_append, List.lookup_cons] at h ⊢
    cases hb : (c == k) with
    | true => simpa [hb] using h
    | false => simp only [hb] at h ⊢; exact ih h


section exkw
open Matrix
/-- a Hadamard-extended dictionary with an S-type letter and an OVERRIDDEN `Y`:
`create_dict(H = [[1,1],[1,-1]]/√2, S = diag(1, i), Y = [[0,1],[1,0]])` -/
noncomputable def exKw : Unitaries.UDict ℝ :=
  [('H', Unitaries.dX), ('S', fun r c => (if r == c then (if r then (0, 1) else (1, 0)) else (0, 0))),
   ('Y', fun r c => ((if r == c then 0 else 1), 0))]

theorem exKw_unitary : ∀ e ∈ exKw, (m2c e.2)ᴴ * m2c e.2 = 1 := by
  intro e he
  simp only [exKw, List.mem_cons, List.not_mem_nil, or_false] at he
  rcases he with rfl | rfl | rfl
  · exact C04_dX_unitary
  · funext r c
    cases r <;> cases c <;>
      simp [m2c, Matrix.mul_apply, Matrix.conjTranspose_apply, Complex.ext_iff, QV.toC]
  · funext r c
    cases r <;> cases c <;>
      simp [m2c, Matrix.mul_apply, Matrix.conjTranspose_apply, Complex.ext_iff, QV.toC]

theorem exKw_Z : ∀ e ∈ exKw, e.1 = 'Z' → m2c e.2 = 1 := by
  intro e he hz
  simp only [exKw, List.mem_cons, List.not_mem_nil, or_false] at he
  rcases he with rfl | rfl | rfl <;> simp at hz

end exkw

/-- a vector over the first `N` positions re-indexed by a permutation of the positions (`v[perm]`) -/
def reidx {β : Type} (N : ℕ) (π : Equiv.Perm (Fin N)) (v : ℕ → β) : ℕ → β :=
  fun k => if hk : k < N then v (π ⟨k, hk⟩).val else v k

theorem reidx_val {β : Type} (N : ℕ) (π : Equiv.Perm (Fin N)) (v : ℕ → β) (k : Fin N) :
    reidx N π v k.val = v (π k).val := by
  simp [reidx, k.isLt]


end C10L
end QV
