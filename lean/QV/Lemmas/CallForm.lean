/-
Lemmas about `QV.Model.CallForm` (Python's argument binding): a positional prefix in signature order means the same as
the same values given by keyword; the binding gives every parameter the keyword of its name, else its default.
-/
import QV.Model.CallForm

namespace QV.CallForm
open QV

variable {V : Type}

theorem kwLookup_append (a b : List (String × V)) (p : String) :
    kwLookup (a ++ b) p = match kwLookup a p with | some v => some v | none => kwLookup b p := by
  induction a with
  | nil => rfl
  | cons e a ih =>
    obtain ⟨q, v⟩ := e
    simp only [List.cons_append, kwLookup]
    by_cases h : q = p
    · simp [h]
    · simp [h, ih]

theorem kwLookup_eq_none_of_not_mem (r : List (String × V)) (p : String) (h : p ∉ r.map Prod.fst) :
    kwLookup r p = none := by
  induction r with
  | nil => rfl
  | cons e r ih =>
    obtain ⟨q, v⟩ := e
    simp only [List.map_cons, List.mem_cons, not_or] at h
    simp only [kwLookup]
    rw [if_neg (fun hq => h.1 hq.symm)]
    exact ih h.2

/-- a list with distinct names gives every listed pair back -/
theorem kwLookup_of_mem (r : List (String × V)) (hr : (r.map Prod.fst).Nodup) (p : String) (v : V) (h : (p, v) ∈ r) :
    kwLookup r p = some v := by
  induction r with
  | nil => cases h
  | cons e r ih =>
    obtain ⟨q, w⟩ := e
    simp only [List.map_cons, List.nodup_cons] at hr
    simp only [kwLookup]
    rcases List.mem_cons.1 h with heq | hmem
    · cases heq; simp
    · have hp : p ∈ r.map Prod.fst := List.mem_map.2 ⟨(p, v), hmem, rfl⟩
      have hne : q ≠ p := fun hq => hr.1 (hq ▸ hp)
      rw [if_neg hne]
      exact ih hr.2 hmem

theorem zip_names_nodup (ps : List String) (vs : List V) (hps : ps.Nodup) : ((ps.zip vs).map Prod.fst).Nodup := by
  induction ps generalizing vs with
  | nil => simp
  | cons p ps ih =>
    cases vs with
    | nil => simp
    | cons v vs =>
      simp only [List.nodup_cons] at hps
      simp only [List.zip_cons_cons, List.map_cons, List.nodup_cons]
      refine ⟨fun hmem => ?_, ih vs hps.2⟩
      obtain ⟨⟨q, w⟩, hq, rfl⟩ := List.mem_map.1 hmem
      exact hps.1 (List.of_mem_zip hq).1

theorem kwLookup_zip_of_mem (ps : List String) (vs : List V) (hps : ps.Nodup) (p : String) (v : V)
    (h : (p, v) ∈ ps.zip vs) : kwLookup (ps.zip vs) p = some v :=
  kwLookup_of_mem _ (zip_names_nodup ps vs hps) p v h

theorem kwLookup_zip_of_not_mem (ps : List String) (vs : List V) (p : String) (h : p ∉ ps) :
    kwLookup (ps.zip vs) p = none := by
  apply kwLookup_eq_none_of_not_mem
  intro hmem
  obtain ⟨⟨q, w⟩, hq, rfl⟩ := List.mem_map.1 hmem
  exact h (List.of_mem_zip hq).1

/-- binding depends on the keyword list only through the values it gives to the parameters -/
theorem bindParams_congr (dflt : String → Option V) (kw kw' : List (String × V)) (ps : List String) (vs : List V)
    (h : ∀ p ∈ ps, kwLookup kw p = kwLookup kw' p) : bindParams dflt kw ps vs = bindParams dflt kw' ps vs := by
  induction ps generalizing vs with
  | nil => cases vs <;> rfl
  | cons p ps ih =>
    have hp := h p (List.mem_cons_self ..)
    have ih' := fun vs => ih vs (fun q hq => h q (List.mem_cons_of_mem _ hq))
    cases vs with
    | nil => simp only [bindParams, kwOrDefault, hp, ih']
    | cons v vs => simp only [bindParams, hp, ih']

/-- positional arguments `pos` for the first parameters mean the same as keywords carrying the same values -/
theorem bindParams_pos_eq_kw (dflt : String → Option V) (kw kw' : List (String × V)) (ps : List String) (pos : List V)
    (hlen : pos.length ≤ ps.length)
    (h1 : ∀ p ∈ ps.take pos.length, kwLookup kw p = none)
    (h2 : ∀ p v, (p, v) ∈ (ps.take pos.length).zip pos → kwLookup kw' p = some v)
    (h3 : ∀ p ∈ ps.drop pos.length, kwLookup kw p = kwLookup kw' p) :
    bindParams dflt kw ps pos = bindParams dflt kw' ps [] := by
  induction ps generalizing pos with
  | nil =>
    cases pos with
    | nil => rfl
    | cons v vs => simp at hlen
  | cons p ps ih =>
    cases pos with
    | nil => exact bindParams_congr dflt kw kw' _ [] (by simpa using h3)
    | cons v vs =>
      simp only [List.length_cons, List.take_succ_cons, List.drop_succ_cons, List.zip_cons_cons] at h1 h2 h3
      have hk : kwLookup kw p = none := h1 p (List.mem_cons_self ..)
      have hk' : kwLookup kw' p = some v := h2 p v (List.mem_cons_self ..)
      have := ih vs (by simpa using hlen) (fun q hq => h1 q (List.mem_cons_of_mem _ hq))
        (fun q w hq => h2 q w (List.mem_cons_of_mem _ hq)) h3
      simp only [bindParams, hk, kwOrDefault, hk', this]

/-- **giving the first arguments positionally, in signature order, = giving them by keyword** (everything else equal) -/
theorem bindParams_prefix (dflt : String → Option V) (ps₁ ps₂ : List String) (hnd : (ps₁ ++ ps₂).Nodup) (vs₁ : List V)
    (hlen : vs₁.length = ps₁.length) (kw : List (String × V)) (hkw : ∀ p ∈ ps₁, kwLookup kw p = none) :
    bindParams dflt kw (ps₁ ++ ps₂) vs₁ = bindParams dflt (ps₁.zip vs₁ ++ kw) (ps₁ ++ ps₂) [] := by
  obtain ⟨hn1, _, hdisj⟩ := List.nodup_append.1 hnd
  have htake : (ps₁ ++ ps₂).take vs₁.length = ps₁ := List.take_left' hlen.symm
  have hdrop : (ps₁ ++ ps₂).drop vs₁.length = ps₂ := List.drop_left' hlen.symm
  apply bindParams_pos_eq_kw
  · simp [hlen]
  · rw [htake]; exact hkw
  · rw [htake]
    intro p v hpv
    rw [kwLookup_append, kwLookup_zip_of_mem ps₁ vs₁ hn1 p v hpv]
  · rw [hdrop]
    intro p hp
    have : p ∉ ps₁ := fun h1 => hdisj p h1 p hp rfl
    rw [kwLookup_append, kwLookup_zip_of_not_mem ps₁ vs₁ p this]

/-- what the keyword form binds: the parameters in signature order, each with the keyword of its name, else its default -/
theorem bindParams_kw_spec (dflt : String → Option V) (kw : List (String × V)) (ps : List String) (r : List (String × V))
    (h : bindParams dflt kw ps [] = .ok r) :
    r.map Prod.fst = ps ∧ ∀ p v, (p, v) ∈ r → kwOrDefault dflt kw p = some v := by
  induction ps generalizing r with
  | nil =>
    simp only [bindParams, Except.ok.injEq] at h
    subst h; simp
  | cons p ps ih =>
    simp only [bindParams] at h
    cases hd : kwOrDefault dflt kw p with
    | none => simp [hd] at h
    | some v =>
      cases hr : bindParams dflt kw ps [] with
      | error e => simp [hd, hr] at h
      | ok r' =>
        simp only [hd, hr, Except.ok.injEq] at h
        subst h
        obtain ⟨ih1, ih2⟩ := ih r' hr
        refine ⟨by simp [ih1], fun q w hq => ?_⟩
        rcases List.mem_cons.1 hq with heq | hmem
        · cases heq; exact hd
        · exact ih2 q w hmem

/-- the keyword form succeeds as soon as every parameter has a keyword or a default -/
theorem bindParams_kw_ok (dflt : String → Option V) (kw : List (String × V)) (ps : List String)
    (h : ∀ p ∈ ps, (kwOrDefault dflt kw p).isSome) : ∃ r, bindParams dflt kw ps [] = .ok r := by
  induction ps with
  | nil => exact ⟨[], rfl⟩
  | cons p ps ih =>
    obtain ⟨r, hr⟩ := ih (fun q hq => h q (List.mem_cons_of_mem _ hq))
    obtain ⟨v, hv⟩ := Option.isSome_iff_exists.1 (h p (List.mem_cons_self ..))
    exact ⟨(p, v) :: r, by simp only [bindParams, hv, hr]⟩

theorem fitParams_nodup (hasBases : Bool) : (fitParams hasBases).Nodup := by
  cases hasBases <;> decide

/-- positional prefix in the documented order = keyword call; every positional value reaches the parameter documented at its
position; every other parameter has the caller's keyword, else the documented default (see `C07_positional_call`) -/
theorem fitBind_positional (hasBases : Bool) (ps₁ ps₂ : List String) (hsig : fitParams hasBases = ps₁ ++ ps₂)
    (vs₁ : List Arg) (hlen : vs₁.length = ps₁.length) (kw : List (String × Arg))
    (hkw : ∀ p ∈ ps₁, kwLookup kw p = none) :
    fitBind hasBases vs₁ kw = fitBind hasBases [] (ps₁.zip vs₁ ++ kw)
    ∧ ∀ r, fitBind hasBases vs₁ kw = .ok r →
        (∀ p v, (p, v) ∈ ps₁.zip vs₁ → bound r p = some v)
        ∧ (∀ p ∈ ps₂, bound r p = kwOrDefault fitDefault kw p)
        ∧ (hasBases = false → bound r "input_bases" = some Arg.none) := by
  have hnd : (ps₁ ++ ps₂).Nodup := hsig ▸ fitParams_nodup hasBases
  have hpre := bindParams_prefix fitDefault ps₁ ps₂ hnd vs₁ hlen kw hkw
  have hEq : fitBind hasBases vs₁ kw = fitBind hasBases [] (ps₁.zip vs₁ ++ kw) := by
    simp only [fitBind, hsig, hpre]
  refine ⟨hEq, fun r hr => ?_⟩
  -- the underlying binding of the signature
  obtain ⟨r0, hr0, hrr⟩ : ∃ r0, bindParams fitDefault (ps₁.zip vs₁ ++ kw) (ps₁ ++ ps₂) [] = .ok r0
      ∧ r = (if hasBases then r0 else r0 ++ [("input_bases", Arg.none)]) := by
    rw [hEq] at hr
    simp only [fitBind, hsig] at hr
    cases hb : bindParams fitDefault (ps₁.zip vs₁ ++ kw) (ps₁ ++ ps₂) [] with
    | error e => simp [hb] at hr
    | ok r0 => simp only [hb, Except.ok.injEq] at hr; exact ⟨r0, rfl, hr.symm⟩
  obtain ⟨hnames, hvals⟩ := bindParams_kw_spec _ _ _ _ hr0
  obtain ⟨hn1, _, hdisj⟩ := List.nodup_append.1 hnd
  have hr0nd : (r0.map Prod.fst).Nodup := hnames ▸ hnd
  -- looking a documented parameter up in `r` is looking it up in `r0`
  have hlook : ∀ p, p ∈ ps₁ ++ ps₂ → bound r p = kwOrDefault fitDefault (ps₁.zip vs₁ ++ kw) p := by
    intro p hp
    have hp' : p ∈ r0.map Prod.fst := hnames ▸ hp
    obtain ⟨⟨q, v⟩, hq, hqp⟩ := List.mem_map.1 hp'
    simp only at hqp; subst hqp
    have h1 : kwLookup r0 q = some v := kwLookup_of_mem r0 hr0nd q v hq
    have h2 := hvals q v hq
    rw [h2, hrr, bound]
    cases hasBases with
    | true => simpa using h1
    | false => simp only [Bool.false_eq_true, if_false, kwLookup_append, h1]
  refine ⟨fun p v hpv => ?_, fun p hp => ?_, fun hb => ?_⟩
  · have hp : p ∈ ps₁ := (List.of_mem_zip hpv).1
    rw [hlook p (List.mem_append_left _ hp), kwOrDefault, kwLookup_append,
      kwLookup_zip_of_mem ps₁ vs₁ hn1 p v hpv]
  · have hnot : p ∉ ps₁ := fun h1 => hdisj p h1 p hp rfl
    rw [hlook p (List.mem_append_right _ hp)]
    simp only [kwOrDefault, kwLookup_append, kwLookup_zip_of_not_mem ps₁ vs₁ p hnot]
  · subst hb
    have hnot : "input_bases" ∉ r0.map Prod.fst := by
      rw [hnames, ← hsig]; decide
    rw [hrr, bound]
    simp only [Bool.false_eq_true, if_false, kwLookup_append, kwLookup_eq_none_of_not_mem r0 _ hnot]
    rfl

end QV.CallForm

/-! ### the `deprecated_kwarg` alias layer -/
namespace QV.CallForm
variable {V : Type}

theorem kwLookup_eraseKey (kw : List (String × V)) (a p : String) :
    kwLookup (eraseKey kw a) p = if p = a then none else kwLookup kw p := by
  induction kw with
  | nil => simp [eraseKey, kwLookup]
  | cons e kw ih =>
    obtain ⟨q, v⟩ := e
    unfold eraseKey at ih ⊢
    rw [List.filter_cons]
    by_cases hq : q = a
    · have hb : ((q, v).1 != a) = false := by simp [hq]
      rw [hb]
      simp only [Bool.false_eq_true, if_false]
      rw [ih]
      by_cases hp : p = a
      · simp [hp]
      · have : ¬ q = p := fun h => hp (h ▸ hq)
        simp [kwLookup, hp, this]
    · have hb : ((q, v).1 != a) = true := by simp [hq]
      rw [hb]
      simp only [if_true, kwLookup]
      rw [ih]
      by_cases hqp : q = p
      · subst hqp; simp [hq]
      · simp [hqp]

/-- a step refuses exactly when the call gives both the deprecated and the new name -/
theorem renameStep_both (kw : List (String × V)) (a t : String) (v w : V)
    (ha : kwLookup kw a = some v) (ht : kwLookup kw t = some w) : renameStep kw a t = .error .TypeError := by
  simp only [renameStep, ha, ht]

/-- a step without the deprecated name changes nothing -/
theorem renameStep_absent (kw : List (String × V)) (a t : String) (ha : kwLookup kw a = none) :
    renameStep kw a t = .ok kw := by
  simp only [renameStep, ha]

/-- a step with the deprecated name alone moves its value to the new name and leaves every other name as it was -/
theorem renameStep_moves (kw : List (String × V)) (a t : String) (hat : a ≠ t) (v : V)
    (ha : kwLookup kw a = some v) (ht : kwLookup kw t = none) :
    ∃ kw', renameStep kw a t = .ok kw' ∧
      ∀ p, kwLookup kw' p = if p = a then none else if p = t then some v else kwLookup kw p := by
  refine ⟨eraseKey kw a ++ [(t, v)], by simp only [renameStep, ha, ht], fun p => ?_⟩
  rw [kwLookup_append, kwLookup_eraseKey]
  by_cases hpa : p = a
  · subst hpa
    have : ¬ t = p := fun h => hat h.symm
    simp [kwLookup, this]
  · by_cases hpt : p = t
    · subst hpt; simp [hpa, ht, kwLookup]
    · have : ¬ t = p := fun h => hpt h.symm
      simp only [hpa, hpt, if_false, kwLookup, this]
      cases kwLookup kw p <;> rfl

/-- every refusal of the binding is a `TypeError` -/
theorem bindParams_error_TypeError (dflt : String → Option V) (kw : List (String × V)) (ps : List String) (vs : List V)
    (e : PyErr) (h : bindParams dflt kw ps vs = .error e) : e = .TypeError := by
  induction ps generalizing vs with
  | nil =>
    cases vs with
    | nil => simp [bindParams] at h
    | cons v vs => simp only [bindParams, Except.error.injEq] at h; exact h.symm
  | cons p ps ih =>
    cases vs with
    | nil =>
      simp only [bindParams] at h
      cases hd : kwOrDefault dflt kw p with
      | none => simp only [hd, Except.error.injEq] at h; exact h.symm
      | some v =>
        cases hr : bindParams dflt kw ps [] with
        | error e' => simp only [hd, hr, Except.error.injEq] at h; subst h; exact ih [] hr
        | ok r => simp [hd, hr] at h
    | cons v vs =>
      simp only [bindParams] at h
      cases hk : kwLookup kw p with
      | some w => simp only [hk, Except.error.injEq] at h; exact h.symm
      | none =>
        cases hr : bindParams dflt kw ps vs with
        | error e' => simp only [hk, hr, Except.error.injEq] at h; subst h; exact ih vs hr
        | ok r => simp [hk, hr] at h

/-- a keyword naming a parameter that is also filled positionally is refused ("got multiple values for argument") -/
theorem bindParams_shadow (dflt : String → Option V) (kw : List (String × V)) (ps₁ : List String) (p : String)
    (ps₂ : List String) (vs : List V) (hlen : ps₁.length < vs.length) (w : V) (hk : kwLookup kw p = some w) :
    bindParams dflt kw (ps₁ ++ p :: ps₂) vs = .error .TypeError := by
  induction ps₁ generalizing vs with
  | nil =>
    cases vs with
    | nil => simp at hlen
    | cons v vs => simp only [List.nil_append, bindParams, hk]
  | cons q ps₁ ih =>
    cases vs with
    | nil => simp at hlen
    | cons v vs =>
      have := ih vs (by simpa using hlen)
      simp only [List.cons_append, bindParams, this]
      cases kwLookup kw q <;> rfl

end QV.CallForm
