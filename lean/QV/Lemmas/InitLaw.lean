/-
Lemmas about `QV.Model.InitLaw.tab2` (row-major tabulation) used by the C20 initialisation-law theorems.
-/
import Mathlib.Data.List.Basic
import QV.Model.InitLaw

namespace QV.InitLaw

variable {α : Type}

/-- entry `(i, j)` of a list-of-rows matrix (default `z` outside) -/
def entryD (z : α) (M : List (List α)) (i j : Nat) : α := (M.getD i []).getD j z

theorem tab2_length (rows cols : Nat) (f : Nat → Nat → α) : (tab2 rows cols f).length = rows := by
  simp [tab2]

theorem tab2_row_length (rows cols : Nat) (f : Nat → Nat → α) :
    ∀ row ∈ tab2 rows cols f, row.length = cols := by
  intro row hrow
  simp only [tab2, List.mem_map, List.mem_range] at hrow
  obtain ⟨i, _, rfl⟩ := hrow
  simp

theorem tab2_entry (z : α) (rows cols : Nat) (f : Nat → Nat → α) {i j : Nat} (hi : i < rows) (hj : j < cols) :
    entryD z (tab2 rows cols f) i j = f i j := by
  simp [entryD, tab2, List.getD_eq_getElem?_getD, hi, hj]

theorem tab2_mem_const (rows cols : Nat) (c : α) :
    ∀ row ∈ tab2 rows cols (fun _ _ => c), ∀ x ∈ row, x = c := by
  intro row hrow x hx
  simp only [tab2, List.mem_map, List.mem_range] at hrow
  obtain ⟨i, _, rfl⟩ := hrow
  simp only [List.mem_map, List.mem_range] at hx
  obtain ⟨j, _, rfl⟩ := hx
  rfl

end QV.InitLaw
