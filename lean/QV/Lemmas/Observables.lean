/-
QV.Lemmas.Observables — helper lemmas for C08 / C09:
 * `toC`: the real-pair complex numbers of the model as Mathlib's `ℂ` (ring operations agree);
 * sums over configurations that agree with a given one away from a site;
 * the generic "local estimator" identity behind every Pauli observable;
 * list/heap lemmas for the batch runs (clone / in-place flip / roll / swap).
-/
import Mathlib.Data.Complex.Basic
import Mathlib.Data.Complex.BigOperators
import Mathlib.Algebra.BigOperators.Fin
import Mathlib.Algebra.BigOperators.Field
import Mathlib.Data.Fintype.BigOperators
import Mathlib.Data.Fintype.Pi
import Mathlib.Data.List.FinRange
import QV.Model.Observables
import QV.Lemmas.Basic

namespace QV.Obs
open QV Finset
open scoped ComplexConjugate

/-- a real pair `(re, im)` of the model as a complex number -/
def toC (z : C ℝ) : ℂ := ⟨z.1, z.2⟩

@[simp] theorem toC_re (z : C ℝ) : (toC z).re = z.1 := rfl
@[simp] theorem toC_im (z : C ℝ) : (toC z).im = z.2 := rfl
@[simp] theorem toC_mk (x y : ℝ) : toC (x, y) = ⟨x, y⟩ := rfl
@[simp] theorem toC_zero : toC (C.zero : C ℝ) = 0 := rfl
@[simp] theorem toC_one : toC (C.one : C ℝ) = 1 := rfl

theorem toC_injective : Function.Injective toC := by
  intro x y h
  have h1 := congrArg Complex.re h
  have h2 := congrArg Complex.im h
  exact Prod.ext h1 h2

theorem toC_ne_zero {z : C ℝ} (hz : z ≠ (0, 0)) : toC z ≠ 0 := by
  intro h; exact hz (toC_injective (by rw [h]; rfl))

@[simp] theorem toC_add (x y : C ℝ) : toC (C.add x y) = toC x + toC y := by
  apply Complex.ext <;> simp [C.add]

@[simp] theorem toC_mul (x y : C ℝ) : toC (C.mul x y) = toC x * toC y := by
  apply Complex.ext <;> simp [C.mul]

@[simp] theorem toC_conj (x : C ℝ) : toC (C.conj x) = conj (toC x) := by
  apply Complex.ext <;> simp [C.conj]

theorem toC_normSq (x : C ℝ) : (C.normSq x : ℝ) = Complex.normSq (toC x) := by
  simp [C.normSq, Complex.normSq_apply]

/-- `cplx.elementwise_division` is complex division (also at `y = 0`, where both sides are `0`) -/
@[simp] theorem toC_div (x y : C ℝ) : toC (C.div x y) = toC x / toC y := by
  by_cases hy : y = (0, 0)
  · subst hy
    have : toC ((0, 0) : C ℝ) = 0 := rfl
    rw [this, div_zero]
    apply Complex.ext <;> simp [C.div, C.normSq]
  · have hy' : toC y ≠ 0 := toC_ne_zero hy
    have hN : (C.normSq y : ℝ) ≠ 0 := by
      rw [toC_normSq]; exact fun h => hy' (Complex.normSq_eq_zero.1 h)
    have hN' : y.1 ^ 2 + y.2 ^ 2 ≠ 0 := by simpa [C.normSq, sq] using hN
    rw [eq_div_iff hy']
    apply Complex.ext
    · simp only [C.div, C.mul, C.conj, toC_re, toC_im, Complex.mul_re]
      simp only [C.normSq, ← sq]
      field_simp
      ring
    · simp only [C.div, C.mul, C.conj, toC_re, toC_im, Complex.mul_im]
      simp only [C.normSq, ← sq]
      field_simp
      ring

theorem foldl_cadd_eq (n : ℕ) (f : Fin n → C ℝ) (a : C ℝ) :
    toC (Fin.foldl n (fun acc i => C.add acc (f i)) a) = toC a + ∑ i, toC (f i) := by
  induction n generalizing a with
  | zero => simp [Fin.foldl_zero]
  | succ k ih => rw [Fin.foldl_succ, ih, Fin.sum_univ_succ, toC_add, add_assoc]

@[simp] theorem toC_sum (n : ℕ) (f : Fin n → C ℝ) : toC (C.sum n f) = ∑ i, toC (f i) := by
  simp [C.sum, foldl_cadd_eq]

/-- `|x − 1|` on a 0/1 entry is the other bit: what `flip_spin` does to a sample entry. -/
theorem flipEntry_bit (b : Bool) : flipEntry (bit b : ℝ) = bit (!b) := by
  cases b <;> simp [flipEntry, bit]

/-- the spin value `to_pm1` assigns: `0 ↦ −1`, `1 ↦ +1` -/
@[simp] theorem spin_eq (b : Bool) : (spin b : ℝ) = if b then 1 else -1 := by
  cases b <;> norm_num [spin, toPm1, bit]

theorem flipSpin_ne {n : ℕ} (i : Fin n) (σ : Cfg n) : σ ≠ flipSpin i σ := by
  intro h
  have := congrFun h i
  simp [flipSpin] at this

@[simp] theorem flipSpin_same {n : ℕ} (i : Fin n) (σ : Cfg n) : flipSpin i σ i = !σ i := by
  simp [flipSpin]

theorem flipSpin_other {n : ℕ} {i j : Fin n} (σ : Cfg n) (h : j ≠ i) : flipSpin i σ j = σ j := by
  simp [flipSpin, h]

/-- the configurations that agree with `σ` away from site `i` are `σ` and `flipSpin i σ` -/
theorem agree_off_iff {n : ℕ} (i : Fin n) (σ τ : Cfg n) :
    (∀ j, j ≠ i → σ j = τ j) ↔ τ = σ ∨ τ = flipSpin i σ := by
  constructor
  · intro h
    by_cases hi : τ i = σ i
    · left; funext j; by_cases hj : j = i
      · rw [hj, hi]
      · exact (h j hj).symm
    · right; funext j; by_cases hj : j = i
      · subst hj; simp only [flipSpin_same]; revert hi; cases τ j <;> cases σ j <;> simp
      · rw [flipSpin_other σ hj]; exact (h j hj).symm
  · rintro (rfl | rfl) j hj
    · rfl
    · rw [flipSpin_other σ hj]

/-- sum over the second index of a single-site operator `P_i ⊗ 1` -/
theorem sum_site {n : ℕ} (F : Cfg n → ℂ) (P : Bool → Bool → ℂ) (i : Fin n) (σ : Cfg n) :
    ∑ τ, F τ * (if ∀ j, j ≠ i → σ j = τ j then P (σ i) (τ i) else 0)
      = F σ * P (σ i) (σ i) + F (flipSpin i σ) * P (σ i) (!σ i) := by
  rw [Finset.sum_eq_add σ (flipSpin i σ) (flipSpin_ne i σ)]
  · have h1 : ∀ j, j ≠ i → σ j = flipSpin i σ j := fun j hj => (flipSpin_other σ hj).symm
    rw [if_pos (fun _ _ => rfl), if_pos h1, flipSpin_same]
  · intro τ _ hτ
    rw [if_neg, mul_zero]
    intro hall
    rcases (agree_off_iff i σ τ).1 hall with h | h
    · exact hτ.1 h
    · exact hτ.2 h
  · intro h; exact absurd (Finset.mem_univ _) h
  · intro h; exact absurd (Finset.mem_univ _) h

/-- trace of `G · (P_i ⊗ 1)` as a single sum over configurations -/
theorem tr_site {n : ℕ} (G : Cfg n → Cfg n → ℂ) (P : Bool → Bool → ℂ) (i : Fin n) :
    ∑ σ, ∑ σ', G σ σ' * (if ∀ j, j ≠ i → σ' j = σ j then P (σ' i) (σ i) else 0)
      = ∑ σ, (G σ σ * P (σ i) (σ i) + G (flipSpin i σ) σ * P (σ i) (!σ i)) := by
  rw [Finset.sum_comm]
  refine Finset.sum_congr rfl (fun σ' _ => ?_)
  exact sum_site (fun τ => G τ σ') P i σ'

/-- a single-site operator with diagonal `P` is diagonal in the configuration basis -/
theorem site_diag {n : ℕ} (P : Bool → Bool → ℂ) (hP : ∀ a b, a ≠ b → P a b = 0) (i : Fin n) (σ σ' : Cfg n) :
    (if ∀ j, j ≠ i → σ j = σ' j then P (σ i) (σ' i) else 0) = if σ = σ' then P (σ i) (σ i) else 0 := by
  by_cases h : σ = σ'
  · subst h; simp
  · rw [if_neg h]
    by_cases hall : ∀ j, j ≠ i → σ j = σ' j
    · rw [if_pos hall]
      apply hP
      intro hi
      exact h (funext fun j => by by_cases hj : j = i; · rw [hj, hi]
                                  · exact hall j hj)
    · rw [if_neg hall]

/-- **generic local-estimator identity.**  `G` is the (unnormalised) density matrix the state denotes,
`T` its trace, `p σ = G σ σ / T` the exact sampling distribution, and the importance ratio
`numerator(vp, v) / denominator(v)` equals `G vp v / G v v`.  Then one term of the weighted estimator
sum collapses to a matrix element of `G / T`. -/
theorem local_term {n : ℕ} (S : ImpState ℝ n) (G : Cfg n → Cfg n → ℂ) (p : Cfg n → ℝ) (T : ℂ)
    (hp : ∀ σ, (p σ : ℂ) = G σ σ / T) (hG : ∀ σ, G σ σ ≠ 0)
    (hw : ∀ vp v, toC (S.numer vp v) / toC (S.denom v) = G vp v / G v v)
    (c : Fin n → ℂ) (σ : Cfg n) :
    (p σ : ℂ) * ((∑ i, toC (S.numer (flipSpin i σ) σ) * c i) / toC (S.denom σ))
      = (∑ i, G (flipSpin i σ) σ * c i) / T := by
  rw [Finset.sum_div, Finset.mul_sum, Finset.sum_div]
  refine Finset.sum_congr rfl (fun i _ => ?_)
  rw [mul_div_right_comm, hw, hp]
  have := hG σ
  by_cases hT : T = 0
  · simp [hT]
  · field_simp

/-- **off-diagonal single-site observables** (`SigmaX`, `SigmaY`): the exact average of the per-sample
estimator `Re[(Σ_i numerator(flip_i σ, σ)·c_i(σ)) / denominator(σ)] / n` is the real part of the trace
of `G/T` with the operator `(1/n) Σ_i P_i`, for any single-site matrix `P` with zero diagonal whose
off-diagonal entry `P (σ_i, ¬σ_i)` is the coefficient `c_i(σ)`. -/
theorem pauli_estimator {n : ℕ} (S : ImpState ℝ n) (G : Cfg n → Cfg n → ℂ) (p : Cfg n → ℝ) (T : ℂ)
    (hp : ∀ σ, (p σ : ℂ) = G σ σ / T) (hG : ∀ σ, G σ σ ≠ 0)
    (hw : ∀ vp v, toC (S.numer vp v) / toC (S.denom v) = G vp v / G v v)
    (P : Bool → Bool → ℂ) (hP0 : ∀ a, P a a = 0) (c : Cfg n → Fin n → ℂ)
    (hc : ∀ σ i, c σ i = P (σ i) (!σ i)) :
    ∑ σ, p σ * (((∑ i, toC (S.numer (flipSpin i σ) σ) * c σ i) / toC (S.denom σ)).re / (n : ℝ))
      = (∑ σ, ∑ σ', (G σ σ' / T) *
          ((1 / (n : ℂ)) * ∑ i, (if ∀ j, j ≠ i → σ' j = σ j then P (σ' i) (σ i) else 0))).re := by
  have hL : ∀ σ, p σ * (((∑ i, toC (S.numer (flipSpin i σ) σ) * c σ i) / toC (S.denom σ)).re / (n : ℝ))
      = (((∑ i, G (flipSpin i σ) σ * c σ i) / T).re) / (n : ℝ) := by
    intro σ
    rw [← local_term S G p T hp hG hw (c σ) σ, Complex.re_ofReal_mul, mul_div_assoc]
  simp_rw [hL]
  have hR : (∑ σ, ∑ σ', (G σ σ' / T) *
          ((1 / (n : ℂ)) * ∑ i, (if ∀ j, j ≠ i → σ' j = σ j then P (σ' i) (σ i) else 0)))
      = ((1 / (n : ℝ) : ℝ) : ℂ) * ∑ σ, (∑ i, G (flipSpin i σ) σ * c σ i) / T := by
    have h1 : ∀ σ σ' : Cfg n, (G σ σ' / T) *
          ((1 / (n : ℂ)) * ∑ i, (if ∀ j, j ≠ i → σ' j = σ j then P (σ' i) (σ i) else 0))
        = (1 / (n : ℂ) / T) * (∑ i, G σ σ' * (if ∀ j, j ≠ i → σ' j = σ j then P (σ' i) (σ i) else 0)) := by
      intro σ σ'
      rw [← Finset.mul_sum]
      ring
    simp_rw [h1]
    have h3 : ∑ σ : Cfg n, ∑ σ' : Cfg n, (1 / (n : ℂ) / T) *
          (∑ i, G σ σ' * (if ∀ j, j ≠ i → σ' j = σ j then P (σ' i) (σ i) else 0))
        = (1 / (n : ℂ) / T) * ∑ σ : Cfg n, ∑ σ' : Cfg n,
          (∑ i, G σ σ' * (if ∀ j, j ≠ i → σ' j = σ j then P (σ' i) (σ i) else 0)) := by
      rw [Finset.mul_sum]
      refine Finset.sum_congr rfl (fun σ _ => ?_)
      rw [Finset.mul_sum]
    rw [h3]
    -- Σ_σ Σ_σ' Σ_i  →  Σ_i Σ_σ Σ_σ'
    have h2 : ∑ σ : Cfg n, ∑ σ' : Cfg n, ∑ i, G σ σ' * (if ∀ j, j ≠ i → σ' j = σ j then P (σ' i) (σ i) else 0)
        = ∑ i, ∑ σ : Cfg n, ∑ σ' : Cfg n, G σ σ' * (if ∀ j, j ≠ i → σ' j = σ j then P (σ' i) (σ i) else 0) :=
      calc _ = ∑ σ : Cfg n, ∑ i, ∑ σ' : Cfg n,
                  G σ σ' * (if ∀ j, j ≠ i → σ' j = σ j then P (σ' i) (σ i) else 0) :=
              Finset.sum_congr rfl (fun σ _ => Finset.sum_comm)
        _ = _ := Finset.sum_comm
    rw [h2]
    simp_rw [tr_site, hP0, mul_zero, zero_add, ← hc]
    rw [Finset.sum_comm, ← Finset.sum_div]
    push_cast
    ring
  rw [hR, Complex.re_ofReal_mul, Complex.re_sum, Finset.mul_sum]
  refine Finset.sum_congr rfl (fun σ _ => ?_)
  ring

/-- **diagonal observables** (`SigmaZ`, `NeighbourInteraction`): the exact average of a function of the
sample is the trace of `G/T` with the diagonal operator carrying that function. -/
theorem diag_estimator {n : ℕ} (G : Cfg n → Cfg n → ℂ) (p : Cfg n → ℝ) (T : ℂ)
    (hp : ∀ σ, (p σ : ℂ) = G σ σ / T) (d : Cfg n → ℝ) :
    ∑ σ, p σ * d σ
      = (∑ σ, ∑ σ', (G σ σ' / T) * (if σ' = σ then (d σ' : ℂ) else 0)).re := by
  have h1 : ∀ σ : Cfg n, ∑ σ', (G σ σ' / T) * (if σ' = σ then (d σ' : ℂ) else 0) = ((p σ * d σ : ℝ) : ℂ) := by
    intro σ
    rw [Finset.sum_eq_single σ]
    · rw [if_pos rfl, ← hp]; push_cast; ring
    · intro b _ hb; rw [if_neg hb, mul_zero]
    · intro h; exact absurd (Finset.mem_univ _) h
  simp_rw [h1]
  rw [← Complex.ofReal_sum, Complex.ofReal_re]

/-- `SigmaX.apply` (absolute = False) in complex-number form -/
theorem sigmaXApply_eq {n : ℕ} (S : ImpState ℝ n) (σ : Cfg n) :
    sigmaXApply S false σ
      = ((∑ i, toC (S.numer (flipSpin i σ) σ)) / toC (S.denom σ)).re / (n : ℝ) := by
  rw [← toC_sum, ← toC_div]
  rfl

/-- `SigmaY.apply` (absolute = False) in complex-number form -/
theorem sigmaYApply_eq {n : ℕ} (S : ImpState ℝ n) (σ : Cfg n) :
    sigmaYApply S false σ
      = ((∑ i, toC (S.numer (flipSpin i σ) σ) * toC ((0, spin (σ i)) : C ℝ)) / toC (S.denom σ)).re / (n : ℝ) := by
  simp_rw [← toC_mul]
  rw [← toC_sum, ← toC_div]
  rfl

/-- `SigmaZ.apply` (absolute = False): `to_pm1(mean)` is the mean of the spins (needs at least one site;
for `n = 0` Python's `mean` of an empty row is `nan`) -/
theorem sigmaZApply_eq {n : ℕ} (hn : 0 < n) (σ : Cfg n) :
    (sigmaZApply false σ : ℝ) = (1 / (n : ℝ)) * ∑ i, (if σ i then (1 : ℝ) else -1) := by
  have hn' : (n : ℝ) ≠ 0 := by exact_mod_cast hn.ne'
  have h1 : ∀ i, (if σ i then (1 : ℝ) else -1) = 2 * bit (σ i) - 1 := by
    intro i; cases σ i <;> norm_num [bit]
  simp_rw [h1]
  rw [Finset.sum_sub_distrib, ← Finset.mul_sum]
  simp only [sigmaZApply, absIf, toPm1, sumFin_eq, transc_ofNat, two_eq, Finset.sum_const,
    Finset.card_univ, Fintype.card_fin, nsmul_eq_mul, mul_one, Bool.false_eq_true, if_false]
  field_simp

/-- `NeighbourInteraction(periodic_bcs=True, c).apply` as a sum over pairs of sites `k = (i + c) mod n` -/
theorem neighbourPeriodicApply_eq {n : ℕ} (c : ℕ) (σ : Cfg n) :
    (neighbourPeriodicApply c σ : ℝ)
      = (1 / (n : ℝ)) * ∑ i : Fin n, ∑ k : Fin n,
          if k.val = (i.val + c) % n then (if σ i then (1 : ℝ) else -1) * (if σ k then 1 else -1) else 0 := by
  simp only [neighbourPeriodicApply, sumFin_eq, transc_ofNat, spin_eq]
  rw [div_eq_mul_inv, mul_comm, one_div]
  congr 1
  refine Finset.sum_congr rfl (fun i _ => ?_)
  have hlt : (i.val + c) % n < n := Nat.mod_lt _ (by have := i.isLt; omega)
  rw [Finset.sum_eq_single (⟨(i.val + c) % n, hlt⟩ : Fin n)]
  · simp
  · intro k _ hk
    rw [if_neg]
    intro h; exact hk (Fin.ext h)
  · intro h; exact absurd (Finset.mem_univ _) h

/-- open chain: the pairs of sites `(i, k)` with `k = i + c` are the pairs `(m, c + m)`, `m < n − c`
(none when `c ≥ n`) — Python's slices `[:, :-c]`, `[:, c:]` for `c ≥ 1`. -/
theorem open_pairs {n : ℕ} (z : Fin n → ℝ) (c : ℕ) :
    ∑ i : Fin n, ∑ k : Fin n, (if k.val = i.val + c then z i * z k else 0)
      = ∑ m : Fin (n - c), z ⟨m.val, by have := m.isLt; omega⟩ * z ⟨c + m.val, by have := m.isLt; omega⟩ := by
  let zN : ℕ → ℝ := fun j => if h : j < n then z ⟨j, h⟩ else 0
  have hz : ∀ (j : ℕ) (h : j < n), z ⟨j, h⟩ = zN j := fun j h => by simp [zN, h]
  have hR : ∑ m : Fin (n - c), z ⟨m.val, by have := m.isLt; omega⟩ * z ⟨c + m.val, by have := m.isLt; omega⟩
      = ∑ m ∈ Finset.range (n - c), zN m * zN (c + m) := by
    rw [← Fin.sum_univ_eq_sum_range (fun m => zN m * zN (c + m))]
    refine Finset.sum_congr rfl (fun m _ => ?_)
    rw [hz, hz]
  have hL : ∑ i : Fin n, ∑ k : Fin n, (if k.val = i.val + c then z i * z k else 0)
      = ∑ i ∈ Finset.range n, ∑ k ∈ Finset.range n, (if k = i + c then zN i * zN k else 0) := by
    rw [← Fin.sum_univ_eq_sum_range (fun i => ∑ k ∈ Finset.range n, (if k = i + c then zN i * zN k else 0))]
    refine Finset.sum_congr rfl (fun i _ => ?_)
    rw [← Fin.sum_univ_eq_sum_range (fun k => (if k = i.val + c then zN i * zN k else 0))]
    refine Finset.sum_congr rfl (fun k _ => ?_)
    rw [← hz i.val i.isLt, ← hz k.val k.isLt]
  rw [hL, hR]
  have h1 : ∀ i ∈ Finset.range n, ∑ k ∈ Finset.range n, (if k = i + c then zN i * zN k else 0)
      = if i + c < n then zN i * zN (c + i) else 0 := by
    intro i _
    rw [Finset.sum_ite_eq']
    simp only [Finset.mem_range, add_comm c i]
  rw [Finset.sum_congr rfl h1, ← Finset.sum_filter]
  have hf : (Finset.range n).filter (fun i => i + c < n) = Finset.range (n - c) := by
    ext i; simp only [Finset.mem_filter, Finset.mem_range]; omega
  rw [hf]

/-- `NeighbourInteraction(periodic_bcs=False, c).apply` for `c ≥ 1` never raises and is a sum over the
pairs of sites `k = i + c` -/
theorem neighbourOpenApply_eq {n : ℕ} (c : ℕ) (hc : 1 ≤ c) (σ : Cfg n) :
    (neighbourOpenApply c σ : Except PyErr ℝ)
      = .ok ((1 / (n : ℝ)) * ∑ i : Fin n, ∑ k : Fin n,
          if k.val = i.val + c then (if σ i then (1 : ℝ) else -1) * (if σ k then 1 else -1) else 0) := by
  have hc0 : c ≠ 0 := by omega
  rw [open_pairs (fun i => if σ i then (1 : ℝ) else -1) c]
  simp only [neighbourOpenApply, hc0, false_and, if_false, sumFin_eq, transc_ofNat, spin_eq]
  rw [div_eq_mul_inv, mul_comm, one_div]

/-- product of two single-site operators with diagonal matrices -/
theorem zz_diag {n : ℕ} (P : Bool → Bool → ℂ) (hP : ∀ a b, a ≠ b → P a b = 0) (i k : Fin n) (σ' σ : Cfg n) :
    ∑ τ : Cfg n, (if ∀ j, j ≠ i → σ' j = τ j then P (σ' i) (τ i) else 0)
          * (if ∀ j, j ≠ k → τ j = σ j then P (τ k) (σ k) else 0)
      = if σ' = σ then P (σ' i) (σ' i) * P (σ' k) (σ' k) else 0 := by
  simp_rw [site_diag P hP]
  rw [Finset.sum_eq_single σ']
  · simp
  · intro τ _ hτ; rw [if_neg (Ne.symm hτ), zero_mul]
  · intro h; exact absurd (Finset.mem_univ _) h

/-- `(1/n) Σ_i P_i` for a diagonal single-site matrix -/
theorem magnet_diag {n : ℕ} (P : Bool → Bool → ℂ) (hP : ∀ a b, a ≠ b → P a b = 0) (σ' σ : Cfg n) :
    (1 / (n : ℂ)) * ∑ i, (if ∀ j, j ≠ i → σ' j = σ j then P (σ' i) (σ i) else 0)
      = if σ' = σ then (1 / (n : ℂ)) * ∑ i, P (σ' i) (σ' i) else 0 := by
  simp_rw [site_diag P hP]
  by_cases h : σ' = σ <;> simp [h]

/-! ### Batch runs on the tensor heap -/

section heap
set_option linter.unusedSectionVars false
variable {α : Type} [Add α] [Mul α] [Neg α] [Sub α] [Div α] [Zero α] [One α] [Transc α] {n : ℕ}

theorem zipWith_map_map {β γ δ ε : Type} (f : γ → δ → ε) (g : β → γ) (k : β → δ) (l : List β) :
    List.zipWith f (l.map g) (l.map k) = l.map (fun x => f (g x) (k x)) := by
  rw [List.zipWith_map, List.zipWith_self]

/-- one term of the site sum: `numerator(flip_i σ, σ)` times the optional coefficient -/
def pauliTerm (S : ImpState α n) (coeff : Option (Cfg n → Fin n → C α)) (σ : Cfg n) (i : Fin n) : C α :=
  match coeff with
  | some c => C.mul (S.numer (flipSpin i σ) σ) (c σ i)
  | none => S.numer (flipSpin i σ) σ

/-- the per-sample value computed by the common body of `SigmaX.apply` / `SigmaY.apply` -/
def pauliApplyGen (S : ImpState α n) (coeff : Option (Cfg n → Fin n → C α)) (absolute : Bool)
    (σ : Cfg n) : α :=
  absIf absolute ((C.div (C.sum n (pauliTerm S coeff σ)) (S.denom σ)).1 / Transc.ofNat n)

theorem sigmaXApply_gen (S : ImpState α n) (absolute : Bool) (σ : Cfg n) :
    sigmaXApply S absolute σ = pauliApplyGen S none absolute σ := rfl

theorem sigmaYApply_gen (S : ImpState α n) (absolute : Bool) (σ : Cfg n) :
    sigmaYApply S absolute σ = pauliApplyGen S (some (fun σ i => (0, spin (σ i)))) absolute σ := rfl

/-- frame condition: every tensor allocated in `h` is unchanged in `h'` (and nothing was freed) -/
def Frame (h h' : THeap n) : Prop := h.next ≤ h'.next ∧ ∀ k, k < h.next → h'.cells k = h.cells k

theorem Frame.refl (h : THeap n) : Frame h h := ⟨Nat.le_refl _, fun _ _ => rfl⟩

/-- one site iteration: the accumulator is updated pointwise, the caller's tensors are untouched -/
theorem pauliStep_spec (S : ImpState α n) (coeff : Option (Cfg n → Fin n → C α)) (h h' : THeap n)
    (sid : ℕ) (hs : sid < h.next) (hf : Frame h h') (a : Cfg n → C α) (i : Fin n) :
    ∃ h'', Frame h h'' ∧
      pauliStep S coeff sid (h', (h.cells sid).map a) i
        = (h'', (h.cells sid).map (fun σ => C.add (a σ) (pauliTerm S coeff σ i))) := by
  have hsid : h'.cells sid = h.cells sid := hf.2 sid hs
  have hne : sid ≠ h'.next := by have := hf.1; omega
  refine ⟨(pauliStep S coeff sid (h', (h.cells sid).map a) i).1, ⟨?_, ?_⟩, Prod.ext rfl ?_⟩
  · simp only [pauliStep, flipSpinInPlace, THeap.clone, THeap.alloc, THeap.write]
    have := hf.1; omega
  · intro k hk
    have hk' : k ≠ h'.next := by have := hf.1; omega
    simp only [pauliStep, flipSpinInPlace, THeap.clone, THeap.alloc, THeap.write, hk', if_false]
    exact hf.2 k hk
  · simp only [pauliStep, flipSpinInPlace, THeap.clone, THeap.alloc, THeap.write, if_pos, hne, if_false, hsid]
    cases coeff with
    | none =>
      simp only [List.zipWith_map_left, List.zipWith_map_right, List.zipWith_self, pauliTerm]
    | some c =>
      simp only [List.zipWith_map_left, List.zipWith_map_right, List.zipWith_self, pauliTerm]

/-- the whole site loop over any list of sites -/
theorem pauliLoop_spec (S : ImpState α n) (coeff : Option (Cfg n → Fin n → C α)) (h : THeap n)
    (sid : ℕ) (hs : sid < h.next) (l : List (Fin n)) :
    ∀ (h' : THeap n) (_ : Frame h h') (a : Cfg n → C α),
    ∃ h'', Frame h h'' ∧
      l.foldl (pauliStep S coeff sid) (h', (h.cells sid).map a)
        = (h'', (h.cells sid).map (fun σ => l.foldl (fun acc i => C.add acc (pauliTerm S coeff σ i)) (a σ))) := by
  induction l with
  | nil => intro h' hf a; exact ⟨h', hf, rfl⟩
  | cons i l ih =>
    intro h' hf a
    obtain ⟨h1, hf1, e1⟩ := pauliStep_spec S coeff h h' sid hs hf a i
    obtain ⟨h2, hf2, e2⟩ := ih h1 hf1 _
    exact ⟨h2, hf2, by rw [List.foldl_cons, e1, e2]; rfl⟩

/-- `SigmaX/SigmaY.apply` on a heap: result = map of the per-sample function; all the caller's tensors
(in particular `samples` itself) are unchanged. -/
theorem pauliRun_spec (S : ImpState α n) (coeff : Option (Cfg n → Fin n → C α)) (absolute : Bool)
    (h : THeap n) (sid : ℕ) (hs : sid < h.next) :
    Frame h (pauliRun S coeff absolute h sid).1 ∧
      (pauliRun S coeff absolute h sid).2 = (h.cells sid).map (pauliApplyGen S coeff absolute) := by
  obtain ⟨h2, hf2, e2⟩ := pauliLoop_spec S coeff h sid hs (List.finRange n) h (Frame.refl h) (fun _ => C.zero)
  unfold pauliRun
  simp only [List.map_map]
  have e2' : (List.finRange n).foldl (pauliStep S coeff sid) (h, (h.cells sid).map ((fun _ => C.zero) ∘ S.denom))
      = (h2, _) := e2
  rw [e2']
  refine ⟨hf2, ?_⟩
  simp only [zipWith_map_map, List.map_map]
  refine List.map_congr_left (fun σ _ => ?_)
  simp only [Function.comp, pauliApplyGen, C.sum, Fin.foldl_eq_finRange_foldl]

end heap

end QV.Obs
