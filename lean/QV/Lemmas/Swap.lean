/-
QV.Lemmas.Swap — helper lemmas for C09 (SWAP / second Rényi entropy):
 * region combinatorics: `combine`, the replica-exchange involution on pairs, `glue` of a configuration of a
   region with one of its complement (Mathlib's `Equiv.piEquivPiSubtypeProd`);
 * the purity `tr ρ_A²` as a double sum over pairs of full configurations;
 * Cauchy–Schwarz bound `tr ρ_A² ≤ (tr ρ)²` for Gram-form (positive semidefinite) ρ;
 * `torch.roll` pairing and the heap run of `SWAP.apply`.
-/
import Mathlib.Data.Complex.Basic
import Mathlib.Data.Complex.BigOperators
import Mathlib.Analysis.Complex.Norm
import Mathlib.Algebra.BigOperators.Field
import Mathlib.Algebra.Order.BigOperators.Ring.Finset
import Mathlib.Logic.Equiv.Prod
import Mathlib.Data.Fintype.BigOperators
import Mathlib.Data.List.FinRange
import QV.Lemmas.Observables

namespace QV.Obs
open QV Finset
open scoped ComplexConjugate

variable {n : ℕ}

/-! ### Regions -/

theorem combine_self (σ : Cfg n) (A : Fin n → Bool) : combine σ σ A = σ := by
  funext j; simp [combine]

/-- exchanging region `A` twice restores both replicas -/
theorem swapRows_involutive (A : Fin n → Bool) :
    Function.Involutive (fun x : Cfg n × Cfg n => swapRows A x.1 x.2) := by
  rintro ⟨s1, s2⟩
  apply Prod.ext <;> funext j <;> by_cases h : A j <;> simp [swapRows, combine, h]

/-- the replica exchange as a permutation of pairs of configurations -/
def swapEquiv (A : Fin n → Bool) : Equiv.Perm (Cfg n × Cfg n) := (swapRows_involutive A).toPerm _

@[simp] theorem swapEquiv_apply (A : Fin n → Bool) (x : Cfg n × Cfg n) :
    swapEquiv A x = (combine x.2 x.1 A, combine x.1 x.2 A) := rfl

theorem combine_compl (σ τ : Cfg n) (A : Fin n → Bool) :
    combine σ τ (fun j => !A j) = combine τ σ A := by
  funext j; by_cases h : A j <;> simp [combine, h]

theorem combine_empty (σ τ : Cfg n) : combine σ τ (fun _ => false) = τ := by
  funext j; simp [combine]

theorem combine_full (σ τ : Cfg n) : combine σ τ (fun _ => true) = σ := by
  funext j; simp [combine]

/-- configurations of the sites inside region `A` -/
abbrev CfgIn (A : Fin n → Bool) := {j : Fin n // A j = true} → Bool
/-- configurations of the sites outside region `A` -/
abbrev CfgOut (A : Fin n → Bool) := {j : Fin n // ¬ A j = true} → Bool

/-- splitting a configuration into its restriction to `A` and to the complement (Mathlib) -/
def splitEquiv (A : Fin n → Bool) : Cfg n ≃ CfgIn A × CfgOut A :=
  Equiv.piEquivPiSubtypeProd (fun j => A j = true) (fun _ => Bool)

/-- the full configuration that is `a` on `A` and `g` on the complement -/
def glue (A : Fin n → Bool) (a : CfgIn A) (g : CfgOut A) : Cfg n := (splitEquiv A).symm (a, g)

theorem glue_apply (A : Fin n → Bool) (a : CfgIn A) (g : CfgOut A) (j : Fin n) :
    glue A a g j = if h : A j = true then a ⟨j, h⟩ else g ⟨j, h⟩ := rfl

theorem combine_glue (A : Fin n → Bool) (a b : CfgIn A) (g d : CfgOut A) :
    combine (glue A a d) (glue A b g) A = glue A a g := by
  funext j
  by_cases h : A j = true <;> simp [combine, glue_apply, h]

/-- sum over all configurations = sum over (configuration of A, configuration of the complement) -/
theorem sum_split {M : Type*} [AddCommMonoid M] (A : Fin n → Bool) (f : Cfg n → M) :
    ∑ s, f s = ∑ a : CfgIn A, ∑ g : CfgOut A, f (glue A a g) := by
  rw [← Fintype.sum_prod_type' (f := fun a g => f (glue A a g))]
  exact (Equiv.sum_comp (splitEquiv A).symm f).symm

/-- **`tr ρ_A²` as a sum over pairs of full configurations.**  With `ρ_A(a,b) = Σ_g R(a⊔g, b⊔g)` the
partial trace over the complement of `A`:
`Σ_{a,b} ρ_A(a,b) ρ_A(b,a) = Σ_{s₁,s₂} R(s₁', s₁) · R(s₂', s₂)` where `(s₁', s₂')` are `s₁, s₂` with region
`A` exchanged. -/
theorem purity_pairs (A : Fin n → Bool) (R : Cfg n → Cfg n → ℂ) :
    ∑ a : CfgIn A, ∑ b : CfgIn A, (∑ g : CfgOut A, R (glue A a g) (glue A b g))
        * (∑ d : CfgOut A, R (glue A b d) (glue A a d))
      = ∑ s1 : Cfg n, ∑ s2 : Cfg n, R (combine s2 s1 A) s1 * R (combine s1 s2 A) s2 := by
  rw [sum_split A (fun s1 => ∑ s2 : Cfg n, R (combine s2 s1 A) s1 * R (combine s1 s2 A) s2)]
  simp_rw [sum_split A (fun s2 => R (combine s2 (glue A _ _) A) (glue A _ _) * R (combine (glue A _ _) s2 A) s2)]
  simp_rw [combine_glue]
  -- now: Σ_b Σ_g Σ_a Σ_d R(a⊔g, b⊔g) R(b⊔d, a⊔d)
  rw [Finset.sum_comm]
  refine Finset.sum_congr rfl (fun b _ => ?_)
  simp_rw [Finset.sum_mul_sum]
  rw [Finset.sum_comm]

/-! ### The estimator term -/

/-- one term of the weighted SWAP estimator sum collapses to a product of two matrix elements of `G/T` -/
theorem swap_term (S : ImpState ℝ n) (G : Cfg n → Cfg n → ℂ) (p : Cfg n → ℝ) (T : ℂ)
    (hp : ∀ σ, (p σ : ℂ) = G σ σ / T) (hG : ∀ σ, G σ σ ≠ 0)
    (hw : ∀ vp v, toC (S.numer vp v) / toC (S.denom v) = G vp v / G v v)
    (A : Fin n → Bool) (s1 s2 : Cfg n) :
    p s1 * p s2 * swapApply S A s1 s2
      = ((G (combine s2 s1 A) s1 / T) * (G (combine s1 s2 A) s2 / T)).re := by
  have h1 : swapApply S A s1 s2
      = ((G (combine s2 s1 A) s1 / G s1 s1) * (G (combine s1 s2 A) s2 / G s2 s2)).re := by
    rw [← hw, ← hw, ← toC_div, ← toC_div, ← toC_mul]; rfl
  rw [h1, ← Complex.re_ofReal_mul]
  congr 1
  push_cast
  rw [hp, hp]
  have := hG s1
  have := hG s2
  by_cases hT : T = 0
  · simp [hT]
  · field_simp

/-! ### Cauchy–Schwarz bound for Gram-form states -/

/-- If `R = Σ_k |v_k⟩⟨v_k|` (equivalently: `R` positive semidefinite) then
`Re tr ρ_A² ≤ (tr R)²`, in the pair-sum form of `purity_pairs`. -/
theorem purity_pairs_le {K : Type} [Fintype K] (v : K → Cfg n → ℂ) (A : Fin n → Bool) :
    (∑ s1 : Cfg n, ∑ s2 : Cfg n,
        (∑ k, v k (combine s2 s1 A) * conj (v k s1)) * (∑ l, v l (combine s1 s2 A) * conj (v l s2))).re
      ≤ (∑ s : Cfg n, ∑ k, ‖v k s‖ ^ 2) ^ 2 := by
  -- index set: pairs of configurations × pairs of purification indices
  let u : (Cfg n × Cfg n) × (K × K) → ℂ := fun x => v x.2.1 x.1.1 * v x.2.2 x.1.2
  let w : (Cfg n × Cfg n) × (K × K) → ℂ := fun x => u (swapEquiv A x.1, x.2)
  have hP : (∑ s1 : Cfg n, ∑ s2 : Cfg n,
        (∑ k, v k (combine s2 s1 A) * conj (v k s1)) * (∑ l, v l (combine s1 s2 A) * conj (v l s2)))
      = ∑ x, w x * conj (u x) := by
    rw [Fintype.sum_prod_type, Fintype.sum_prod_type]
    refine Finset.sum_congr rfl (fun s1 _ => Finset.sum_congr rfl (fun s2 _ => ?_))
    rw [Finset.sum_mul_sum, Fintype.sum_prod_type]
    refine Finset.sum_congr rfl (fun k _ => Finset.sum_congr rfl (fun l _ => ?_))
    simp only [w, u, swapEquiv_apply, map_mul]
    ring
  have hN : ∑ x, ‖u x‖ ^ 2 = (∑ s : Cfg n, ∑ k, ‖v k s‖ ^ 2) ^ 2 := by
    rw [sq (∑ s : Cfg n, ∑ k, ‖v k s‖ ^ 2), Finset.sum_mul_sum]
    rw [Fintype.sum_prod_type, Fintype.sum_prod_type]
    refine Finset.sum_congr rfl (fun s1 _ => ?_)
    rw [Finset.sum_comm]
    simp_rw [Finset.sum_mul_sum]
    rw [Finset.sum_comm]
    refine Finset.sum_congr rfl (fun s2 _ => ?_)
    rw [Fintype.sum_prod_type]
    refine Finset.sum_congr rfl (fun k _ => Finset.sum_congr rfl (fun l _ => ?_))
    simp only [u, norm_mul, mul_pow]
  have hW : ∑ x, ‖w x‖ ^ 2 = ∑ x, ‖u x‖ ^ 2 :=
    Equiv.sum_comp ((swapEquiv A).prodCongr (Equiv.refl (K × K))) (fun x => ‖u x‖ ^ 2)
  set N := (∑ s : Cfg n, ∑ k, ‖v k s‖ ^ 2) ^ 2 with hNdef
  have hN0 : 0 ≤ (∑ s : Cfg n, ∑ k, ‖v k s‖ ^ 2) :=
    Finset.sum_nonneg (fun _ _ => Finset.sum_nonneg (fun _ _ => by positivity))
  rw [hP]
  calc (∑ x, w x * conj (u x)).re ≤ ‖∑ x, w x * conj (u x)‖ := Complex.re_le_norm _
    _ ≤ ∑ x, ‖w x‖ * ‖u x‖ := by
        refine (norm_sum_le _ _).trans (le_of_eq ?_)
        refine Finset.sum_congr rfl (fun x _ => ?_)
        rw [norm_mul, Complex.norm_conj]
    _ ≤ N := by
        have hcs := Finset.sum_mul_sq_le_sq_mul_sq Finset.univ (fun x => ‖w x‖) (fun x => ‖u x‖)
        rw [hW, hN] at hcs
        have hsum0 : 0 ≤ ∑ x, ‖w x‖ * ‖u x‖ := Finset.sum_nonneg (fun _ _ => by positivity)
        have hNN : 0 ≤ N := by positivity
        nlinarith [hcs, hsum0, hNN]

/-! ### `torch.roll` pairing -/

theorem rollIdx_val (B : ℕ) (i : Fin B) :
    (rollIdx B i).val = if i.val = 0 then B - 1 else i.val - 1 := by
  have hi := i.isLt
  simp only [rollIdx]
  split
  · next h => rw [h, Nat.zero_add]; exact Nat.mod_eq_of_lt (by omega)
  · next h =>
    have : i.val + (B - 1) = (i.val - 1) + B := by omega
    rw [this, Nat.add_mod_right]
    exact Nat.mod_eq_of_lt (by omega)

/-- row `i` of the rolled batch is row `(i − 1) mod B` of the batch -/
theorem rollIdx_int (B : ℕ) (i : Fin B) : ((rollIdx B i).val : ℤ) = ((i.val : ℤ) - 1) % (B : ℤ) := by
  have hi := i.isLt
  rw [rollIdx_val]
  split
  · next h =>
    rw [h]
    have : ((0 : ℕ) : ℤ) - 1 = ((B : ℤ) - 1) + (-1) * (B : ℤ) := by ring
    rw [this, Int.add_mul_emod_self_right, Int.emod_eq_of_lt (by omega) (by omega)]
    omega
  · next h =>
    rw [Int.emod_eq_of_lt (by omega) (by omega)]
    omega

/-- with at least two rows no row is paired with itself -/
theorem rollIdx_ne (B : ℕ) (hB : 2 ≤ B) (i : Fin B) : rollIdx B i ≠ i := by
  intro h
  have hv := congrArg Fin.val h
  rw [rollIdx_val] at hv
  have hi := i.isLt
  split at hv <;> omega

theorem rollIdx_injective (B : ℕ) : Function.Injective (rollIdx B) := by
  intro i j h
  have hv := congrArg Fin.val h
  rw [rollIdx_val, rollIdx_val] at hv
  have hi := i.isLt
  have hj := j.isLt
  apply Fin.ext
  split at hv <;> split at hv <;> omega

theorem rollIdx_bijective (B : ℕ) : Function.Bijective (rollIdx B) :=
  Finite.injective_iff_bijective.1 (rollIdx_injective B)

theorem roll1_length {β : Type} (l : List β) : (roll1 l).length = l.length := by
  simp [roll1]

theorem roll1_getElem {β : Type} (l : List β) (i : ℕ) (h : i < l.length) :
    (roll1 l)[i]'(by rw [roll1_length]; exact h) = l[(rollIdx l.length ⟨i, h⟩).val] := by
  simp [roll1]

/-- the rolled batch is a permutation of the batch: every sample is used exactly once as second replica -/
theorem roll1_perm {β : Type} (l : List β) : (roll1 l).Perm l := by
  have h := Equiv.Perm.ofFn_comp_perm (Equiv.ofBijective _ (rollIdx_bijective l.length))
    (fun i : Fin l.length => l[i.val])
  have h2 : List.ofFn (fun i : Fin l.length => l[i.val]) = l := List.ofFn_getElem
  rw [h2] at h
  exact h

/-! ### Heap run of `SWAP.apply` -/

section heap
set_option linter.unusedSectionVars false
variable {α : Type} [Add α] [Mul α] [Neg α] [Sub α] [Div α] [Zero α] [One α] [Transc α]

theorem swap_zip (S : ImpState α n) (A : Fin n → Bool) :
    ∀ (l l' : List (Cfg n)),
    (List.zipWith C.mul
        (List.zipWith S.weight (List.zipWith (fun r1 r2 => combine r2 r1 A) l l') l)
        (List.zipWith S.weight (List.zipWith (fun r2 t => combine t r2 A) l' l) l')).map (fun w => w.1)
      = List.zipWith (swapApply S A) l l' := by
  intro l
  induction l with
  | nil => intro l'; simp
  | cons a l ih =>
    intro l'
    cases l' with
    | nil => simp
    | cons b l' =>
      simp only [List.zipWith_cons_cons, List.map_cons, ih l']
      rfl

/-- `SWAP.apply` on a heap: row `i` of the result is the per-pair value on `(samples[i], samples[(i−1) mod B])`;
all the caller's tensors (in particular `samples`) are unchanged. -/
theorem swapRun_spec (S : ImpState α n) (A : Fin n → Bool) (h : THeap n) (sid : ℕ) (hs : sid < h.next) :
    Frame h (swapRun S A h sid).1 ∧
      (swapRun S A h sid).2 = List.zipWith (swapApply S A) (h.cells sid) (roll1 (h.cells sid)) := by
  have e1 : sid ≠ h.next := by omega
  have e2 : sid ≠ h.next + 1 := by omega
  have e3 : sid ≠ h.next + 1 + 1 := by omega
  have e4 : h.next ≠ h.next + 1 := by omega
  have e5 : h.next ≠ h.next + 1 + 1 := by omega
  have e6 : h.next + 1 ≠ h.next + 1 + 1 := by omega
  have e7 : h.next + 1 + 1 ≠ h.next + 1 := by omega
  refine ⟨⟨?_, ?_⟩, ?_⟩
  · simp only [swapRun, swapInPlace, THeap.clone, THeap.alloc, THeap.write]; omega
  · intro k hk
    have k1 : k ≠ h.next := by omega
    have k2 : k ≠ h.next + 1 := by omega
    have k3 : k ≠ h.next + 1 + 1 := by omega
    simp only [swapRun, swapInPlace, THeap.clone, THeap.alloc, THeap.write, k1, k2, k3, if_false]
  · rw [← swap_zip]
    simp only [swapRun, swapInPlace, THeap.clone, THeap.alloc, THeap.write, e1, e2, e3, e4, e5, e6, e7,
      if_false, if_true]

end heap

end QV.Obs
