import DriverLib.Basic
import QV.Model.CallForm
open Lean Drv QV QV.CallForm

/-! shared by the C06 and C07 handlers: the argument binding of `state.fit(*pos, **kw)` (QV.Model.CallForm.fitBind) -/
namespace Drv.CallForm

/-- an argument on the wire: `null` | bool | integer | `{"ref": n}` (any other object, tagged by the harness) -/
def jArg (j : Json) : R Arg :=
  match j with
  | .null => .ok .none
  | .bool b => .ok (.bool b)
  | .num n => if n.exponent == 0 then .ok (.int n.mantissa) else .error s!"arg: not an integer {j.compress}"
  | _ => do return .ref (← jNat (← fld j "ref"))

def argOut : Arg → Json
  | .none => .null
  | .bool b => .bool b
  | .int i => iOut i
  | .ref n => Json.mkObj [("ref", nOut n)]

/-- op `cXX.bind`: in: `has_bases` (false: PositiveWaveFunction), `pos` = positional arguments in call order, `kw` = [[name, value]…].
out: `{"bound": {parameter: value}}` for every parameter of the signature (signature order) | `{"error": "TypeError"}` -/
def bindOp (j : Json) : R Json := do
  let hasBases ← jBool (← fld j "has_bases")
  let pos ← (← jArr (← fld j "pos")).toList.mapM jArg
  let kw ← (← jArr (← fld j "kw")).toList.mapM fun e => do
    let a ← jArr e
    return ((← jStr a[0]!), (← jArg a[1]!))
  match fitBind hasBases pos kw with
  | .error e => return errOut e
  | .ok r => return Json.mkObj [("bound", Json.mkObj (r.map fun e => (e.1, argOut e.2))),
      ("order", .arr (r.toArray.map fun e => .str e.1))]

end Drv.CallForm
