import DriverLib.Store
import QV.Model.PhaseAux
open Lean Drv QV QV.PhaseAux

namespace Drv.C20

def ne0 (x : Float) : Bool := x != 0.0

/-- op `c20.optim`: one scalar coordinate under `torch.optim.SGD` / `torch.optim.Adam`.
in : kind ("sgd"|"adam"), hyper-parameters (bit patterns), p0, grads;  out: the parameter after every step. -/
def optim (j : Json) : R Json := do
  let kind ← jStr (← fld j "kind")
  let p0 ← jFloat (← fld j "p0")
  let gs ← jFloatArr (← fld j "grads")
  let lr ← jFloat (← fld j "lr")
  let wd ← jFloat (← fld j "wd")
  if kind == "sgd" then
    let mom ← jFloat (← fld j "momentum")
    let damp ← jFloat (← fld j "dampening")
    let nest ← jBool (← fld j "nesterov")
    let c : SGDCfg Float := ⟨lr, mom, damp, wd, nest, ne0 mom, ne0 wd⟩
    let (_, out) := gs.foldl (fun (acc : SGDState Float × Array Float) g =>
      let s := sgdStep c acc.1 g; (s, acc.2.push s.p)) (⟨p0, none⟩, #[])
    return fArrOut out
  else
    let b1 ← jFloat (← fld j "beta1")
    let b2 ← jFloat (← fld j "beta2")
    let eps ← jFloat (← fld j "eps")
    let c : AdamCfg Float := ⟨lr, b1, b2, eps, wd, ne0 wd⟩
    let (_, out) := gs.foldl (fun (acc : AdamState Float × Array Float) g =>
      let s := adamStep c acc.1 g; (s, acc.2.push s.p)) (⟨p0, 0.0, 0.0, 0⟩, #[])
    return fArrOut out

/-- op `c20.auxgrad`: the phase-network aux-bias gradient entry assembled as in the code from arbitrary
coefficient arrays.  in: N, B, U (N×N×B×2), inv (B), sig (N×N×B×2), batch; out: phGradsAux of the first
sig (re, im), rotatedAux, batchGradAux of [rotatedAux, 0.0]. -/
def auxgrad (j : Json) : R Json := do
  let N ← jNat (← fld j "N")
  let B ← jNat (← fld j "B")
  let U ← jFloatArr (← fld j "U")
  let sg ← jFloatArr (← fld j "sig")
  let inv ← jFloatArr (← fld j "inv")
  let batch ← jFloat (← fld j "batch")
  checkVec U (N * N * B * 2) "U"; checkVec sg (N * N * B * 2) "sig"; checkVec inv B "inv"
  let at4 (a : Array Float) (i j b : Nat) : C Float := (a[((i * N + j) * B + b) * 2]!, a[((i * N + j) * B + b) * 2 + 1]!)
  let g : Fin N → Fin N → Fin B → C Float := fun i j b => phGradsAux (at4 sg i.val j.val b.val)
  let r := rotatedAux N B (fun i j b => at4 U i.val j.val b.val) (fun b => inv[b.val]!) g
  let g0 : C Float := phGradsAux (sg[0]!, sg[1]!)
  return Json.mkObj [("ph_re", fOut g0.1), ("ph_im", fOut g0.2), ("rotated", fOut r),
    ("batch", fOut (batchGradAux [r, 0.0] batch))]

def handle (op : String) (j : Json) : Option (R Json) :=
  match op with
  | "c20.run" => some (Drv.Store.runOps j)
  | "c20.optim" => some (optim j)
  | "c20.auxgrad" => some (auxgrad j)
  | _ => none

end Drv.C20
