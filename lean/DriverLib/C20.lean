import DriverLib.Store
import QV.Model.PhaseAux
import QV.Model.Optim
import QV.Model.InitLaw
open Lean Drv QV QV.PhaseAux QV.Optim

namespace Drv.C20

def ne0 (x : Float) : Bool := x != 0.0

/-- op `c20.optim`: one scalar coordinate under `torch.optim.SGD` / `torch.optim.Adam`.
in : kind ("sgd"|"adam"), hyper-parameters (bit patterns), p0, grads;  out: the parameter after every step. -/
def optim (j : Json) : R Json := do
  let kind ← jStr (← fld j "kind")
  let p0 ← jFloat (← fld j "p0")
  let gs ← jFloatArr (← fld j "grads")
  let lr ← jFloat (← fld j "lr")
  let wd ← jFloat (← fld j "wd")
  if kind == "sgd" then
    let mom ← jFloat (← fld j "momentum")
    let damp ← jFloat (← fld j "dampening")
    let nest ← jBool (← fld j "nesterov")
    let c : SGDCfg Float := ⟨lr, mom, damp, wd, nest, ne0 mom, ne0 wd⟩
    let (_, out) := gs.foldl (fun (acc : SGDState Float × Array Float) g =>
      let s := sgdStep c acc.1 g; (s, acc.2.push s.p)) (⟨p0, none⟩, #[])
    return fArrOut out
  else
    let b1 ← jFloat (← fld j "beta1")
    let b2 ← jFloat (← fld j "beta2")
    let eps ← jFloat (← fld j "eps")
    let c : AdamCfg Float := ⟨lr, b1, b2, eps, wd, ne0 wd⟩
    let (_, out) := gs.foldl (fun (acc : AdamState Float × Array Float) g =>
      let s := adamStep c acc.1 g; (s, acc.2.push s.p)) (⟨p0, 0.0, 0.0, 0⟩, #[])
    return fArrOut out

/-- op `c20.auxgrad`: the phase-network aux-bias gradient entry assembled as in the code from arbitrary
coefficient arrays.  in: N, B, U (N×N×B×2), inv (B), sig (N×N×B×2), batch; out: phGradsAux of the first
sig (re, im), rotatedAux, batchGradAux of [rotatedAux, 0.0]. -/
def auxgrad (j : Json) : R Json := do
  let N ← jNat (← fld j "N")
  let B ← jNat (← fld j "B")
  let U ← jFloatArr (← fld j "U")
  let sg ← jFloatArr (← fld j "sig")
  let inv ← jFloatArr (← fld j "inv")
  let batch ← jFloat (← fld j "batch")
  checkVec U (N * N * B * 2) "U"; checkVec sg (N * N * B * 2) "sig"; checkVec inv B "inv"
  let at4 (a : Array Float) (i j b : Nat) : C Float := (a[((i * N + j) * B + b) * 2]!, a[((i * N + j) * B + b) * 2 + 1]!)
  let g : Fin N → Fin N → Fin B → C Float := fun i j b => phGradsAux (at4 sg i.val j.val b.val)
  let r := rotatedAux N B (fun i j b => at4 U i.val j.val b.val) (fun b => inv[b.val]!) g
  let g0 : C Float := phGradsAux (sg[0]!, sg[1]!)
  return Json.mkObj [("ph_re", fOut g0.1), ("ph_im", fOut g0.2), ("rotated", fOut r),
    ("batch", fOut (batchGradAux [r, 0.0] batch))]

def fOr (j : Json) (k : String) (dflt : Float) : R Float :=
  match fldOpt j k with
  | none => .ok dflt
  | some v => jFloat v

def bOr (j : Json) (k : String) : R Bool :=
  match fldOpt j k with
  | none => .ok false
  | some v => jBool v

/-- op `c20.rule`: one scalar coordinate under one of the torch rules of `QV.Model.Optim`, with a learning rate that may
change from step to step (a scheduler).  in: kind, p0, grads, lrs (one learning rate per step), hyper-parameters
(bit patterns; missing = torch default is supplied by the harness), flags.  out: `Rule.trace` (parameter after every step). -/
def rule (j : Json) : R Json := do
  let kind ← jStr (← fld j "kind")
  let p0 ← jFloat (← fld j "p0")
  let gs ← jFloatArr (← fld j "grads")
  let lrs ← jFloatArr (← fld j "lrs")
  if lrs.size != gs.size then throw "lrs/grads: different lengths"
  let wd ← fOr j "wd" 0.0
  let eps ← fOr j "eps" 0.0
  let maxi ← bOr j "maximize"
  let steps : List (Float × Float) := (lrs.toList.zip gs.toList)
  match kind with
  | "sgd" =>
    let mom ← fOr j "momentum" 0.0
    let damp ← fOr j "dampening" 0.0
    let nest ← bOr j "nesterov"
    let cgs := steps.map fun (lr, g) => ((⟨⟨lr, mom, damp, wd, nest, ne0 mom, ne0 wd⟩, maxi⟩ : SGDX Float), g)
    return fListOut (sgdRule.trace ⟨p0, none⟩ cgs)
  | "adam" =>
    let b1 ← fOr j "beta1" 0.9
    let b2 ← fOr j "beta2" 0.999
    let dec ← bOr j "decoupled"
    let ams ← bOr j "amsgrad"
    let cgs := steps.map fun (lr, g) => ((⟨lr, b1, b2, eps, wd, ne0 wd, dec, ams, maxi⟩ : AdamX Float), g)
    return fListOut (adamRule.trace ⟨p0, 0.0, 0.0, 0.0, 0⟩ cgs)
  | "adadelta" =>
    let rho ← fOr j "rho" 0.9
    let cgs := steps.map fun (lr, g) => ((⟨lr, rho, eps, wd, ne0 wd, maxi⟩ : AdadeltaCfg Float), g)
    return fListOut (adadeltaRule.trace ⟨p0, 0.0, 0.0⟩ cgs)
  | "adagrad" =>
    let lrd ← fOr j "lr_decay" 0.0
    let iav ← fOr j "initial_accumulator_value" 0.0
    let cgs := steps.map fun (lr, g) => ((⟨lr, lrd, eps, wd, ne0 wd, maxi⟩ : AdagradCfg Float), g)
    return fListOut (adagradRule.trace ⟨p0, iav, 0⟩ cgs)
  | "rmsprop" =>
    let alpha ← fOr j "alpha" 0.99
    let mom ← fOr j "momentum" 0.0
    let cen ← bOr j "centered"
    let cgs := steps.map fun (lr, g) => ((⟨lr, alpha, eps, wd, ne0 wd, mom, mom > 0.0, cen, maxi⟩ : RMSpropCfg Float), g)
    return fListOut (rmspropRule.trace ⟨p0, 0.0, 0.0, 0.0⟩ cgs)
  | "adamax" =>
    let b1 ← fOr j "beta1" 0.9
    let b2 ← fOr j "beta2" 0.999
    let cgs := steps.map fun (lr, g) => ((⟨lr, b1, b2, eps, wd, ne0 wd, maxi⟩ : AdamaxCfg Float), g)
    return fListOut (adamaxRule.trace ⟨p0, 0.0, 0.0, 0⟩ cgs)
  | "nadam" =>
    let b1 ← fOr j "beta1" 0.9
    let b2 ← fOr j "beta2" 0.999
    let md ← fOr j "momentum_decay" 0.004
    let dec ← bOr j "decoupled"
    let cgs := steps.map fun (lr, g) => ((⟨lr, b1, b2, eps, wd, ne0 wd, dec, md, maxi⟩ : NAdamCfg Float), g)
    return fListOut (nadamRule.trace ⟨p0, 0.0, 0.0, 1.0, 0⟩ cgs)
  | _ => throw s!"unknown rule {kind}"

/-- op `c20.init_values`: the values written by a constructor (`form = "ctor"`: sizes `nh`/`na` may be null = omitted) or by
`initialize_parameters` (`form = "init"`: the module's size attributes `nh`, `na` as numbers) — `QV.InitLaw.construct` /
`QV.InitLaw.initParams` on the recorded standard-normal draws (bit patterns; positions past the end read 0).
out: W, U (null for binary), b, c, d (null for binary), sizes [nv, nh, na], consumed (new stream position). -/
def initValues (j : Json) : R Json := do
  let kind ← jStr (← fld j "kind")
  let k : QV.Store.NetKind ← (match kind with
    | "binary" => pure .binary
    | "purif" => pure .purif
    | _ => throw s!"unknown net kind {kind}")
  let form ← jStr (← fld j "form")
  let nv ← jNat (← fld j "nv")
  let zw ← jBool (← fld j "zero")
  let ds ← jFloatArr (← fld j "draws")
  let draws : Nat → Float := fun t => ds.getD t 0.0
  let nh ← Drv.Store.jOptNat j "nh"
  let na ← Drv.Store.jOptNat j "na"
  let (r, sizes) ← (match form with
    | "ctor" => pure (QV.InitLaw.construct k nv nh na zw draws 0, QV.InitLaw.ctorSizes k nv nh na)
    | "init" => pure (QV.InitLaw.initParams k nv (nh.getD 0) (na.getD 0) zw draws 0, (nv, nh.getD 0, na.getD 0))
    | _ => throw s!"unknown form {form}")
  let mOut (m : List (List Float)) : Json := .arr (m.toArray.map fListOut)
  return Json.mkObj [("W", mOut r.1.W), ("U", match r.1.U with | some u => mOut u | none => .null),
    ("b", fListOut r.1.b), ("c", fListOut r.1.c), ("d", match r.1.d with | some d => fListOut d | none => .null),
    ("sizes", .arr #[nOut sizes.1, nOut sizes.2.1, nOut sizes.2.2]), ("consumed", nOut r.2)]

def handle (op : String) (j : Json) : Option (R Json) :=
  match op with
  | "c20.run" => some (Drv.Store.runOps j)
  | "c20.optim" => some (optim j)
  | "c20.auxgrad" => some (auxgrad j)
  | "c20.rule" => some (rule j)
  | "c20.init_values" => some (initValues j)
  | _ => none

end Drv.C20
