import DriverLib.Basic
import DriverLib.C13
import QV.Model.Composite
import QV.Model.Observables
open Lean Drv QV QV.Composite

namespace Drv.C16

def kindOf (s : String) : R Kind :=
  match s with
  | "bool" => .ok .bool | "int" => .ok .int | "float" => .ok .float | "npfloat" => .ok .npfloat | "bad" => .ok .bad
  | _ => .error s!"unknown scalar kind {s}"

def kindStr : Kind → String
  | .bool => "bool" | .int => "int" | .float => "float" | .npfloat => "npfloat" | .bad => "bad"

/-- expression trees: ["leaf", i] | ["const", kind, c] | ["neg", e] | ["add"|"sub"|"mul", a, b] -/
partial def parseExpr {α : Type} (num : Json → R α) (j : Json) : R (Expr α) := do
  let a ← jArr j
  let tag ← jStr (a.getD 0 .null)
  match tag with
  | "leaf" => return .leaf (← jNat (a.getD 1 .null))
  | "const" => return .const (← kindOf (← jStr (a.getD 1 .null))) (← num (a.getD 2 .null))
  | "neg" => return .neg (← parseExpr num (a.getD 1 .null))
  | "add" => return .add (← parseExpr num (a.getD 1 .null)) (← parseExpr num (a.getD 2 .null))
  | "sub" => return .sub (← parseExpr num (a.getD 1 .null)) (← parseExpr num (a.getD 2 .null))
  | "mul" => return .mul (← parseExpr num (a.getD 1 .null)) (← parseExpr num (a.getD 2 .null))
  | t => throw s!"unknown expr tag {t}"

mutual
partial def obsOut {α : Type} (out : α → Json) : Obs α → Json
  | .leaf i => .arr #[.str "leaf", nOut i]
  | .sum l r => .arr #[.str "sum", argOut out l, argOut out r]
  | .prod k c o => .arr #[.str "prod", .str (kindStr k), out c, obsOut out o]
partial def argOut {α : Type} (out : α → Json) : Arg α → Json
  | .scal k c => .arr #[.str "scal", .str (kindStr k), out c]
  | .obs o => obsOut out o
end

def runBuild {α : Type} [Add α] [Mul α] [Neg α] [Sub α] [Zero α] [One α] [Inhabited α]
    (num : Json → R α) (out : α → Json) (j : Json) : R (List (String × Json) × Option (List α)) := do
  let e ← parseExpr num (← fld j "expr")
  let valsJ ← jArr (← fld j "vals")
  let vals ← valsJ.mapM (fun row => do (← jArr row).mapM num)
  let B ← jNat (← fld j "batch")
  let batch : List (Nat → α) := (List.range B).map (fun s => fun i => (vals.getD i #[]).getD s default)
  let ev : Json := .arr ((evalBatch e batch).toArray.map out)
  match build e with
  | .error err => return ([("error", .str err.toString)], none)
  | .ok (.scal k c) => return ([("kind", .str "scalar"), ("tree", argOut out (.scal k c)), ("eval", ev)], none)
  | .ok (.obs o) =>
    let ap := o.applyBatch batch
    return ([("kind", .str "obs"), ("tree", obsOut out o), ("apply", .arr (ap.toArray.map out)), ("eval", ev)], some ap)

/-- op `c16.build`: build the expression through the modelled operator overloads, apply it to the batch.
carrier "int": exact integer arithmetic; carrier "float": IEEE doubles (+ statistics_from_samples). -/
def buildOp (j : Json) : R Json := do
  let carrier ← jStr (← fld j "carrier")
  if carrier == "int" then
    let (fields, _) ← runBuild (α := Int) jInt iOut j
    return Json.mkObj fields
  else
    let e ← parseExpr jFloat (← fld j "expr")
    let (fields, _) ← runBuild (α := Float) jFloat fOut j
    let valsJ ← jArr (← fld j "vals")
    let vals ← valsJ.mapM jFloatArr
    let B ← jNat (← fld j "batch")
    let batch : List (Nat → Float) := (List.range B).map (fun s => fun i => (vals.getD i #[]).getD s 0.0)
    let stats : List (String × Json) := match build e with
      | .ok (.obs o) => [("stats", match o.statisticsFromSamples batch with
          | .ok s => Drv.C13.statOut s
          | .error err => errOut err)]
      | _ => []
    return Json.mkObj (fields ++ stats)

/-- op `c16.ctor`: the constructors called directly — `which` = "sum" | "prod" on the operands obtained by building
the expressions `a` and `b` (`mkSum` / `mkProd`); the specification side is `a + b` / `a * b` evaluated on the leaf
values. -/
def ctorRun {α : Type} [Add α] [Mul α] [Neg α] [Sub α] [Zero α] [One α] [Inhabited α]
    (num : Json → R α) (out : α → Json) (j : Json) : R Json := do
  let ea ← parseExpr num (← fld j "a")
  let eb ← parseExpr num (← fld j "b")
  let which ← jStr (← fld j "which")
  let valsJ ← jArr (← fld j "vals")
  let vals ← valsJ.mapM (fun row => do (← jArr row).mapM num)
  let B ← jNat (← fld j "batch")
  let batch : List (Nat → α) := (List.range B).map (fun s => fun i => (vals.getD i #[]).getD s default)
  match build ea, build eb with
  | .error err, _ => return Json.mkObj [("operand_error", .str err.toString)]
  | _, .error err => return Json.mkObj [("operand_error", .str err.toString)]
  | .ok va, .ok vb =>
    let spec : Expr α := if which == "sum" then .add ea eb else .mul ea eb
    match (if which == "sum" then mkSum va vb else mkProd va vb) with
    | .error err => return Json.mkObj [("error", .str err.toString)]
    | .ok o =>
      return Json.mkObj [("tree", obsOut out o), ("apply", .arr ((o.applyBatch batch).toArray.map out)),
        ("apply1", out (o.apply (fun i => (vals.getD i #[]).getD 0 default))),
        ("eval", .arr ((evalBatch spec batch).toArray.map out))]

def ctorOp (j : Json) : R Json := do
  let carrier ← jStr (← fld j "carrier")
  if carrier == "int" then ctorRun (α := Int) jInt iOut j else ctorRun (α := Float) jFloat fOut j

/-- op `c16.statistics`: `statistics()` of the composite built from `expr` on a recorded run (fields of
`c13.statistics`'s run description): `vals[d][i][s]` = value of leaf `i` at chain `s` of the state returned by sampler
call `d`. Runs `Obs.statistics` = the C13 streaming model on the composite's `applyBatch`. -/
def statisticsOp (j : Json) : R Json := do
  let e ← parseExpr jFloat (← fld j "expr")
  let (env, args) ← Drv.C13.parseRun j
  let valsJ ← jArr (← fld j "vals")
  let vals ← valsJ.mapM (fun d => do (← jArr d).mapM jFloatArr)
  let leaves : Drv.C13.DS → List (Nat → Float) := fun st =>
    if st.draw == 0 then [] else
      let d := vals.getD (st.draw - 1) #[]
      let B := (d.getD 0 #[]).size
      (List.range B).map (fun s => fun i => (d.getD i #[]).getD s 0.0)
  let setup := Stats.chainSetup env args
  let hdr : List (String × Json) := [("c", nOut setup.2),
    ("T", match Stats.numTimeSteps args.numSamples setup.2 with | .ok T => nOut T | .error err => errOut err)]
  match build e with
  | .error err => return Json.mkObj (hdr ++ [("error", .str err.toString)])
  | .ok (.scal _ _) => return Json.mkObj (hdr ++ [("error", .str "scalar")])
  | .ok (.obs o) =>
    let all : List Float := ((List.range vals.size).map (fun d => evalBatch e (leaves ⟨0, d + 1⟩))).flatten
    let one : Json := match Stats.fromSamples all with
      | .ok s => Drv.C13.statOut s
      | .error err => errOut err
    match o.statistics env leaves args with
    | .error err => return Json.mkObj (hdr ++ [("result", errOut err), ("onepass", one)])
    | .ok (s, tr) =>
      return Json.mkObj (hdr ++ [("result", Drv.C13.statOut s), ("onepass", one),
        ("calls", .arr (tr.toArray.map Drv.C13.callOut))])


/-- Python's `repr` / `str` of an INTEGER-VALUED scalar of each kind (`True`, `-3`, `2.0`, `np.float64(2.0)` / `2.0`) -/
def intRender : Render Int :=
  { repr := fun k c => match k with
      | .bool => if c != 0 then "True" else "False"
      | .int => toString c
      | .float => toString c ++ ".0"
      | .npfloat => "np.float64(" ++ toString c ++ ".0)"
      | .bad => "?"
    str := fun k c => match k with
      | .bool => if c != 0 then "True" else "False"
      | .int => toString c
      | .float => toString c ++ ".0"
      | .npfloat => toString c ++ ".0"
      | .bad => "?" }

def parseFlag (j : Json) : R PyFlag := do
  let form ← jNat (← fld j "form")
  let v ← jInt (← fld j "value")
  return match form with
    | 0 => .pyBool (v != 0)
    | 1 => .pyInt v
    | 2 => .npBool (v != 0)
    | 3 => .npArr0 (v != 0)
    | _ => .tensor0 (v != 0)

def optStr (j : Json) (k : String) : R (Option String) :=
  match fldOpt j k with
  | none => pure none
  | some .null => pure none
  | some v => do return some (← jStr v)

/-- a leaf object: `{"builtin": "SigmaX"|"SigmaY"|"SigmaZ"|"SWAP"}`, `{"builtin": "NI", "periodic": flag, "c": n}` (→ `Builtin.names`), or a user class `{"cls": name, "name": str|null, "symbol": str|null}` (what was
assigned through the setters, null = never / `None`) -/
def parseIdent (j : Json) : R Composite.Ident := do
  match fldOpt j "builtin" with
  | some b =>
    let tag ← jStr b
    let bi : Builtin ← (match tag with
      | "SigmaX" => pure Builtin.sigmaX | "SigmaY" => pure Builtin.sigmaY | "SigmaZ" => pure Builtin.sigmaZ
      | "SWAP" => pure Builtin.swap
      | "NI" => do
        let p ← parseFlag (← fld j "periodic")
        pure (Builtin.neighbour p (← jNat (← fld j "c")))
      | t => .error s!"unknown builtin {t}")
    let (cls, nm, sy) := bi.names
    -- `__init__` assigns through the setters
    return (Composite.Ident.setSymbol (Composite.Ident.setName ⟨cls, none, none⟩ (some nm)) (some sy))
  | none =>
    let cls ← jStr (← fld j "cls")
    return (Composite.Ident.setSymbol (Composite.Ident.setName ⟨cls, none, none⟩ (← optStr j "name")) (← optStr j "symbol"))

/-- op `c16.names`: `name` / `symbol` of the object built from `expr` over the leaves `leaves` (integer carrier), both
through the modelled constructors (`buildN`) and from the specification (`exprText`); with `ctor` = "sum" | "prod" the
constructor is called directly on the operands built from `a` and `b` with the optional `name=` / `symbol=` arguments. -/
def namesOp (j : Json) : R Json := do
  let idsA ← (← jArr (← fld j "leaves")).mapM parseIdent
  let ids : Nat → Composite.Ident := fun i => idsA.getD i ⟨"?", none, none⟩
  let leafOut : Json := .arr (idsA.map (fun i => Json.arr #[.str i.getName, .str i.getSymbol]))
  match fldOpt j "ctor" with
  | some w =>
    let which ← jStr w
    let ea ← parseExpr jInt (← fld j "a")
    let eb ← parseExpr jInt (← fld j "b")
    let nm ← optStr j "name"
    let sy ← optStr j "symbol"
    match buildN intRender ids ea, buildN intRender ids eb with
    | .error err, _ => return Json.mkObj [("operand_error", .str err.toString), ("leaves", leafOut)]
    | _, .error err => return Json.mkObj [("operand_error", .str err.toString), ("leaves", leafOut)]
    | .ok va, .ok vb =>
      match (if which == "sum" then mkSumN intRender va vb nm sy else mkProdN intRender va vb nm sy) with
      | .error err => return Json.mkObj [("error", .str err.toString), ("leaves", leafOut)]
      | .ok n => return Json.mkObj [("kind", .str "obs"), ("name", .str n.name), ("symbol", .str n.symbol),
          ("tree", obsOut iOut n.o), ("leaves", leafOut)]
  | none =>
    let e ← parseExpr jInt (← fld j "expr")
    match buildN intRender ids e with
    | .error err => return Json.mkObj [("error", .str err.toString), ("leaves", leafOut)]
    | .ok (.scal k c) => return Json.mkObj [("kind", .str "scalar"), ("name", .str (intRender.repr k c)),
        ("symbol", .str (intRender.str k c)), ("leaves", leafOut)]
    | .ok (.obs n) =>
      return Json.mkObj [("kind", .str "obs"), ("name", .str n.name), ("symbol", .str n.symbol),
        ("spec_name", .str (exprText intRender ids true e)), ("spec_symbol", .str (exprText intRender ids false e)),
        ("tree", obsOut iOut n.o), ("leaves", leafOut)]

def handle (op : String) (j : Json) : Option (R Json) :=
  match op with
  | "c16.build" => some (buildOp j)
  | "c16.ctor" => some (ctorOp j)
  | "c16.statistics" => some (statisticsOp j)
  | "c16.names" => some (namesOp j)
  | _ => none

end Drv.C16
