import DriverLib.Basic
import QV.Model.CallShape
open Lean QV

/-! tensor arguments / results of the call-form ops (`c01.callform`, `c02.callform`, `c05.callform`):
a tensor argument `(…lead…, n)` crosses the protocol as `{"shape": lead, "rows": [[n floats] …]}` (rows in row-major order of the
leading axes); a result as `{"shape": […], "data": [[entry floats] …]}` (row-major; an entry is 1 float, a (re, im) pair or a
probability vector) or `{"error": …}`. -/
namespace Drv

def parseFT (j : Json) (n : Nat) : R (FT (Fin n → Float)) := do
  let shape ← jNatArr (← fld j "shape")
  let rows ← parseRows (← fld j "rows") n
  let lead := shape.toList
  if rows.size != Cplx.numel lead then throw "tensor argument: number of rows does not match the leading shape"
  return ⟨lead, fun idx => rows.getD (Cplx.flatten lead idx) (fun _ => 0.0)⟩

def parseFTOpt (j : Json) (k : String) (n : Nat) : R (Option (FT (Fin n → Float))) :=
  match fldOpt j k with
  | none => pure none
  | some .null => pure none
  | some t => do return some (← parseFT t n)

def ftOut {β : Type} (enc : β → Array Float) (r : Except PyErr (FT β)) : Json :=
  match r with
  | .error e => errOut e
  | .ok t => Json.mkObj [("shape", .arr (t.shape.toArray.map nOut)),
      ("data", .arr ((Cplx.allIdx t.shape).toArray.map fun idx => fArrOut (enc (t.get idx))))]

def encScalar (x : Float) : Array Float := #[x]
def encPair (x : Float × Float) : Array Float := #[x.1, x.2]
def encVec {m : Nat} (f : Fin m → Float) : Array Float := Array.ofFn f

end Drv
