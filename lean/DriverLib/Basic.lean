/-
DriverLib.Basic — JSON line protocol helpers for the model driver.
Floats travel as IEEE-754 bit patterns (non-negative integers), so that both sides
see identical operands.
-/
import Lean.Data.Json
import QV.Model.Rbm
import QV.Model.Hilbert
open Lean

namespace Drv

abbrev R := Except String

def jNat (j : Json) : R Nat :=
  match j with
  | .num n => if n.exponent == 0 && n.mantissa ≥ 0 then .ok n.mantissa.toNat else .error s!"not a nat: {j}"
  | _ => .error s!"not a number: {j}"

def jInt (j : Json) : R Int :=
  match j with
  | .num n => if n.exponent == 0 then .ok n.mantissa else .error s!"not an int: {j}"
  | _ => .error s!"not a number: {j}"

/-- a float given by its bit pattern -/
def jFloat (j : Json) : R Float := do
  let n ← jNat j
  return Float.ofBits n.toUInt64

def jArr (j : Json) : R (Array Json) :=
  match j with
  | .arr a => .ok a
  | _ => .error s!"not an array: {j.compress.take 80}"

def jFloatArr (j : Json) : R (Array Float) := do (← jArr j).mapM jFloat
def jFloatMat (j : Json) : R (Array (Array Float)) := do (← jArr j).mapM jFloatArr
def jNatArr (j : Json) : R (Array Nat) := do (← jArr j).mapM jNat
def jIntArr (j : Json) : R (Array Int) := do (← jArr j).mapM jInt
def jStr (j : Json) : R String :=
  match j with
  | .str s => .ok s
  | _ => .error s!"not a string: {j.compress.take 80}"
def jBool (j : Json) : R Bool :=
  match j with
  | .bool b => .ok b
  | _ => .error s!"not a bool: {j.compress.take 80}"

def fld (j : Json) (k : String) : R Json :=
  match j.getObjVal? k with
  | .ok v => .ok v
  | .error _ => .error s!"missing field {k}"

def fldOpt (j : Json) (k : String) : Option Json :=
  match j.getObjVal? k with
  | .ok .null => none
  | .ok v => some v
  | .error _ => none

def fOut (x : Float) : Json := .num ⟨(x.toBits.toNat : Int), 0⟩
def fArrOut (xs : Array Float) : Json := .arr (xs.map fOut)
def fListOut (xs : List Float) : Json := .arr (xs.toArray.map fOut)
def nOut (n : Nat) : Json := .num ⟨(n : Int), 0⟩
def iOut (n : Int) : Json := .num ⟨n, 0⟩

def vecFn (a : Array Float) (n : Nat) : Fin n → Float := fun i => a[i.val]!
def matFn (a : Array (Array Float)) (r c : Nat) : Fin r → Fin c → Float := fun i j => (a[i.val]!)[j.val]!
def tab {n : Nat} (f : Fin n → Float) : Array Float := Array.ofFn f

def checkVec (a : Array Float) (n : Nat) (what : String) : R Unit :=
  if a.size == n then .ok () else .error s!"{what}: expected length {n}, got {a.size}"
def checkMat (a : Array (Array Float)) (r c : Nat) (what : String) : R Unit :=
  if a.size == r && a.all (·.size == c) then .ok () else .error s!"{what}: expected shape {r}x{c}"

/-- parse `{"W": [[..]], "b": [..], "c": [..]}` into an `RBM Float n h` -/
def parseRBM (j : Json) (n h : Nat) : R (QV.RBM Float n h) := do
  let W ← jFloatMat (← fld j "W")
  let b ← jFloatArr (← fld j "b")
  let c ← jFloatArr (← fld j "c")
  checkMat W h n "W"; checkVec b n "b"; checkVec c h "c"
  return ⟨matFn W h n, vecFn b n, vecFn c h⟩

def parsePRBM (j : Json) (n h a : Nat) : R (QV.PRBM Float n h a) := do
  let W ← jFloatMat (← fld j "W")
  let U ← jFloatMat (← fld j "U")
  let b ← jFloatArr (← fld j "b")
  let c ← jFloatArr (← fld j "c")
  let d ← jFloatArr (← fld j "d")
  checkMat W h n "W"; checkMat U a n "U"; checkVec b n "b"; checkVec c h "c"; checkVec d a "d"
  return ⟨matFn W h n, matFn U a n, vecFn b n, vecFn c h, vecFn d a⟩

/-- visible rows (each of length n) -/
def parseRows (j : Json) (n : Nat) : R (Array (Fin n → Float)) := do
  let m ← jFloatMat j
  m.mapM (fun row => do checkVec row n "row"; return vecFn row n)

def errOut (e : QV.PyErr) : Json := Json.mkObj [("error", .str e.toString)]

end Drv
