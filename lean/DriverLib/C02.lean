import DriverLib.Basic
import DriverLib.Flag
import DriverLib.CallShape
import QV.Model.States
import QV.Model.Density
open Lean Drv QV

namespace Drv.C02

def fMatOut {B B' : Nat} (f : Fin B → Fin B' → Float) : Json :=
  .arr (Array.ofFn fun i => fArrOut (Array.ofFn fun j => f i j))

def fVecOut {B : Nat} (f : Fin B → Float) : Json := fArrOut (Array.ofFn f)

/-- the 0/1 rows of a Json matrix, as a function on `Fin B` (B = number of rows) -/
def rowsFn {n : Nat} (rows : Array (Fin n → Float)) : Fin rows.size → Fin n → Float := fun i => rows[i]

/-- op `c02.eval`: evaluate the mixed-state model.
in : n, h, a, am, ph (PRBM parameter records), rows (B×n), rows2 (B'×n)      — `expand=True` operands
     prows, prows2 (P×n each)                                               — `expand=False` operands
     vrows, vrows2 (Q×n each)                                               — 1-D operands, pair q = (vrows[q], vrows2[q])
     auxrows (C×a)                                                          — explicit auxiliary configurations
out: energies (traced, and per (row, aux) un-traced) of both networks; gamma(±) of both networks, pi, rho in the
     three call forms; probability (Z = 1 and Z = normalization), rhoDiag, normalization over the model's own
     generated Hilbert space. -/
def eval (j : Json) : R Json := do
  let n ← jNat (← fld j "n")
  let h ← jNat (← fld j "h")
  let a ← jNat (← fld j "a")
  let am ← parsePRBM (← fld j "am") n h a
  let ph ← parsePRBM (← fld j "ph") n h a
  let rows ← parseRows (← fld j "rows") n
  let rows2 ← parseRows (← fld j "rows2") n
  let prows ← parseRows (← fld j "prows") n
  let prows2 ← parseRows (← fld j "prows2") n
  let vrows ← parseRows (← fld j "vrows") n
  let vrows2 ← parseRows (← fld j "vrows2") n
  let auxrows ← parseRows (← fld j "auxrows") a
  if prows.size != prows2.size then throw "prows/prows2: different batch sizes (torch would fail to broadcast)"
  if vrows.size != vrows2.size then throw "vrows/vrows2: different lengths"
  let vs := rowsFn rows
  let ws := rowsFn rows2
  let ps := rowsFn prows
  let ps2 : Fin prows.size → Fin n → Float := fun i => prows2[i.val]!
  let Z := Density.normalization am (fun k : Fin (2 ^ n) => (spaceRow n k.val : Fin n → Float))
  -- expand=True
  let gm (r : PRBM Float n h a) (s : Float) := fMatOut (r.gammaMatrix s vs ws)
  let piM := Density.piMatrix am ph vs ws
  let rhoM := Density.rhoMatrix am ph vs ws
  let matrix := Json.mkObj [
    ("gamma_am_p", gm am 1.0), ("gamma_am_m", gm am (-1.0)),
    ("gamma_ph_p", gm ph 1.0), ("gamma_ph_m", gm ph (-1.0)),
    ("pi_re", fMatOut fun i j => (piM i j).1), ("pi_im", fMatOut fun i j => (piM i j).2),
    ("rho_re", fMatOut fun i j => (rhoM i j).1), ("rho_im", fMatOut fun i j => (rhoM i j).2)]
  -- expand=False
  let piP := Density.piPaired am ph ps ps2
  let rhoP := Density.rhoPaired am ph ps ps2
  let paired := Json.mkObj [
    ("gamma_am_p", fVecOut (am.gammaPaired 1.0 ps ps2)), ("gamma_am_m", fVecOut (am.gammaPaired (-1.0) ps ps2)),
    ("gamma_ph_p", fVecOut (ph.gammaPaired 1.0 ps ps2)), ("gamma_ph_m", fVecOut (ph.gammaPaired (-1.0) ps ps2)),
    ("pi_re", fVecOut fun i => (piP i).1), ("pi_im", fVecOut fun i => (piP i).2),
    ("rho_re", fVecOut fun i => (rhoP i).1), ("rho_im", fVecOut fun i => (rhoP i).2)]
  -- 1-D
  let vec := (Array.range vrows.size).map fun q =>
    let v := vrows[q]!
    let vp := vrows2[q]!
    let p := Density.pi am ph v vp
    let r := Density.rhoVec am ph v vp
    Json.mkObj [
      ("gamma_am_p", fOut (am.gammaVec 1.0 v vp)), ("gamma_am_m", fOut (am.gammaVec (-1.0) v vp)),
      ("gamma_ph_p", fOut (ph.gammaVec 1.0 v vp)), ("gamma_ph_m", fOut (ph.gammaVec (-1.0) v vp)),
      ("pi_re", fOut p.1), ("pi_im", fOut p.2), ("rho_re", fOut r.1), ("rho_im", fOut r.2)]
  -- per row of `rows`
  let perRow := rows.map fun v =>
    let d := Density.rhoDiag am v
    Json.mkObj [
      ("E_am", fOut (am.effEnergy v)), ("E_ph", fOut (ph.effEnergy v)),
      ("Eaux_am", fArrOut (auxrows.map fun ax => am.effEnergyAux v ax)),
      ("Eaux_ph", fArrOut (auxrows.map fun ax => ph.effEnergyAux v ax)),
      ("prob1", fOut (Density.probability am v 1.0)),
      ("probZ", fOut (Density.probability am v Z)),
      ("diag_re", fOut d.1), ("diag_im", fOut d.2)]
  return Json.mkObj [("matrix", matrix), ("paired", paired), ("vec", .arr vec), ("rows", .arr perRow), ("Z", fOut Z)]

/-- op `c02.full`: `rho(space, space)`, probabilities and normalisation over the model's own generated space -/
def full (j : Json) : R Json := do
  let n ← jNat (← fld j "n")
  let h ← jNat (← fld j "h")
  let a ← jNat (← fld j "a")
  let am ← parsePRBM (← fld j "am") n h a
  let ph ← parsePRBM (← fld j "ph") n h a
  let rhoM := Density.rhoFull am ph
  let Z := Density.normalization am (fun k : Fin (2 ^ n) => (spaceRow n k.val : Fin n → Float))
  return Json.mkObj [
    ("rho_re", fMatOut fun i j => (rhoM i j).1), ("rho_im", fMatOut fun i j => (rhoM i j).2),
    ("prob1", fVecOut fun k : Fin (2 ^ n) => Density.probability am (spaceRow n k.val) 1.0),
    ("Z", fOut Z)]

/-- op `c02.paired_batch`: outcome class of an `expand=False` call with batch sizes B, B' -/
def pairedBatch (j : Json) : R Json := do
  let B ← jNat (← fld j "B")
  let B' ← jNat (← fld j "B2")
  match Density.pairedBatch B B' with
  | .ok k => return Json.mkObj [("size", nOut k)]
  | .error e => return errOut e

def parseRank (j : Json) : R Density.ArgRank :=
  match j with
  | .str "vec" => .ok .vec
  | _ => do return .batch (← jNat j)

/-- op `c02.rho_outcome`: result shape / exception class of `rho(v, vp, expand)` by argument rank and dtype
(`Density.rhoOutcome`). in: v = "vec" | B, vp = "none" | "vec" | B', expand, double (bool) -/
def rhoOutcome (j : Json) : R Json := do
  let v ← parseRank (← fld j "v")
  let vpj ← fld j "vp"
  let vp ← match vpj with
    | .str "none" => pure none
    | _ => do pure (some (← parseRank vpj))
  let expand ← jBool (← fld j "expand")
  let dbl ← jBool (← fld j "double")
  match Density.rhoOutcome v vp expand (if dbl then .double else .other) with
  | .ok sh => return Json.mkObj [("shape", .arr (sh.toArray.map nOut))]
  | .error e => return errOut e

/-- op `c02.mixed`: the elements of the mixed-rank forms. in: n,h,a,am,ph, v (n), rows (B×n).
out: vec_batch[j] = rho v rows[j] (`rho(v, rows, expand=False)`), batch_vec[i] = rho rows[i] v -/
def mixed (j : Json) : R Json := do
  let n ← jNat (← fld j "n")
  let h ← jNat (← fld j "h")
  let a ← jNat (← fld j "a")
  let am ← parsePRBM (← fld j "am") n h a
  let ph ← parsePRBM (← fld j "ph") n h a
  let rows ← parseRows (← fld j "rows") n
  let v1 ← jFloatArr (← fld j "v")
  checkVec v1 n "v"
  let v := vecFn v1 n
  let vb := Density.rhoVecBatch am ph v (rowsFn rows)
  let bv := Density.rhoBatchVec am ph (rowsFn rows) v
  return Json.mkObj [
    ("vec_batch_re", fVecOut fun i => (vb i).1), ("vec_batch_im", fVecOut fun i => (vb i).2),
    ("batch_vec_re", fVecOut fun i => (bv i).1), ("batch_vec_im", fVecOut fun i => (bv i).2)]

def formOut (f : Density.CallForm) : Json :=
  .str (match f with | .matrix => "matrix" | .paired => "paired" | .diag => "diag")

/-- op `c02.flagged`: `rho(rows, rows2 | None, expand)` with `expand` the OBJECT the caller passed (`Density.rhoFlagged`), plus the
layouts `gamma` and `pi` choose for that object (`Density.gammaForm`, `Density.piForm`).
in : n, h, a, am, ph, rows (B×n), rows2 (B×n | null = `vp=None`), expand (flag descriptor), values (bool: evaluate the elements)
out: gamma_form, pi_form, rho_form ("matrix" | "paired" | "diag" | "none"), layout ("matrix" | "vector" | "none"), re, im -/
def flagged (j : Json) : R Json := do
  let n ← jNat (← fld j "n")
  let h ← jNat (← fld j "h")
  let a ← jNat (← fld j "a")
  let am ← parsePRBM (← fld j "am") n h a
  let ph ← parsePRBM (← fld j "ph") n h a
  let rows ← parseRows (← fld j "rows") n
  let expand ← parseFlag (← fld j "expand")
  let vs := rowsFn rows
  let vps : Option (Fin rows.size → Fin n → Float) ← match fldOpt j "rows2" with
    | none => pure none
    | some r2 => do
      let rows2 ← parseRows r2 n
      if rows2.size != rows.size then throw "c02.flagged: rows/rows2 must have the same batch size"
      pure (some fun i => rows2[i.val]!)
  let forms := [("gamma_form", formOut (Density.gammaForm expand)), ("pi_form", formOut (Density.piForm expand)),
    ("rho_form", match Density.rhoForm expand vps.isNone with | some f => formOut f | none => .str "none")]
  let values ← match fldOpt j "values" with
    | some v => jBool v
    | none => pure true
  if !values then return Json.mkObj forms
  match Density.rhoFlagged am ph expand vs vps with
  | none => return Json.mkObj (forms ++ [("layout", .str "none")])
  | some (.matrix m) =>
    return Json.mkObj (forms ++ [("layout", .str "matrix"), ("re", fMatOut fun i j => (m i j).1), ("im", fMatOut fun i j => (m i j).2)])
  | some (.vector p) =>
    return Json.mkObj (forms ++ [("layout", .str "vector"), ("re", fVecOut fun i => (p i).1), ("im", fVecOut fun i => (p i).2)])

/-- op `c02.callform`: `rho` / `pi` / `gamma` as written, on tensor arguments of any rank combination.
in : fn ("rho"|"pi"|"gamma_am_p"|"gamma_am_m"|"gamma_ph_p"|"gamma_ph_m"), n, h, a, am, ph, v = {shape, rows}, vp = {shape, rows} | null,
     expand (bool)
out: {shape, data} | {error} -/
def callform (j : Json) : R Json := do
  let fn ← jStr (← fld j "fn")
  let n ← jNat (← fld j "n")
  let h ← jNat (← fld j "h")
  let a ← jNat (← fld j "a")
  let am ← parsePRBM (← fld j "am") n h a
  let ph ← parsePRBM (← fld j "ph") n h a
  let v ← parseFT (← fld j "v") n
  let vp ← parseFTOpt j "vp" n
  let expand ← jBool (← fld j "expand")
  let both : R (FT (Fin n → Float)) := match vp with
    | some w => pure w
    | none => throw "c02.callform: pi / gamma need vp"
  match fn with
  | "rho" => return ftOut encPair (Density.rhoCall am ph v vp expand)
  | "pi" => do return ftOut encPair (Density.piCall am ph v (← both) expand)
  | "gamma_am_p" => do return ftOut encScalar (am.gammaCall 1.0 v (← both) expand)
  | "gamma_am_m" => do return ftOut encScalar (am.gammaCall (-1.0) v (← both) expand)
  | "gamma_ph_p" => do return ftOut encScalar (ph.gammaCall 1.0 v (← both) expand)
  | "gamma_ph_m" => do return ftOut encScalar (ph.gammaCall (-1.0) v (← both) expand)
  | _ => throw s!"c02.callform: unknown fn {fn}"

def handle (op : String) (j : Json) : Option (R Json) :=
  match op with
  | "c02.flagged" => some (flagged j)
  | "c02.callform" => some (callform j)
  | "c02.rho_outcome" => some (rhoOutcome j)
  | "c02.mixed" => some (mixed j)
  | "c02.paired_batch" => some (pairedBatch j)
  | "c02.eval" => some (eval j)
  | "c02.full" => some (full j)
  | _ => none

end Drv.C02
