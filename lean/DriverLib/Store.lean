/-
DriverLib.Store — JSON front-end of the heap model `QV.Model.Store` (shared by the C11 and C20 handlers):
parse a history of operations, run `QV.Store.trace` from the empty world, print every world.
-/
import DriverLib.Basic
import QV.Model.Store
open Lean Drv QV.Store

namespace Drv.Store

def jOptNat (j : Json) (k : String) : R (Option Nat) :=
  match fldOpt j k with
  | none => .ok none
  | some v => do return some (← jNat v)

def jNatList (j : Json) : R (List Nat) := do return (← jNatArr j).toList
def jNatListList (j : Json) : R (List (List Nat)) := do return (← (← jArr j).mapM jNatList).toList

def jKind (j : Json) : R Kind := do
  match (← jStr j) with
  | "pos" => return .pos
  | "cplx" => return .cplx
  | "dens" => return .dens
  | s => throw s!"bad kind {s}"

def jNetKind (j : Json) : R NetKind := do
  match (← jStr j) with
  | "binary" => return .binary
  | "purif" => return .purif
  | s => throw s!"bad net kind {s}"

def jPair (j : Json) : R (Json × Json) := do
  let a ← jArr j
  if a.size == 2 then return (a[0]!, a[1]!) else throw "expected a pair"

/-- `[[name, tok], …]` or null -/
def jUD (j : Json) (k : String) : R (Option (List (String × Tok))) :=
  match fldOpt j k with
  | none => .ok none
  | some v => do
    let xs ← (← jArr v).mapM (fun e => do let (a, b) ← jPair e; return ((← jStr a), (← jNat b)))
    return some xs.toList

def jKey (j : Json) : R MKey :=
  match j with
  | .str s => .ok (.str s)
  | .num n => if n.exponent == 0 then .ok (.int n.mantissa) else .error "bad key"
  | _ => .error "bad key"

/-- metadata entries `[[key, mapping, tok], …]` -/
def jEntries (j : Json) : R MDict := do
  let xs ← (← jArr j).mapM (fun e => do
    let a ← jArr e
    if a.size != 3 then throw "entry: expected [key, mapping, tok]"
    return ((← jKey a[0]!), FVal.mv (← jBool a[1]!) (← jNat a[2]!)))
  return xs.toList

def parseOp (j : Json) : R Op := do
  let t ← jStr (← fld j "t")
  match t with
  | "construct" =>
    return ctorOp (← jNat (← fld j "slot")) (← jKind (← fld j "kind")) (← jNat (← fld j "nv"))
      (← jOptNat j "nh") (← jOptNat j "na") (← jUD j "ud") none (← jNatListList (← fld j "rand"))
  | "mkModule" =>
    return .mkModule (← jNat (← fld j "mslot")) (← jNetKind (← fld j "k")) (← jNat (← fld j "nv"))
      (← jOptNat j "nh") (← jOptNat j "na") (match fldOpt j "zw" with | some (.bool b) => b | _ => false)
      (← jNatList (← fld j "rand"))
  | "initModule" =>
    return .initModule (← jNat (← fld j "mslot")) (match fldOpt j "zw" with | some (.bool b) => some b | _ => none)
      (← jNatList (← fld j "rand"))
  | "constructFrom" =>
    -- the whole constructor call: the sizes the caller passes alongside `module=` (fields nv / nh / na, all optional) go through
    -- the model's `ctorOp`, which selects the module branch
    let nv ← (match fldOpt j "nv" with | none => pure 7 | some v => jNat v)
    return ctorOp (← jNat (← fld j "slot")) (← jKind (← fld j "kind")) nv (← jOptNat j "nh") (← jOptNat j "na") (← jUD j "ud")
      (some (← jNat (← fld j "mslot"))) []
  | "write" => return .write (← jNat (← fld j "slot")) (← jStr (← fld j "net")) (← jNatList (← fld j "toks"))
  | "writeModule" => return .writeModule (← jNat (← fld j "mslot")) (← jNatList (← fld j "toks"))
  | "train" => return .train (← jNat (← fld j "slot")) (← jBool (← fld j "bases")) (← jNatListList (← fld j "toks"))
  | "reinit" => return .reinit (← jNat (← fld j "slot")) (← jNatListList (← fld j "rand"))
  | "addUnitary" => return .addUnitary (← jNat (← fld j "slot")) (← jStr (← fld j "name")) (← jNat (← fld j "tok"))
  | "mkMeta" => return .mkMeta (← jNat (← fld j "mdslot")) (← jEntries (← fld j "entries"))
  | "save" => return .save (← jNat (← fld j "slot")) (← jOptNat j "md") (← jNat (← fld j "path"))
  | "saverSave" =>
    let src : SaverSrc ← (do
      match (← jStr (← fld j "src")) with
      | "none" => return SaverSrc.absent
      | "dict" => return SaverSrc.dict (← jNat (← fld j "mdslot"))
      | "callable" => return SaverSrc.callable (← jEntries (← fld j "entries"))
      | s => throw s!"bad saver source {s}")
    return .saverSave (← jNat (← fld j "slot")) src (← jBool (← fld j "metadataOnly")) (← jNat (← fld j "path"))
  | "load" => return .load (← jNat (← fld j "slot")) (← jNat (← fld j "path"))
  | "autoload" =>
    return .autoload (← jNat (← fld j "slot")) (← jKind (← fld j "kind")) (← jNat (← fld j "path"))
      (← jNatListList (← fld j "rand"))
  | s => throw s!"unknown history op {s}"

def natListOut (xs : List Nat) : Json := .arr (xs.toArray.map nOut)

def keyOut : MKey → Json
  | .str s => .str s
  | .int i => iOut i

def sdOut (sd : SD) : Json :=
  .arr (sd.toArray.map (fun e => Json.arr #[.str e.1, natListOut e.2.1, nOut e.2.2]))

def fvalOut : FVal → Json
  | .sd sd => Json.mkObj [("sd", sdOut sd)]
  | .ud d => Json.mkObj [("ud", .arr (d.toArray.map (fun e => Json.arr #[.str e.1, nOut e.2])))]
  | .mv m t => Json.mkObj [("mv", Json.arr #[.bool m, nOut t])]

def dictOut (d : List (MKey × FVal)) : Json :=
  .arr (d.toArray.map (fun e => Json.arr #[keyOut e.1, fvalOut e.2]))

def kindOut : Kind → Json
  | .pos => "pos" | .cplx => "cplx" | .dens => "dens"
def netKindOut : NetKind → Json
  | .binary => "binary" | .purif => "purif"

/-- a network object: id, attributes, parameters (name, tensor id, shape, token) -/
def netOut (h : Heap) (id : ObjId) : Json :=
  match h.nets id with
  | none => Json.mkObj [("id", nOut id), ("dangling", .bool true)]
  | some net =>
    Json.mkObj [("id", nOut id), ("kind", netKindOut net.kind), ("nv", nOut net.nv), ("nh", nOut net.nh),
      ("na", nOut net.na),
      ("params", .arr (net.params.toArray.map (fun p =>
        let t := h.readT p.2
        Json.arr #[.str p.1, nOut p.2, natListOut t.1, nOut t.2])))]

def optNatOut : Option Nat → Json
  | none => .null
  | some n => nOut n

def stateOut (h : Heap) (st : NState) : Json :=
  Json.mkObj [("kind", kindOut st.kind), ("nv", nOut st.nv), ("nh", nOut st.nh), ("na", optNatOut st.na),
    ("nets", .arr (st.nets.toArray.map (fun p => Json.arr #[.str p.1, netOut h p.2]))),
    ("ud", match st.ud with | none => .null | some u => fvalOut u)]

def maxSlot : Nat := 6

def slotsOut {β : Type} (f : Nat → Option β) (out : β → Json) : Json :=
  Json.mkObj ((List.range maxSlot).filterMap (fun s => (f s).map (fun v => (toString s, out v))))

def worldOut (w : World) (e : Option SErr) : Json :=
  Json.mkObj [
    ("err", match e with | none => .null | some e => .str e.toString),
    ("states", slotsOut w.states (stateOut w.heap)),
    ("modules", slotsOut w.modules (netOut w.heap)),
    ("metas", slotsOut w.metas (fun id => Json.mkObj [("id", nOut id), ("entries", dictOut ((w.heap.dicts id).getD []))])),
    ("files", slotsOut w.files dictOut)]

/-- ops `c11.run` / `c20.run`: in `ops` (a history), out: the world after every operation -/
def runOps (j : Json) : R Json := do
  let ops ← (← jArr (← fld j "ops")).mapM parseOp
  let tr := trace World.empty ops.toList
  return .arr (tr.toArray.map (fun r => worldOut r.1 r.2))

end Drv.Store
