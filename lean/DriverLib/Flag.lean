/-
DriverLib.Flag — flag descriptors of the protocol -> `QV.PyFlag`.
A flag travels either as a plain JSON bool (the Python singleton) or as
`{"form": "py" | "int" | "np_bool" | "np_cmp" | "np_0d" | "torch_0d", "value": <bool>}`
(`int`: `1` / `0`; `np_cmp`: the `numpy.bool_` result of a numpy comparison).
-/
import DriverLib.Basic
import QV.Model.PyFlag
open Lean

namespace Drv

def parseFlag (j : Json) : R QV.PyFlag :=
  match j with
  | .bool b => .ok (.pyBool b)
  | _ => do
    let form ← jStr (← fld j "form")
    let b ← jBool (← fld j "value")
    match form with
    | "py" => return .pyBool b
    | "int" => return .pyInt (if b then 1 else 0)
    | "np_bool" => return .npBool b
    | "np_cmp" => return .npBool b
    | "np_0d" => return .npArr0 b
    | "torch_0d" => return .tensor0 b
    | f => throw s!"unknown flag form {f}"

/-- a flag field that may be absent (then the given singleton) -/
def flagOr (j : Json) (k : String) (dflt : Bool) : R QV.PyFlag :=
  match fldOpt j k with
  | some v => parseFlag v
  | none => .ok (.pyBool dflt)

end Drv
