import DriverLib.Basic
import QV.Model.Callbacks
import QV.Model.PyFlag
open Lean Drv QV QV.Cb

namespace Drv.C17

/-- metadata token of the saver model: `md(state at w, e)` / the dict / `{}` -/
inductive Md where
  | call (w : Nat) (e : Int)
  | dict
  | empty

abbrev CB := Callback Nat Int Nat Md (Nat × Int)
abbrev ST := CbState Int Nat Md (Nat × Int)

def parseEv (j : Json) : R (Ev Nat) := do
  let k ← jStr (← fld j "k")
  let w ← jNat (← fld j "w")
  match k with
  | "ts" => return .trainStart w
  | "te" => return .trainEnd w
  | "es" => return .epochStart (← jInt (← fld j "e")) w
  | "ee" => return .epochEnd (← jInt (← fld j "e")) w
  | "bs" => return .batchStart (← jInt (← fld j "e")) (← jNat (← fld j "b")) w
  | "be" => return .batchEnd (← jInt (← fld j "e")) (← jNat (← fld j "b")) w
  | _ => .error s!"unknown event kind {k}"

/-- `[[key, value], ...]` -/
def parsePairs {β : Type} (f : Json → R β) (j : Json) : R (List (String × β)) := do
  let a ← jArr j
  let l ← a.toList.mapM (fun p => do
    let pa ← jArr p
    if pa.size != 2 then .error "pair expected"
    return (← jStr pa[0]!, ← f pa[1]!))
  return l

def parseCallback (j : Json) : R CB := do
  let kind ← jStr (← fld j "kind")
  let period ← jInt (← fld j "period")
  match kind with
  | "metric" =>
    let vals ← parsePairs jIntArr (← fld j "vals")
    let log ← jBool (← fld j "log")
    return .metric ⟨period, vals.map (fun nv => (nv.1, fun w => nv.2[w]?.getD 0)), log⟩
  | "observable" =>
    let obs ← (← jArr (← fld j "obs")).toList.mapM jStr
    let log ← jBool (← fld j "log")
    let stats ← (← jArr (← fld j "stats")).mapM (parsePairs (parsePairs jInt))
    return .observable ⟨period, obs, fun w => stats[w]?.getD [], log⟩
  | "saver" =>
    let pre ← jStr (← fld j "pre")
    let post ← jStr (← fld j "post")
    let si ← jBool (← fld j "save_initial")
    let mo ← jBool (← fld j "metadata_only")
    let reserved ← jBool (← fld j "reserved")
    let mdk ← jStr (← fld j "metadata")
    let md : MetaSpec Nat Md ← (match mdk with
      | "callable" => pure (.callable (fun w e => Md.call w e))
      | "dict" => pure (.dict Md.dict)
      | "none" => pure .none
      | _ => .error s!"unknown metadata kind {mdk}")
    return .saver ⟨period, pre, post, si, md, mo, Md.empty, fun w => w, fun _ => reserved⟩
  | "logger" => return .logger ⟨period, fun w e => (w, e)⟩
  | _ => .error s!"unknown callback kind {kind}"

def cellOut : Cell Int → Json
  | .text s => Json.mkObj [("t", .str s)]
  | .int i => Json.mkObj [("i", iOut i)]
  | .val v => Json.mkObj [("v", iOut v)]
  | .blank => Json.mkObj [("b", .bool true)]

def errJ (e : PyErr) : Json := Json.mkObj [("error", .str e.toString)]
def exOut {β : Type} (f : β → Json) : Except PyErr β → Json
  | .ok b => Json.mkObj [("ok", f b)]
  | .error e => errJ e

def pairsOut {β : Type} (f : β → Json) (d : List (String × β)) : Json :=
  .arr (d.map (fun kv => Json.arr #[.str kv.1, f kv.2])).toArray

def intsOut (l : List Int) : Json := .arr (l.map iOut).toArray

/-- indices `-len-2 … len+1` -/
def idxRange (len : Nat) : List Int := (List.range (2 * len + 4)).map (fun (k : Nat) => (Int.ofNat k) - (Int.ofNat len) - 2)

def attrOut {R : Type} (f : R → Json) : Except PyErr (AttrResult R) → Json
  | .ok (.own n) => Json.mkObj [("own", .str n)]
  | .ok (.dynamic r) => Json.mkObj [("ok", f r)]
  | .error e => errJ e

/-- the names queried on an evaluator: the tracked ones, then the extra ones that are not tracked -/
def queryNames (names extra : List String) : List String := names ++ extra.filter (fun n => !names.contains n)

def evalOut {X : Type} (xOut : X → Json) (names : List String) (extra own : List String) (s : EvalState X Int)
    (more : List (String × Json)) : Json :=
  let qnames := queryNames names extra
  Json.mkObj ([
    ("attr", pairsOut (fun n => attrOut (fun l => Json.arr (l.map xOut).toArray) (s.getAttr own n)) (qnames.map (fun n => (n, n)))),
    ("len", nOut s.len),
    ("epochs", intsOut s.epochs),
    ("names", .arr (names.map Json.str).toArray),
    ("last", pairsOut xOut s.last),
    ("log", .arr (s.log.map (fun row => Json.arr (row.map cellOut).toArray)).toArray),
    ("series", pairsOut (fun n => exOut (fun l => Json.arr (l.map xOut).toArray) (s.getItem n)) (qnames.map (fun n => (n, n)))),
    ("get_value", pairsOut (fun n => Json.arr ((idxRange s.len).map (fun i =>
        Json.arr #[iOut i, exOut xOut (s.getValue n (some i))])).toArray) (qnames.map (fun n => (n, n)))),
    ("get_value_default", pairsOut (fun n => exOut xOut (s.getValue n none)) (qnames.map (fun n => (n, n))))
  ] ++ more)

def mdOut : Md → Json
  | .call w e => Json.arr #[.str "call", nOut w, iOut e]
  | .dict => Json.arr #[.str "dict"]
  | .empty => Json.arr #[.str "empty"]

/-- the own-name lists of the three classes (metric evaluator, observable evaluator, ObservableStatistics) -/
structure Own where
  metric : List String
  observable : List String
  stats : List String

def stateOut (extra statq : List String) (own : Own) : CB → ST → Json
  | .metric c, .metric s => evalOut iOut c.names extra own.metric s []
  | .observable c, .observable s =>
    evalOut (pairsOut iOut) c.names extra own.observable s
      [("stat_series", pairsOut (fun o => pairsOut (fun q => exOut intsOut (obsSeries s o q)) (statq.map (fun q => (q, q))))
          ((queryNames c.names extra).map (fun o => (o, o)))),
       ("stat_attr", pairsOut (fun o => pairsOut (fun q =>
            match s.getItem o with
            | .error e => errJ e
            | .ok data => attrOut intsOut (obsStatGetAttr own.stats data q)) (statq.map (fun q => (q, q))))
          ((queryNames c.names extra).map (fun o => (o, o))))]
  | .saver c, .saver ws =>
    Json.mkObj [("writes", .arr (ws.map (fun ab =>
      let argJ : Json := match ab.1 with | .initial => .str "initial" | .epoch e => iOut e
      match ab.2 with
      | .full p md => Json.mkObj [("name", .str (c.fileName ab.1)), ("arg", argJ), ("body", .str "full"), ("w", nOut p), ("md", mdOut md)]
      | .metaOnly md => Json.mkObj [("name", .str (c.fileName ab.1)), ("arg", argJ), ("body", .str "meta"), ("md", mdOut md)])).toArray)]
  | .logger _, .logger out => Json.mkObj [("out", .arr (out.map (fun m => Json.arr #[nOut m.1, iOut m.2])).toArray)]
  | _, _ => Json.mkObj [("error", .str "state mismatch")]

def clearState : ST → ST
  | .metric s => .metric s.clearHistory
  | .observable s => .observable s.clearHistory
  | s => s

/-- op `c17.run`: a callback list driven through several event segments (`runAll`), with optional
`clear_history` on chosen callbacks after a segment; a snapshot of every callback after each segment.
in : callbacks [...], segments [{events:[...], clear:[indices]}], extra_names [...], stat_queries [...]
out: {"segments": [ {"after":[...]} | {"error": kind} ]}  (after an error the run ends, as the exception leaves `fit`) -/
def run (j : Json) : R Json := do
  let cbs ← (← jArr (← fld j "callbacks")).toList.mapM parseCallback
  let extra ← (match fldOpt j "extra_names" with | some x => do (← jArr x).toList.mapM jStr | none => pure [])
  let statq ← (match fldOpt j "stat_queries" with | some x => do (← jArr x).toList.mapM jStr | none => pure [])
  let strs (k : String) : R (List String) := (match fldOpt j k with | some x => do (← jArr x).toList.mapM jStr | none => pure [])
  let own : Own := ⟨← strs "own_metric", ← strs "own_observable", ← strs "own_stats"⟩
  let segs ← jArr (← fld j "segments")
  let mut cur : List (CB × ST) := cbs.map (fun c => (c, c.init))
  let mut out : Array Json := #[]
  let mut dead := false
  for sj in segs do
    if dead then break
    let evs ← (← jArr (← fld sj "events")).toList.mapM parseEv
    let clear ← (match fldOpt sj "clear" with | some x => do (← jArr x).toList.mapM jNat | none => pure [])
    match runAll cur evs with
    | .error e =>
      out := out.push (errJ e)
      dead := true
    | .ok nxt =>
      cur := (List.zip (List.range nxt.length) nxt).map (fun ics =>
        if clear.contains ics.1 then (ics.2.1, clearState ics.2.2) else ics.2)
      out := out.push (Json.mkObj [("after", .arr (nxt.map (fun cs => stateOut extra statq own cs.1 cs.2)).toArray),
        ("after_clear", .arr (cur.map (fun cs => stateOut extra statq own cs.1 cs.2)).toArray)])
  return Json.mkObj [("segments", .arr out)]

/-- op `c17.strip`: `stripPlural` on a list of strings -/
def strip (j : Json) : R Json := do
  let l ← (← jArr (← fld j "names")).toList.mapM jStr
  return .arr (l.map (fun s => Json.str (stripPlural s))).toArray

/-- op `c17.default_msg`: `Logger._default_msg_gen` (`defaultMsg`) for a list of epochs.
in : kwargs_repr (the text `str(kwargs)`), epochs [...]   out: [message, ...] -/
def defaultMsgs (j : Json) : R Json := do
  let kw ← jStr (← fld j "kwargs_repr")
  let es ← (← jArr (← fld j "epochs")).toList.mapM jInt
  return .arr (es.map (fun e => Json.str (defaultMsg kw e))).toArray


def parseFlag (j : Json) : R PyFlag := do
  let form ← jNat (← fld j "form")
  let v ← jInt (← fld j "value")
  return match form with
    | 0 => .pyBool (v != 0)
    | 1 => .pyInt v
    | 2 => .npBool (v != 0)
    | 3 => .npArr0 (v != 0)
    | _ => .tensor0 (v != 0)

def errOfString (s : String) : PyErr :=
  match s with
  | "ValueError" => .ValueError | "TypeError" => .TypeError | "RuntimeError" => .RuntimeError
  | "ZeroDivisionError" => .ZeroDivisionError | "AttributeError" => .AttributeError | "KeyError" => .KeyError
  | "IndexError" => .IndexError | _ => .AssertionError

def effectsOut {X : Type} (xOut : X → Json) (r : Effects (EvalState X Int)) : Json :=
  Json.mkObj [("len", nOut r.state.len), ("epochs", intsOut r.state.epochs), ("last", pairsOut xOut r.state.last),
    ("past", .arr (r.state.past.map (fun rec => Json.arr #[iOut rec.1, pairsOut xOut rec.2])).toArray),
    ("log", .arr (r.state.log.map (fun row => Json.arr (row.map cellOut).toArray)).toArray),
    ("out", .arr (r.out.map Json.str).toArray),
    ("err", match r.err with | none => .null | some e => .str e.toString)]

/-- op `c17.verbose`: one evaluator with a `verbose` object driven through a list of epoch-end events with the effect
model (`runV`): values are integer tokens, `fmt` = `[[token, text | null, error kind | null], …]` is what
`format(value, ".6f")` gives for each token (the interpreter's formatting: an input).
in : kind "metric"|"observable", period, log, verbose {form, value}, events [...], fmt, and `vals` (metric) /
`obs` + `stats` (observable) as in `c17.run`.   out: the state left behind, stdout chunks, the exception -/
def verboseOp (j : Json) : R Json := do
  let cb ← parseCallback j
  let verbose ← parseFlag (← fld j "verbose")
  let evs ← (← jArr (← fld j "events")).toList.mapM parseEv
  let table ← (← jArr (← fld j "fmt")).toList.mapM (fun row => do
    let a ← jArr row
    let tok ← jInt (a.getD 0 .null)
    let res : Except PyErr String ← (match a.getD 1 .null with
      | .null => do pure (Except.error (errOfString (← jStr (a.getD 2 .null))))
      | t => do pure (Except.ok (← jStr t)))
    return (tok, res))
  let fmt : Int → Except PyErr String := fun v => (table.lookup v).getD (.error .AssertionError)
  let withCols (names : List String) (fields : List Field) (r : Json) : Json :=
    r.mergeObj (Json.mkObj [("names", .arr (names.map Json.str).toArray), ("fields", .arr (fields.map (fun f => Json.str f.text)).toArray)])
  match cb with
  | .metric c => return withCols c.names c.csvFields (effectsOut iOut (c.runV verbose fmt c.init evs))
  | .observable c => return withCols c.names c.csvFields (effectsOut (pairsOut iOut) (c.runV verbose fmt c.init evs))
  | _ => .error "c17.verbose: metric or observable expected"

/-- op `c17.logger_fn`: `Logger.new` (msg_gen omitted / callable / non-callable) driven through epoch-end events with `Logger.runFn`
(logger_fn = print / callable / non-callable).
in : period, msg ("omitted"|"callable"|"noncallable"), fn ("print"|"callable"|"noncallable"), kwargs_repr, epochs [...] (the epoch ends fired,
     in order);  a callable msg_gen is scripted as `"gen " + str(epoch)`.
out: {"handed": [...], "printed": [...], "err": null | kind} -/
def loggerFn (j : Json) : R Json := do
  let period ← jInt (← fld j "period")
  let kw ← jStr (← fld j "kwargs_repr")
  let es ← (← jArr (← fld j "epochs")).toList.mapM jInt
  let msg : MsgGenArg Unit ← (match (← jStr (← fld j "msg")) with
    | "omitted" => pure .omitted
    | "callable" => pure (.callable (fun _ e => "gen " ++ toString e))
    | "noncallable" => pure .nonCallable
    | x => throw s!"c17.logger_fn: msg {x}")
  let fn : LoggerFnArg ← (match (← jStr (← fld j "fn")) with
    | "print" => pure .print
    | "callable" => pure .callable
    | "noncallable" => pure .nonCallable
    | x => throw s!"c17.logger_fn: fn {x}")
  let c := Logger.new period msg kw
  let strs (l : List String) : Json := .arr (l.map Json.str).toArray
  match c.runFn fn ⟨[], []⟩ (es.map (fun e => Ev.epochEnd e ())) with
  | .ok s => return Json.mkObj [("handed", strs s.handed), ("printed", strs s.printed), ("err", .null)]
  | .error e => return Json.mkObj [("handed", strs []), ("printed", strs []), ("err", .str e.toString)]

def handle (op : String) (j : Json) : Option (R Json) :=
  match op with
  | "c17.run" => some (run j)
  | "c17.default_msg" => some (defaultMsgs j)
  | "c17.strip" => some (strip j)
  | "c17.verbose" => some (verboseOp j)
  | "c17.logger_fn" => some (loggerFn j)
  | _ => none

end Drv.C17
