import DriverLib.Basic
import DriverLib.Flag
import QV.Model.States
import QV.Model.Observables
open Lean Drv QV

namespace Drv.C08

/-- rows of 0/1 integers -> bit-vectors -/
def parseCfgs (j : Json) (n : Nat) : R (List (Cfg n)) := do
  let rows ← (← jArr j).mapM jNatArr
  let out ← rows.mapM (fun row => do
    if row.size != n then throw s!"sample row: expected length {n}, got {row.size}"
    if row.any (fun x => x > 1) then throw "sample row: entries must be 0/1"
    return (fun (i : Fin n) => row[i.val]! == 1 : Cfg n))
  return out.toList

def cfgOut {n : Nat} (σ : Cfg n) : Json := .arr ((Array.ofFn σ).map (fun b => nOut (if b then 1 else 0)))
def cfgsOut {n : Nat} (l : List (Cfg n)) : Json := .arr (l.toArray.map cfgOut)
def cOut (z : C Float) : Json := .arr #[fOut z.1, fOut z.2]

def bitsOf {n : Nat} (σ : Cfg n) : Fin n → Float := fun j => bit (σ j)

/-- the importance-sampling interface of the state described by the request:
kind "pos" | "cplx" (fields n, h, am[, ph]) | "dens" (fields n, h, a, am, ph) -/
def parseState (j : Json) (n : Nat) : R (ImpState Float n) := do
  let kind ← jStr (← fld j "kind")
  let h ← jNat (← fld j "h")
  match kind with
  | "pos" =>
    let am ← parseRBM (← fld j "am") n h
    return ImpState.pure (fun σ => Wave.psiPos am (bitsOf σ))
  | "cplx" =>
    let am ← parseRBM (← fld j "am") n h
    let ph ← parseRBM (← fld j "ph") n h
    return ImpState.pure (fun σ => Wave.psiCplx am ph (bitsOf σ))
  | "dens" =>
    let a ← jNat (← fld j "a")
    let am ← parsePRBM (← fld j "am") n h a
    let ph ← parsePRBM (← fld j "ph") n h a
    return ImpState.mixed (fun σ σ' => Density.rho am ph (bitsOf σ) (bitsOf σ'))
      (fun σ => Density.probability am (bitsOf σ) 1.0)
  | k => throw s!"unknown state kind {k}"

def heap0 {n : Nat} (samples : List (Cfg n)) : THeap n := ⟨fun k => if k = 0 then samples else [], 1⟩

def exceptOut (r : Except PyErr (List Float)) : Json :=
  match r with
  | .ok l => fListOut l
  | .error e => errOut e

/-- op `c08.eval`: every built-in observable on one batch.
in : state fields, samples (rows of 0/1), cs (interaction distances), pairs ([vp, v] rows for the
     importance-sampling aux points)
out: sigmaX/sigmaY {vals, vals_abs, after, after_abs} from the heap runs, sigmaZ {vals, vals_abs},
     open/periodic: one entry per c (list of values or {"error": kind}), numer/denom/weight per pair. -/
def eval (j : Json) : R Json := do
  let n ← jNat (← fld j "n")
  let S ← parseState j n
  let samples ← parseCfgs (← fld j "samples") n
  let cs ← jNatArr (← fld j "cs")
  let h0 := heap0 samples
  -- the OBJECTS passed as `absolute` (per observable: [the one meant as False, the one meant as True]) and as `periodic_bcs`
  -- ([meant as open, meant as periodic]); absent = the Python singletons
  let flagPair (k : String) : R (PyFlag × PyFlag) := do
    match (fldOpt j "flags").bind (fun fj => fldOpt fj k) with
    | some (.arr #[f0, f1]) => return (← parseFlag f0, ← parseFlag f1)
    | some _ => throw s!"flags.{k}: expected [flag, flag]"
    | none => return (.pyBool false, .pyBool true)
  let fx ← flagPair "sigmaX"
  let fy ← flagPair "sigmaY"
  let fz ← flagPair "sigmaZ"
  let fp ← flagPair "periodic"
  let runOut (f : PyFlag → THeap n → Nat → THeap n × List Float) (fl : PyFlag × PyFlag) : Json :=
    let r := f fl.1 h0 0
    let ra := f fl.2 h0 0
    Json.mkObj [("vals", fListOut r.2), ("after", cfgsOut (r.1.cells 0)),
                ("vals_abs", fListOut ra.2), ("after_abs", cfgsOut (ra.1.cells 0))]
  let openOut := cs.map (fun c => exceptOut (samples.mapM (fun σ => neighbourApplyF (α := Float) fp.1 c σ)))
  let perOut := cs.map (fun c => exceptOut (samples.mapM (fun σ => neighbourApplyF (α := Float) fp.2 c σ)))
  let pairs ← match fldOpt j "pairs" with
    | some pj => do
      let ps ← (← jArr pj).mapM (fun p => parseCfgs p n)
      ps.mapM (fun p => match p with
        | [vp, v] => pure (vp, v)
        | _ => throw "pair: expected [vp, v]")
    | none => pure #[]
  return Json.mkObj [
    ("sigmaX", runOut (sigmaXRunF S) fx),
    ("sigmaY", runOut (sigmaYRunF S) fy),
    ("sigmaZ", Json.mkObj [("vals", fListOut (samples.map (sigmaZApplyF (α := Float) fz.1))),
                           ("vals_abs", fListOut (samples.map (sigmaZApplyF (α := Float) fz.2)))]),
    ("open", .arr openOut),
    ("periodic", .arr perOut),
    ("numer", .arr (pairs.map (fun p => cOut (S.numer p.1 p.2)))),
    ("denom", .arr (pairs.map (fun p => cOut (S.denom p.2)))),
    ("weight", .arr (pairs.map (fun p => cOut (S.weight p.1 p.2))))]

def handle (op : String) (j : Json) : Option (R Json) :=
  match op with
  | "c08.eval" => some (eval j)
  | _ => none

end Drv.C08
