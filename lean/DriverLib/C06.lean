import DriverLib.Basic
import DriverLib.C03
import QV.Model.CDStep
open Lean Drv QV QV.Grads QV.CDStep

namespace Drv.C06

def slicesOut (l : List (List Float)) : Json := .arr (l.toArray.map fListOut)

/-- op `c06.step`: one training step. in: kind, sizes, parameters BEFORE the step, the batch (rows or samples+bases),
chain end states vk, lr. out: per network the per-parameter gradient slices (after vector_to_grads) and the
parameters after plain SGD (flat). -/
def stepOp (j : Json) : R Json := do
  let kind ← jStr (← fld j "kind")
  let n ← jNat (← fld j "n"); let h ← jNat (← fld j "h")
  let lr ← jFloat (← fld j "lr")
  let vkRows ← parseRows (← fld j "vk") n
  let M := vkRows.size
  let vk : Fin M → Fin n → Float := fun m => vkRows[m.val]!
  if kind == "pos" then
    let am ← parseRBM (← fld j "am") n h
    let rows ← parseRows (← fld j "rows") n
    let B := rows.size
    let r := stepPos lr am (fun s : Fin B => rows[s.val]!) vk
    return Json.mkObj [("grads", .arr #[slicesOut (rbmParamGrads r.1)]), ("after", .arr #[fListOut r.2.flatten])]
  else if kind == "cplx" then
    let am ← parseRBM (← fld j "am") n h
    let ph ← parseRBM (← fld j "ph") n h
    let dict ← Drv.C03.parseDict (← fld j "dict")
    let D ← Drv.C03.parseSamples (← fld j "samples") n
    let r := stepCplx lr am ph dict D vk
    return Json.mkObj [("grads", .arr #[slicesOut (rbmParamGrads r.1.1), slicesOut (rbmParamGrads r.1.2)]),
      ("after", .arr #[fListOut r.2.1.flatten, fListOut r.2.2.flatten])]
  else
    let a ← jNat (← fld j "a")
    let am ← parsePRBM (← fld j "am") n h a
    let ph ← parsePRBM (← fld j "ph") n h a
    let dict ← Drv.C03.parseDict (← fld j "dict")
    let eps ← jFloat (← fld j "eps")
    let D ← Drv.C03.parseSamples (← fld j "samples") n
    let r := stepDM lr eps am ph dict D vk
    return Json.mkObj [("grads", .arr #[slicesOut (prbmParamGrads r.1.1), slicesOut (prbmParamGrads r.1.2)]),
      ("after", .arr #[fListOut r.2.1.flatten, fListOut r.2.2.flatten])]

def handle (op : String) (j : Json) : Option (R Json) :=
  match op with
  | "c06.step" => some (stepOp j)
  | _ => none

end Drv.C06
