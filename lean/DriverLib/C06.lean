import DriverLib.Basic
import DriverLib.ArgConv
import DriverLib.C03
import DriverLib.C05
import QV.Model.CDStep
import DriverLib.CallForm
open Lean Drv QV QV.Grads QV.CDStep

namespace Drv.C06

def slicesOut (l : List (List Float)) : Json := .arr (l.toArray.map fListOut)

/-- op `c06.step`: one training step. in: kind, sizes, parameters BEFORE the step, the batch (rows or samples+bases),
chain end states vk, lr. out: per network the per-parameter gradient slices (after vector_to_grads) and the
parameters after plain SGD (flat). -/
def stepOp (j : Json) : R Json := do
  let kind ← jStr (← fld j "kind")
  let n ← jNat (← fld j "n"); let h ← jNat (← fld j "h")
  let lr ← jFloat (← fld j "lr")
  let vkRows ← parseRows (← fld j "vk") n
  let M := vkRows.size
  let vk : Fin M → Fin n → Float := fun m => vkRows[m.val]!
  if kind == "pos" then
    let am ← parseRBM (← fld j "am") n h
    let rows ← parseRows (← fld j "rows") n
    let B := rows.size
    let r := stepPos lr am (fun s : Fin B => rows[s.val]!) vk
    return Json.mkObj [("grads", .arr #[slicesOut (rbmParamGrads r.1)]), ("after", .arr #[fListOut r.2.flatten])]
  else if kind == "cplx" then
    let am ← parseRBM (← fld j "am") n h
    let ph ← parseRBM (← fld j "ph") n h
    let dict ← Drv.C03.parseDict (← fld j "dict")
    let D ← Drv.C03.parseSamples (← fld j "samples") n
    let r := stepCplx lr am ph dict D vk
    return Json.mkObj [("grads", .arr #[slicesOut (rbmParamGrads r.1.1), slicesOut (rbmParamGrads r.1.2)]),
      ("after", .arr #[fListOut r.2.1.flatten, fListOut r.2.2.flatten])]
  else
    let a ← jNat (← fld j "a")
    let am ← parsePRBM (← fld j "am") n h a
    let ph ← parsePRBM (← fld j "ph") n h a
    let dict ← Drv.C03.parseDict (← fld j "dict")
    let eps ← jFloat (← fld j "eps")
    let D ← Drv.C03.parseSamples (← fld j "samples") n
    let r := stepDM lr eps am ph dict D vk
    return Json.mkObj [("grads", .arr #[slicesOut (prbmParamGrads r.1.1), slicesOut (prbmParamGrads r.1.2)]),
      ("after", .arr #[fListOut r.2.1.flatten, fListOut r.2.2.flatten])]

/-- op `c06.cdstep`: one training step FROM THE NEGATIVE BATCH: the model's `cdStepPos/Cplx/DM` program (chain =
`gibbsStepsB k neg`) replayed (`Prog.run`) on the recorded bernoulli draws.
in: as `c06.step` but `neg` (bit rows), `k`, `draws` (flat, call order) instead of `vk`.
out: `vk` (chain end states computed by the model), `probs` (probabilities presented, in order), `leftover`, `grads`, `after`;
`{"short": true}` when the recording has too few draws. -/
def cdStepOp (j : Json) : R Json := do
  let kind ← jStr (← fld j "kind")
  let n ← jNat (← fld j "n"); let h ← jNat (← fld j "h")
  let k ← jNat (← fld j "k")
  let lr ← jFloat (← fld j "lr")
  let negRows ← Drv.C05.parseBitRows (← fld j "neg") n
  let M := negRows.size
  let neg : Fin M → Fin n → Bool := fun m => negRows[m.val]!
  let draws := (← (← jArr (← fld j "draws")).mapM Drv.C05.jBit).toList
  let short := Json.mkObj [("short", .bool true)]
  let common := fun (vk : Fin M → Fin n → Bool) (ps : List Float) (rest : List Bool) =>
    [("vk", Drv.C05.bitMatOut vk), ("probs", fListOut ps), ("leftover", nOut rest.length)]
  if kind == "pos" then
    let am ← parseRBM (← fld j "am") n h
    let rows ← parseRows (← fld j "rows") n
    let B := rows.size
    match (cdStepPos lr am k (fun s : Fin B => rows[s.val]!) neg).run draws with
    | none => return short
    | some (r, ps, rest) =>
      return Json.mkObj (common r.1 ps rest ++
        [("grads", .arr #[slicesOut (rbmParamGrads r.2.1)]), ("after", .arr #[fListOut r.2.2.flatten])])
  else if kind == "cplx" then
    let am ← parseRBM (← fld j "am") n h
    let ph ← parseRBM (← fld j "ph") n h
    let dict ← Drv.C03.parseDict (← fld j "dict")
    let D ← Drv.C03.parseSamples (← fld j "samples") n
    match (cdStepCplx lr am ph dict D k neg).run draws with
    | none => return short
    | some (r, ps, rest) =>
      return Json.mkObj (common r.1 ps rest ++
        [("grads", .arr #[slicesOut (rbmParamGrads r.2.1.1), slicesOut (rbmParamGrads r.2.1.2)]),
         ("after", .arr #[fListOut r.2.2.1.flatten, fListOut r.2.2.2.flatten])])
  else
    let a ← jNat (← fld j "a")
    let am ← parsePRBM (← fld j "am") n h a
    let ph ← parsePRBM (← fld j "ph") n h a
    let dict ← Drv.C03.parseDict (← fld j "dict")
    let eps ← jFloat (← fld j "eps")
    let D ← Drv.C03.parseSamples (← fld j "samples") n
    match (cdStepDM lr eps am ph dict D k neg).run draws with
    | none => return short
    | some (r, ps, rest) =>
      return Json.mkObj (common r.1 ps rest ++
        [("grads", .arr #[slicesOut (prbmParamGrads r.2.1.1), slicesOut (prbmParamGrads r.2.1.2)]),
         ("after", .arr #[fListOut r.2.2.1.flatten, fListOut r.2.2.2.flatten])])

def parseVk (j : Json) (n : Nat) : R (Σ M : Nat, Fin M → Fin n → Float) := do
  let vkRows ← parseRows j n
  return ⟨vkRows.size, fun m => vkRows[m.val]!⟩

/-- materialise a function-valued parameter record into arrays (extensionally the identity): without it the parameters after
`t` updates would be `t` nested closures and every read would re-evaluate all earlier gradients -/
def reifyRBM {n h : Nat} (r : RBM Float n h) : RBM Float n h :=
  let W := Array.ofFn fun i : Fin h => Array.ofFn fun j : Fin n => r.W i j
  let b := Array.ofFn r.b
  let c := Array.ofFn r.c
  ⟨fun i j => (W[i.val]!)[j.val]!, fun j => b[j.val]!, fun i => c[i.val]!⟩

def reifyPRBM {n h a : Nat} (r : PRBM Float n h a) : PRBM Float n h a :=
  let W := Array.ofFn fun i : Fin h => Array.ofFn fun j : Fin n => r.W i j
  let U := Array.ofFn fun k : Fin a => Array.ofFn fun j : Fin n => r.U k j
  let b := Array.ofFn r.b
  let c := Array.ofFn r.c
  let d := Array.ofFn r.d
  ⟨fun i j => (W[i.val]!)[j.val]!, fun k j => (U[k.val]!)[j.val]!, fun j => b[j.val]!, fun i => c[i.val]!, fun k => d[k.val]!⟩

/-- scheduler of a `c06.run` request: absent/null = none, else `StepLR(step_size, gamma)` -/
def parseSched (j : Json) : R (Nat → Float → Float) := do
  match fldOpt j "sched" with
  | none => return noSched
  | some sj =>
    let gamma ← jFloat (← fld sj "gamma")
    let step ← jNat (← fld sj "step_size")
    return stepLRNext gamma step

/-- op `c06.run`: a whole `fit` call from the INITIAL parameters: `fitTracePos/Cplx/DM` (fold of plain-SGD updates over the
batches of every epoch, the learning rate of epoch `e` being the rate after `e` scheduler steps).
in: kind, sizes, initial parameters, lr0, sched, epochs = [[batch]], batch = {rows | samples, vk}.
out: `trace` = parameters after every batch (per network, flat), `lrs` = learning rate in force at every batch, `final_lr` = the
rate left in the optimizer after the last entered epoch (`lrEnd`), `sched_steps` = number of scheduler steps (`schedSteps`).
An epoch may be cut short (fewer batches than the others, even none): it still counts as an entered epoch.
The fold is the model's `foldTrace` over the model's `tagEpochs` with the model's `updPos/updCplx/updDM`; the parameters are
materialised into arrays after every update (`reify…`, extensionally the identity, so this IS `fitTracePos/Cplx/DM`). -/
def runOp (j : Json) : R Json := do
  let kind ← jStr (← fld j "kind")
  let n ← jNat (← fld j "n"); let h ← jNat (← fld j "h")
  let lr0 ← jFloat (← fld j "lr0")
  let next ← parseSched j
  let epochsJ ← jArr (← fld j "epochs")
  if kind == "pos" then
    let am ← parseRBM (← fld j "am") n h
    let epochs ← epochsJ.toList.mapM fun ej => do
      (← jArr ej).toList.mapM fun bj => do
        let rows ← parseRows (← fld bj "rows") n
        let vk ← parseVk (← fld bj "vk") n
        let pb : PosBatch Float n := (⟨rows.size, fun s => rows[s.val]!⟩, vk)
        return pb
    let tr := foldTrace (fun p b => reifyRBM (updPos p b)) am (tagEpochs next lr0 0 epochs)
    return Json.mkObj [("trace", .arr (tr.toArray.map fun p => .arr #[fListOut p.flatten])),
      ("lrs", fListOut ((tagEpochs next lr0 0 epochs).map (·.1))),
      ("final_lr", fOut (lrEnd next lr0 0 epochs)), ("sched_steps", nOut (schedSteps epochs))]
  else
    let dict ← Drv.C03.parseDict (← fld j "dict")
    let epochs ← epochsJ.toList.mapM fun ej => do
      (← jArr ej).toList.mapM fun bj => do
        let D ← Drv.C03.parseSamples (← fld bj "samples") n
        let vk ← parseVk (← fld bj "vk") n
        let sb : SmpBatch Float n := (D, vk)
        return sb
    let lrs := fListOut ((tagEpochs next lr0 0 epochs).map (·.1))
    let fin : List (String × Json) := [("final_lr", fOut (lrEnd next lr0 0 epochs)), ("sched_steps", nOut (schedSteps epochs))]
    if kind == "cplx" then
      let am ← parseRBM (← fld j "am") n h
      let ph ← parseRBM (← fld j "ph") n h
      let tr := foldTrace (fun p b => let q := updCplx dict p b; (reifyRBM q.1, reifyRBM q.2)) (am, ph) (tagEpochs next lr0 0 epochs)
      return Json.mkObj ([("trace", .arr (tr.toArray.map fun p => .arr #[fListOut p.1.flatten, fListOut p.2.flatten])), ("lrs", lrs)] ++ fin)
    else
      let a ← jNat (← fld j "a")
      let am ← parsePRBM (← fld j "am") n h a
      let ph ← parsePRBM (← fld j "ph") n h a
      let eps ← jFloat (← fld j "eps")
      let tr := foldTrace (fun p b => let q := updDM dict eps p b; (reifyPRBM q.1, reifyPRBM q.2)) (am, ph) (tagEpochs next lr0 0 epochs)
      return Json.mkObj ([("trace", .arr (tr.toArray.map fun p => .arr #[fListOut p.1.flatten, fListOut p.2.flatten])), ("lrs", lrs)] ++ fin)

def handle (op : String) (j : Json) : Option (R Json) :=
  match op with
  | "c06.step" => some (stepOp j)
  | "c06.cdstep" => some (cdStepOp j)
  | "c06.run" => some (runOp j)
  | "c06.bind" => some (Drv.CallForm.bindOp j)
  | "c06.vector_to_grads" => some (Drv.ArgConv.vectorToGradsOp j)
  | _ => none

end Drv.C06
