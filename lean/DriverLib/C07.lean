import DriverLib.Basic
import DriverLib.ArgConv
import QV.Model.Batching
import DriverLib.CallForm
open Lean Drv QV QV.Batching

namespace Drv.C07

abbrev Row := List Nat

def jRows (j : Json) : R (List Row) := do
  let a ← jArr j
  let rows ← a.mapM (fun r => do return (← jNatArr r).toList)
  return rows.toList

def jBases (j : Json) : R (List (List String)) := do
  let a ← jArr j
  let rows ← a.mapM (fun r => do
    let cs ← (← jArr r).mapM jStr
    return cs.toList)
  return rows.toList

def jBasesOpt (j : Json) (k : String) : R (Option (List (List String))) :=
  match fldOpt j k with
  | none => pure none
  | some v => do return some (← jBases v)

def rowsOut (rs : List Row) : Json := .arr (rs.toArray.map (fun r => .arr (r.toArray.map nOut)))
def basesOut (bs : List (List String)) : Json := .arr (bs.toArray.map (fun r => .arr (r.toArray.map Json.str)))

def batchOut (b : Batch Row) : Json :=
  Json.mkObj [("pos", rowsOut b.pos), ("neg", rowsOut b.neg),
    ("bases", match b.bases with | none => .null | some bs => basesOut bs)]

def shuffleOut (r : Except PyErr (ShuffleOut Row)) : Json :=
  match r with
  | .error e => errOut e
  | .ok o => Json.mkObj [("batches", .arr (o.batches.toArray.map batchOut)),
      ("randint", match o.randint with | none => .null | some (h, s) => .arr #[nOut h, nOut s])]

/-- op `c07.shuffle`: `_shuffle_data` with recorded `perm` / `negIdx`.
in : perm, negIdx, posB, negB, numBatches, samples (rows of naturals), bases (null | rows of strings), zSamples -/
def shuffle (j : Json) : R Json := do
  let perm := (← jNatArr (← fld j "perm")).toList
  let negIdx := (← jNatArr (← fld j "negIdx")).toList
  let posB ← jNat (← fld j "posB")
  let negB ← jNat (← fld j "negB")
  let nb ← jNat (← fld j "numBatches")
  let samples ← jRows (← fld j "samples")
  let bases ← jBasesOpt j "bases"
  let z ← jRows (← fld j "zSamples")
  return shuffleOut (shuffleData perm negIdx posB negB nb samples bases z)

/-- op `c07.epoch`: the data preamble of `fit` + one `_shuffle_data` (`epochBatches`), and what `prepare` derived.
in : data, bases (null | …), posB, negB (null | nat), perm, negIdx -/
def epoch (j : Json) : R Json := do
  let perm := (← jNatArr (← fld j "perm")).toList
  let negIdx := (← jNatArr (← fld j "negIdx")).toList
  let posB ← jNat (← fld j "posB")
  let negB ← (match fldOpt j "negB" with | none => pure none | some v => do return some (← jNat v) : R (Option Nat))
  let data ← jRows (← fld j "data")
  let bases ← jBasesOpt j "bases"
  let prep : Json := match prepare data bases posB negB with
    | .error e => errOut e
    | .ok p => Json.mkObj [("negB", nOut p.negB), ("numBatches", nOut p.numBatches), ("z", rowsOut p.zSamples),
        ("train", rowsOut p.train)]
  return Json.mkObj [("prep", prep), ("out", shuffleOut (epochBatches data bases posB negB perm negIdx))]

/-- op `c07.heap`: the aliasing structure of one epoch: heap = [data, bases?]; returns the number of objects before
and after and, per batch, the storage ids and view windows. -/
def heap (j : Json) : R Json := do
  let perm := (← jNatArr (← fld j "perm")).toList
  let negIdx := (← jNatArr (← fld j "negIdx")).toList
  let posB ← jNat (← fld j "posB")
  let negB ← (match fldOpt j "negB" with | none => pure none | some v => do return some (← jNat v) : R (Option Nat))
  let data ← jRows (← fld j "data")
  let bases ← jBasesOpt j "bases"
  let h : Heap Row := match bases with
    | none => ⟨[.samples data]⟩
    | some bs => ⟨[.samples data, .bases bs]⟩
  let bid : Option Nat := bases.map (fun _ => 1)
  let vOut (v : View) : Json := .arr #[nOut v.storage, nOut v.start, nOut v.len]
  match epochOnHeap h 0 bid posB negB perm negIdx with
  | .error e => return errOut e
  | .ok (h', refs) =>
    let same := (List.range h.objs.length).all (fun i =>
      match h.objs[i]?, h'.objs[i]? with
      | some (.samples a), some (.samples b) => a == b
      | some (.bases a), some (.bases b) => a == b
      | _, _ => false)
    return Json.mkObj [("before", nOut h.objs.length), ("after", nOut h'.objs.length), ("callers_unchanged", .bool same),
      ("refs", .arr (refs.toArray.map (fun r => Json.mkObj [("pos", vOut r.pos), ("neg", vOut r.neg),
        ("bases", match r.bases with | none => .null | some v => vOut v)])))]

/-- op `c07.refbasis`: `extract_refbasis_samples` -/
def refbasis (j : Json) : R Json := do
  let samples ← jRows (← fld j "samples")
  let bases ← jBases (← fld j "bases")
  match extractRefbasis samples bases with
  | .error e => return errOut e
  | .ok z => return Json.mkObj [("z", rowsOut z)]

def handle (op : String) (j : Json) : Option (R Json) :=
  match op with
  | "c07.shuffle" => some (shuffle j)
  | "c07.epoch" => some (epoch j)
  | "c07.heap" => some (heap j)
  | "c07.refbasis" => some (refbasis j)
  | "c07.bind" => some (Drv.CallForm.bindOp j)
  | "c07.fit_convert" => some (Drv.ArgConv.fitConvertOp j)
  | _ => none

end Drv.C07
