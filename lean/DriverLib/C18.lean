import DriverLib.Basic
import DriverLib.C12
import QV.Model.EarlyStopFit
open Lean Drv QV QV.Cb

namespace Drv.C18

def errJ (e : PyErr) : Json := Json.mkObj [("error", .str e.toString)]

def parsePat (j : Json) : R PatArg :=
  match j with
  | .str "none" => .ok .none
  | .str "badstr" => .ok .badStr
  | _ => do return .int (← jInt j)

def parseEk (s : String) : R EvalKind :=
  match s with
  | "metric" => .ok .metric
  | "observable" => .ok .observable
  | "other" => .ok .other
  | _ => .error s!"unknown evaluator kind {s}"

def critName : Criterion → String
  | .relative => "relative"
  | .absolute => "absolute"
  | .variance => "variance"

/-- build the stopper as the code does (`deprecated` selects `VarianceBasedEarlyStopping`) -/
def build (j : Json) : R (Except PyErr (EarlyStopping Float)) := do
  let ps ← jInt (← fld j "ps")
  let tolF ← jFloat (← fld j "tol")
  -- `float("inf")` is the model's `none`
  let tol : Option Float := if tolF == 1.0 / 0.0 then none else some tolF
  let pat ← parsePat (← fld j "patience")
  let ek ← parseEk (← jStr (← fld j "ek"))
  let name ← jStr (← fld j "name")
  let dep ← (match fldOpt j "deprecated" with | some b => jBool b | none => pure false)
  if dep then
    -- the documented-as-ignored `variance_name` is handed to the model's constructor, which ignores it
    let vn ← (match fldOpt j "variance_name" with
      | some (.str s) => pure (some s)
      | _ => pure none)
    return VarianceBasedEarlyStopping.new ps tol pat ek name vn
  else
    let crit ← jStr (← fld j "criterion")
    return EarlyStopping.new ps tol pat ek name crit

/-- op `c18.new`: constructor table. out: {"ok": {criterion, patience, period}} | {"error": kind} -/
def new (j : Json) : R Json := do
  match (← build j) with
  | .error e => return errJ e
  | .ok es => return Json.mkObj [("ok", Json.mkObj [("criterion", .str (critName es.criterion)),
      ("patience", iOut es.patience), ("period", iOut es.period)])]

def parseNum (j : Json) : R (Num Float) := do
  let a ← jArr j
  if a.size != 2 then .error "num = [kind, bits]"
  let k ← jStr a[0]!
  let x ← jFloat a[1]!
  match k with
  | "py" => return ⟨.py, x⟩
  | "np" => return ⟨.np, x⟩
  | _ => .error s!"unknown num kind {k}"

/-- op `c18.fit`: evaluator (metric | observable, period `pe`, fresh) and stopper in the given list order,
an optional evaluator-only pre-run (`pre`: epochs with their value indices), then `fit` over `cands`.
`vals[w]` / `vars[w]` are the monitored value / variance the evaluator would obtain at world `w`
(the world token of a candidate is its index into these tables).
in : ps tol patience ek name criterion deprecated? pe eval_first pre:[[e,w]] cands:[[e,w]] vals:[[kind,bits]] vars?:[[kind,bits]]
out: {"ok": {stop, last_epoch, fired, len, epochs}} | {"error": kind} (constructor or run-time) -/
def fit (j : Json) : R Json := do
  let pe ← jInt (← fld j "pe")
  let evalFirst ← jBool (← fld j "eval_first")
  let name ← jStr (← fld j "name")
  let vals ← (← jArr (← fld j "vals")).mapM parseNum
  let vars ← (match fldOpt j "vars" with | some x => do (← jArr x).mapM parseNum | none => pure #[])
  let parseCands (x : Json) : R (List (Int × Nat)) := do
    (← jArr x).toList.mapM (fun p => do
      let pa ← jArr p
      if pa.size != 2 then .error "cand = [epoch, w]"
      return (← jInt pa[0]!, ← jNat pa[1]!))
  let cands ← parseCands (← fld j "cands")
  let pre ← (match fldOpt j "pre" with | some x => parseCands x | none => pure [])
  let zero : Num Float := ⟨.py, 0.0⟩
  match (← build j) with
  | .error e => return errJ e
  | .ok es =>
    let ev0 : AnyEval Nat Float :=
      match es.evalKind with
      | .observable =>
        let c : ObservableEvaluator Nat (Num Float) := ⟨pe, [name], fun w =>
          [(name, [("mean", vals[w]?.getD zero), ("variance", vars[w]?.getD zero),
                   ("std_error", zero), ("num_samples", zero)])], false⟩
        .observable c c.init
      | _ =>
        let c : MetricEvaluator Nat (Num Float) := ⟨pe, [(name, fun w => vals[w]?.getD zero)], false⟩
        .metric c c.init
    -- evaluator-only pre-run
    let evPre : Except PyErr (AnyEval Nat Float) :=
      pre.foldl (fun acc ew => match acc with
        | .error e => .error e
        | .ok ev => ev.onEpochEnd ew.1 ew.2) (.ok ev0)
    match evPre with
    | .error e => return errJ e
    | .ok ev1 =>
      match fitRun es evalFirst ⟨ev1, ⟨false, none⟩, []⟩ cands with
      | .error e => return errJ e
      | .ok r =>
        return Json.mkObj [("ok", Json.mkObj [
          ("stop", .bool r.st.stop),
          ("last_epoch", match r.st.lastEpoch with | some e => iOut e | none => .null),
          ("fired", .arr (r.fired.map iOut).toArray),
          ("len", nOut r.ev.len),
          ("epochs", .arr (r.ev.epochs.map iOut).toArray)])]

/-- op `c18.session`: SEVERAL consecutive `fit` calls on the same evaluator and stopper objects (`QV.Cb.sessionRun`).
in : as `c18.fit` without pre / cands, plus segments:[{clear, reset, cands:[[e,w]]}]
out: {"ok": [{stop, last_epoch, fired, len, epochs} per call]} | {"error": kind} -/
def session (j : Json) : R Json := do
  let pe ← jInt (← fld j "pe")
  let evalFirst ← jBool (← fld j "eval_first")
  let name ← jStr (← fld j "name")
  let vals ← (← jArr (← fld j "vals")).mapM parseNum
  let vars ← (match fldOpt j "vars" with | some x => do (← jArr x).mapM parseNum | none => pure #[])
  let parseCands (x : Json) : R (List (Int × Nat)) := do
    (← jArr x).toList.mapM (fun p => do
      let pa ← jArr p
      if pa.size != 2 then .error "cand = [epoch, w]"
      return (← jInt pa[0]!, ← jNat pa[1]!))
  let segs ← (← jArr (← fld j "segments")).toList.mapM (fun s => do
    let c ← parseCands (← fld s "cands")
    let clear ← jBool (← fld s "clear")
    let reset ← jBool (← fld s "reset")
    return ({ clear := clear, reset := reset, cands := c } : Segment Nat))
  let zero : Num Float := ⟨.py, 0.0⟩
  match (← build j) with
  | .error e => return errJ e
  | .ok es =>
    let ev0 : AnyEval Nat Float :=
      match es.evalKind with
      | .observable =>
        let c : ObservableEvaluator Nat (Num Float) := ⟨pe, [name], fun w =>
          [(name, [("mean", vals[w]?.getD zero), ("variance", vars[w]?.getD zero),
                   ("std_error", zero), ("num_samples", zero)])], false⟩
        .observable c c.init
      | _ =>
        let c : MetricEvaluator Nat (Num Float) := ⟨pe, [(name, fun w => vals[w]?.getD zero)], false⟩
        .metric c c.init
    match sessionRun es evalFirst ev0 ⟨false, none⟩ segs with
    | .error e => return errJ e
    | .ok rs =>
      return Json.mkObj [("ok", .arr (rs.map (fun r => Json.mkObj [
        ("stop", .bool r.st.stop),
        ("last_epoch", match r.st.lastEpoch with | some e => iOut e | none => .null),
        ("fired", .arr (r.fired.map iOut).toArray),
        ("len", nOut r.ev.len),
        ("epochs", .arr (r.ev.epochs.map iOut).toArray)])).toArray)]

/-- op `c18.fit_trace`: the C12 event trace of an early-stopped run.  Evaluator and stopper as in `c18.fit` (evaluator-only
pre-run included); `cands` = the epochs `start … epochs` with their world tokens (the world of an epoch not listed is 0).
The stop requests of `QV.Train.fit` are DERIVED from them (`QV.Cb.stopperReq`: the stopper, identity `st_id` in the callback
list `cbs`, asks at `on_epoch_end(e)` according to the evaluations held then), and `Train.fit` is run with `num_batches`
batches per epoch.  Also returns what `fitRun` gives for the same epochs (`fired`, `stop`, `last_epoch`).
in : the fields of `c18.fit` + start epochs num_batches cbs:[id] st_id timer
out: {"ok": {events, calls, stop, ver, fired, loop_stop, last_epoch}} | {"error": kind} -/
def fitTrace (j : Json) : R Json := do
  let pe ← jInt (← fld j "pe")
  let evalFirst ← jBool (← fld j "eval_first")
  let name ← jStr (← fld j "name")
  let vals ← (← jArr (← fld j "vals")).mapM parseNum
  let vars ← (match fldOpt j "vars" with | some x => do (← jArr x).mapM parseNum | none => pure #[])
  let parseCands (x : Json) : R (List (Int × Nat)) := do
    (← jArr x).toList.mapM (fun p => do
      let pa ← jArr p
      if pa.size != 2 then .error "cand = [epoch, w]"
      return (← jInt pa[0]!, ← jNat pa[1]!))
  let cands ← parseCands (← fld j "cands")
  let pre ← (match fldOpt j "pre" with | some x => parseCands x | none => pure [])
  let start ← jInt (← fld j "start")
  let epochs ← jInt (← fld j "epochs")
  let nb ← jNat (← fld j "num_batches")
  let cbs ← jNatArr (← fld j "cbs")
  let stId ← jNat (← fld j "st_id")
  let timer ← jBool (← fld j "timer")
  let zero : Num Float := ⟨.py, 0.0⟩
  match (← build j) with
  | .error e => return errJ e
  | .ok es =>
    let ev0 : AnyEval Nat Float :=
      match es.evalKind with
      | .observable =>
        let c : ObservableEvaluator Nat (Num Float) := ⟨pe, [name], fun w =>
          [(name, [("mean", vals[w]?.getD zero), ("variance", vars[w]?.getD zero),
                   ("std_error", zero), ("num_samples", zero)])], false⟩
        .observable c c.init
      | _ =>
        let c : MetricEvaluator Nat (Num Float) := ⟨pe, [(name, fun w => vals[w]?.getD zero)], false⟩
        .metric c c.init
    let evPre : Except PyErr (AnyEval Nat Float) :=
      pre.foldl (fun acc ew => match acc with
        | .error e => .error e
        | .ok ev => ev.onEpochEnd ew.1 ew.2) (.ok ev0)
    match evPre with
    | .error e => return errJ e
    | .ok ev1 =>
      let wof : Int → Nat := fun e => (cands.lookup e).getD 0
      let c : QV.Train.Cfg := { start := start, epochs := epochs, numBatches := nb, cbs := cbs.toList, timer := timer,
                                hasSched := false }
      let Rq := stopperReq stId es evalFirst ev1 wof start
      let r := QV.Train.fit c Rq false
      match fitRun es evalFirst ⟨ev1, ⟨false, none⟩, []⟩ ((QV.Train.epochRange start epochs).map (fun e => (e, wof e))) with
      | .error e => return errJ e
      | .ok lr =>
        return Json.mkObj [("ok", Json.mkObj [
          ("events", .arr ((QV.Train.events r.1).toArray.map Drv.C12.evOut)),
          ("calls", .arr ((QV.Train.calls r.1).toArray.map (fun p => .arr #[nOut p.1, Drv.C12.evOut p.2]))),
          ("stop", .bool r.2.stop), ("ver", nOut r.2.ver),
          ("fired", .arr (lr.fired.map iOut).toArray),
          ("loop_stop", .bool lr.st.stop),
          ("last_epoch", match lr.st.lastEpoch with | some e => iOut e | none => .null)])]

/-- one stop source of `c18.fit_multi`: {"kind": "stopper", …the fields of `build`…} | {"kind": "request", "epochs": [e]} -/
def parseSrc (j : Json) : R (Except PyErr (StopSrc Float)) := do
  match (← jStr (← fld j "kind")) with
  | "request" =>
    let eps ← (← jArr (← fld j "epochs")).toList.mapM jInt
    return .ok (.request eps)
  | "stopper" =>
    match (← build j) with
    | .error e => return .error e
    | .ok es => return .ok (.stopper es)
  | k => .error s!"unknown stop source kind {k}"

def lastsOut (l : List (StopSrc Float × Option Int)) : Json :=
  .arr (l.map (fun p => match p.2 with | some e => iOut e | none => Json.null)).toArray

/-- op `c18.fit_multi`: ONE evaluator (metric | observable, period `pe`, fresh) tracking the quantities `quantities`
(each with its table of monitored values / variances by world), and the callback list `before ++ [evaluator] ++ after` of stop
sources (stoppers of any configuration, callbacks requesting a stop at given epochs); an optional evaluator-only pre-run, then
`fit` over `cands`.
in : ek pe quantities:[{name, vals:[[kind,bits]], vars?:[[kind,bits]]}] before:[src] after:[src] pre:[[e,w]] cands:[[e,w]]
out: {"ok": {stop, fired, lasts_before, lasts_after, len, epochs}} | {"error": kind} (a constructor or run-time error) -/
def fitMulti (j : Json) : R Json := do
  let pe ← jInt (← fld j "pe")
  let ek ← parseEk (← jStr (← fld j "ek"))
  let zero : Num Float := ⟨.py, 0.0⟩
  let qs ← (← jArr (← fld j "quantities")).toList.mapM (fun q => do
    let name ← jStr (← fld q "name")
    let vals ← (← jArr (← fld q "vals")).mapM parseNum
    let vars ← (match fldOpt q "vars" with | some x => do (← jArr x).mapM parseNum | none => pure #[])
    return (name, vals, vars))
  let parseCands (x : Json) : R (List (Int × Nat)) := do
    (← jArr x).toList.mapM (fun p => do
      let pa ← jArr p
      if pa.size != 2 then .error "cand = [epoch, w]"
      return (← jInt pa[0]!, ← jNat pa[1]!))
  let cands ← parseCands (← fld j "cands")
  let pre ← (match fldOpt j "pre" with | some x => parseCands x | none => pure [])
  let parseSrcs (x : Json) : R (Except PyErr (List (StopSrc Float × Option Int))) := do
    let l ← (← jArr x).toList.mapM parseSrc
    return l.foldr (fun s acc => match s, acc with
      | .error e, _ => .error e
      | .ok _, .error e => .error e
      | .ok v, .ok r => .ok ((v, none) :: r)) (.ok [])
  let before ← parseSrcs (← fld j "before")
  let after ← parseSrcs (← fld j "after")
  match before, after with
  | .error e, _ => return errJ e
  | _, .error e => return errJ e
  | .ok before, .ok after =>
    let ev0 : AnyEval Nat Float :=
      match ek with
      | .observable =>
        let c : ObservableEvaluator Nat (Num Float) := ⟨pe, qs.map (·.1), fun w =>
          qs.map (fun q => (q.1, [("mean", q.2.1[w]?.getD zero), ("variance", q.2.2[w]?.getD zero),
                   ("std_error", zero), ("num_samples", zero)])), false⟩
        .observable c c.init
      | _ =>
        let c : MetricEvaluator Nat (Num Float) := ⟨pe, qs.map (fun q => (q.1, fun w => q.2.1[w]?.getD zero)), false⟩
        .metric c c.init
    let evPre : Except PyErr (AnyEval Nat Float) :=
      pre.foldl (fun acc ew => match acc with
        | .error e => .error e
        | .ok ev => ev.onEpochEnd ew.1 ew.2) (.ok ev0)
    match evPre with
    | .error e => return errJ e
    | .ok ev1 =>
      match fitRunMulti ⟨ev1, before, after, false, []⟩ cands with
      | .error e => return errJ e
      | .ok r =>
        return Json.mkObj [("ok", Json.mkObj [
          ("stop", .bool r.stop),
          ("fired", .arr (r.fired.map iOut).toArray),
          ("lasts_before", lastsOut r.before),
          ("lasts_after", lastsOut r.after),
          ("len", nOut r.ev.len),
          ("epochs", .arr (r.ev.epochs.map iOut).toArray)])]

/-- op `c18.norm`: `criterion.strip().lower()` -/
def norm (j : Json) : R Json := do
  let l ← (← jArr (← fld j "strings")).toList.mapM jStr
  return .arr (l.map (fun s => Json.str (normCriterion s))).toArray

def handle (op : String) (j : Json) : Option (R Json) :=
  match op with
  | "c18.new" => some (new j)
  | "c18.fit" => some (fit j)
  | "c18.fit_multi" => some (fitMulti j)
  | "c18.fit_trace" => some (fitTrace j)
  | "c18.session" => some (session j)
  | "c18.norm" => some (norm j)
  | _ => none

end Drv.C18
