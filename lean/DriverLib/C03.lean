import DriverLib.Basic
import DriverLib.C04
import QV.Model.Grads
import QV.Model.GradArgs
open Lean Drv QV QV.Grads

namespace Drv.C03

def parseDict (j : Json) : R (Char → M2 Float) := do
  match j with
  | .obj kvs =>
    let mut entries : List (Char × M2 Float) := []
    for (k, v) in kvs.toList do
      let m ← Drv.C04.parseM2 (α := Float) v
      entries := (k.front, m) :: entries
    let tbl := entries
    return fun c => match tbl.find? (fun e => e.1 == c) with
      | some e => e.2
      | none => fun _ _ => (0.0, 0.0)
  | _ => throw "dict: expected object"

def parseSamples (j : Json) (n : Nat) : R (List (Sample n)) := do
  let arr ← jArr j
  let l ← arr.toList.mapM (fun s => do
    let σ ← Drv.C04.parseBits (← fld s "bits") n
    let b ← jStr (← fld s "basis")
    return ({ σ := σ, basis := b.toList } : Sample n))
  return l

def outRBM {n h : Nat} (g : RBM Float n h) : Json := fListOut g.flatten
def outPRBM {n h a : Nat} (g : PRBM Float n h a) : Json := fListOut g.flatten

def posOp (j : Json) : R Json := do
  let n ← jNat (← fld j "n"); let h ← jNat (← fld j "h")
  let am ← parseRBM (← fld j "am") n h
  let rows ← parseRows (← fld j "rows") n
  let B := rows.size
  let vs : Fin B → Fin n → Float := fun s => rows[s.val]!
  return Json.mkObj [
    ("gradient", outRBM (gradientPos am vs)),
    ("positive_phase", outRBM (positivePhasePos am vs)),
    ("exact", outRBM (exactGradientsPos am vs)),
    ("per_row", .arr (rows.map (fun v => outRBM (am.effEnergyGrad1 v))))]

def cplxOp (j : Json) : R Json := do
  let n ← jNat (← fld j "n"); let h ← jNat (← fld j "h")
  let am ← parseRBM (← fld j "am") n h
  let ph ← parseRBM (← fld j "ph") n h
  let dict ← parseDict (← fld j "dict")
  let D ← parseSamples (← fld j "samples") n
  let g := gradientCplx am ph dict D
  let pp := positivePhaseCplx am ph dict D
  let ex := exactGradientsCplx am ph dict D
  return Json.mkObj [
    ("gradient", .arr #[outRBM g.1, outRBM g.2]),
    ("positive_phase", .arr #[outRBM pp.1, outRBM pp.2]),
    ("exact", .arr #[outRBM ex.1, outRBM ex.2]),
    ("per_sample", .arr (D.toArray.map (fun s => let p := cplxGrad1 am ph dict s; .arr #[outRBM p.1, outRBM p.2]))),
    ("upsi", .arr (D.toArray.map (fun s => let u := cplxUpsi am ph dict s; .arr #[fOut u.1, fOut u.2])))]

def dmOp (j : Json) : R Json := do
  let n ← jNat (← fld j "n"); let h ← jNat (← fld j "h"); let a ← jNat (← fld j "a")
  let am ← parsePRBM (← fld j "am") n h a
  let ph ← parsePRBM (← fld j "ph") n h a
  let dict ← parseDict (← fld j "dict")
  let eps ← jFloat (← fld j "eps")
  let D ← parseSamples (← fld j "samples") n
  let g := gradientDM am ph dict eps D
  let pp := positivePhaseDM am ph dict eps D
  let ex := exactGradientsDM am ph dict eps D
  return Json.mkObj [
    ("gradient", .arr #[outPRBM g.1, outPRBM g.2]),
    ("positive_phase", .arr #[outPRBM pp.1, outPRBM pp.2]),
    ("exact", .arr #[outPRBM ex.1, outPRBM ex.2]),
    ("per_sample", .arr (D.toArray.map (fun s => let p := dmGrad1 am ph dict eps s; .arr #[outPRBM p.1, outPRBM p.2]))),
    ("urhou", .arr (D.toArray.map (fun s => fOut (dmUrhoU am ph dict s))))]

/-- auxiliary: PRBM per-row effective-energy gradient, gamma_grad and pi_grad entries -/
def dmAuxOp (j : Json) : R Json := do
  let n ← jNat (← fld j "n"); let h ← jNat (← fld j "h"); let a ← jNat (← fld j "a")
  let am ← parsePRBM (← fld j "am") n h a
  let ph ← parsePRBM (← fld j "ph") n h a
  let v ← jFloatArr (← fld j "v"); let vp ← jFloatArr (← fld j "vp")
  checkVec v n "v"; checkVec vp n "vp"
  let vf := vecFn v n; let vpf := vecFn vp n
  let pa := piGrad am ph false vf vpf
  let pp := piGrad am ph true vf vpf
  let qa := piGradNoExpand am ph false vf vpf
  let qp := piGradNoExpand am ph true vf vpf
  return Json.mkObj [
    ("eff_grad", outPRBM (am.effEnergyGrad1 vf)),
    ("gamma_grad_plus", outPRBM (gammaGrad am 1.0 vf vpf)),
    ("gamma_grad_minus", outPRBM (gammaGrad ph (-1.0) vf vpf)),
    ("pi_grad_am", .arr #[outPRBM pa.1, outPRBM pa.2]),
    ("pi_grad_ph", .arr #[outPRBM pp.1, outPRBM pp.2]),
    ("pi_grad_am_noexpand", .arr #[outPRBM qa.1, outPRBM qa.2]),
    ("pi_grad_ph_noexpand", .arr #[outPRBM qp.1, outPRBM qp.2])]

/-- auxiliary (extension round X2): the scalar complex kernel on a list of complex numbers `z` (and a second list `w` of the same
length): HEAD's forms `C.invH z`, `C.divH w z`, `C.sdivH w z`, `C.absH z`, `C.csigmoidH z.re z.im` — the definitions
`cplxRotComp` / `piGrad` call — beside the textbook forms `C.inv z`, `C.div w z`, `csigmoid z.re z.im` (the code before 7038bfb) -/
def kernelOp (j : Json) : R Json := do
  let zr ← jFloatArr (← fld j "zr"); let zi ← jFloatArr (← fld j "zi")
  let wr ← jFloatArr (← fld j "wr"); let wi ← jFloatArr (← fld j "wi")
  checkVec zi zr.size "zi"; checkVec wr zr.size "wr"; checkVec wi zr.size "wi"
  let zs : Array (C Float) := (Array.range zr.size).map (fun k => (zr[k]!, zi[k]!))
  let ws : Array (C Float) := (Array.range zr.size).map (fun k => (wr[k]!, wi[k]!))
  let pr (f : C Float → C Float) : Json := .arr (zs.map (fun z => let r := f z; .arr #[fOut r.1, fOut r.2]))
  let pr2 (f : C Float → C Float → C Float) : Json :=
    .arr ((Array.range zr.size).map (fun k => let r := f ws[k]! zs[k]!; .arr #[fOut r.1, fOut r.2]))
  return Json.mkObj [
    ("invH", pr C.invH), ("inv", pr C.inv),
    ("divH", pr2 C.divH), ("sdivH", pr2 C.sdivH), ("div", pr2 C.div),
    ("absH", .arr (zs.map (fun z => fOut (C.absH z)))),
    ("csigmoidH", pr (fun z => C.csigmoidH z.1 z.2)), ("csigmoid", pr (fun z => csigmoid z.1 z.2))]

/-! ### extension round 2: call forms of `bases`, batch layout -/

def parseBasesArg (j : Json) : R BasesArg := do
  let form ← jStr (← fld j "form")
  match form with
  | "none" => return .none
  | "str" => return .str (← jStr (← fld j "value")).toList
  | "seq1" => return .seq1 ((← (← jArr (← fld j "value")).mapM jStr).toList.map String.toList)
  | "seq2" =>
    let rows ← (← jArr (← fld j "value")).mapM (fun r => do return ((← (← jArr r).mapM jStr).toList.map String.toList))
    return .seq2 rows.toList
  | _ => throw "bases: unknown form"

def parseSamplesArg (j : Json) (n : Nat) : R (SamplesArg n) := do
  let one ← jBool (← fld j "one")
  let rows ← (← jArr (← fld j "rows")).mapM (fun s => Drv.C04.parseBits s n)
  if one then
    if h : rows.size = 1 then return .one rows[0] else throw "samples: a 1-D sample is one row"
  else return .batch rows.toList

/-- `gradient(samples, bases)` with the arguments in the caller's form (`gradientCplxArgs` / `gradientDMArgs`) -/
def argsOp (j : Json) : R Json := do
  let kind ← jStr (← fld j "kind")
  let n ← jNat (← fld j "n"); let h ← jNat (← fld j "h")
  let dict ← parseDict (← fld j "dict")
  let keys := (← jStr (← fld j "keys")).toList
  let samples ← parseSamplesArg (← fld j "samples") n
  let bases ← parseBasesArg (← fld j "bases")
  if kind == "cplx" then
    let am ← parseRBM (← fld j "am") n h
    let ph ← parseRBM (← fld j "ph") n h
    match gradientCplxArgs am ph dict keys samples bases with
    | .ok g => return Json.mkObj [("ok", .bool true), ("gradient", .arr #[outRBM g.1, outRBM g.2])]
    | .error e => return Json.mkObj [("ok", .bool false), ("error", .str e.toString)]
  else
    let a ← jNat (← fld j "a")
    let am ← parsePRBM (← fld j "am") n h a
    let ph ← parsePRBM (← fld j "ph") n h a
    let eps ← jFloat (← fld j "eps")
    match gradientDMArgs am ph dict eps keys samples bases with
    | .ok g => return Json.mkObj [("ok", .bool true), ("gradient", .arr #[outPRBM g.1, outPRBM g.2])]
    | .error e => return Json.mkObj [("ok", .bool false), ("error", .str e.toString)]

/-- all multi-indices of a shape, row-major -/
def allIdx : List Nat → List (List Nat)
  | [] => [[]]
  | d :: ds => (List.range d).flatMap (fun i => (allIdx ds).map (fun r => i :: r))

def ftOut (t : Except PyErr (FT Float)) : Json :=
  match t with
  | .ok t => Json.mkObj [("ok", .bool true), ("shape", .arr (t.shape.toArray.map nOut)),
      ("data", fListOut ((allIdx t.shape).map t.get))]
  | .error e => Json.mkObj [("ok", .bool false), ("error", .str e.toString)]

def parseRowsArg (j : Json) (n : Nat) : R (RowsArg Float n) := do
  let one ← jBool (← fld j "one")
  let rows ← parseRows (← fld j "rows") n
  if one && rows.size != 1 then throw "rows: a 1-D operand is one row"
  return { batch := if one then none else some rows.size, row := fun i => rows[i]! }

/-- the full tensors `gamma_grad(v, vp, ±1, expand)` and `pi_grad(v, vp, phase, expand)` (`gammaGradT`, `piGradT`) -/
def layoutOp (j : Json) : R Json := do
  let n ← jNat (← fld j "n"); let h ← jNat (← fld j "h"); let a ← jNat (← fld j "a")
  let am ← parsePRBM (← fld j "am") n h a
  let ph ← parsePRBM (← fld j "ph") n h a
  let v ← parseRowsArg (← fld j "v") n
  let vp ← parseRowsArg (← fld j "vp") n
  let pi (phase expand : Bool) : Json :=
    match piGradT am ph phase expand v vp with
    | .ok (re, im) => .arr #[ftOut (.ok re), ftOut (.ok im)]
    | .error e => .arr #[ftOut (.error e), ftOut (.error e)]
  return Json.mkObj [
    ("gamma_plus_expand", ftOut (gammaGradT am 1.0 true v vp)),
    ("gamma_plus_noexpand", ftOut (gammaGradT am 1.0 false v vp)),
    ("gamma_minus_expand", ftOut (gammaGradT ph (-1.0) true v vp)),
    ("gamma_minus_noexpand", ftOut (gammaGradT ph (-1.0) false v vp)),
    ("pi_am_expand", pi false true), ("pi_am_noexpand", pi false false),
    ("pi_ph_expand", pi true true), ("pi_ph_noexpand", pi true false)]

/-- `cplx.inverse` as coded at one point, and the complex per-sample gradient there (zero rotated amplitude probe) -/
def zeroAmpOp (j : Json) : R Json := do
  let n ← jNat (← fld j "n"); let h ← jNat (← fld j "h")
  let am ← parseRBM (← fld j "am") n h
  let ph ← parseRBM (← fld j "ph") n h
  let dict ← parseDict (← fld j "dict")
  let D ← parseSamples (← fld j "samples") n
  return .arr (D.toArray.map (fun s =>
    let u := cplxUpsi am ph dict s
    let iv := C.invH u
    let p := cplxGrad1 am ph dict s
    Json.mkObj [("upsi", .arr #[fOut u.1, fOut u.2]), ("inv", .arr #[fOut iv.1, fOut iv.2]),
      ("grad", .arr #[outRBM p.1, outRBM p.2])]))

def handle (op : String) (j : Json) : Option (R Json) :=
  match op with
  | "c03.pos" => some (posOp j)
  | "c03.cplx" => some (cplxOp j)
  | "c03.dm" => some (dmOp j)
  | "c03.dm_aux" => some (dmAuxOp j)
  | "c03.kernel" => some (kernelOp j)
  | "c03.args" => some (argsOp j)
  | "c03.layout" => some (layoutOp j)
  | "c03.zero_amp" => some (zeroAmpOp j)
  | _ => none

end Drv.C03
