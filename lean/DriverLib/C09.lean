import DriverLib.Basic
import DriverLib.C08
import QV.Model.Observables
open Lean Drv QV

namespace Drv.C09

/-- op `c09.eval`: `SWAP(A).apply` on one batch.
in : state fields, samples (rows of 0/1), region (list of ints, as torch indexing receives them)
out: {"error": kind} if the region is rejected, else {vals, after, roll (row indices of the second replica)} -/
def eval (j : Json) : R Json := do
  let n ← jNat (← fld j "n")
  let S ← Drv.C08.parseState j n
  let samples ← Drv.C08.parseCfgs (← fld j "samples") n
  let region ← jIntArr (← fld j "region")
  match normRegion n region.toList with
  | .error e => return errOut e
  | .ok A =>
    let r := swapRun S A (Drv.C08.heap0 samples) 0
    return Json.mkObj [
      ("vals", fListOut r.2),
      ("after", Drv.C08.cfgsOut (r.1.cells 0)),
      ("region", .arr ((Array.ofFn A).map (fun b => nOut (if b then 1 else 0)))),
      ("roll", .arr ((roll1 (List.range samples.length)).toArray.map nOut))]

def handle (op : String) (j : Json) : Option (R Json) :=
  match op with
  | "c09.eval" => some (eval j)
  | _ => none

end Drv.C09
