import DriverLib.Basic
import DriverLib.C04
import QV.Model.States
import QV.Model.Unitaries
import QV.Model.Metrics
import DriverLib.CallForm
open Lean Drv QV QV.Metrics

namespace Drv.C10

/-- the state functions `training_statistics` calls, tabulated once over the generated Hilbert space -/
structure St (n : Nat) where
  pure : Bool
  /-- does the state class carry a `unitary_dict` attribute (not so for `PositiveWaveFunction`) -/
  hasDict : Bool
  psi : (Fin n → Bool) → C Float
  rho : (Fin n → Bool) → (Fin n → Bool) → C Float
  prob : (Fin n → Bool) → Float
  Z : Float
  /-- the keyword entries `kw` of `unitary_dict=create_dict(**kw)` the state was constructed with (`[]`: the default
  dictionary); the rotations look letters up in `userDict kw` -/
  kw : Unitaries.UDict Float := []

def bitsOf {n : Nat} (σ : Fin n → Bool) : Fin n → Float := fun j => bit (σ j)

/-- parse `kind` ("pos"|"cplx"|"dens"), `n`, `h`, `a`?, `am`, `ph`? and build the state functions from the
C01/C02 models -/
def parseState (j : Json) : R ((n : Nat) × St n) := do
  let kind ← jStr (← fld j "kind")
  let kw : Unitaries.UDict Float := (← Drv.C04.parseDict ((fldOpt j "dict").getD .null)).getD []
  let n ← jNat (← fld j "n")
  let h ← jNat (← fld j "h")
  let space : Fin (2 ^ n) → Fin n → Float := fun k => spaceRow n k.val
  let N := 2 ^ n
  if kind == "dens" then
    let a ← jNat (← fld j "a")
    let am ← parsePRBM (← fld j "am") n h a
    let ph ← parsePRBM (← fld j "ph") n h a
    let Z := Density.normalization am space
    let tabR : Array (Array (C Float)) :=
      Array.ofFn (fun k : Fin N => Array.ofFn (fun l : Fin N =>
        Density.rho am ph (bitsOf (row n k.val)) (bitsOf (row n l.val))))
    let tabP : Array Float := Array.ofFn (fun k : Fin N => Density.probability am (bitsOf (row n k.val)) Z)
    return ⟨n, { pure := false, hasDict := true, psi := fun _ => (0, 0),
                 rho := fun σ σ' => (tabR[basisIndex σ]!)[basisIndex σ']!,
                 prob := fun σ => tabP[basisIndex σ]!, Z := Z, kw := kw }⟩
  else
    let am ← parseRBM (← fld j "am") n h
    let Z := Wave.normalization am space
    let tabP : Array Float := Array.ofFn (fun k : Fin N => Wave.probability am (bitsOf (row n k.val)) Z)
    let tabPsi : Array (C Float) ←
      (if kind == "cplx" then do
        let ph ← parseRBM (← fld j "ph") n h
        return Array.ofFn (fun k : Fin N => Wave.psiCplx am ph (bitsOf (row n k.val)))
      else if kind == "pos" then
        return Array.ofFn (fun k : Fin N => Wave.psiPos am (bitsOf (row n k.val)))
      else .error s!"unknown kind {kind}")
    return ⟨n, { pure := true, hasDict := kind == "cplx", psi := fun σ => tabPsi[basisIndex σ]!, rho := fun _ _ => (0, 0),
                 prob := fun σ => tabP[basisIndex σ]!, Z := Z, kw := kw }⟩

/-- `{"re": [...], "im": [...]}` -/
def parseCVec (j : Json) : R (Nat → C Float) := do
  let re ← jFloatArr (← fld j "re")
  let im ← jFloatArr (← fld j "im")
  if re.size != im.size then .error "cvec: re/im sizes differ" else
  return fun k => (re[k]!, im[k]!)

def parseCMat (j : Json) : R (Nat → Nat → C Float) := do
  let re ← jFloatMat (← fld j "re")
  let im ← jFloatMat (← fld j "im")
  return fun i k => ((re[i]!)[k]!, (im[i]!)[k]!)

def parseBasis (n : Nat) (j : Json) : R (Basis n) := do
  let s ← jStr j
  let cs := s.toList.toArray
  if h : cs.size = n then return ⟨cs, h⟩ else .error s!"basis {s}: expected {n} letters"

def parseBases (n : Nat) (j : Json) : R (List (Basis n)) := do
  return (← (← jArr j).mapM (parseBasis n)).toList

def parseSample (n : Nat) (j : Json) : R (Fin n → Bool) := do
  let a ← jNatArr j
  if a.size != n then .error "sample: wrong length" else
  return fun s => a[s.val]! == 1

def resOut (r : Except PyErr (Res Float)) : Json :=
  match r with
  | .ok ⟨k, v⟩ => Json.mkObj [("kind", .str k.toString), ("val", fOut v)]
  | .error e => errOut e

def parseTarget {V : Type} (n : Nat) (pv : Json → R V) (j : Json) : R (Target V n) := do
  match fldOpt j "once" with
  | some t => return .once (← pv t)
  | none =>
    let es ← jArr (← fld j "dict")
    let entries ← es.mapM (fun e => do
      let b ← parseBasis n (← fld e "basis")
      let v ← pv (← fld e "t")
      return (b, v))
    return .dict entries.toList

def cOut (z : C Float) : Json := .arr #[fOut z.1, fOut z.2]

/-- op `c10.fidelity` -/
def fidelity (j : Json) : R Json := do
  let ⟨n, st⟩ ← parseState j
  let N := 2 ^ n
  if st.pure then
    let t ← parseCVec (← fld j "target")
    let r := fidelityPureRes N t (fun k => st.psi (row n k)) st.Z
    return Json.mkObj [("res", resOut r), ("Z", fOut st.Z)]
  else
    let T ← parseCMat (← fld j "target")
    let eigJ ← jArr (← fld j "eig")
    let eig ← eigJ.mapM (fun e => do
      let a ← jFloatArr e
      return ((a[0]!, a[1]!) : C Float))
    let prod := fidProd N T (fun k l => st.rho (row n k) (row n l)) st.Z
    let r := fidelityMixedRes eig.toList
    return Json.mkObj [("res", resOut r), ("Z", fOut st.Z),
      ("prod", .arr (Array.ofFn (fun i : Fin N => .arr (Array.ofFn (fun k : Fin N => cOut (prod i.val k.val))))))]

/-- op `c10.kl` -/
def kl (j : Json) : R Json := do
  let ⟨n, st⟩ ← parseState j
  let eps ← jFloat (← fld j "eps")
  let bases ← (match fldOpt j "bases" with
    | none => pure none
    | some b => do return some (← parseBases n b))
  if st.pure then
    let target ← parseTarget n parseCVec (← fld j "target")
    return Json.mkObj [("res", resOut (klPure eps n (if st.hasDict then some (userDict st.kw) else none) st.psi st.prob st.Z target bases)), ("Z", fOut st.Z)]
  else
    let target ← parseTarget n parseCMat (← fld j "target")
    return Json.mkObj [("res", resOut (klMixed eps n (userDict st.kw) st.rho st.prob st.Z target bases)), ("Z", fOut st.Z)]

/-- op `c10.nll` -/
def nll (j : Json) : R Json := do
  let ⟨n, st⟩ ← parseState j
  let eps ← jFloat (← fld j "eps")
  let samples := (← (← jArr (← fld j "samples")).mapM (parseSample n)).toList
  let sb ← (match fldOpt j "sample_bases" with
    | none => pure none
    | some b => do return some (← parseBases n b))
  let r := if st.pure then nllPure eps n (if st.hasDict then some (userDict st.kw) else none) st.psi st.prob st.Z samples sb
           else nllMixed eps n (userDict st.kw) st.rho st.prob st.Z samples sb
  return Json.mkObj [("res", resOut r), ("Z", fOut st.Z)]

/-- op `c10.state`: the tabulated state (auxiliary localisation points) -/
def state (j : Json) : R Json := do
  let ⟨n, st⟩ ← parseState j
  let N := 2 ^ n
  return Json.mkObj [("Z", fOut st.Z),
    ("prob", .arr (Array.ofFn (fun k : Fin N => fOut (st.prob (row n k.val))))),
    ("psi", .arr (Array.ofFn (fun k : Fin N => cOut (st.psi (row n k.val))))),
    ("rho", if st.pure then .null else
      .arr (Array.ofFn (fun k : Fin N => .arr (Array.ofFn (fun l : Fin N => cOut (st.rho (row n k.val) (row n l.val)))))))]

/-- op `c10.logit`: `probs_to_logits` on a list -/
def logit (j : Json) : R Json := do
  let eps ← jFloat (← fld j "eps")
  let xs ← jFloatArr (← fld j "xs")
  return fArrOut (xs.map (probsToLogits eps))

/-- op `c10.alias_call`: in: `kl` (false: `fidelity`, true: `KL`), `pos` = positional arguments in call order, `kw` = [[name, value]…]
(values `null` | `{"ref": n}`). out: `{"bound": {parameter: value}}` as the undecorated function receives them
(`QV.CallForm.metricBind`: `deprecated_kwarg.rename`, then Python's binding) | `{"error": …}`; plus the alias table. -/
def aliasCallOp (j : Json) : R Json := do
  let isKL ← jBool (← fld j "kl")
  let pos ← (← jArr (← fld j "pos")).toList.mapM Drv.CallForm.jArg
  let kw ← (← jArr (← fld j "kw")).toList.mapM fun e => do
    let a ← jArr e
    return ((← jStr a[0]!), (← Drv.CallForm.jArg a[1]!))
  let table := Json.arr (QV.CallForm.metricAliases.toArray.map fun e => .arr #[.str e.1, .str e.2])
  let params := Json.arr ((QV.CallForm.metricParams isKL).toArray.map .str)
  match QV.CallForm.metricBind isKL pos kw with
  | .error e => return Json.mkObj [("error", .str e.toString), ("aliases", table), ("params", params)]
  | .ok r => return Json.mkObj [("bound", Json.mkObj (r.map fun e => (e.1, Drv.CallForm.argOut e.2))),
      ("aliases", table), ("params", params)]

def handle (op : String) (j : Json) : Option (R Json) :=
  match op with
  | "c10.fidelity" => some (fidelity j)
  | "c10.kl" => some (kl j)
  | "c10.nll" => some (nll j)
  | "c10.state" => some (state j)
  | "c10.logit" => some (logit j)
  | "c10.alias_call" => some (aliasCallOp j)
  | _ => none

end Drv.C10
