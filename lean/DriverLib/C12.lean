import DriverLib.Basic
import QV.Model.Train
import QV.Model.LambdaCb
open Lean Drv QV.Train

namespace Drv.C12

/-- events cross the protocol as `["ts"] | ["es",e] | ["bs",e,b] | ["be",e,b] | ["ee",e] | ["te"]` -/
def evOut : Event → Json
  | .trainStart => .arr #[.str "ts"]
  | .epochStart e => .arr #[.str "es", iOut e]
  | .batchStart e b => .arr #[.str "bs", iOut e, nOut b]
  | .batchEnd e b => .arr #[.str "be", iOut e, nOut b]
  | .epochEnd e => .arr #[.str "ee", iOut e]
  | .trainEnd => .arr #[.str "te"]

def evIn (j : Json) : R Event := do
  let a ← jArr j
  let tag ← jStr (a[0]?.getD .null)
  match tag, a.size with
  | "ts", 1 => return .trainStart
  | "te", 1 => return .trainEnd
  | "es", 2 => return .epochStart (← jInt a[1]!)
  | "ee", 2 => return .epochEnd (← jInt a[1]!)
  | "bs", 3 => return .batchStart (← jInt a[1]!) (← jNat a[2]!)
  | "be", 3 => return .batchEnd (← jInt a[1]!) (← jNat a[2]!)
  | _, _ => .error s!"bad event {j.compress}"

def msgOut : TimerMsg → Json
  | .terminatedBatch e b => .arr #[.str "tb", iOut e, nOut b]
  | .terminatedEpoch e => .arr #[.str "tep", iOut e]
  | .total => .arr #[.str "total"]

def entryOut : Entry → Json
  | .emit ev => .arr #[.str "emit", evOut ev]
  | .call i ev seen ver => .arr #[.str "call", nOut i, evOut ev, .bool seen, nOut ver]
  | .print m => .arr #[.str "print", msgOut m]
  | .ret ev f => .arr #[.str "ret", evOut ev, .bool f]
  | .shuffle e => .arr #[.str "shuffle", iOut e]
  | .optStep e b => .arr #[.str "opt", iOut e, nOut b]
  | .schedStep e => .arr #[.str "sched", iOut e]

/-- op `c12.fit`: run the `fit` state machine.
in : start, epochs (ints), numBatches, cbs (callback identities in list order), timer, hasSched, stop0,
     req_cb : [[i, event], …] (callback `i` requests a stop while handling `event`),
     req_mid : [[e, b], …] (a stop is raised between batch-start and batch-end of `(e,b)`)
out: log (all entries), events, calls, final {stop, ver, sched} -/
def runFit (j : Json) : R Json := do
  let start ← jInt (← fld j "start")
  let epochs ← jInt (← fld j "epochs")
  let nb ← jNat (← fld j "numBatches")
  let cbs ← jNatArr (← fld j "cbs")
  let timer ← jBool (← fld j "timer")
  let hasSched ← jBool (← fld j "hasSched")
  let stop0 ← jBool (← fld j "stop0")
  let reqCb ← (← jArr (← fld j "req_cb")).mapM (fun p => do
    let a ← jArr p
    return ((← jNat (a[0]?.getD .null)), (← evIn (a[1]?.getD .null))))
  let reqMid ← (← jArr (← fld j "req_mid")).mapM (fun p => do
    let a ← jArr p
    return ((← jInt (a[0]?.getD .null)), (← jNat (a[1]?.getD .null))))
  let c : Cfg := { start := start, epochs := epochs, numBatches := nb, cbs := cbs.toList, timer := timer,
                   hasSched := hasSched }
  let Rq : Req := { cb := fun i ev => reqCb.any (fun p => p.1 == i && p.2 == ev),
                    mid := fun e b => reqMid.any (fun p => p.1 == e && p.2 == b) }
  let r := fit c Rq stop0
  return Json.mkObj [
    ("log", .arr (r.1.toArray.map entryOut)),
    ("events", .arr ((events r.1).toArray.map evOut)),
    ("calls", .arr ((calls r.1).toArray.map (fun p => .arr #[nOut p.1, evOut p.2]))),
    ("prints", .arr ((prints r.1).toArray.map msgOut)),
    ("stop", .bool r.2.stop), ("ver", nOut r.2.ver), ("sched", nOut r.2.sched)]

def reqIn (j : Json) : R Req := do
  let reqCb ← (← jArr (← fld j "req_cb")).mapM (fun p => do
    let a ← jArr p
    return ((← jNat (a[0]?.getD .null)), (← evIn (a[1]?.getD .null))))
  let reqMid ← (← jArr (← fld j "req_mid")).mapM (fun p => do
    let a ← jArr p
    return ((← jInt (a[0]?.getD .null)), (← jNat (a[1]?.getD .null))))
  return { cb := fun i ev => reqCb.any (fun p => p.1 == i && p.2 == ev),
           mid := fun e b => reqMid.any (fun p => p.1 == e && p.2 == b) }

def cbArgIn (j : Json) : R CbArg := do
  let form ← jStr (← fld j "form")
  let items := (← jNatArr (← fld j "items")).toList
  match form with
  | "none" => if items.isEmpty then return .none else .error "callbacks form none with items"
  | "list" => return .list items
  | "tuple" => return .tuple items
  | "cblist" => return .cbList items
  | "iter" => return .iter items
  | _ => .error s!"bad callbacks form {form}"

def runIn (j : Json) : R Run := do
  let pre ← (match fldOpt j "pre" with | none => pure none | some v => do return some (← jBool v) : R (Option Bool))
  let negB ← (match fldOpt j "negB" with | none => pure none | some v => do return some (← jNat v) : R (Option Nat))
  let args : Args := {
    start := ← jInt (← fld j "start"), epochs := ← jInt (← fld j "epochs"), N := ← jNat (← fld j "N"),
    posB := ← jNat (← fld j "posB"), negB := negB, hasBases := ← jBool (← fld j "hasBases"),
    nZ := ← (match fldOpt j "nZ" with | none => do jNat (← fld j "N") | some v => jNat v : R Nat),
    callbacks := ← cbArgIn (← fld j "callbacks"), time := ← jBool (← fld j "timer"),
    hasSched := ← jBool (← fld j "hasSched") }
  return { pre := pre, args := args, req := ← reqIn j }

def slots : Array Slot := #[.trainStart, .trainEnd, .epochStart, .epochEnd, .batchStart, .batchEnd]

/-- a constructor argument: `null` (None) | `{"id": n, "nparams": k}` (callable) | `"x"` (not callable) -/
def fnArgIn (j : Json) : R FnArg :=
  match j with
  | .null => .ok .none
  | .str _ => .ok .notCallable
  | _ => do return .fn (← jNat (← fld j "id")) (← jNat (← fld j "nparams"))

def slotFn {α : Type} [Inhabited α] (a : Array α) : Slot → α := fun s => a[s.idx]!

def handlerOut : Handler → Json
  | .noop => .null
  | .user f => nOut f

/-- the six `LambdaCallback` constructor arguments, in the order of `slots` -/
def lambdaArgsIn (j : Json) : R (Slot → FnArg) := do
  let a ← (← jArr j).mapM fnArgIn
  if a.size != 6 then .error "expected six handler arguments" else return slotFn a

/-- op `c12.lambda_init`: `LambdaCallback.__init__` on six arguments (`QV.Train.lambdaInit`).
out: {handlers : [null | id × 6]} or {error : kind, slot : name} -/
def runLambdaInit (j : Json) : R Json := do
  let a ← lambdaArgsIn (← fld j "args")
  match lambdaInit a with
  | .ok o => return Json.mkObj [("handlers", .arr (slots.map (fun s => handlerOut (o.get s))))]
  | .error (e, s) => return Json.mkObj [("error", .str e.toString), ("slot", .str s.name)]

/-- a callback object: `{"kind": "lambda", "args": [six constructor arguments]}` or
`{"kind": "subclass", "overrides": [null | id × 6]}` -/
def objIn (j : Json) : R (Except (QV.PyErr × Slot) CbObj) := do
  match ← jStr (← fld j "kind") with
  | "lambda" => return lambdaInit (← lambdaArgsIn (← fld j "args"))
  | "subclass" =>
    let a ← (← jArr (← fld j "overrides")).mapM (fun v => match v with
      | .null => (pure none : R (Option Nat)) | v => do return some (← jNat v))
    if a.size != 6 then .error "expected six overrides" else return .ok (subclassObj (slotFn a))
  | k => .error s!"bad object kind {k}"

/-- default object (identity not listed): a recorder overriding all six methods, function ids `10 i + slot` -/
def defaultObj (i : Nat) : CbObj := subclassObj (fun s => some (10 * i + s.idx))

/-- `objs : [[identity, object], …]` ↦ table, or the constructor error of the first object that fails -/
def tableIn (j : Json) : R (Except (QV.PyErr × Slot) Table) := do
  let mut tab : List (Nat × CbObj) := []
  for p in ← jArr j do
    let a ← jArr p
    let i ← jNat (a[0]?.getD .null)
    match ← objIn (a[1]?.getD .null) with
    | .error e => return .error e
    | .ok o => tab := (i, o) :: tab
  let t := tab
  return .ok (fun i => match t.find? (fun q => q.1 == i) with | some q => q.2 | none => defaultObj i)

def userCallOut (p : Nat × Nat × Event) : Json := .arr #[nOut p.1, nOut p.2.1, evOut p.2.2]

def outOf (r : List Entry × S) : Json :=
  Json.mkObj [
    ("log", .arr (r.1.toArray.map entryOut)),
    ("events", .arr ((events r.1).toArray.map evOut)),
    ("calls", .arr ((calls r.1).toArray.map (fun p => .arr #[nOut p.1, evOut p.2]))),
    ("prints", .arr ((prints r.1).toArray.map msgOut)),
    ("stop", .bool r.2.stop), ("ver", nOut r.2.ver), ("sched", nOut r.2.sched)]

/-- op `c12.session`: consecutive `fit` calls on one object, from the caller's arguments (`QV.Train.session`).
in : stop0, runs : [{pre : null|bool, start, epochs, N, nZ (rows in the reference basis; default N), posB, negB : null|nat, hasBases, callbacks : {form, items},
     timer, hasSched, req_cb, req_mid}, …]
out: {runs : [{log, events, calls, prints, stop, ver, sched, batchesPerEpoch, cbs}, …]} or {error} -/
def runSession (j : Json) : R Json := do
  let stop0 ← jBool (← fld j "stop0")
  let runs0 ← (← jArr (← fld j "runs")).mapM runIn
  -- optional callback objects (handler subsets): requests go through `Req.via`, the log through `observe`
  let tab : Option Table ← (match fldOpt j "objs" with
    | none => pure none
    | some v => do
      match ← tableIn v with
      | .ok t => pure (some t)
      | .error (e, s) => .error s!"callback constructor raised {e.toString} for {s.name}" : R (Option Table))
  let runs := match tab with
    | none => runs0
    | some T => runs0.map (fun (r : Run) => ({ r with req := r.req.via T } : Run))
  match session runs.toList stop0 with
  | .error e => return errOut e
  | .ok outs =>
    let extra (r : Run) (o : List Entry × S) : List (String × Json) :=
      [("batchesPerEpoch", match batchesPerEpoch r.args.N r.args.nZ r.args.posB r.args.negB r.args.hasBases with
          | .ok nb => nOut nb | .error e => errOut e),
       ("cbs", .arr ((wrapCallbacks r.args.callbacks).toArray.map nOut))] ++
      (match tab with
       | none => []
       | some T =>
         [("log", .arr ((observe T o.1).toArray.map entryOut)),
          ("calls", .arr ((calls (observe T o.1)).toArray.map (fun p => .arr #[nOut p.1, evOut p.2]))),
          ("userCalls", .arr ((userCalls T o.1).toArray.map userCallOut))])
    let js := (runs.toList.zip outs).map (fun (r, o) =>
      match outOf o with
      | .obj _ => (outOf o).mergeObj (Json.mkObj (extra r o))
      | x => x)
    return Json.mkObj [("runs", .arr js.toArray)]

/-- op `c12.abort`: one `fit` call that may raise (`QV.Train.fitArgs` / `fitArgsAbortLog`), flag clear at entry.
in : one run object as in `c12.session`, plus `nZ`
out: {result : "ok" | error kind, abortEvents, abortCalls (what the callbacks have seen when the call raises)} -/
def runAbort (j : Json) : R Json := do
  let r ← runIn j
  let res := match fitArgs r.args r.req false with
    | .ok _ => "ok"
    | .error e => e.toString
  let l := fitArgsAbortLog r.args r.req
  return Json.mkObj [("result", .str res),
    ("abortEvents", .arr ((events l).toArray.map evOut)),
    ("abortCalls", .arr ((calls l).toArray.map (fun p => .arr #[nOut p.1, evOut p.2])))]

/-- a value assigned to `stop_training`: `["bool", b] | ["npbool", b] | ["int", n] | ["tensor", b] | ["none"] | ["str", s]` -/
def pyValIn (j : Json) : R PyVal := do
  let a ← jArr j
  let tag ← jStr (a[0]?.getD .null)
  match tag, a.size with
  | "bool", 2 => return .pyBool (← jBool a[1]!)
  | "npbool", 2 => return .npBool (← jBool a[1]!)
  | "int", 2 => return .int (← jInt a[1]!)
  | "tensor", 2 => return .tensor0 (← jBool a[1]!)
  | "none", 1 => return .none
  | "str", 2 => return .str (← jStr a[1]!)
  | _, _ => .error s!"bad value {j.compress}"

/-- op `c12.set_stop`: the statement `nn_state.stop_training = val` on a state whose flag is `flag` (`QV.Train.assignStop`).
out: {error : kind | null, stop : flag afterwards, truthy : bool(val)} -/
def runSetStop (j : Json) : R Json := do
  let v ← pyValIn (← fld j "val")
  let flag ← jBool (← fld j "flag")
  let r := assignStop v { stop := flag, notified := false, ver := 0, sched := 0 }
  return Json.mkObj [("error", match r.1 with | some e => .str e.toString | none => .null),
    ("stop", .bool r.2.stop), ("truthy", .bool v.truthy)]

/-- op `c12.fit_asg`: `fit` with callbacks that assign to `stop_training` (`QV.Train.fitAsg`).
in : start, epochs, numBatches, cbs, timer, hasSched, stop0, req_mid, asg : [[i, event, val, catches], …]
out: the completed run as in `c12.fit` plus {requests : [[i, event], …]}, or
     {abort : {log, events, calls, err, stop, ver}} when an exception escapes -/
def runFitAsg (j : Json) : R Json := do
  let c : Cfg := { start := ← jInt (← fld j "start"), epochs := ← jInt (← fld j "epochs"),
                   numBatches := ← jNat (← fld j "numBatches"), cbs := (← jNatArr (← fld j "cbs")).toList,
                   timer := ← jBool (← fld j "timer"), hasSched := ← jBool (← fld j "hasSched") }
  let stop0 ← jBool (← fld j "stop0")
  let reqMid ← (← jArr (← fld j "req_mid")).mapM (fun p => do
    let a ← jArr p
    return ((← jInt (a[0]?.getD .null)), (← jNat (a[1]?.getD .null))))
  let asg ← (← jArr (← fld j "asg")).mapM (fun p => do
    let a ← jArr p
    return ((← jNat (a[0]?.getD .null)), (← evIn (a[1]?.getD .null)), (← pyValIn (a[2]?.getD .null)),
            (← jBool (a[3]?.getD .null))))
  let A : Asg := fun i ev => match asg.find? (fun p => p.1 == i && p.2.1 == ev) with
    | some p => some (p.2.2.1, p.2.2.2)
    | none => none
  let mid : Int → Nat → Bool := fun e b => reqMid.any (fun p => p.1 == e && p.2 == b)
  let reqs := asg.filter (fun p => (A.req mid).cb p.1 p.2.1)
  let reqsOut : Json := .arr (reqs.map (fun p => .arr #[nOut p.1, evOut p.2.1]))
  match fitAsg c A mid stop0 with
  | .ok r => return (outOf r).mergeObj (Json.mkObj [("requests", reqsOut)])
  | .error ab => return Json.mkObj [("requests", reqsOut), ("abort", Json.mkObj [
      ("log", .arr (ab.log.toArray.map entryOut)),
      ("events", .arr ((events ab.log).toArray.map evOut)),
      ("calls", .arr ((calls ab.log).toArray.map (fun p => .arr #[nOut p.1, evOut p.2]))),
      ("err", .str ab.err.toString), ("stop", .bool ab.stop), ("ver", nOut ab.ver)])]

/-- an object offered to a `CallbackList`: a callback identity, or `null` for anything that is not a callback -/
def cbItemIn (j : Json) : R CbItem :=
  match j with
  | .null => .ok .other
  | v => do return .cb (← jNat v)

/-- `["set", k, item] | ["del", k] | ["insert", k, item] | ["append", item] | ["add", [ids]] | ["radd", [ids]]` -/
def cbOpIn (j : Json) : R CbOp := do
  let a ← jArr j
  let tag ← jStr (a[0]?.getD .null)
  match tag, a.size with
  | "set", 3 => return .setItem (← jInt a[1]!) (← cbItemIn a[2]!)
  | "del", 2 => return .delItem (← jInt a[1]!)
  | "insert", 3 => return .insert (← jInt a[1]!) (← cbItemIn a[2]!)
  | "append", 2 => return .append (← cbItemIn a[1]!)
  | "add", 2 => return .add (← jNatArr a[1]!).toList
  | "radd", 2 => return .radd (← jNatArr a[1]!).toList
  | _, _ => .error s!"bad container op {j.compress}"

/-- op `c12.cblist_ops`: a sequence of container operations on `CallbackList(init)`, each in a `try/except`
(`QV.Train.cbRunOps`), then `len`, `list(cl)` and `cl[k]` for the given `gets`.
out: {final : [ids], errors : [null | kind, …], gets : [id | {error}], …} -/
def runCbListOps (j : Json) : R Json := do
  let init := (← jNatArr (← fld j "init")).toList
  let ops ← (← jArr (← fld j "ops")).mapM cbOpIn
  let gets ← (match fldOpt j "gets" with | none => pure #[] | some v => jIntArr v : R (Array Int))
  let r := cbRunOps init ops.toList
  return Json.mkObj [
    ("final", .arr (r.1.toArray.map nOut)),
    ("errors", .arr (r.2.toArray.map (fun e => match e with | some e => .str e.toString | none => .null))),
    ("gets", .arr (gets.map (fun k => match cbGetItem r.1 k with | .ok x => nOut x | .error e => errOut e))),
    ("dispatched", .arr ((wrapCallbacks (.cbList r.1)).toArray.map nOut))]

def handle (op : String) (j : Json) : Option (R Json) :=
  match op with
  | "c12.fit" => some (runFit j)
  | "c12.session" => some (runSession j)
  | "c12.lambda_init" => some (runLambdaInit j)
  | "c12.abort" => some (runAbort j)
  | "c12.set_stop" => some (runSetStop j)
  | "c12.fit_asg" => some (runFitAsg j)
  | "c12.cblist_ops" => some (runCbListOps j)
  | _ => none

end Drv.C12
