import DriverLib.Basic
import QV.Model.States
open Lean Drv QV

namespace Drv.C01

/-- op `c01.eval`: evaluate the wavefunction-state model on a list of visible rows.
in : kind ("pos"|"cplx"), n, h, am, ph?, rows
out: per row energy, amplitude, phase, psi_re, psi_im, prob1; plus normalization over the model's
     own generated Hilbert space and sum of normalised probabilities. -/
def eval (j : Json) : R Json := do
  let kind ← jStr (← fld j "kind")
  let n ← jNat (← fld j "n")
  let h ← jNat (← fld j "h")
  let am ← parseRBM (← fld j "am") n h
  let rows ← parseRows (← fld j "rows") n
  let ph? ← (if kind == "cplx" then do return some (← parseRBM (← fld j "ph") n h) else pure none)
  let Z := Wave.normalization am (fun k : Fin (2 ^ n) => (spaceRow n k.val : Fin n → Float))
  let outRows := rows.map fun v =>
    let psi := match ph? with
      | some ph => Wave.psiCplx am ph v
      | none => Wave.psiPos am v
    let phase := match ph? with
      | some ph => Wave.phase ph v
      | none => 0.0
    Json.mkObj [
      ("energy", fOut (am.effEnergy v)),
      ("amplitude", fOut (Wave.amplitude am v)),
      ("phase", fOut phase),
      ("psi_re", fOut psi.1), ("psi_im", fOut psi.2),
      ("prob1", fOut (Wave.probability am v 1.0)),
      ("probZ", fOut (Wave.probability am v Z))]
  return Json.mkObj [("rows", .arr outRows), ("Z", fOut Z)]

def handle (op : String) (j : Json) : Option (R Json) :=
  match op with
  | "c01.eval" => some (eval j)
  | _ => none

end Drv.C01
