import DriverLib.Basic
import DriverLib.CallShape
import QV.Model.States
open Lean Drv QV

namespace Drv.C01

/-- op `c01.eval`: evaluate the wavefunction-state model on a list of visible rows.
in : kind ("pos"|"cplx"), n, h, am, ph?, rows
out: per row energy, amplitude, phase, psi_re, psi_im, prob1; plus normalization over the model's
     own generated Hilbert space and sum of normalised probabilities. -/
def eval (j : Json) : R Json := do
  let kind ← jStr (← fld j "kind")
  let n ← jNat (← fld j "n")
  let h ← jNat (← fld j "h")
  let am ← parseRBM (← fld j "am") n h
  let rows ← parseRows (← fld j "rows") n
  let ph? ← (if kind == "cplx" then do return some (← parseRBM (← fld j "ph") n h) else pure none)
  let Z := Wave.normalization am (fun k : Fin (2 ^ n) => (spaceRow n k.val : Fin n → Float))
  let outRows := rows.map fun v =>
    let psi := match ph? with
      | some ph => Wave.psiCplx am ph v
      | none => Wave.psiPos am v
    let phase := match ph? with
      | some ph => Wave.phase ph v
      | none => 0.0
    Json.mkObj [
      ("energy", fOut (am.effEnergy v)),
      ("amplitude", fOut (Wave.amplitude am v)),
      ("phase", fOut phase),
      ("psi_re", fOut psi.1), ("psi_im", fOut psi.2),
      ("prob1", fOut (Wave.probability am v 1.0)),
      ("probZ", fOut (Wave.probability am v Z))]
  return Json.mkObj [("rows", .arr outRows), ("Z", fOut Z)]

/-- op `c01.callform`: a public evaluation method on a TENSOR argument, through the model of `auto_unsqueeze_args`.
in : fn ("energy"|"amplitude"|"phase"|"psi_cplx"|"psi_pos"|"probability"|"phase_pos"), n, h, am, ph?, Z?, x = {shape, rows}
out: {shape, data} | {error} -/
def callform (j : Json) : R Json := do
  let fn ← jStr (← fld j "fn")
  let n ← jNat (← fld j "n")
  let h ← jNat (← fld j "h")
  let am ← parseRBM (← fld j "am") n h
  let x ← parseFT (← fld j "x") n
  match fn with
  | "energy" => return ftOut encScalar (am.effectiveEnergy x)
  | "amplitude" => return ftOut encScalar (Wave.amplitudeCall am x)
  | "phase" => do
    let ph ← parseRBM (← fld j "ph") n h
    return ftOut encScalar (Wave.phaseCall ph x)
  | "psi_cplx" => do
    let ph ← parseRBM (← fld j "ph") n h
    return ftOut encPair (Wave.psiCplxCall am ph x)
  | "psi_pos" => return ftOut encPair (Wave.psiPosCall am x)
  | "psi_pos_base" => return ftOut encPair (Wave.psiBase am Wave.phasePosCall x)
  | "probability" => do
    let Z ← jFloat (← fld j "Z")
    return ftOut encScalar (Wave.probabilityCall am x Z)
  | "phase_pos" => return ftOut encScalar (Wave.phasePosCall (α := Float) x)
  | _ => throw s!"c01.callform: unknown fn {fn}"

def handle (op : String) (j : Json) : Option (R Json) :=
  match op with
  | "c01.eval" => some (eval j)
  | "c01.callform" => some (callform j)
  | _ => none

end Drv.C01
