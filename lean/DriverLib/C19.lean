import DriverLib.Basic
import QV.Model.Hilbert
import QV.Model.DataLoad
import QV.Model.HilbertInt
import QV.Model.States
import QV.Model.Density
open Lean Drv QV QV.DataLoad

namespace Drv.C19

def bOut (b : Bool) : Json := nOut (if b then 1 else 0)
def rowOut (r : List Bool) : Json := .arr (r.toArray.map bOut)

def jOptNat (j : Json) (k : String) : R (Option Nat) :=
  match fldOpt j k with
  | none => .ok none
  | some v => (jNat v).map some

def jBits (j : Json) : R (List Bool) := do
  let a ← jNatArr j
  return a.toList.map (fun x => x != 0)

/-- op `c19.space`: `generate_hilbert_space(size)` in full.  in: size (nat | null), nv.
out: {"error": kind} | {"rows": [[0/1]], "index": [idx of every row]} -/
def space (j : Json) : R Json := do
  let size ← jOptNat j "size"
  let nv ← jNat (← fld j "nv")
  match generateHilbertSpace size nv with
  | .error e => return errOut e
  | .ok rows =>
    return Json.mkObj [("rows", .arr (rows.toArray.map rowOut)),
                       ("index", .arr ((convertBasisBatch rows).toArray.map nOut))]

/-- op `c19.rows`: the guard of `generate_hilbert_space(size)` and the rows `ks` of the space
(row `k` of the generated list is `maskRow s k`: `C19_row_is_binary_expansion`), plus `subspace_vector(k, size)`
and the index computed back from each.  in: size, nv, ks. -/
def rows (j : Json) : R Json := do
  let size ← jOptNat j "size"
  let nv ← jNat (← fld j "nv")
  let ks ← jNatArr (← fld j "ks")
  let sub := ks.toList.map (fun k => subspaceVector k size nv)
  let subJ : Json := .arr (sub.toArray.map rowOut)
  match spaceGuard size nv with
  | .error e => return Json.mkObj [("error", .str e.toString), ("sub", subJ)]
  | .ok s =>
    let rs := ks.toList.map (maskRow s)
    return Json.mkObj [("size", nOut s), ("rows", .arr (rs.toArray.map rowOut)), ("sub", subJ),
                       ("index", .arr ((convertBasisBatch rs).toArray.map nOut))]

/-- op `c19.index`: `_convert_basis_element_to_index` on a batch of 0/1 states. -/
def index (j : Json) : R Json := do
  let sts ← (← jArr (← fld j "states")).mapM jBits
  return .arr ((convertBasisBatch sts.toList).toArray.map nOut)

-- ---------------------------------------------------------------- data loading
def tokOut (t : Token) : Json := .str (String.ofList t)

def arrOut {τ : Type} (f : τ → Json) : Arr τ → Json
  | .scalar x => Json.mkObj [("k", .str "scalar"), ("v", f x)]
  | .vec xs => Json.mkObj [("k", .str "vec"), ("v", .arr (xs.toArray.map f))]
  | .mat rows => Json.mkObj [("k", .str "mat"), ("v", .arr (rows.toArray.map (fun r => .arr (r.toArray.map f))))]

def arrIn (j : Json) : R (Arr Json) := do
  let k ← jStr (← fld j "k")
  let v ← fld j "v"
  match k with
  | "scalar" => return .scalar v
  | "vec" => return .vec (← jArr v).toList
  | "mat" => return .mat ((← (← jArr v).mapM jArr).toList.map (·.toList))
  | _ => .error s!"bad array kind {k}"

def itemOut : Item Float → Json
  | .num a => Json.mkObj [("t", .str "num"), ("a", arrOut fOut a)]
  | .cplx re im => Json.mkObj [("t", .str "cplx"), ("re", arrOut fOut re), ("im", arrOut fOut im)]
  | .str a => Json.mkObj [("t", .str "str"), ("a", arrOut tokOut a)]

def resOut (r : Except PyErr (List (Item Float))) : Json :=
  match r with
  | .error e => errOut e
  | .ok items => Json.mkObj [("items", .arr (items.toArray.map itemOut))]

/-- the number parser is a parameter of the model: the harness sends `nums : {token: float64 bits}`
for the tokens it parsed itself; a token not in the table is "could not convert". -/
def mkParse (nums : Json) : Token → Option Float := fun t =>
  match nums.getObjVal? (String.ofList t) with
  | .ok v => (match jFloat v with | .ok x => some x | .error _ => none)
  | .error _ => none

def optFile (j : Json) (k : String) : R (Option (List Char)) :=
  match fldOpt j k with
  | none => .ok none
  | some v => (jStr v).map (fun s => some s.toList)

/-- op `c19.load_data`: in: samples (file text), psi?, tr_bases?, bases? (file texts or null), nums. -/
def loadDataOp (j : Json) : R Json := do
  let samples ← jStr (← fld j "samples")
  let parse := mkParse (← fld j "nums")
  return resOut (loadData parse roundF32 samples.toList (← optFile j "psi") (← optFile j "tr_bases") (← optFile j "bases"))

/-- op `c19.load_data_dm`: in: samples, re?, im?, tr_bases?, bases?, nums. -/
def loadDataDMOp (j : Json) : R Json := do
  let samples ← jStr (← fld j "samples")
  let parse := mkParse (← fld j "nums")
  return resOut (loadDataDM parse roundF32 samples.toList (← optFile j "re") (← optFile j "im")
    (← optFile j "tr_bases") (← optFile j "bases"))

/-- op `c19.tokenize`: the raw token rows of a file text (auxiliary point). -/
def tokenizeOp (j : Json) : R Json := do
  let text ← jStr (← fld j "text")
  return .arr ((tokenize text.toList).toArray.map (fun r => .arr (r.toArray.map tokOut)))

/-- op `c19.extract`: `extract_refbasis_samples`; samples: array of opaque JSON values, bases: array of strings. -/
def extractOp (j : Json) : R Json := do
  let samples ← arrIn (← fld j "samples")
  let basesJ ← arrIn (← fld j "bases")
  let toTok : Json → Token := fun v => match v with | .str s => s.toList | _ => []
  let bases := basesJ.map toTok
  match extractRefbasis samples bases with
  | .error e => return errOut e
  | .ok a => return Json.mkObj [("result", arrOut id a)]

-- ---------------------------------------------------------------- arrays produced from the generated space
def pairsOut (xs : List (Float × Float)) : Json :=
  Json.mkObj [("re", fListOut (xs.map (·.1))), ("im", fListOut (xs.map (·.2)))]

/-- op `c19.arrays`: the arrays the library produces from `generate_hilbert_space()` — `psi(space)`,
`probability(space)`, `rho(space, space)` — computed by evaluating the state models on the rows of the MODEL's
generated space (`overSpace`, `overSpace2`; theorem `C19_position_k`).
in: kind ("pos"|"cplx"|"dm"), n, h, a?, am, ph?.  out: {"error"} | {"psi": {re, im}?, "prob": [..], "rho": [[{re,im}]]?} -/
def arrays (j : Json) : R Json := do
  let kind ← jStr (← fld j "kind")
  let n ← jNat (← fld j "n")
  let h ← jNat (← fld j "h")
  match generateHilbertSpace none n with
  | .error e => return errOut e
  | .ok rows =>
    if kind == "dm" then
      let a ← jNat (← fld j "a")
      let am ← parsePRBM (← fld j "am") n h a
      let ph ← parsePRBM (← fld j "ph") n h a
      let rho := overSpace2 n (Density.rho am ph) rows
      let prob := overSpace n (fun v => Density.probability am v 1.0) rows
      return Json.mkObj [("prob", fListOut prob), ("rho", .arr (rho.toArray.map pairsOut))]
    else
      let am ← parseRBM (← fld j "am") n h
      let prob := overSpace n (fun v => Wave.probability am v 1.0) rows
      if kind == "cplx" then
        let ph ← parseRBM (← fld j "ph") n h
        return Json.mkObj [("prob", fListOut prob), ("psi", pairsOut (overSpace n (Wave.psiCplx am ph) rows))]
      else
        return Json.mkObj [("prob", fListOut prob), ("psi", pairsOut (overSpace n (Wave.psiPos am) rows))]

def jOptInt (j : Json) (k : String) : R (Option Int) :=
  match fldOpt j k with
  | none => .ok none
  | some v => (jInt v).map some

/-- op `c19.intargs`: `subspace_vector(num, size)` and the guard of `generate_hilbert_space(size)` for arbitrary
Python ints (`QV.Model.HilbertInt`).  in: num (int), size (int | null), nv.
out: {"sub": "OverflowError" | [0/1…], "guard": error kind | size} -/
def intargs (j : Json) : R Json := do
  let num ← jInt (← fld j "num")
  let size ← jOptInt j "size"
  let nv ← jNat (← fld j "nv")
  let sub : Json := match subspaceVectorZ num size nv with
    | .overflowError => .str "OverflowError"
    | .ok v => rowOut v
  let guard : Json := match spaceGuardZ size nv with
    | .error e => .str e.toString
    | .ok s => nOut s
  return Json.mkObj [("sub", sub), ("guard", guard)]

def handle (op : String) (j : Json) : Option (R Json) :=
  match op with
  | "c19.space" => some (space j)
  | "c19.rows" => some (rows j)
  | "c19.index" => some (index j)
  | "c19.load_data" => some (loadDataOp j)
  | "c19.load_data_dm" => some (loadDataDMOp j)
  | "c19.tokenize" => some (tokenizeOp j)
  | "c19.extract" => some (extractOp j)
  | "c19.arrays" => some (arrays j)
  | "c19.intargs" => some (intargs j)
  | _ => none

end Drv.C19
