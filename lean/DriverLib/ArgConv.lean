/-
DriverLib.ArgConv — driver ops for QV.Model.ArgConv (argument-conversion glue of create_dict / vector_to_grads / fit).
Container forms travel as strings: "tensor:<dtype>", "ndarray:<dtype>", "list:bool|int|float|np.<dtype>", "ragged", "other".
-/
import DriverLib.Basic
import QV.Model.ArgConv
open Lean Drv QV QV.ArgConv

namespace Drv.ArgConv

def parseDType (s : String) : R DType :=
  match s with
  | "bool" => pure .bool | "uint8" => pure .uint8 | "int8" => pure .int8 | "int16" => pure .int16
  | "int32" => pure .int32 | "int64" => pure .int64 | "float16" => pure .float16 | "float32" => pure .float32
  | "float64" => pure .float64
  | _ => throw s!"unknown dtype {s}"

def dtypeStr : DType → String
  | .bool => "bool" | .uint8 => "uint8" | .int8 => "int8" | .int16 => "int16" | .int32 => "int32" | .int64 => "int64"
  | .float16 => "float16" | .float32 => "float32" | .float64 => "float64"

def parseBox (s : String) : R Box :=
  match s.splitOn ":" with
  | ["ragged"] => pure .ragged
  | ["other"] => pure .nonArray
  | ["tensor", d] => do return .tensor (← parseDType d)
  | ["ndarray", d] => do return .ndarray (← parseDType d)
  | ["list", "bool"] => pure (.pyList .pyBool)
  | ["list", "int"] => pure (.pyList .pyInt)
  | ["list", "float"] => pure (.pyList .pyFloat)
  | ["list", d] => do return .pyList (.npScalar (← parseDType ((d.splitOn "np.").getLastD "")))
  | _ => throw s!"unknown container form {s}"

/-- float32 rounding of a double (what storing it into a float32 tensor does) -/
def r32 (x : Float) : Float := x.toFloat32.toFloat

/-- op `c04.create_dict_arg`: `create_dict(**kw)` on a heap of flat `[2,2,2]` contents, then the caller's in-place `writes`.
in : default_double, heap (list of flat float lists), kw (list of {key, box, sid}), writes (list of {sid, vals}).
out: {error} | {entries: [[key, sid, dtype, vals_at_return, vals_after_writes]] (association order, first entry wins),
       before: #storages before, callers_unchanged} -/
def createDictArgOp (j : Json) : R Json := do
  let dd ← jBool (← fld j "default_double")
  let cells ← (← jArr (← fld j "heap")).mapM (fun c => do return (← jFloatArr c).toList)
  let kw ← (← jArr (← fld j "kw")).mapM (fun e => do
    let key ← jStr (← fld e "key")
    let box ← parseBox (← jStr (← fld e "box"))
    let sid ← jNat (← fld e "sid")
    return (key.front, (⟨box, sid⟩ : Obj)))
  let writes ← (← jArr (← fld j "writes")).mapM (fun e => do
    return (← jNat (← fld e "sid"), (← jFloatArr (← fld e "vals")).toList))
  let h : Heap (List Float) := ⟨cells.toList⟩
  match createDictM2 r32 dd h kw.toList with
  | .error e => return errOut e
  | .ok (h', d) =>
    let h'' := writes.foldl (fun hh w => hh.write w.1 w.2) h'
    let same := (List.range h.cells.length).all (fun i =>
      match h.cells[i]?, h'.cells[i]? with
      | some a, some b => a.map Float.toBits == b.map Float.toBits
      | _, _ => false)
    let m2Out (m : M2 Float) : Json := fListOut (flatM2 m)
    let ents := (d.zip ((readDict h' d).zip (readDict h'' d))).toArray.map (fun e =>
      Json.arr #[.str (String.singleton e.1.1), nOut e.1.2.sid, .str (dtypeStr e.1.2.dt), m2Out e.2.1.2, m2Out e.2.2.2])
    return Json.mkObj [("entries", .arr ents), ("before", nOut h.cells.length), ("callers_unchanged", .bool same)]

/-- op `c06.vector_to_grads`: in: vec (null = not a tensor | {dt, vals}), sizes. out: {ok | error, assigned} -/
def vectorToGradsOp (j : Json) : R Json := do
  let sizes := (← jNatArr (← fld j "sizes")).toList
  let v : VecArg Float ← (match fldOpt j "vec" with
    | none => pure .other
    | some o => do
      let dt ← parseDType (← jStr (← fld o "dt"))
      return .tensor dt (← jFloatArr (← fld o "vals")).toList)
  let out (l : List (List Float)) : Json := .arr (l.toArray.map fListOut)
  let assigned := out (vectorToGradsAssigned v sizes)
  match vectorToGradsE v sizes with
  | .error e => return Json.mkObj [("error", .str e.toString), ("assigned", assigned)]
  | .ok gs => return Json.mkObj [("ok", out gs), ("assigned", assigned)]

abbrev Row := List Nat
def rowsOut (rs : List Row) : Json := .arr (rs.toArray.map (fun r => .arr (r.toArray.map nOut)))

/-- op `c07.fit_convert`: the data preamble of `fit` from the caller's object on (`fitPrepareArg`), then the caller's in-place
overwrite of its object. Heap = [the data object's rows, an unrelated object]. Rows hold 0/1 (fixed by every cast).
in : default_double, box, rows, bases (null | …), posB, negB (null | nat), write_rows (null | rows).
out: {error} | {sid, dtype, fresh, train, train_after_write, caller_unchanged, numBatches, negB, z} -/
def fitConvertOp (j : Json) : R Json := do
  let dd ← jBool (← fld j "default_double")
  let box ← parseBox (← jStr (← fld j "box"))
  let jRows (v : Json) : R (List Row) := do return ((← jArr v).toList.mapM (fun r => do return (← jNatArr r).toList)) |>.toOption.getD []
  let rows ← jRows (← fld j "rows")
  let bases : Option (List (List String)) ← (match fldOpt j "bases" with
    | none => pure none
    | some v => do
      let a ← (← jArr v).mapM (fun r => do return (← (← jArr r).mapM jStr).toList)
      return some a.toList)
  let posB ← jNat (← fld j "posB")
  let negB ← (match fldOpt j "negB" with | none => pure none | some v => do return some (← jNat v) : R (Option Nat))
  let wr ← (match fldOpt j "write_rows" with | none => pure none | some v => do return some (← jRows v) : R (Option (List Row)))
  let h : Heap (List Row) := ⟨[rows, [[7, 7]]]⟩
  match fitPrepareArg (fun _ (r : Row) => r) dd h ⟨box, 0⟩ bases posB negB with
  | .error e => return errOut e
  | .ok (h', t, p) =>
    let h'' := match wr with | some w => h'.write 0 w | none => h'
    return Json.mkObj [("sid", nOut t.sid), ("dtype", .str (dtypeStr t.dt)), ("fresh", .bool (decide (h.cells.length ≤ t.sid))),
      ("train", rowsOut p.train), ("train_after_write", rowsOut ((h''.read t.sid).getD [])),
      ("caller_unchanged", .bool (h'.read 0 == some rows && h'.read 1 == h.read 1)),
      ("numBatches", nOut p.numBatches), ("negB", nOut p.negB), ("z", rowsOut p.zSamples)]

end Drv.ArgConv
