import DriverLib.Basic
import DriverLib.Flag
import QV.Model.Cplx
open Lean Drv QV QV.Cplx

namespace Drv.C15

/-- how numbers of carrier `α` cross the protocol -/
structure Codec (α : Type) where
  dec : Json → R α
  enc : α → Json

def intCodec : Codec Int := ⟨jInt, iOut⟩
def floatCodec : Codec Float := ⟨jFloat, fOut⟩

variable {α : Type}

def parseTensor (c : Codec α) (j : Json) : R (Tensor α) := do
  let shape ← jNatArr (← fld j "shape")
  let data ← (← jArr (← fld j "data")).mapM c.dec
  let t : Tensor α := ⟨shape.toList, data.toList⟩
  if t.wf then return t else .error s!"tensor data length {data.size} does not match shape {shape}"

def tensorOut (c : Codec α) (t : Tensor α) : Json :=
  Json.mkObj [("shape", .arr (t.shape.toArray.map nOut)), ("data", .arr (t.data.toArray.map c.enc))]

def resOut (c : Codec α) (r : Except PyErr (Tensor α)) : Json :=
  match r with
  | .ok t => tensorOut c t
  | .error e => errOut e

def parseDType (j : Json) : R DType := do
  match (← jStr j) with
  | "f32" => return .f32
  | "f64" => return .f64
  | s => .error s!"bad dtype {s}"

def dtypeOut : DType → Json
  | .f32 => .str "f32"
  | .f64 => .str "f64"

def parseObj (c : Codec α) (j : Json) : R (Obj α) := do
  let t ← parseTensor c j
  let id ← jNat (← fld j "id")
  let dt ← parseDType (← fld j "dtype")
  return ⟨id, dt, t⟩

def parseEq (j : Json) : R EinEq := do
  let a ← jNatArr (← fld j "a")
  let b ← jNatArr (← fld j "b")
  let o ← jNatArr (← fld j "out")
  return ⟨a.toList, b.toList, o.toList⟩

/-- subscripts as numbers: character codes, `0` for the ellipsis -/
def parseToks (j : Json) : R (List Tok) := do
  let a ← jNatArr j
  return a.toList.map (fun n => if n = 0 then Tok.ell else Tok.lab n)

/-- `{a, b, out}` with `out` absent / null for an implicit-output equation -/
def parseRawEq (j : Json) : R RawEq := do
  let a ← parseToks (← fld j "a")
  let b ← parseToks (← fld j "b")
  let o ← (match fldOpt j "out" with
    | some .null => pure none
    | some oj => do return some (← parseToks oj)
    | none => pure none : R (Option (List Tok)))
  return ⟨a, b, o⟩

section ring
variable [Add α] [Mul α] [Neg α] [Sub α] [Zero α] [One α]

/-- ring-only operations (run over `Int` and over `Float`) -/
def ringOp (c : Codec α) (fn : String) (j : Json) : Option (R Json) :=
  let X := do parseTensor c (← fld j "x")
  let Y := do parseTensor c (← fld j "y")
  match fn with
  | "make_complex" => some do
    let x ← X
    let y ← (match fldOpt j "y" with
      | some yj => do return some (← parseTensor c yj)
      | none => pure none : R (Option (Tensor α)))
    return resOut c (makeComplex x y)
  | "make_complex_np" => some do
    -- complex ndarray: shape + separate re / im data
    let shape ← jNatArr (← fld j "shape")
    let re ← (← jArr (← fld j "re")).mapM c.dec
    let im ← (← jArr (← fld j "im")).mapM c.dec
    let z : Tensor (C α) := ⟨shape.toList, List.zipWith (fun a b => (a, b)) re.toList im.toList⟩
    return resOut c (ofNdarray z)
  | "real" => some do return resOut c (real (← X))
  | "imag" => some do return resOut c (imag (← X))
  | "numpy" => some do
    match numpy (← X) with
    | .ok z => return Json.mkObj [("shape", .arr (z.shape.toArray.map nOut)),
        ("re", .arr (z.data.toArray.map (fun p => c.enc p.1))),
        ("im", .arr (z.data.toArray.map (fun p => c.enc p.2)))]
    | .error e => return errOut e
  | "scalar_mult" => some do
    let x ← parseObj c (← fld j "x")
    -- `y` may be the same OBJECT as `x`; the harness then sends the same id and the same value
    let y ← parseObj c (← fld j "y")
    let out ← (match fldOpt j "out" with
      | some oj => do return some (← parseObj c oj)
      | none => pure none : R (Option (Obj α)))
    let f1 ← jNat (← fld j "fresh_cast")
    let f2 ← jNat (← fld j "fresh_out")
    match scalarMultO x y out f1 f2 with
    | .ok o => return Json.mkObj [("shape", .arr (o.t.shape.toArray.map nOut)),
        ("data", .arr (o.t.data.toArray.map c.enc)), ("id", nOut o.id), ("dtype", dtypeOut o.dtype)]
    | .error e => return errOut e
  | "elementwise_mult" => some do return resOut c (elementwiseMult (← X) (← Y))
  | "matmul" => some do return resOut c (matmul (← X) (← Y))
  | "inner_prod" => some do return resOut c (innerProd (← X) (← Y))
  | "outer_prod" => some do return resOut c (outerProd (← X) (← Y))
  | "einsum" => some do
    let raw ← parseRawEq (← fld j "eq")
    -- the flag OBJECTS (a plain JSON bool = the Python singleton; else {"form", "value"})
    let rp ← parseFlag (← fld j "real_part")
    let ip ← parseFlag (← fld j "imag_part")
    match einsumF raw (← X) (← Y) rp ip with
    | .ok (.cplx t) => return Json.mkObj [("kind", .str "cplx"), ("t", tensorOut c t)]
    | .ok (.re t) => return Json.mkObj [("kind", .str "real"), ("t", tensorOut c t)]
    | .ok .none => return Json.mkObj [("kind", .str "none")]
    | .error e => return errOut e
  | "conjugate" => some do return resOut c (conjugate (← X))
  | "conj" => some do return resOut c (conj (← X))
  | "kronecker_prod" => some do return resOut c (kroneckerProd (← X) (← Y))
  | "norm_sqr" => some do return resOut c (normSqr (← X))
  | _ => none

end ring

/-- operations with division / sqrt / exp (Float only) -/
def fieldOp (fn : String) (j : Json) : Option (R Json) :=
  let c := floatCodec
  let X := do parseTensor c (← fld j "x")
  let Y := do parseTensor c (← fld j "y")
  match fn with
  | "elementwise_division" => some do return resOut c (elementwiseDivision (← X) (← Y))
  | "absolute_value" => some do return resOut c (absoluteValue (← X))
  | "sigmoid" => some do return resOut c (sigmoid (← X) (← Y))
  | "scalar_divide" => some do return resOut c (scalarDivide (← X) (← Y))
  | "inverse" => some do return resOut c (inverse (← X))
  | "norm" => some do return resOut c (norm (← X))
  | _ => none

/-- op `c15.op`: `{fn, num: "int"|"float", x, y?, …}` → `{shape, data}` or `{error}` -/
def op (j : Json) : R Json := do
  let fn ← jStr (← fld j "fn")
  let num ← jStr (← fld j "num")
  let res : Option (R Json) :=
    if num == "int" then ringOp intCodec fn j
    else match ringOp floatCodec fn j with
      | some r => some r
      | none => fieldOp fn j
  match res with
  | some r => r
  | none => .error s!"c15: unknown function {fn} for carrier {num}"

def parseView (j : Json) : R View := do
  let shape ← jNatArr (← fld j "shape")
  let addr ← jNatArr (← fld j "addr")
  return ⟨shape.toList, addr.toList⟩

/-- `scalarMultMem` on a finite memory given as the list of its cells -/
def memOp {α : Type} [Add α] [Mul α] [Neg α] [Sub α] [Zero α] [One α] (c : Codec α) (j : Json) : R Json := do
  let cells ← (← jArr (← fld j "mem")).mapM c.dec
  let x ← parseView (← fld j "x")
  let y ← parseView (← fld j "y")
  let o ← parseView (← fld j "out")
  let m : Nat → α := fun i => cells.getD i 0
  match scalarMultMem m x y o with
  | .ok (m2, t) =>
    return Json.mkObj [("shape", .arr (t.shape.toArray.map nOut)), ("data", .arr (t.data.toArray.map c.enc)),
      ("mem", .arr ((Array.range cells.size).map (fun i => c.enc (m2 i))))]
  | .error e => return errOut e

/-- op `c15.mem`: `{num, mem: [cells], x, y, out: {shape, addr}}` → `{shape, data, mem}` or `{error}` -/
def mem (j : Json) : R Json := do
  let num ← jStr (← fld j "num")
  if num == "int" then memOp intCodec j else memOp floatCodec j

def handle (opname : String) (j : Json) : Option (R Json) :=
  match opname with
  | "c15.op" => some (op j)
  | "c15.mem" => some (mem j)
  | _ => none

end Drv.C15
