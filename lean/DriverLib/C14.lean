import DriverLib.Basic
import QV.Model.Frame
open Lean Drv QV.Frame

namespace Drv.C14

def optNat (j : Json) (k : String) : R (Option Nat) :=
  match fldOpt j k with
  | none => pure none
  | some v => do return some (← jNat v)

def nat (j : Json) (k : String) : R Nat := do jNat (← fld j k)

def parseKind (s : String) : R Kind :=
  match s with
  | "pos" => pure .pos
  | "cplx" => pure .cplx
  | "dens" => pure .dens
  | _ => .error s!"unknown kind {s}"

/-- `evaluator : {period ≥ 1, ns ≥ 1, nc, bi, steps}` (an `ObservableEvaluator` in `callbacks=`) or absent -/
def optEvalCb (j : Json) : R (Option EvalCb) :=
  match fldOpt j "evaluator" with
  | none => pure none
  | some e => do
    let p ← nat e "period"
    let ns ← nat e "ns"
    if p == 0 || ns == 0 then .error "evaluator: period and ns must be >= 1 (the error cases are not modelled)"
    else return some ⟨p - 1, ns - 1, ← nat e "nc", ← nat e "bi", ← nat e "steps"⟩

/-- one operation: `{"t": "<name>", …}` -/
def parseOp (j : Json) : R Op := do
  let t ← jStr (← fld j "t")
  match t with
  | "setSeed" => return .setSeed (← jInt (← fld j "s")) (← jBool (← fld j "cpu"))
  | "burn" => return .burn (← nat j "m")
  | "construct" =>
    return .construct (← parseKind (← jStr (← fld j "kind"))) (← nat j "n") (← optNat j "h") (← optNat j "a")
  | "reinit" => return .reinit (← nat j "slot")
  | "sample" => return .sample (← nat j "slot") (← nat j "k") (← nat j "num") (← optNat j "init") (← nat j "arg")
  | "statistics" =>
    return .statistics (← nat j "slot") (← nat j "ns") (← nat j "nc") (← nat j "bi") (← nat j "steps")
      (← optNat j "init") (← nat j "arg")
  | "fit" =>
    return .fit (← nat j "slot")
      ⟨← nat j "N", ← nat j "epochs", ← nat j "start", ← nat j "posB", ← optNat j "negB", ← nat j "k",
       ← optNat j "bases", ← nat j "arg", ← optEvalCb j⟩
  | "obsSample" =>
    return .obsSample (← nat j "slot") (← nat j "k") (← nat j "num") (← optNat j "init") (← nat j "arg")
  | "eval" => return .eval (← nat j "slot") (← nat j "arg")
  | "metric" => return .metric (← nat j "slot") (← nat j "arg")
  | "rotate" => return .rotate (← nat j "slot") (← nat j "arg")
  | "gradient" => return .gradient (← nat j "slot") (← nat j "arg")
  | "batchGradient" => return .batchGradient (← nat j "slot") (← nat j "k") (← nat j "rows") (← nat j "arg")
  | "save" => return .save (← nat j "slot") (← nat j "path")
  | "load" => return .load (← nat j "slot") (← nat j "path")
  | "seedNumpy" => return .seedNumpy (← nat j "s")
  | "perturbNumpy" => return .perturbNumpy (← nat j "m")
  | "seedPy" => return .seedPy (← nat j "s")
  | "perturbPy" => return .perturbPy (← nat j "m")
  | _ => .error s!"unknown op type {t}"

def parseGen (j : Json) : R Gen := do
  let a ← jNatArr j
  if a.size == 2 then return ⟨a[0]!, a[1]!⟩ else .error "gen: expected [seed, pos]"

def genOut (g : Gen) : Json := .arr #[nOut g.seedOf, nOut g.pos]

def callKindStr : CallKind → String
  | .randn => "randn" | .bernoulli => "bernoulli" | .randperm => "randperm"
  | .randint => "randint" | .rand => "rand"

def callOut (c : Call) : Json := .arr #[.str (callKindStr c.kind), nOut c.numel]

def outOut : Out Nat → Json
  | .none => Json.mkObj [("kind", .str "none")]
  | .val o => Json.mkObj [("kind", .str "val"), ("token", nOut o)]
  | .err e => Json.mkObj [("kind", .str "err"), ("error", .str e.toString)]

/-- parameter tokens of all allocated slots -/
def paramTokens (st : St Nat) : List Json :=
  (List.range st.nextId).map (fun i => match st.objs i with | some ob => nOut ob.params | none => .null)

/-- slots whose parameter token differs between two states -/
def changedSlots (a b : St Nat) : List Json :=
  ((List.range b.nextId).filter (fun i =>
    match a.objs i, b.objs i with
    | some x, some y => x.params != y.params
    | none, none => false
    | _, _ => true)).map nOut

/-- per-operation trace, produced with the model's own `step` -/
def trace (st : St Nat) : List Op → List Json
  | [] => []
  | op :: ops =>
    let r := step tokenSem st op
    let rec_ := Json.mkObj [
      ("external", .bool op.isExternal),
      ("writesParams", .bool op.writesParams),
      ("pure", .bool op.isPure),
      ("calls", .arr ((stepCalls st op).map callOut).toArray),
      ("draws", nOut (stepDraws st op)),
      -- token of the VALUES drawn from torch's stream by this operation (a function of the stream of the seed word in
      -- force and of the position only — not of any parameter)
      ("drawn", nOut (hashList (Gen.take tokenSem.mix (stepDraws st op) st.torchGen).1)),
      ("torch_before", genOut st.torchGen),
      ("torch_after", genOut r.1.torchGen),
      ("numpy_changed", .bool (r.1.numpyGen != st.numpyGen)),
      ("py_changed", .bool (r.1.pyGen != st.pyGen)),
      ("written", .arr (changedSlots st r.1).toArray),
      ("out", outOut r.2),
      ("params", .arr (paramTokens r.1).toArray)]
    rec_ :: trace r.1 ops

/-- op `c14.run`: run a history on the token semantics.
in : ops (list of operations), torch / numpy / py ([seed, pos] of the three generators at start)
out: trace (one record per operation), outs (results recorded by `run`, i.e. of the non-foreign
     operations), final parameter tokens and generator states, total torch draws (`histDraws`). -/
def runOp (j : Json) : R Json := do
  let ops ← (← jArr (← fld j "ops")).mapM parseOp
  let gt ← parseGen (← fld j "torch")
  let gn ← parseGen (← fld j "numpy")
  let gp ← parseGen (← fld j "py")
  let st0 : St Nat := St.fresh Nat gt gn gp
  let ol := ops.toList
  let r := run tokenSem st0 ol
  return Json.mkObj [
    ("trace", .arr (trace st0 ol).toArray),
    ("outs", .arr (r.2.map outOut).toArray),
    ("final_params", .arr (paramTokens r.1).toArray),
    ("final_torch", genOut r.1.torchGen),
    ("final_numpy", genOut r.1.numpyGen),
    ("final_py", genOut r.1.pyGen),
    ("hist_draws", nOut (histDraws tokenSem st0 ol))]

/-- op `c14.counts`: closed-form draw counts for an architecture.
in : kind, n, h?, a?, and optionally sample {k,num,init}, stat {ns,nc,bi,steps,init}, fit {…}
out: the closed forms `initDraws`, `sampleDraws`, `statDraws`, `fitDraws` -/
def countsOp (j : Json) : R Json := do
  let A := resolveArch (← parseKind (← jStr (← fld j "kind"))) (← nat j "n") (← optNat j "h") (← optNat j "a")
  let mut fields : List (String × Json) :=
    [("arch", .arr #[nOut A.n, nOut A.h, nOut A.a]), ("init", nOut (initDraws A)), ("units", nOut (units A))]
  if let some s := fldOpt j "sample" then
    fields := fields ++ [("sample", nOut (sampleDraws A (← nat s "k") (← nat s "num") (← optNat s "init")))]
  if let some s := fldOpt j "stat" then
    fields := fields ++ [("stat", nOut (statDraws A (← nat s "ns") (← nat s "nc") (← nat s "bi") (← nat s "steps")
      (← optNat s "init")))]
  if let some s := fldOpt j "fit" then
    let c : FitCfg := ⟨← nat s "N", ← nat s "epochs", ← nat s "start", ← nat s "posB", ← optNat s "negB", ← nat s "k",
       ← optNat s "bases", 0, ← optEvalCb s⟩
    fields := fields ++ [("fit", nOut (fitDraws A c)), ("fit_eval", nOut (evalDraws A c)),
      ("fit_ok", .bool ((fitCalls A c).2.isNone))]
  return Json.mkObj fields

def fwdClassStr : FwdClass → String
  | .evaluator => "evaluator" | .gibbs => "gibbs" | .halfStep => "halfStep" | .initParams => "initParams"

/-- op `c14.resolve`: in: `kind`, `own` = the names the state defines itself, `names` = the names to resolve. out: `resolved` =
[[outcome, class|null]…] (`QV.Frame.resolveMethod`), `table` = `rbmMethods kind` -/
def resolveOp (j : Json) : R Json := do
  let kd ← parseKind (← jStr (← fld j "kind"))
  let own ← (← jArr (← fld j "own")).toList.mapM jStr
  let names ← (← jArr (← fld j "names")).toList.mapM jStr
  let res := names.map fun n =>
    match resolveMethod (fun x => own.contains x) kd n with
    | .own => Json.arr #[.str "own", .null]
    | .forwarded c => Json.arr #[.str "forwarded", .str (fwdClassStr c)]
    | .attributeError => Json.arr #[.str "attributeError", .null]
  return Json.mkObj [("resolved", .arr res.toArray),
    ("table", .arr ((rbmMethods kd).toArray.map fun e => .arr #[.str e.1, .str (fwdClassStr e.2)]))]

def handle (op : String) (j : Json) : Option (R Json) :=
  match op with
  | "c14.run" => some (runOp j)
  | "c14.counts" => some (countsOp j)
  | "c14.resolve" => some (resolveOp j)
  | _ => none

end Drv.C14
