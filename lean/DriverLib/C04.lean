import DriverLib.Basic
import DriverLib.ArgConv
import QV.Model.Unitaries
open Lean Drv QV QV.Unitaries

namespace Drv.C04

/-- numeric codec: Float travels as bit patterns, Int plainly -/
class Codec (α : Type) where
  parse : Json → R α
  out : α → Json
instance : Codec Float := ⟨jFloat, fOut⟩
instance : Codec Int := ⟨jInt, iOut⟩

section
variable {α : Type} [Add α] [Mul α] [Neg α] [Sub α] [Zero α] [One α] [Codec α] [Inhabited α]

def parseC (j : Json) : R (C α) := do
  let a ← jArr j
  if a.size != 2 then throw "complex: expected [re, im]"
  return (← Codec.parse a[0]!, ← Codec.parse a[1]!)
def outC (z : C α) : Json := .arr #[Codec.out z.1, Codec.out z.2]

/-- a 2×2 complex matrix `[[c00, c01], [c10, c11]]` -/
def parseM2 (j : Json) : R (M2 α) := do
  let rows ← jArr j
  if rows.size != 2 then throw "M2: expected 2 rows"
  let r0 ← (← jArr rows[0]!).mapM (parseC (α := α))
  let r1 ← (← jArr rows[1]!).mapM (parseC (α := α))
  if r0.size != 2 || r1.size != 2 then throw "M2: expected 2 columns"
  return fun r c => (if r then r1 else r0)[if c then 1 else 0]!

def parseUs (j : Json) (n : Nat) : R (Fin n → M2 α) := do
  let a ← (← jArr j).mapM (parseM2 (α := α))
  if a.size != n then throw s!"us: expected {n} matrices"
  return fun s => a[s.val]!

def parseBits (j : Json) (n : Nat) : R (Fin n → Bool) := do
  let a ← jNatArr j
  if a.size != n then throw s!"state: expected {n} bits"
  return fun s => a[s.val]! != 0

def parseRot (j : Json) (n : Nat) : R (Fin n → Bool) := do
  let a ← (← jArr j).mapM jBool
  if a.size != n then throw s!"rot: expected {n} flags"
  return fun s => a[s.val]!

def rotatePsiOp (j : Json) : R Json := do
  let n ← jNat (← fld j "n")
  let us ← parseUs (α := α) (← fld j "us") n
  let psi ← (← jArr (← fld j "psi")).mapM (parseC (α := α))
  if psi.size != 2 ^ n then throw "psi: wrong length"
  -- executed: the LOOP form of `_kron_mult` (C04_rotate_psi_loop), cross-checked against the stage form
  let res := rotatePsiL n us psi.toList
  return .arr ((Array.range (2 ^ n)).map (fun k => outC (res.getD k (0, 0))))

def rotateRhoOp (j : Json) : R Json := do
  let n ← jNat (← fld j "n")
  let us ← parseUs (α := α) (← fld j "us") n
  let rho ← (← jArr (← fld j "rho")).mapM (fun r => do (← jArr r).mapM (parseC (α := α)))
  if rho.size != 2 ^ n || !rho.all (·.size == 2 ^ n) then throw "rho: wrong shape"
  let rows : List (Row α) := rho.toList.map (fun r => fun k => r[k]!)
  let res := rotateRhoL n us rows
  return .arr ((Array.range (2 ^ n)).map (fun i => .arr ((Array.range (2 ^ n)).map (fun k => outC ((res.getD i (fun _ => (0, 0))) k)))))

/-- `rotate_psi_inner_prod`; `enum = true`: the enumeration form the code uses (C04_inner_prod_enum), `false`: the filtered
sum over all `2^n` states (C04_inner_prod) -/
def innerProdOp (enum : Bool) (j : Json) : R Json := do
  let n ← jNat (← fld j "n")
  let us ← parseUs (α := α) (← fld j "us") n
  let rot ← parseRot (← fld j "rot") n
  let psi ← (← jArr (← fld j "psi")).mapM (parseC (α := α))
  if psi.size != 2 ^ n then throw "psi: wrong length"
  let states ← (← jArr (← fld j "states")).mapM (fun s => parseBits s n)
  let f := if enum then rotatePsiInnerProdE n us rot else rotatePsiInnerProd n us rot
  return .arr (states.map (fun σ => outC (f (fun τ => psi[basisIndex τ]!) σ)))

/-- `Ut, v = _rotate_basis_state(basis, states)`: per sample, the expanded states (bit lists) and coefficients in order -/
def expandOp (j : Json) : R Json := do
  let n ← jNat (← fld j "n")
  let us ← parseUs (α := α) (← fld j "us") n
  let rot ← parseRot (← fld j "rot") n
  let states ← (← jArr (← fld j "states")).mapM (fun s => parseBits s n)
  return .arr (states.map (fun σ =>
    let r := rotateBasisState n us rot σ
    Json.mkObj [("v", .arr (r.map (fun cv => Json.arr ((Array.ofFn (n := n) (fun s => cv.2 s)).map (fun b => iOut (if b then 1 else 0))))).toArray),
                ("Ut", .arr (r.map (fun cv => outC cv.1)).toArray)]))
end

section
variable {α : Type} [Add α] [Mul α] [Neg α] [Sub α] [Zero α] [One α] [Codec α] [Inhabited α]
def rhoProbsOp (enum : Bool) (j : Json) : R Json := do
  let n ← jNat (← fld j "n")
  let us ← parseUs (α := α) (← fld j "us") n
  let rot ← parseRot (← fld j "rot") n
  let rho ← (← jArr (← fld j "rho")).mapM (fun r => do (← jArr r).mapM (parseC (α := α)))
  if rho.size != 2 ^ n || !rho.all (·.size == 2 ^ n) then throw "rho: wrong shape"
  let states ← (← jArr (← fld j "states")).mapM (fun s => parseBits s n)
  let f := if enum then rotateRhoProbsE n us rot else rotateRhoProbs n us rot
  return .arr (states.map (fun σ => Codec.out (f (fun a b => (rho[basisIndex a]!)[basisIndex b]!) σ)))
end

/-! ### the dictionary-resolution entry points (`_unitaries_of`, lookup by letter), Float only -/

/-- a dictionary `[[letter, M2], …]`, or `null` for `None` / "the state has no `unitary_dict`" -/
def parseDict (j : Json) : R (Option (UDict Float)) :=
  match j with
  | .null => pure none
  | _ => do
    let es ← (← jArr j).mapM (fun e => do
      let p ← jArr e
      if p.size != 2 then throw "dict entry: expected [letter, matrix]"
      let k ← jStr p[0]!
      if k.length != 1 then throw "dict key: expected one character"
      return (k.front, ← parseM2 (α := Float) p[1]!))
    return some es.toList

def parseBasis (j : Json) (n : Nat) : R (Fin n → Char) := do
  let s ← jStr j
  if s.length != n then throw s!"basis: expected {n} letters"
  let cs := s.toList.toArray
  return fun k => cs[k.val]!

def dictArgs (j : Json) : R (Σ n : Nat, (Option (UDict Float) × Option (UDict Float) × (Fin n → Char))) := do
  let n ← jNat (← fld j "n")
  let given ← parseDict ((j.getObjVal? "given").toOption.getD .null)
  let own ← parseDict ((j.getObjVal? "own").toOption.getD .null)
  let basis ← parseBasis (← fld j "basis") n
  return ⟨n, given, own, basis⟩

def okOut (x : Json) : Json := Json.mkObj [("value", x)]

def rotatePsiDictOp (j : Json) : R Json := do
  let ⟨n, given, own, basis⟩ ← dictArgs j
  let psi ← (← jArr (← fld j "psi")).mapM (parseC (α := Float))
  match rotatePsiD given own basis psi.toList with
  | .ok res => return okOut (.arr ((Array.range psi.size).map (fun k => outC (res.getD k (0, 0)))))
  | .error e => return errOut e

def rotateRhoDictOp (j : Json) : R Json := do
  let ⟨n, given, own, basis⟩ ← dictArgs j
  let rho ← (← jArr (← fld j "rho")).mapM (fun r => do (← jArr r).mapM (parseC (α := Float)))
  let N := rho.size
  if !rho.all (·.size == N) then throw "rho: not square"
  let rows : List (Row Float) := rho.toList.map (fun r => fun k => r[k]!)
  match rotateRhoD given own basis rows with
  | .ok res => return okOut (.arr ((Array.range N).map (fun i => .arr ((Array.range N).map (fun k => outC ((res.getD i (fun _ => (0, 0))) k))))))
  | .error e => return errOut e

def innerProdDictOp (j : Json) : R Json := do
  let ⟨n, given, own, basis⟩ ← dictArgs j
  let psi ← (← jArr (← fld j "psi")).mapM (parseC (α := Float))
  if psi.size != 2 ^ n then throw "psi: wrong length"
  let states ← (← jArr (← fld j "states")).mapM (fun s => parseBits s n)
  let rs := states.map (fun σ => rotatePsiInnerProdD given own basis (fun τ => psi[basisIndex τ]!) σ)
  match rs.mapM id with
  | .ok vs => return okOut (.arr (vs.map outC))
  | .error e => return errOut e

def rhoProbsDictOp (j : Json) : R Json := do
  let ⟨n, given, own, basis⟩ ← dictArgs j
  let rho ← (← jArr (← fld j "rho")).mapM (fun r => do (← jArr r).mapM (parseC (α := Float)))
  if rho.size != 2 ^ n || !rho.all (·.size == 2 ^ n) then throw "rho: wrong shape"
  let states ← (← jArr (← fld j "states")).mapM (fun s => parseBits s n)
  let rs := states.map (fun σ => rotateRhoProbsD given own basis (fun a b => (rho[basisIndex a]!)[basisIndex b]!) σ)
  match rs.mapM id with
  | .ok vs => return okOut (.arr (vs.map fOut))
  | .error e => return errOut e

/-- op `c04.vector_states`: outcome class of a fast path called with ONE 1-D state -/
def vectorStatesOp (j : Json) : R Json := do
  let probs ← jBool (← fld j "probs")
  let anyRot ← jBool (← fld j "any_rotated")
  match vectorStatesOutcome (if probs then .rhoProbs else .innerProd) anyRot with
  | .ok () => return Json.mkObj [("ok", .bool true)]
  | .error e => return errOut e

/-- the model's default dictionary evaluated in Float -/
def dictOp : Json :=
  let m (u : M2 Float) : Json :=
    .arr #[.arr #[outC (u false false), outC (u false true)], .arr #[outC (u true false), outC (u true true)]]
  Json.mkObj [("X", m dX), ("Y", m dY), ("Z", m dZ)]

def handle (op : String) (j : Json) : Option (R Json) :=
  match op with
  | "c04.rotate_psi" => some (rotatePsiOp (α := Float) j)
  | "c04.rotate_psi_int" => some (rotatePsiOp (α := Int) j)
  | "c04.rotate_rho" => some (rotateRhoOp (α := Float) j)
  | "c04.rotate_rho_int" => some (rotateRhoOp (α := Int) j)
  | "c04.inner_prod" => some (innerProdOp (α := Float) true j)
  | "c04.inner_prod_int" => some (innerProdOp (α := Int) true j)
  | "c04.rho_probs" => some (rhoProbsOp (α := Float) true j)
  | "c04.rho_probs_int" => some (rhoProbsOp (α := Int) true j)
  | "c04.inner_prod_filter" => some (innerProdOp (α := Float) false j)
  | "c04.inner_prod_filter_int" => some (innerProdOp (α := Int) false j)
  | "c04.rho_probs_filter" => some (rhoProbsOp (α := Float) false j)
  | "c04.rho_probs_filter_int" => some (rhoProbsOp (α := Int) false j)
  | "c04.expand" => some (expandOp (α := Float) j)
  | "c04.expand_int" => some (expandOp (α := Int) j)
  | "c04.dict" => some (pure dictOp)
  | "c04.vector_states" => some (vectorStatesOp j)
  | "c04.rotate_psi_dict" => some (rotatePsiDictOp j)
  | "c04.rotate_rho_dict" => some (rotateRhoDictOp j)
  | "c04.inner_prod_dict" => some (innerProdDictOp j)
  | "c04.rho_probs_dict" => some (rhoProbsDictOp j)
  | "c04.create_dict_arg" => some (Drv.ArgConv.createDictArgOp j)
  | _ => none

end Drv.C04
