import DriverLib.Basic
import DriverLib.Flag
import DriverLib.CallShape
import QV.Model.States
import QV.Model.Prob
open Lean Drv QV

namespace Drv.C05

/-- decidable equality of bit-vectors (the driver has no Mathlib; `Decidable` is a subsingleton, so
`law` computed with this instance is the `law` of the theorems) -/
instance bvecDecEq {n : Nat} : DecidableEq (Fin n → Bool) := fun f g =>
  decidable_of_iff (∀ i : Fin n, f i = g i) ⟨funext, fun h _ => h ▸ rfl⟩

def jBit (j : Json) : R Bool := do
  match j with
  | .bool b => return b
  | _ => let k ← jNat j; return k != 0

def parseBitRows (j : Json) (n : Nat) : R (Array (Fin n → Bool)) := do
  let rows ← jArr j
  rows.mapM fun row => do
    let xs ← (← jArr row).mapM jBit
    if xs.size != n then throw s!"bit row: expected length {n}, got {xs.size}"
    return fun i => xs[i.val]!

def bitRowOut {n : Nat} (v : Fin n → Bool) : Json :=
  .arr (Array.ofFn fun i => nOut (if v i then 1 else 0))
def bitMatOut {B n : Nat} (vs : Fin B → Fin n → Bool) : Json := .arr (Array.ofFn fun b => bitRowOut (vs b))
def fRowOut {n : Nat} (f : Fin n → Float) : Json := fArrOut (tab f)
def shapesOut (l : List (Nat × Nat)) : Json := .arr (l.toArray.map fun s => .arr #[nOut s.1, nOut s.2])

/-- op `c05.cond`: the public conditionals (and energies) on arbitrary real rows.
in : kind ("rbm"|"prbm"), n, h, a, p, vrows, hrows, arows (prbm: one aux row per hidden row)
out: probH per vrow, probA per vrow, probV per (hrow[,arow]), energy per vrow, energyAux[vrow][arow] -/
def cond (j : Json) : R Json := do
  let kind ← jStr (← fld j "kind")
  let n ← jNat (← fld j "n")
  let h ← jNat (← fld j "h")
  let vrows ← parseRows (← fld j "vrows") n
  let hrows ← parseRows (← fld j "hrows") h
  if kind == "rbm" then
    let r ← parseRBM (← fld j "p") n h
    return Json.mkObj [
      ("probH", .arr (vrows.map fun v => fRowOut (r.probH v))),
      ("probV", .arr (hrows.map fun hid => fRowOut (r.probV hid))),
      ("energy", fArrOut (vrows.map fun v => r.effEnergy v))]
  else
    let a ← jNat (← fld j "a")
    let r ← parsePRBM (← fld j "p") n h a
    let arows ← parseRows (← fld j "arows") a
    if arows.size != hrows.size then throw "arows/hrows size mismatch"
    return Json.mkObj [
      ("probH", .arr (vrows.map fun v => fRowOut (r.probH v))),
      ("probA", .arr (vrows.map fun v => fRowOut (r.probA v))),
      ("probV", .arr ((hrows.zip arows).map fun (hid, aux) => fRowOut (r.probV hid aux))),
      ("energy", fArrOut (vrows.map fun v => r.effEnergy v)),
      ("energyAux", .arr (vrows.map fun v => fArrOut (arows.map fun aux => r.effEnergyAux v aux)))]

/-- op `c05.kernel`: the one-pass kernel as the LAW of the model's `gibbsStep` program (Float carrier),
rows/columns indexed like `generate_hilbert_space`; plus `probability(v, 1)`. -/
def kernel (j : Json) : R Json := do
  let kind ← jStr (← fld j "kind")
  let n ← jNat (← fld j "n")
  let h ← jNat (← fld j "h")
  let N := 2 ^ n
  let st : Fin N → Fin n → Bool := fun k => spaceBit n k.val
  if kind == "rbm" then
    let r ← parseRBM (← fld j "p") n h
    let P := Array.ofFn fun (v : Fin N) => fArrOut (Array.ofFn fun (w : Fin N) => (r.gibbsStep (st v)).law (st w))
    let pi := Array.ofFn fun (v : Fin N) => Wave.probability r (bvec (st v)) 1.0
    return Json.mkObj [("P", .arr P), ("pi", fArrOut pi)]
  else
    let a ← jNat (← fld j "a")
    let r ← parsePRBM (← fld j "p") n h a
    let P := Array.ofFn fun (v : Fin N) => fArrOut (Array.ofFn fun (w : Fin N) => (r.gibbsStep (st v)).law (st w))
    let pi := Array.ofFn fun (v : Fin N) => Density.probability r (bvec (st v)) 1.0
    return Json.mkObj [("P", .arr P), ("pi", fArrOut pi)]

/-- replay a batched call on recorded draws -/
def replayWith {n B : Nat} (steps : (Fin B → Fin n → Bool) → Prog Float (Fin B → Fin n → Bool))
    (shapes : List (Nat × Nat)) (j : Json) : R Json := do
  let draws ← (← jArr (← fld j "draws")).mapM jBit
  match fldOpt j "start" with
  | none =>
    -- `sample(k, num_samples)` without an initial state
    match (sampleFrom steps none).run draws.toList with
    | none => return Json.mkObj [("short", .bool true)]
    | some (fin, ps, rest) =>
      return Json.mkObj [("final", bitMatOut fin), ("probs", fListOut ps), ("leftover", nOut rest.length),
        ("shapes", shapesOut ((B, n) :: shapes))]
  | some sj =>
    let rows ← parseBitRows sj n
    if rows.size != B then throw s!"start: expected {B} rows"
    let start : Fin B → Fin n → Bool := fun b => rows[b.val]!
    let overwrite ← parseFlag (← fld j "overwrite")   -- the object the caller passed: JSON bool = singleton, else a flag descriptor
    let initId ← jNat (← fld j "init_id")
    let native ← jBool (← fld j "init_native")
    let fresh ← jNat (← fld j "fresh")
    match (gibbsCallF steps fresh overwrite ⟨initId, native, start⟩).run draws.toList with
    | none => return Json.mkObj [("short", .bool true)]
    | some (res, ps, rest) =>
      return Json.mkObj [("final", bitMatOut res.result.data), ("probs", fListOut ps),
        ("leftover", nOut rest.length), ("shapes", shapesOut shapes),
        ("result_id", nOut res.result.id), ("caller_id", nOut res.caller.id),
        ("caller_data", bitMatOut res.caller.data),
        ("same_object", .bool (res.result.id == res.caller.id))]

/-- op `c05.replay`: run the model's `gibbs_steps` / `sample` program on the recorded draws.
in : kind, n, h, a, p, B, k, start (B×n bits | null), draws (flat, call order), overwrite, init_id,
     init_native, fresh
out: final state, probabilities presented (in order), leftover draws, call shapes, buffer identities -/
def replay (j : Json) : R Json := do
  let kind ← jStr (← fld j "kind")
  let n ← jNat (← fld j "n")
  let h ← jNat (← fld j "h")
  let B ← jNat (← fld j "B")
  let k ← jNat (← fld j "k")
  if kind == "rbm" then
    let r ← parseRBM (← fld j "p") n h
    replayWith (B := B) (fun vs => r.gibbsStepsB k vs) (r.callShapes k B) j
  else
    let a ← jNat (← fld j "a")
    let r ← parsePRBM (← fld j "p") n h a
    replayWith (B := B) (fun vs => r.gibbsStepsB k vs) (r.callShapes k B) j

/-- op `c05.callform`: a public conditional-probability method on TENSOR arguments, through the model of `auto_unsqueeze_args`.
in : fn ("rbm_h_given_v"|"rbm_v_given_h"|"p_h_given_v"|"p_a_given_v"|"p_v_given_ha"|"p_energy"), n, h, a?, r (RBM | PRBM record),
     x = {shape, rows}, y = {shape, rows} | null (second operand of `p_v_given_ha`; explicit auxiliary state of `p_energy`)
out: {shape, data} | {error} -/
def callform (j : Json) : R Json := do
  let fn ← jStr (← fld j "fn")
  let n ← jNat (← fld j "n")
  let h ← jNat (← fld j "h")
  match fn with
  | "rbm_h_given_v" => do
    let r ← parseRBM (← fld j "r") n h
    return ftOut encVec (r.probHGivenV (← parseFT (← fld j "x") n))
  | "rbm_v_given_h" => do
    let r ← parseRBM (← fld j "r") n h
    return ftOut encVec (r.probVGivenH (← parseFT (← fld j "x") h))
  | _ => do
    let a ← jNat (← fld j "a")
    let q ← parsePRBM (← fld j "r") n h a
    match fn with
    | "p_h_given_v" => return ftOut encVec (q.probHGivenV (← parseFT (← fld j "x") n))
    | "p_a_given_v" => return ftOut encVec (q.probAGivenV (← parseFT (← fld j "x") n))
    | "p_v_given_ha" => do
      let y ← parseFT (← fld j "y") a
      return ftOut encVec (q.probVGivenHA (← parseFT (← fld j "x") h) y)
    | "p_energy" => do
      let y ← parseFTOpt j "y" a
      return ftOut encScalar (q.effectiveEnergy (← parseFT (← fld j "x") n) y)
    | _ => throw s!"c05.callform: unknown fn {fn}"

/-- op `c05.sample_step`: one public one-step sampler on ONE row, replayed on recorded draws (`QV.sampleCall` through
`RBM.sampleH/sampleV`, `PRBM.sampleH/sampleA/sampleV`).
in : kind ("rbm"|"prbm"), fn ("h_given_v"|"v_given_h"|"a_given_v"|"v_given_ha"), n, h, a, p, x (input row, bit patterns),
     y (aux row for v_given_ha), out (null | {"id", "data"}: the caller's buffer object and its contents before the call),
     fresh, draws (0/1).
out: {"short": true} when the recording is too short, else result_id, result (contents, bit patterns), out_id / out (the caller's
     buffer after the call; null when none was passed), probs (probabilities presented), rest (number of unused draws). -/
def sampleStep (j : Json) : R Json := do
  let kind ← jStr (← fld j "kind")
  let fn ← jStr (← fld j "fn")
  let n ← jNat (← fld j "n")
  let h ← jNat (← fld j "h")
  let fresh ← jNat (← fld j "fresh")
  let draws := (← (← jArr (← fld j "draws")).mapM jBit).toList
  let parseOut (m : Nat) : R (Option (Buf (Fin m → Float))) :=
    match fldOpt j "out" with
    | none => pure none
    | some o => do
      let d ← jFloatArr (← fld o "data")
      checkVec d m "out.data"
      return some ⟨← jNat (← fld o "id"), true, vecFn d m⟩
  let fin {m : Nat} (r : Option (StepResult (Fin m → Float) × List Float × List Bool)) : Json :=
    match r with
    | none => Json.mkObj [("short", .bool true)]
    | some (res, ps, rest) =>
      Json.mkObj [("result_id", nOut res.result.id), ("result", fRowOut res.result.data),
        ("out_id", match res.out with | some o => nOut o.id | none => .null),
        ("out", match res.out with | some o => fRowOut o.data | none => .null),
        ("probs", fListOut ps), ("rest", nOut rest.length)]
  if kind == "rbm" then
    let r ← parseRBM (← fld j "p") n h
    match fn with
    | "h_given_v" => do
      let x ← jFloatArr (← fld j "x"); checkVec x n "x"
      return fin ((r.sampleH (vecFn x n) fresh (← parseOut h)).run draws)
    | "v_given_h" => do
      let x ← jFloatArr (← fld j "x"); checkVec x h "x"
      return fin ((r.sampleV (vecFn x h) fresh (← parseOut n)).run draws)
    | _ => throw s!"c05.sample_step: unknown fn {fn}"
  else
    let a ← jNat (← fld j "a")
    let q ← parsePRBM (← fld j "p") n h a
    match fn with
    | "h_given_v" => do
      let x ← jFloatArr (← fld j "x"); checkVec x n "x"
      return fin ((q.sampleH (vecFn x n) fresh (← parseOut h)).run draws)
    | "a_given_v" => do
      let x ← jFloatArr (← fld j "x"); checkVec x n "x"
      return fin ((q.sampleA (vecFn x n) fresh (← parseOut a)).run draws)
    | "v_given_ha" => do
      let x ← jFloatArr (← fld j "x"); checkVec x h "x"
      let y ← jFloatArr (← fld j "y"); checkVec y a "y"
      return fin ((q.sampleV (vecFn x h) (vecFn y a) fresh (← parseOut n)).run draws)
    | _ => throw s!"c05.sample_step: unknown fn {fn}"

def handle (op : String) (j : Json) : Option (R Json) :=
  match op with
  | "c05.cond" => some (cond j)
  | "c05.callform" => some (callform j)
  | "c05.kernel" => some (kernel j)
  | "c05.replay" => some (replay j)
  | "c05.sample_step" => some (sampleStep j)
  | _ => none

end Drv.C05
