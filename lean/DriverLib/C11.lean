import DriverLib.Store
import QV.Model.StoreLoc
open Lean Drv QV.Store

namespace Drv.C11

/-- one operation of a history with open file objects: a stream operation, or any operation of `Drv.Store.parseOp` -/
def parseSOp (j : Json) : R SOp := do
  let t ← jStr (← fld j "t")
  match t with
  | "openS" => return .openS (← jNat (← fld j "sid"))
  | "writeHdr" => return .writeHdr (← jNat (← fld j "sid")) (← jNat (← fld j "n"))
  | "seekS" => return .seekS (← jNat (← fld j "sid")) (← jNat (← fld j "pos"))
  | "saveS" =>
    return .saveS (← jNat (← fld j "slot")) (← Drv.Store.jOptNat j "md") (← jNat (← fld j "sid")) (← jNat (← fld j "size"))
  | "loadS" => return .loadS (← jNat (← fld j "slot")) (← jNat (← fld j "sid"))
  | "autoloadS" =>
    return .autoloadS (← jNat (← fld j "slot")) (← Drv.Store.jKind (← fld j "kind")) (← jNat (← fld j "sid"))
      (← Drv.Store.jNatListList (← fld j "rand"))
  | _ => return .base (← Drv.Store.parseOp j)

def streamOut (s : Stream) : Json :=
  Json.mkObj [("pos", nOut s.pos),
    ("recs", .arr (s.recs.toArray.map (fun r => Json.arr #[nOut r.size, match r.data with
      | none => .null
      | some f => Drv.Store.dictOut f])))]

def sworldOut (sw : SWorld) (e : Option SErr) : Json :=
  (Drv.Store.worldOut sw.w e).setObjVal! "streams" (Drv.Store.slotsOut sw.streams streamOut)

/-- op `c11.srun`: in `ops` (a history with file-object operations), out: the world (with its file objects) after every operation -/
def srunOps (j : Json) : R Json := do
  let ops ← (← jArr (← fld j "ops")).mapM parseSOp
  let tr := strace SWorld.empty ops.toList
  return .arr (tr.toArray.map (fun r => sworldOut r.1 r.2))

def jStrList (j : Json) : R (List String) := do return (← (← jArr j).mapM jStr).toList

def jPathArg (j : Json) : R PathArg := do
  return ⟨← jBool (← fld j "abs"), ← jStrList (← fld j "comps")⟩

/-- template pieces: a string = literal text, `{"auto": true}` = `{}`, `{"idx": n}` = `{n}`, `{"named": s}` = `{s}` -/
def jSeg (j : Json) : R Seg :=
  match j with
  | .str s => .ok (.lit s)
  | _ =>
    match fldOpt j "idx", fldOpt j "named" with
    | some n, _ => do return .idx (← jNat n)
    | _, some s => do return .named (← jStr s)
    | _, _ => .ok .auto

def targetOut (r : Except PErr (Option (List String × String))) : Json :=
  match r with
  | .error e => Json.mkObj [("error", .str e.toString)]
  | .ok none => .null
  | .ok (some t) => Json.mkObj [("dir", .arr (t.1.toArray.map Json.str)), ("name", .str t.2)]

/-- op `c11.saverPath`: `ModelSaver(period, folder, file_name, save_initial, metadata)` created while the working directory is
`cwd0` in a tree with the given directories and regular files; then the callback events `queries` (each: the working directory
at that moment and an epoch number, or `"initial"` for `on_train_start`).  Out: whether the construction is refused, and for
every event where the model writes (directory, file name | null | error) and whether the write itself is refused because of
the form of `metadata` (`Store.saverSaveArg` on a one-state world). -/
def saverPath (j : Json) : R Json := do
  let cwd0 ← jStrList (← fld j "cwd0")
  let folder ← jPathArg (← fld j "folder")
  let tmpl ← (← jArr (← fld j "fileName")).mapM jSeg
  let period ← jNat (← fld j "period")
  let si ← jBool (← fld j "saveInitial")
  let dirs ← (← jArr (← fld j "dirs")).mapM jStrList
  let files ← (← jArr (← fld j "files")).mapM jStrList
  let resolve := match fldOpt j "resolve" with | some (.bool b) => b | _ => true
  let mform ← jStr (← fld j "metaForm")
  let mo ← jBool (← fld j "metadataOnly")
  let fs : DirFs := fun q => if q = [] || dirs.contains q then some true else if files.contains q then some false else none
  match PSaver.init resolve fs cwd0 period folder tmpl.toList si with
  | .error e => return Json.mkObj [("initError", .str e.toString)]
  | .ok (sv, fs') =>
    let c := constructSizes Heap.empty .pos 2 (some 1) none none [[5]]
    let h1 : Heap := { c.1 with dicts := upd c.1.dicts c.1.next [], next := c.1.next + 1 }
    let marg : MetaArg := match mform with
      | "none" => .absent
      | "dict" => .dict c.1.next
      | "callable" => .callable []
      | _ => .other
    let writeRefused : Bool := match saverSaveArg h1 (fun _ => none) c.2 marg mo 0 with
      | .error _ => true
      | .ok _ => false
    let qs ← (← jArr (← fld j "queries")).mapM (fun q => do
      let cwd ← jStrList (← fld q "cwd")
      match (← fld q "epoch") with
      | .str _ => return targetOut (sv.trainStartTarget cwd)
      | e => return targetOut (sv.epochEndTarget cwd (← jNat e)))
    return Json.mkObj [("initError", .null), ("folderIsDir", .bool (fs' (resolvePath cwd0 folder) == some true)),
      ("path", .arr (sv.path.comps.toArray.map Json.str)), ("writeRefused", .bool writeRefused), ("targets", .arr qs)]

/-- op `c11.run`: replay a save / load / autoload history on the heap model (see `Drv.Store.runOps`);
`c11.srun`: the same with open file objects; `c11.saverPath`: where and whether `ModelSaver` writes. -/
def handle (op : String) (j : Json) : Option (R Json) :=
  match op with
  | "c11.run" => some (Drv.Store.runOps j)
  | "c11.srun" => some (srunOps j)
  | "c11.saverPath" => some (saverPath j)
  | _ => none

end Drv.C11
