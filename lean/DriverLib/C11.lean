import DriverLib.Store
open Lean Drv

namespace Drv.C11

/-- op `c11.run`: replay a save / load / autoload history on the heap model (see `Drv.Store.runOps`). -/
def handle (op : String) (j : Json) : Option (R Json) :=
  match op with
  | "c11.run" => some (Drv.Store.runOps j)
  | _ => none

end Drv.C11
