import DriverLib.Basic
import QV.Model.Stats
open Lean Drv QV QV.Stats

namespace Drv.C13

def nanF : Float := 0.0 / 0.0
def optIn (x : Float) : Option Float := if x.isNaN then none else some x
def optOut (x : Option Float) : Json := match x with | some v => fOut v | none => fOut nanF

def statOut (s : Stat Float) : Json :=
  Json.mkObj [("mean", fOut s.mean), ("variance", optOut s.variance), ("std_error", optOut s.stdError), ("n", nOut s.n)]

/-- op `c13.update`: one `_update_statistics` call (`nan` variance = undefined). -/
def update (j : Json) : R Json := do
  let avgA ← jFloat (← fld j "avg_a")
  let varA ← jFloat (← fld j "var_a")
  let lenA ← jNat (← fld j "len_a")
  let avgB ← jFloat (← fld j "avg_b")
  let varB ← jFloat (← fld j "var_b")
  let lenB ← jNat (← fld j "len_b")
  let r := updateStatistics avgA (optIn varA) lenA avgB (optIn varB) lenB
  return Json.mkObj [("mean", fOut r.1), ("variance", optOut r.2.1), ("n", nOut r.2.2)]

/-- op `c13.from_samples`: `statistics_from_samples` on a list of per-sample values. -/
def fromS (j : Json) : R Json := do
  let xs ← jFloatArr (← fld j "xs")
  match fromSamples xs.toList with
  | .ok s => return statOut s
  | .error e => return errOut e

/-- op `c13.fold`: fold `_update_statistics` over chunks exactly as `statistics` does (chunk length passed as
`c`), then finish; also the one-pass statistics of the concatenation. -/
def fold (j : Json) : R Json := do
  let c ← jNat (← fld j "c")
  let chunks ← (← jArr (← fld j "chunks")).mapM jFloatArr
  let stats := collect (chunks.toList.map (fun ch => fromSamples ch.toList))
  let res : Json := match stats with
    | .error e => errOut e
    | .ok ss => match finish (foldStats c ss) with
      | .error e => errOut e
      | .ok s => statOut s
  let all := (chunks.toList.map (·.toList)).flatten
  let one : Json := match fromSamples all with
    | .ok s => statOut s
    | .error e => errOut e
  return Json.mkObj [("stream", res), ("onepass", one)]

/-- chain-state tokens of the driver: object identity and the draw after which the contents were produced -/
structure DS where
  id : Nat
  draw : Nat

def callOut (c : SampleCall DS) : Json :=
  Json.mkObj [("num_samples", nOut c.numSamples), ("k", nOut c.k),
    ("init", match c.init with | some s => nOut s.id | none => Json.null), ("overwrite", .bool c.overwrite)]

/-- op `c13.statistics`: `ObservableBase.statistics` (per observable) or `System.statistics` (all together) on a
recorded run: `ret_ids[i]` = identity token of the tensor the i-th sampler call returned, `chunks[o][i]` = values of
observable `o` on the state returned by call `i`. -/
def statistics (j : Json) : R Json := do
  let numSamples ← jNat (← fld j "num_samples")
  let numChains ← jNat (← fld j "num_chains")
  let burnIn ← jNat (← fld j "burn_in")
  let steps ← jNat (← fld j "steps")
  let overwrite ← jBool (← fld j "overwrite")
  let system ← jBool (← fld j "system")
  let cloneId ← jNat (← fld j "clone_id")
  let retIds ← jNatArr (← fld j "ret_ids")
  let initRows? ← (match fldOpt j "init_rows" with
    | some v => do return some (← jNat v)
    | none => pure none)
  let userId ← jNat (← fld j "user_id")
  let chunksJ ← jArr (← fld j "chunks")
  let chunks ← chunksJ.mapM (fun o => do (← jArr o).mapM jFloatArr)
  let env : Env DS := {
    samp := fun i _ => ⟨retIds.getD i 999999, i + 1⟩
    clone := fun s => ⟨cloneId, s.draw⟩
    rows := fun _ => initRows?.getD 0 }
  let args : Args DS := ⟨numSamples, numChains, burnIn, steps, initRows?.map (fun _ => ⟨userId, 0⟩), overwrite⟩
  let fOf (o : Nat) : DS → List Float := fun st =>
    if st.draw == 0 then [] else ((chunks.getD o #[]).getD (st.draw - 1) #[]).toList
  let onepass : Array Json := chunks.map (fun o =>
    match fromSamples ((o.toList.map (·.toList)).flatten) with
    | .ok s => statOut s
    | .error e => errOut e)
  let setup := chainSetup env args
  let hdr : List (String × Json) := [("onepass", .arr onepass), ("c", nOut setup.2),
    ("T", match numTimeSteps numSamples setup.2 with | .ok T => nOut T | .error e => errOut e)]
  if system then
    match sysStatistics env ((List.range chunks.size).map fOf) args with
    | .error e => return Json.mkObj (hdr ++ [("result", errOut e)])
    | .ok (ss, tr) =>
      return Json.mkObj (hdr ++ [("result", Json.mkObj [("stats", .arr (ss.toArray.map statOut)),
        ("calls", .arr (tr.toArray.map callOut))])])
  else
    let rs := (List.range chunks.size).map (fun o =>
      match obsStatistics env (fOf o) args with
      | .error e => errOut e
      | .ok (s, tr) => Json.mkObj [("stats", statOut s), ("calls", .arr (tr.toArray.map callOut))])
    return Json.mkObj (hdr ++ [("result", .arr rs.toArray)])

def handle (op : String) (j : Json) : Option (R Json) :=
  match op with
  | "c13.update" => some (update j)
  | "c13.from_samples" => some (fromS j)
  | "c13.fold" => some (fold j)
  | "c13.statistics" => some (statistics j)
  | _ => none

end Drv.C13
