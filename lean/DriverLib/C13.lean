import DriverLib.Basic
import QV.Model.Stats
import QV.Model.Observables
open Lean Drv QV QV.Stats

namespace Drv.C13

def nanF : Float := 0.0 / 0.0
def optIn (x : Float) : Option Float := if x.isNaN then none else some x
def optOut (x : Option Float) : Json := match x with | some v => fOut v | none => fOut nanF

def statOut (s : Stat Float) : Json :=
  Json.mkObj [("mean", fOut s.mean), ("variance", optOut s.variance), ("std_error", optOut s.stdError), ("n", nOut s.n)]

/-- op `c13.update`: one `_update_statistics` call (`nan` variance = undefined). -/
def update (j : Json) : R Json := do
  let avgA ← jFloat (← fld j "avg_a")
  let varA ← jFloat (← fld j "var_a")
  let lenA ← jNat (← fld j "len_a")
  let avgB ← jFloat (← fld j "avg_b")
  let varB ← jFloat (← fld j "var_b")
  let lenB ← jNat (← fld j "len_b")
  let r := updateStatistics avgA (optIn varA) lenA avgB (optIn varB) lenB
  return Json.mkObj [("mean", fOut r.1), ("variance", optOut r.2.1), ("n", nOut r.2.2)]

/-- op `c13.from_samples`: `statistics_from_samples` on a list of per-sample values. -/
def fromS (j : Json) : R Json := do
  let xs ← jFloatArr (← fld j "xs")
  match fromSamples xs.toList with
  | .ok s => return statOut s
  | .error e => return errOut e

/-- op `c13.fold`: fold `_update_statistics` over chunks exactly as `statistics` does (chunk length passed as
`c`), then finish; also the one-pass statistics of the concatenation. -/
def fold (j : Json) : R Json := do
  let c ← jNat (← fld j "c")
  let chunks ← (← jArr (← fld j "chunks")).mapM jFloatArr
  let stats := collect (chunks.toList.map (fun ch => fromSamples ch.toList))
  let res : Json := match stats with
    | .error e => errOut e
    | .ok ss => match finish (foldStats c ss) with
      | .error e => errOut e
      | .ok s => statOut s
  let all := (chunks.toList.map (·.toList)).flatten
  let one : Json := match fromSamples all with
    | .ok s => statOut s
    | .error e => errOut e
  return Json.mkObj [("stream", res), ("onepass", one)]

/-- chain-state tokens of the driver: object identity and the draw after which the contents were produced -/
structure DS where
  id : Nat
  draw : Nat

def callOut (c : SampleCall DS) : Json :=
  Json.mkObj [("num_samples", nOut c.numSamples), ("k", nOut c.k),
    ("init", match c.init with | some s => nOut s.id | none => Json.null), ("overwrite", .bool c.overwrite)]

/-- the recorded run of one `statistics` call: `ret_ids[i]` = identity token of the tensor the i-th sampler call
returned; the chain-state token `⟨id, i + 1⟩` stands for "what call `i` returned". -/
def parseRun (j : Json) : R (Env DS × Args DS) := do
  let numSamples ← jNat (← fld j "num_samples")
  let numChains ← jNat (← fld j "num_chains")
  let burnIn ← jNat (← fld j "burn_in")
  let steps ← jNat (← fld j "steps")
  let overwrite ← jBool (← fld j "overwrite")
  let cloneId ← jNat (← fld j "clone_id")
  let retIds ← jNatArr (← fld j "ret_ids")
  let initRows? ← (match fldOpt j "init_rows" with
    | some v => do return some (← jNat v)
    | none => pure none)
  let userId ← jNat (← fld j "user_id")
  let env : Env DS := {
    samp := fun i _ => ⟨retIds.getD i 999999, i + 1⟩
    clone := fun s => ⟨cloneId, s.draw⟩
    rows := fun _ => initRows?.getD 0 }
  let args : Args DS := ⟨numSamples, numChains, burnIn, steps, initRows?.map (fun _ => ⟨userId, 0⟩), overwrite⟩
  return (env, args)

/-- op `c13.statistics`: `ObservableBase.statistics` (per observable) or `System(*observables).statistics` (all
together, keyed by `names` — same-named observables are merged by `systemInit`) on a recorded run: `chunks[o][i]` =
values of observable `o` on the state returned by call `i`. -/
def statistics (j : Json) : R Json := do
  let (env, args) ← parseRun j
  let system ← jBool (← fld j "system")
  let chunksJ ← jArr (← fld j "chunks")
  let chunks ← chunksJ.mapM (fun o => do (← jArr o).mapM jFloatArr)
  let names ← (match fldOpt j "names" with
    | some v => do (← jArr v).mapM jStr
    | none => pure ((Array.range chunks.size).map (fun i => s!"#{i}")))
  let fOf (o : Nat) : DS → List Float := fun st =>
    if st.draw == 0 then [] else ((chunks.getD o #[]).getD (st.draw - 1) #[]).toList
  let onepass : Array Json := chunks.map (fun o =>
    match fromSamples ((o.toList.map (·.toList)).flatten) with
    | .ok s => statOut s
    | .error e => errOut e)
  let setup := chainSetup env args
  let hdr : List (String × Json) := [("onepass", .arr onepass), ("c", nOut setup.2),
    ("T", match numTimeSteps args.numSamples setup.2 with | .ok T => nOut T | .error e => errOut e)]
  if system then
    let obs : List (String × (DS → List Float)) := (List.range chunks.size).map (fun o => (names.getD o "?", fOf o))
    match systemStatistics env obs args with
    | .error e => return Json.mkObj (hdr ++ [("result", errOut e)])
    | .ok (ss, tr) =>
      return Json.mkObj (hdr ++ [("result", Json.mkObj [("stats", .arr (ss.toArray.map (fun e => statOut e.2))),
        ("names", .arr (ss.toArray.map (fun e => .str e.1))),
        ("calls", .arr (tr.toArray.map callOut))])])
  else
    let rs := (List.range chunks.size).map (fun o =>
      match obsStatistics env (fOf o) args with
      | .error e => errOut e
      | .ok (s, tr) => Json.mkObj [("stats", statOut s), ("calls", .arr (tr.toArray.map callOut))])
    return Json.mkObj (hdr ++ [("result", .arr rs.toArray)])

/-- op `c13.system_from_samples`: `System(*observables).statistics_from_samples` — `values[o]` = per-sample values of
observable `o` (named `names[o]`) on the given batch. -/
def systemFrom (j : Json) : R Json := do
  let names ← (← jArr (← fld j "names")).mapM jStr
  let values ← (← jArr (← fld j "values")).mapM jFloatArr
  let obs : List (String × (Unit → List Float)) :=
    (List.range values.size).map (fun o => (names.getD o "?", fun _ => (values.getD o #[]).toList))
  match systemFromSamples obs () with
  | .error e => return errOut e
  | .ok ss => return Json.mkObj [("names", .arr (ss.toArray.map (fun e => .str e.1))),
      ("stats", .arr (ss.toArray.map (fun e => statOut e.2)))]

/-- op `c13.sample`: `ObservableBase.sample` — the sampler call made and the values returned (`values` = the
observable on the tensor with identity token `ret_id` that the call returned). -/
def sampleOp (j : Json) : R Json := do
  let k ← jNat (← fld j "k")
  let numSamples ← jNat (← fld j "num_samples")
  let overwrite ← jBool (← fld j "overwrite")
  let hasInit ← jBool (← fld j "has_init")
  let retId ← jNat (← fld j "ret_id")
  let values ← jFloatArr (← fld j "values")
  let env : Env DS := { samp := fun _ _ => ⟨retId, 1⟩, clone := id, rows := fun _ => 0 }
  let f : DS → List Float := fun st => if st.draw == 1 then values.toList else []
  let r := obsSample env f k numSamples (if hasInit then some ⟨0, 0⟩ else none) overwrite
  return Json.mkObj [("values", fListOut r.1), ("call", callOut r.2)]


/-- op `c13.spinconv`: `to_01` and `to_pm1` (observables/utils.py) entry-wise on `xs` -/
def spinconv (j : Json) : R Json := do
  let xs ← jFloatArr (← fld j "xs")
  return Json.mkObj [("to_01", .arr (xs.map (fun x => fOut (to01 x)))), ("to_pm1", .arr (xs.map (fun x => fOut (toPm1 x)))),
    ("to_01_to_pm1", .arr (xs.map (fun x => fOut (to01 (toPm1 x)))))]

def handle (op : String) (j : Json) : Option (R Json) :=
  match op with
  | "c13.update" => some (update j)
  | "c13.from_samples" => some (fromS j)
  | "c13.fold" => some (fold j)
  | "c13.statistics" => some (statistics j)
  | "c13.system_from_samples" => some (systemFrom j)
  | "c13.sample" => some (sampleOp j)
  | "c13.spinconv" => some (spinconv j)
  | _ => none

end Drv.C13
