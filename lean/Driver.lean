/-
qvdriver — line-protocol driver over the executable model (QV.Model.* only; no Mathlib).
One JSON object per input line: {"op": "...", ...}; one JSON line per answer:
{"ok": <result>} or {"err": "<message>"}.
(one import / one handler per line: this file is union-merged)
-/
import DriverLib.Basic
import DriverLib.C01
import DriverLib.C04
import DriverLib.C03
import DriverLib.C06
import DriverLib.C19
import DriverLib.C05
import DriverLib.C02
import DriverLib.C08
import DriverLib.C09
import DriverLib.C10
import DriverLib.C13
import DriverLib.C16
import DriverLib.C17
import DriverLib.C18
import DriverLib.C15
import DriverLib.C12
import DriverLib.C07
import DriverLib.C11
import DriverLib.C20
import DriverLib.C14
open Lean Drv

def handlers : List (String → Json → Option (R Json)) := [
  Drv.C01.handle,
  Drv.C04.handle,
  Drv.C03.handle,
  Drv.C06.handle,
  Drv.C19.handle,
  Drv.C05.handle,
  Drv.C02.handle,
  Drv.C08.handle,
  Drv.C09.handle,
  Drv.C10.handle,
  Drv.C13.handle,
  Drv.C16.handle,
  Drv.C17.handle,
  Drv.C18.handle,
  Drv.C15.handle,
  Drv.C12.handle,
  Drv.C07.handle,
  Drv.C11.handle,
  Drv.C20.handle,
  Drv.C14.handle,
  fun _ _ => none]

def dispatch (line : String) : Json :=
  match Json.parse line with
  | .error e => Json.mkObj [("err", .str s!"parse: {e}")]
  | .ok j =>
    match j.getObjVal? "op" with
    | .ok (.str op) =>
      let res : Option (R Json) := handlers.findSome? (fun hd => hd op j)
      match res with
      | some (Except.ok r) => Json.mkObj [("ok", r)]
      | some (Except.error e) => Json.mkObj [("err", .str e)]
      | none => Json.mkObj [("err", .str s!"unknown op {op}")]
    | _ => Json.mkObj [("err", .str "missing op")]

partial def loop (hin : IO.FS.Stream) (hout : IO.FS.Stream) : IO Unit := do
  let line ← hin.getLine
  if line.isEmpty then return ()
  let t := line.trimAscii.toString
  if t.isEmpty then loop hin hout
  else
    hout.putStrLn (dispatch t).compress
    hout.flush
    loop hin hout

def main : IO Unit := do
  loop (← IO.getStdin) (← IO.getStdout)
