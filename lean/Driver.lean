/-
qvdriver — line-protocol driver over the executable model (QV.Model.* only; no Mathlib).
One JSON object per input line: {"op": "...", ...}; one JSON line per answer:
{"ok": <result>} or {"err": "<message>"}.
(one import / one handler per line: this file is union-merged)
-/
import DriverLib.Basic
import DriverLib.C01
import DriverLib.C14
open Lean Drv

def handlers : List (String → Json → Option (R Json)) := [
  Drv.C01.handle,
  Drv.C14.handle,
  fun _ _ => none]

def dispatch (line : String) : Json :=
  match Json.parse line with
  | .error e => Json.mkObj [("err", .str s!"parse: {e}")]
  | .ok j =>
    match j.getObjVal? "op" with
    | .ok (.str op) =>
      let res : Option (R Json) := handlers.findSome? (fun hd => hd op j)
      match res with
      | some (Except.ok r) => Json.mkObj [("ok", r)]
      | some (Except.error e) => Json.mkObj [("err", .str e)]
      | none => Json.mkObj [("err", .str s!"unknown op {op}")]
    | _ => Json.mkObj [("err", .str "missing op")]

partial def loop (hin : IO.FS.Stream) (hout : IO.FS.Stream) : IO Unit := do
  let line ← hin.getLine
  if line.isEmpty then return ()
  let t := line.trimAscii.toString
  if t.isEmpty then loop hin hout
  else
    hout.putStrLn (dispatch t).compress
    hout.flush
    loop hin hout

def main : IO Unit := do
  loop (← IO.getStdin) (← IO.getStdout)
