"""C08 — correspondence of the observable model (QV.Model.Observables: sigmaXRun/sigmaYRun/sigmaZApply/
neighbourOpenApply/neighbourPeriodicApply, ImpState.numer/denom/weight) with qucumber.observables
{SigmaX, SigmaY, SigmaZ, NeighbourInteraction} and the importance_sampling_* methods of the three state
classes, plus the property oracle  Σ_σ p(σ)·apply(σ) = tr(ρ̂ O)  evaluated on the implementation with
explicit Kronecker-product operators (numpy, independent of model and library)."""
import numpy as np

from . import argforms_a as af
from . import qc
from .common import bits, unbits
from .layouts import LAYOUTS, make_batch, outside_untouched, same_values
from .qc import torch

FILES = [
    "qucumber/observables/pauli.py",
    "qucumber/observables/interactions.py",
    "qucumber/observables/utils.py",
    "qucumber/observables/observable.py",
    "qucumber/nn_states/wavefunction.py",
    "qucumber/nn_states/density_matrix.py",
    "qucumber/nn_states/neural_state.py",
    "qucumber/utils/cplx.py",
    "qucumber/utils/unitaries.py",   # the sign anchor: rotated-basis Born distributions (property C04's functions)
]
REQUIRED_THEOREMS = [
    "C08_gen_to_pm1_eq_model", "C08_gen_spin_convention",  # translator tie (notes/translator.md)
    "C08_represents_pure", "C08_represents_mixed", "C08_sigmaX", "C08_sigmaY", "C08_sigmaZ",
    "C08_neighbour_open", "C08_neighbour_periodic", "C08_pure_states", "C08_mixed_states",
    "C08_pure_trace_eq_expectation", "C08_trace_real", "C08_real", "C08_no_mutation", "C08_importance_weight",
    # audit round: sign anchor through the library's basis rotations, RBM density-matrix instances, one value per sample
    "C08_pauli_triple", "C08_basis_rotation_sign", "C08_rotated_Z", "C08_rotated_Z_pure", "C08_rotated_Z_mixed",
    "C08_rotated_Z_mixed_rbm", "C08_rbm_rho_diag", "C08_mixed_rbm", "C08_rbm_rho_hermitian", "C08_ops_hermitian",
    "C08_mixed_rbm_trace_real", "C08_one_value_per_sample",
    "C08_flag_absolute", "C08_flag_periodic", "C08_flag_any_form",   # round 4: constructor flags as the objects the caller passed
    "C08_pure_rbm", "C08_pure_rbm_pos",   # second audit C08-A1: hypothesis-free instances for the RBM wavefunctions
    # extension round X3: composition with the sampler (C05) and the streaming statistics (C13)
    "C08_born_stationary", "C08_unbiased_stationary", "C08_unbiased_stationary_pos", "C08_unbiased_stationary_mixed",
    "C08_statistics_mean_generic", "C08_unbiased_statistics", "C08_unbiased_statistics_mixed",
    "C08_unbiased_statistics_pos", "C08_unbiased_absolute", "C08_sigmaY_real_state_zero", "C08_sigmaY_pos_zero",   # late theorems L4
]
THEOREMS = {
    "sigmaX": "C08_sigmaX (+ C08_represents_pure/_mixed, C08_no_mutation: run = map of the per-sample value)",
    "sigmaY": "C08_sigmaY (+ C08_represents_pure/_mixed, C08_no_mutation)",
    "sigmaZ": "C08_sigmaZ",
    "open": "C08_neighbour_open",
    "periodic": "C08_neighbour_periodic",
    "abs": "C08_real",
    "after": "C08_no_mutation",
    "weight": "C08_importance_weight",
    "rotated": "C08_rotated_Z (+ C08_rotated_Z_pure / C08_rotated_Z_mixed, C08_basis_rotation_sign, C08_pauli_triple; C04_dX_eigen / C04_dY_eigen)",
    "shape": "C08_one_value_per_sample",
    "stationary": "C08_unbiased_stationary / C08_unbiased_stationary_pos / C08_unbiased_stationary_mixed (C05_invariant_k composed with "
                  "C08_pure_rbm / C08_mixed_rbm through Prog.expect_stationary; C08_born_stationary)",
}
# the sign relating SigmaZ on outcomes drawn in the all-P basis (library convention, C04: outcome 0 <-> eigenvalue +1) to SigmaP on
# computational-basis samples (observables' convention to_pm1: bit 0 -> -1): C08_rotated_Z
ROTATED_SIGN = -1.0
RULE = ("case = (state kind pos/cplx/dens, n<=5, h, [a], parameter scale in {0.3,1,2,3}, all weights/biases of both networks = "
        "scale*N(0,1) (all non-zero), batch, memory layout of the batch: contiguous / strided row or column view of a larger buffer / "
        "transposed); batches: the full basis in index order (the exact-average oracle runs on it) and random "
        "batches with repeated rows; every built-in observable with absolute in {False,True}, c = 0..n+1 applied, verdicts (points, oracles) only for the distances of the property's quantifier c = 1..n (c = 0, c > n: informational counters), both boundary conditions; "
        "non-trivial iff n >= 2 and all biases non-zero and (kind == pos or the phase network is non-zero); distinct by hash of the case; "
        "history cases: every observable object created once and applied along a sequence (sample tensor overwritten in place, state "
        "re-parametrised in place, other batch length, longer / shorter chains, other state class, back to the start); "
        "sign anchor on every full-basis case: Born distributions of the outcomes in the all-X and all-Y bases from the library's own "
        "rotate_psi / rotate_psi_inner_prod (wavefunctions) and rotate_rho_probs / rotate_rho (density matrices) with the default dictionary; "
        "every `absolute` / `periodic_bcs` argument (constructor, keyword or positional, and reassigned attribute) is one of {bool singleton, int "
        "1/0, numpy.bool_, result of a numpy comparison, 0-dim numpy bool array, 0-dim torch.bool tensor} drawn from a per-case seeded stream "
        "(`fseed`); states are constructed with gpu=<falsy object of one of these forms>; "
        "argument forms (round 5, per-case seeded stream `aseed`, harness/argforms_a.py): the interaction distance `c` (constructor, keyword or positional, "
        "and reassigned attribute) is a Python int / np.int64 / np.int32 / np.intp / 0-d integer ndarray / 0-d integer tensor (numpy UNSIGNED scalars "
        "left out: `-self.c` wraps, finding candidate proposed/F_C08_unsigned_c), the constructor sizes num_visible / num_hidden / num_aux of the states and RBM modules "
        "additionally np.uint8 (keyword or positional; oracle: constructed architecture == requested), the normalisation handed to probability is the "
        "0-d tensor normalization() returned / a float / a np.float64 (keyword or positional), `expand` of rho(space, space) and `include_extras` of "
        "rotate_psi_inner_prod / rotate_rho_probs are flag objects (keyword or positional); a case without `aseed` replays with plain ints / bools by keyword; "
        "ELEMENT TYPE OF THE BATCH (final pass): every case's 0/1 batch is also applied, in the case's memory layout, as float32 / float16 / int64 / int32 / int16 / int8 / uint8 / bool "
        "to all five observables (c = 1..n, both boundaries); where the clean code accepts the type (dtype_verdict: NeighbourInteraction all; SigmaZ floating types; SigmaX / SigmaY on "
        "wavefunctions all signed integer and floating types) the values must be those of the float64 batch and of the model up to the precision of the result's type, one real number per "
        "sample (B reals; container / precision not constrained), batch bytes unchanged - property level; refused types and the uint8 batch of SigmaX / SigmaY "
        "(observation proposed/O_C08_uint8_flip) are informational counters")

# forms of the interaction distance `c`: every form of qc.INT_FORMS.  Until fix F23 (/repo 6ffb751, `c = int(self.c)`) numpy UNSIGNED scalars
# were left out: `NeighbourInteraction(c=np.uint8(k))` computed `samples[:, : -self.c]` with -uint8(k) = 256 - k (all columns) in the open chain
# and indexed with a list of np.uint8, which torch reads as a byte MASK, in the periodic chain - a silently WRONG value when the shapes happened
# to broadcast (open: c = L - 1; periodic: L <= 2).  proposed/F_C08_unsigned_c.md has the reproducer; seeded/F23_revert is the regression mutant.
C_FORMS = tuple(qc.INT_FORMS)   # np.uint8 included since /repo 6ffb751 (F23: `c = int(self.c)`); before it, -c wrapped around
Z_FORMS = ("tensor", "float", "np.float64")

I2 = np.eye(2, dtype=complex)
PX = np.array([[0, 1], [1, 0]], dtype=complex)
PY = np.array([[0, -1j], [1j, 0]], dtype=complex)
PZ = np.array([[-1, 0], [0, 1]], dtype=complex)  # library convention to_pm1: bit 0 -> -1, bit 1 -> +1


def kron_site(P, i, n):
    """P on site i (site 0 = most significant bit = leftmost factor), identity elsewhere"""
    out = np.array([[1.0 + 0j]])
    for j in range(n):
        out = np.kron(out, P if j == i else I2)
    return out


def op_magnet(P, n):
    return sum(kron_site(P, i, n) for i in range(n)) / n


def op_neighbour(n, c, periodic):
    N = 2 ** n
    tot = np.zeros((N, N), dtype=complex)
    for i in range(n):
        k = (i + c) % n if periodic else i + c
        if k < n:
            tot = tot + kron_site(PZ, i, n) @ kron_site(PZ, k, n)
    return tot / n


def build_state(kind, n, h, a, am, ph, gpuf=None, A=None):
    """`gpuf`: flag form of the (falsy) object handed as `gpu=` to the constructors (None: the singleton False);
    `A`: the case's argument-form stream (argforms.Args): every constructor size (state and RBM module) is handed over as the next integer
    form of the stream, keyword or positional; `gpu` stays the object derived from `gpuf` (a seeded stream without `gpuf` draws a falsy
    flag object itself).  A = None: plain ints by keyword (the calls made before round 5)."""
    gpu = qc.flag_value(qc.flag_desc(gpuf, False))
    if A is not None:
        g = None if (gpuf is None and A.aseed is not None) else gpu
        if kind == "pos":
            return af.make_positive(A, n, h, am, gpu=g)
        if kind == "cplx":
            return af.make_complex(A, n, h, am, ph, gpu=g)
        return af.make_density(A, n, h, a, am, ph, gpu=g)
    if kind == "pos":
        return qc.make_positive(n, h, am, gpu=gpu)
    if kind == "cplx":
        return qc.make_complex(n, h, am, ph, gpu=gpu)
    return qc.make_density(n, h, a, am, ph, gpu=gpu)


def want_sizes(kind, n, h, a):
    return (n, h, a) if kind == "dens" else (n, h)


CTOR_THEOREM = "C08_pure_rbm / C08_pure_rbm_pos / C08_mixed_rbm (stated for the state of the architecture the caller asked for)"


def given_Z(A, st, space_t, Zt):
    """probability(space, Z) with the normalisation as the object the caller has in hand (the 0-d tensor normalization() returned, a float,
    a np.float64), keyword or positional; unseeded stream: the float, positionally (the call made before round 5) -> (tensor, form)"""
    Z = float(Zt)
    if A is None or A.aseed is None:
        return st.probability(space_t, Z), "float"
    zform = A.choice(Z_FORMS)
    Zo = {"tensor": Zt, "float": Z, "np.float64": np.float64(Z)}[zform]
    return (st.probability(space_t, Z=Zo) if A.coin(0.5) else st.probability(space_t, Zo)), zform


class FormError(Exception):
    """a call returned something of another shape / type than its documentation promises for the truth value of the flag it was given"""


def with_extras(A, fn, st, basis, space):
    """rotate_psi_inner_prod / rotate_rho_probs with `include_extras` = a flag object of the case's stream (keyword or positional): a falsy
    object must give the plain tensor, a truthy one the triple (result, terms, expanded states) whose first entry is that tensor"""
    if A is None or A.aseed is None:
        return fn(st, basis, space)
    want = A.coin(0.5)
    flag = A.b(want)
    r = fn(st, basis, space, None, None, flag) if A.coin() else fn(st, basis, space, include_extras=flag)
    if want:
        if not (isinstance(r, tuple) and len(r) == 3 and isinstance(r[0], torch.Tensor)):
            raise FormError(f"include_extras=<true object {type(flag).__name__}>: no triple returned")
        return r[0]
    if not isinstance(r, torch.Tensor):
        raise FormError(f"include_extras=<false object {type(flag).__name__}>: {type(r).__name__} returned")
    return r


def _fd(d):
    """flag descriptor as the driver takes it"""
    return {"form": d["form"], "value": d["value"]}


def make_pauli(cls, fl, ab):
    """SigmaX/Y/Z with `absolute` = the truth value `ab` handed over as the next object of the flag stream (keyword or positional)"""
    obj, d = fl(ab)
    return (cls(obj) if d["pos"] else cls(absolute=obj)), d


def make_neighbour(cls, fl, per, c, form=None, A=None):
    """NeighbourInteraction with `periodic_bcs` = the truth value `per` as an object of the given / next form (keyword or positional) and the
    distance `c` as the next integer form of the stream `A` (C_FORMS; None: the Python int)"""
    obj, d = fl(per)
    if form is not None:   # one form per truth value and case (the model takes one descriptor pair for all distances); position still varies
        d = dict(d, form=form)
        obj = qc.flag_value(d)
    if A is None:
        return (cls(obj, c) if d["pos"] else cls(periodic_bcs=obj, c=c)), d
    co = A.i(c, C_FORMS)
    if d["pos"]:
        return (cls(obj, c=co) if A.coin() else cls(obj, co)), d
    return (cls(c=co, periodic_bcs=obj) if A.coin() else cls(periodic_bcs=obj, c=co)), d


def state_req(kind, n, h, a, am, ph):
    req = {"kind": kind, "n": n, "h": h, "am": qc.pbits(am)}
    if kind != "pos":
        req["ph"] = qc.pbits(ph)
    if kind == "dens":
        req["a"] = a
    return req


def rho_hat(st, kind, n, A=None):
    """normalised density matrix of the implementation's state in the computational basis (numpy complex),
    from psi(space) / rho(space, space) — independent of the importance-sampling path.
    `A`: argument-form stream; seeded: `expand` of rho is handed over as a TRUTHY flag object (keyword or positional) and None is returned
    if the result is not the full 2 x N x N matrix the documentation promises for a true `expand`"""
    space = torch.tensor(qc.all_states(n), dtype=torch.double)
    if kind == "dens":
        if A is None or A.aseed is None:
            r = st.rho(space, space).detach().numpy()
        else:
            flag = A.b(True)
            r = (st.rho(space, space, flag) if A.coin(0.5) else st.rho(space, space, expand=flag)).detach().numpy()
            if r.shape != (2, len(space), len(space)):
                return None
        R = r[0] + 1j * r[1]
    else:
        p = st.psi(space).detach().numpy()
        v = p[0] + 1j * p[1]
        R = np.outer(v, np.conj(v))
    return R / np.trace(R)


def one_real_per_sample(r, B):
    """"returns one real number per sample": B real numbers (a tensor or an array of a real floating / integer element type, shape (B,));
    the container class and the precision (float64 / float32) are not constrained by the property (second audit, item C08-FA1)"""
    try:
        a = r.detach().cpu() if hasattr(r, "detach") else np.asarray(r)
        if tuple(a.shape) != (B,):
            return False
        if hasattr(a, "is_complex"):
            return not a.is_complex() and a.dtype != torch.bool
        return a.dtype.kind in "fiu"
    except Exception:  # noqa: BLE001
        return False


# ---------------------------------------------------------------- element type of the caller's 0/1 batch (final pass)
# The property says "evaluating an observable returns one real number per sample" for a sample ARRAY; measurement files are read as float32 or
# integers, comparisons give uint8 / bool.  For every element type and observable family the table says what the CLEAN code does (probed on /repo
# HEAD, all three state kinds, see notes/C08.md "## Final pass"): a tolerance = the batch is accepted and the values are those of the float64
# batch up to the precision of the RESULT's element type (verdict: property level); None = refused with an exception, or - SigmaX / SigmaY on a
# uint8 batch - silently wrong (observation proposed/O_C08_uint8_flip.md): no verdict, outcome counted.
SAMPLE_DTYPES = ("f32", "f16", "i64", "i32", "i16", "i8", "u8", "bool")
UINT8_FLIP_REPAIRED = __import__("os").environ.get("QV_C08_UINT8_FLIP") == "1"   # off; switch on once proposed/O_C08_uint8_flip.diff is applied
_TOL = {"f64": 1e-9, "f32": 2e-6, "f16": 4e-3}


def dtype_verdict(family, kind, dt):
    """tolerance (values lie in [-1, 1] up to the importance ratios) if the clean code evaluates `family` on a batch of element type `dt`, else None"""
    if family in ("sigmaX", "sigmaY"):     # the batch goes through the state's amplitudes (F.linear with float64 parameters converts it)
        return 1e-9 if kind != "dens" and dt in ("f32", "f16", "i64", "i32", "i16", "i8") + (("u8",) if UINT8_FLIP_REPAIRED else ()) else None
    if family == "sigmaZ":                 # samples.mean(1): floating batches only, in the batch's precision
        return _TOL.get(dt)
    return _TOL.get(dt, _TOL["f32"])       # NeighbourInteraction: to_pm1 promotes an integer / bool batch to the default floating type


def impl_apply(obs, st, samples_t, backing=None, layout=None):
    """returns (values as list | {'error': name}, kind of result, sample tensor (and the rest of its backing buffer) unchanged?)"""
    before = samples_t.numpy().tobytes()
    same = lambda: samples_t.numpy().tobytes() == before and outside_untouched(backing, layout)  # noqa: E731
    try:
        r = obs.apply(st, samples_t)
        shape_ok = one_real_per_sample(r, samples_t.shape[0])
        vals = np.asarray(r.detach().cpu().to(torch.float64).numpy() if hasattr(r, "detach") else r, dtype=np.float64).ravel().tolist()
    except Exception as e:  # noqa: BLE001
        return {"error": type(e).__name__}, True, same()
    return vals, shape_ok, same()


def cmp_vals(ctx, name, level, impl, model, case, theorem, sig):
    """values or error records"""
    if isinstance(impl, dict) or isinstance(model, dict):
        ctx.point(name, level, impl, model if isinstance(model, dict) else "values", case, exact=True, theorem=theorem, sig=sig)
    else:
        m = unbits(model) if len(model) else np.zeros(0)
        sc = float(np.max(np.abs(m))) if len(model) else 1.0
        ctx.point(name, level, impl, m, case, scale=max(sc, 1.0), theorem=theorem, sig=sig)


def one_case(ctx, kind, n, h, a, scale, am, ph, samples, full, layout="contig", fseed=None, gpuf=None, aseed=None):
    """`fseed`: seed of the case's flag stream (qc.Flags): every `absolute` / `periodic_bcs` argument is handed over as a bool singleton / int /
    numpy bool / result of a numpy comparison / 0-dim bool array / 0-dim bool tensor, by keyword or positionally (None: singletons by keyword,
    cases stored before round 4); `gpuf`: form of the falsy object given as `gpu=`; `aseed`: seed of the case's argument-form stream (argforms.Args):
    constructor sizes, the distance `c`, the normalisation given to probability, `expand` / `include_extras` (None: plain ints / bools by keyword,
    cases stored before round 5)"""
    from qucumber.observables import NeighbourInteraction, SigmaX, SigmaY, SigmaZ

    case = {"kind": kind, "n": n, "h": h, "a": a, "scale": scale, "am": am, "ph": ph, "samples": samples, "full": full, "layout": layout,
            "fseed": fseed, "gpuf": gpuf}
    if aseed is not None:
        case["aseed"] = aseed
    ctx.current_case = case
    ctx.count(f"layout={layout}")
    fl = qc.Flags(fseed)
    A = af.Args(aseed)
    st = build_state(kind, n, h, a, am, ph, gpuf, A=A)
    if not af.check_sizes(ctx, st, want_sizes(kind, n, h, a), case, A, f"{kind}/ctor-sizes", CTOR_THEOREM):
        return
    B = len(samples)
    cs = list(range(0, n + 2))
    nz = lambda p: all(x != 0 for x in p["b"]) and all(x != 0 for x in p["c"])  # noqa: E731
    nontriv = n >= 2 and nz(am) and (kind == "pos" or (nz(ph) and any(x != 0 for row in ph["W"] for x in row)))
    ctx.case({"kind": kind, "n": n, "h": h, "a": a, "am": am, "ph": ph, "samples": samples}, nontrivial=nontriv,
             sample={"kind": kind, "n": n, "h": h, "a": a, "scale": scale, "batch": B, "full_basis": full, "am_b": am["b"]})
    ctx.count(f"kind={kind}"); ctx.count(f"n={n}"); ctx.count(f"scale={scale}"); ctx.count("batch=full" if full else "batch=random")
    if len({tuple(r) for r in samples}) < B:
        ctx.count("batch_with_repeats")

    def fresh():
        return torch.tensor(samples, dtype=torch.double).reshape(B, n)

    # ---------------- implementation (the batch in the case's memory layout: contiguous / strided view / transposed)
    impl, fdesc, cform = {}, {}, {}
    for nm, cls in (("sigmaX", SigmaX), ("sigmaY", SigmaY), ("sigmaZ", SigmaZ)):
        for ab in (False, True):
            t, backing = make_batch(samples, n, layout)
            obs, fdesc[(nm, ab)] = make_pauli(cls, fl, ab)
            impl[(nm, ab)] = impl_apply(obs, st, t, backing, layout) + (t.numpy().astype(int).tolist(),)
    for per in (False, True):
        fdesc[("nb", per)] = fl(per)[1]
    for c in cs:
        for per in (False, True):
            t, backing = make_batch(samples, n, layout)
            obs, _ = make_neighbour(NeighbourInteraction, fl, per, c, form=fdesc[("nb", per)]["form"], A=A)
            cform[(per, c)] = A.ints.used[-1]["form"]
            impl[("nb", per, c)] = impl_apply(obs, st, t, backing, layout) + (t.numpy().astype(int).tolist(),)
    for d in fl.used:
        ctx.count(f"flag given as {d['form']}:{'positional' if d['pos'] else 'keyword'}")
    A.count_into(ctx)
    flags_req = {nm: [_fd(fdesc[(nm, False)]), _fd(fdesc[(nm, True)])] for nm in ("sigmaX", "sigmaY", "sigmaZ")}
    flags_req["periodic"] = [_fd(fdesc[("nb", False)]), _fd(fdesc[("nb", True)])]
    given = lambda key: fdesc[(key[0], key[1])]["form"]  # noqa: E731
    # importance-sampling aux points: pairs (vp, v) = (random row / flipped row, row)
    pairs = []
    for k in range(min(B, 6)):
        v = samples[k]
        vp = list(v)
        if ctx.rng.random() < 0.7:
            i = ctx.rng.randrange(n)
            vp[i] = 1 - vp[i]
        else:
            vp = samples[ctx.rng.randrange(B)]
        pairs.append([list(vp), list(v)])
    vp_t = torch.tensor([p[0] for p in pairs], dtype=torch.double)
    v_t = torch.tensor([p[1] for p in pairs], dtype=torch.double)
    try:
        i_numer = st.importance_sampling_numerator(vp_t, v_t).detach().numpy()
        i_denom = st.importance_sampling_denominator(v_t).detach().numpy()
        i_weight = st.importance_sampling_weight(vp_t, v_t).detach().numpy()
        imp_err = None
    except Exception as e:  # noqa: BLE001
        imp_err = type(e).__name__

    # ---------------- every apply returns one real number per sample and does not touch the sample tensor
    for key, (vals, shape_ok, unchanged, _after) in impl.items():
        if key[0] == "nb" and not 1 <= key[2] <= n:
            # interaction distances outside the property's quantifier (c = 1..n): c = 0 and c = n + 1 are still APPLIED (a crash of the harness
            # or of a later call would show), but nothing about their outcome is constrained: informational counters only
            ctx.count(f"neighbour c outside 1..n (informational): {'raises' if isinstance(vals, dict) else 'returns values'}")
            continue
        nm = key[0] if key[0] != "nb" else f"neighbour(periodic={key[1]},c={key[2]})"
        sub = {**case, "observable": nm, "absolute": key[1] if key[0] != "nb" else None, "flag_given_as": given(key)}
        ctx.oracle("apply leaves the sample tensor unchanged (bytes)", bool(unchanged), sub, sig=f"{kind}/{key[0]}/no-mutation",
                   theorem=THEOREMS["after"])
        if not isinstance(vals, dict):
            ctx.oracle("apply returns one real number per sample (B reals)", bool(shape_ok), sub, sig=f"{kind}/{key[0]}/shape",
                       theorem=THEOREMS["shape"] if key[0] in ("sigmaX", "sigmaY") else None)
    for nm in ("sigmaX", "sigmaY", "sigmaZ"):
        v0, v1 = impl[(nm, False)][0], impl[(nm, True)][0]
        if not isinstance(v0, dict) and not isinstance(v1, dict):
            ctx.oracle("absolute=<true object> is |absolute=<false object>|", bool(np.allclose(np.abs(v0), v1, rtol=1e-12, atol=0)),
                       {**case, "observable": nm, "absolute_given_as": [fdesc[(nm, False)], fdesc[(nm, True)]]},
                       detail={"absolute_false": v0[:8], "absolute_true": v1[:8]}, sig=f"{kind}/{nm}/abs", theorem=THEOREMS["abs"])

    # ---------------- the same batch in every other element type (0/1 values: same logical content), same memory layout
    dt_impl = {}
    fams = [("sigmaX", SigmaX, None), ("sigmaY", SigmaY, None), ("sigmaZ", SigmaZ, None)] + \
           [("nb", NeighbourInteraction, (per, c)) for per in (False, True) for c in range(1, n + 1)]
    for dt in SAMPLE_DTYPES:
        for fam, cls, arg in fams:
            key = (fam, False) if arg is None else ("nb", arg[0], arg[1])
            ref = impl[key][0]
            tol = dtype_verdict(fam, kind, dt)
            t, backing = make_batch(samples, n, layout, dt)
            obs = cls() if arg is None else cls(periodic_bcs=arg[0], c=arg[1])
            vals, shape_ok, unchanged, = impl_apply(obs, st, t, backing, layout)
            nm = fam if arg is None else f"neighbour(periodic={arg[0]},c={arg[1]})"
            if tol is None or isinstance(ref, dict):
                ctx.count(f"batch dtype {dt} / {fam} / {kind} (no verdict: the clean code refuses it or - uint8 through flip_spin - is wrong): "
                          + ("raises" if isinstance(vals, dict) else "returns values"))
                continue
            ctx.count(f"batch dtype {dt}: verdict")
            sub = {**case, "observable": nm, "batch_dtype": dt}
            ctx.oracle(f"apply on the batch given as {dt} leaves it unchanged (bytes)", bool(unchanged), sub, sig=f"{kind}/{fam}/no-mutation/dtype",
                       theorem=THEOREMS["after"])
            ok = not isinstance(vals, dict) and shape_ok and len(vals) == len(ref) and \
                bool(np.allclose(vals, ref, rtol=0, atol=tol * max(1.0, float(np.max(np.abs(ref))) if len(ref) else 1.0)))
            ctx.oracle(f"{nm}.apply(batch of element type {dt}) == one real number per sample, the value of the same 0/1 batch given as float64", ok, sub,
                       detail={"as_" + dt: vals if isinstance(vals, dict) else vals[:8], "as_float64": ref[:8], "atol": tol},
                       sig=f"{kind}/{fam}/batch-dtype", theorem=THEOREMS["shape"] if fam in ("sigmaX", "sigmaY") else THEOREMS.get(fam, THEOREMS["open"]))
            dt_impl[(dt, key)] = (vals, tol, nm)

    # ---------------- model
    if ctx.driver is not None:
        req = state_req(kind, n, h, a, am, ph)
        model = ctx.driver.call("c08.eval", samples=samples, cs=cs, pairs=pairs, flags=flags_req, **req)   # flags: the OBJECTS passed (sigma*RunF, neighbourApplyF)
        for nm in ("sigmaX", "sigmaY", "sigmaZ"):
            for ab, suffix in ((False, ""), (True, "_abs")):
                cmp_vals(ctx, f"{nm}.apply(absolute={ab} given as {fdesc[(nm, ab)]['form']})", "property", impl[(nm, ab)][0], model[nm]["vals" + suffix],
                         {**case, "observable": nm, "absolute": ab, "flag_given_as": fdesc[(nm, ab)]}, THEOREMS[nm] + "; C08_flag_absolute", f"{kind}/{nm}/apply")
                if nm != "sigmaZ":
                    ctx.point(f"{nm}: samples after apply", "property", impl[(nm, ab)][3], model[nm]["after" + suffix],
                              {**case, "observable": nm, "absolute": ab}, exact=True, theorem=THEOREMS["after"],
                              sig=f"{kind}/{nm}/after")
        for ci, c in enumerate(cs):
            for per, mk in ((False, "open"), (True, "periodic")):
                # c = 0 and c > n are outside the property's quantifier (c = 1..n): no verdict of any level there (a rewrite that returns
                # another value, or raises, for a distance no chain of this length has is as good); whether the outcome is the modelled one
                # is counted
                if not 1 <= c <= n:
                    iv, mv = impl[("nb", per, c)][0], model[mk][ci]
                    same = (isinstance(iv, dict) and isinstance(mv, dict)) or (not isinstance(iv, dict) and not isinstance(mv, dict)
                                                                                and np.allclose(iv, unbits(mv) if len(mv) else np.zeros(0), rtol=1e-9, atol=1e-12))
                    ctx.count("neighbour c outside 1..n (informational): " + ("as modelled" if same else "differs from the model"))
                    continue
                lvl = "property"
                cmp_vals(ctx, f"NeighbourInteraction(periodic={per} given as {fdesc[('nb', per)]['form']},c={c}).apply", lvl, impl[("nb", per, c)][0], model[mk][ci],
                         {**case, "observable": "neighbour", "periodic": per, "c": c, "c_given_as": cform[(per, c)], "flag_given_as": fdesc[("nb", per)]},
                         THEOREMS[mk] + "; C08_flag_periodic", f"{kind}/neighbour/{mk}")
        for (dt, key), (vals, tol, nm) in dt_impl.items():
            mv = model[key[0]]["vals"] if key[0] != "nb" else model["periodic" if key[1] else "open"][cs.index(key[2])]
            if isinstance(vals, dict) or isinstance(mv, dict):
                continue   # (the oracle above has the verdict)
            m = unbits(mv) if len(mv) else np.zeros(0)
            ctx.point(f"{nm}.apply(batch of element type {dt})", "property", vals, m, {**case, "observable": nm, "batch_dtype": dt},
                      scale=max(1.0, float(np.max(np.abs(m))) if len(m) else 1.0), rtol=0, atol=tol,
                      theorem=THEOREMS[key[0]] if key[0] != "nb" else THEOREMS["periodic" if key[1] else "open"], sig=f"{kind}/{key[0]}/batch-dtype")
        if imp_err is None:
            sc = float(np.max(np.abs(i_numer))) + 1e-300
            mn = np.array([[unbits(z)[0], unbits(z)[1]] for z in model["numer"]]).T
            md = np.array([[unbits(z)[0], unbits(z)[1]] for z in model["denom"]]).T
            mw = np.array([[unbits(z)[0], unbits(z)[1]] for z in model["weight"]]).T
            ctx.point("importance_sampling_numerator", "aux", i_numer, mn, {**case, "pairs": pairs}, scale=sc, sig=f"{kind}/numer")
            ctx.point("importance_sampling_denominator", "aux", i_denom, md, {**case, "pairs": pairs}, scale=sc, sig=f"{kind}/denom")
            ctx.point("importance_sampling_weight", "aux", i_weight, mw, {**case, "pairs": pairs},
                      scale=float(np.max(np.abs(i_weight))) + 1.0, sig=f"{kind}/weight", theorem=THEOREMS["weight"])
        else:
            ctx.point("importance_sampling_*", "aux", {"error": imp_err}, "values", {**case, "pairs": pairs}, exact=True, sig=f"{kind}/numer")

    # ---------------- property oracle on the implementation (full basis only): Σ p·apply = tr(ρ̂ O)
    if full:
        space_t = fresh()
        Zt = st.normalization(space_t)
        Z = float(Zt)
        pt, zform = given_Z(A, st, space_t, Zt)
        p = pt.detach().numpy()
        R = rho_hat(st, kind, n, A)
        given_as = A.used()
        A.count_into(ctx)
        if R is None:
            ctx.oracle("rho(space, space, expand=<true object>) is the full matrix", False, case, detail={"given_as": given_as}, sig=f"{kind}/rho-expand-form",
                       theorem=THEOREMS["sigmaX"])
            return
        ctx.oracle("probability/Z is the diagonal of the normalised state", bool(p.shape == (len(samples),) and np.allclose(p, np.real(np.diag(R)), rtol=1e-8, atol=1e-12)),
                   case, detail={"Z_given_as": zform}, sig=f"{kind}/born")
        if p.shape != (len(samples),):
            return

        def check(name, vals, O, sig, theorem):
            if isinstance(vals, dict):
                ctx.oracle(f"{name}: apply must not raise", False, {**case, "observable": name}, detail=vals, sig=sig, theorem=theorem)
                return
            est = float(np.dot(p, np.asarray(vals)))
            ex = np.trace(R @ O)
            tol = 1e-8 * (1.0 + float(np.max(np.abs(np.asarray(vals)) * p)) * len(vals))
            ok = abs(est - ex.real) <= tol and abs(ex.imag) <= 1e-8
            ctx.oracle(f"sum_sigma p(sigma) {name}.apply(sigma) == tr(rho_hat O)", bool(ok), {**case, "observable": name},
                       detail={"estimator_average": est, "trace_re": float(ex.real), "trace_im": float(ex.imag)}, sig=sig, theorem=theorem)

        check("SigmaX", impl[("sigmaX", False)][0], op_magnet(PX, n), f"{kind}/sigmaX/unbiased", THEOREMS["sigmaX"])
        check("SigmaY", impl[("sigmaY", False)][0], op_magnet(PY, n), f"{kind}/sigmaY/unbiased", THEOREMS["sigmaY"])
        check("SigmaZ", impl[("sigmaZ", False)][0], op_magnet(PZ, n), f"{kind}/sigmaZ/unbiased", THEOREMS["sigmaZ"])
        for c in cs:
            if not 1 <= c <= n:
                continue
            for per, mk in ((False, "open"), (True, "periodic")):
                check(f"NeighbourInteraction(periodic={per},c={c})", impl[("nb", per, c)][0], op_neighbour(n, c, per),
                      f"{kind}/neighbour/{mk}/unbiased", THEOREMS[mk])

        # ---------------- composition with the sampler (extension round X3): a chain started from the exact distribution p and advanced by k
        # passes of the block-Gibbs kernel P assembled from the implementation's PUBLIC conditionals (exactly as harness/c05.py does) has
        # expected estimator value  sum_v0 p(v0) sum_v P^k(v0, v) apply(v) == tr(rho_hat O)  for every k (exact, no sampling).
        if n <= 3 and 2 ** (h + a) <= 128:
            from . import c05 as _c05

            try:
                P1, kerr = np.asarray(_c05.public_kernel(st, kind, n, h, a), dtype=np.float64), None
            except Exception as e:  # noqa: BLE001
                P1, kerr = None, type(e).__name__
            obs_list = [("SigmaX", ("sigmaX", False), op_magnet(PX, n)), ("SigmaY", ("sigmaY", False), op_magnet(PY, n)),
                        ("SigmaZ", ("sigmaZ", False), op_magnet(PZ, n))]
            for c in cs:
                if 1 <= c <= n:
                    for per in (False, True):
                        obs_list.append((f"NeighbourInteraction(periodic={per},c={c})", ("nb", per, c), op_neighbour(n, c, per)))
            for k in (1, 3):
                sub = {**case, "gibbs_passes": k}
                if P1 is None or P1.shape != (len(samples), len(samples)) or not np.all(np.isfinite(P1)):
                    # audit 3, B-9: the conditionals are C05's subject; when the kernel cannot be assembled from them the composed statement is
                    # not evaluated (counter), C05 reports the cause
                    ctx.count("stationary_chain_oracle skipped: the one-pass kernel could not be assembled from the public conditionals" + (f" ({kerr})" if kerr else ""))
                    break
                pk = p @ np.linalg.matrix_power(P1, k)
                worst, wname = 0.0, None
                for name, key, O in obs_list:
                    vals = impl[key][0]
                    if isinstance(vals, dict):
                        continue
                    vals = np.asarray(vals, dtype=np.float64)
                    dev = abs(float(pk @ vals) - float(np.trace(R @ O).real)) / (1.0 + float(np.max(np.abs(vals))))
                    if dev > worst:
                        worst, wname = dev, name
                ctx.count("stationary_chain_oracle")
                composed_ok = bool(worst <= 1e-8 and abs(float(np.sum(pk)) - 1.0) <= 1e-8)
                name_k = (f"stationary start, {k} Gibbs pass(es) of the public conditionals: sum_v0 p(v0) sum_v P^{k}(v0,v) apply(v) == tr(rho_hat O), "
                          "all built-in observables")
                # audit 3, B-9: C08 is about the estimators on the model's EXACT distribution (judged by the oracles above, "no sampling" in the
                # quantifier). Whether p P^k = p is C05's statement about prob_*_given_* (rbm/*.py, not among C08's files): when it fails the
                # composed statement is only RECORDED here (C05 raises the alarm); when it holds the composed statement follows from the direct
                # oracles and is kept as the auxiliary tie of C08_unbiased_stationary to the code
                if float(np.max(np.abs(pk - p))) > 1e-8:
                    ctx.info(f"{kind}/stationary-chain: the kernel of the public conditionals leaves probability/Z invariant (C05's subject), k={k}", False, True)
                    ctx.info(f"{kind}/stationary-chain: composed statement, k={k}", composed_ok, True)
                else:
                    ctx.point(name_k, "aux", composed_ok, True, sub, exact=True, sig=f"{kind}/stationary-chain/unbiased", theorem=THEOREMS["stationary"])

        # ---------------- sign anchor (audit C08-1): the three estimators against the library's OWN basis rotations.
        # p_P = Born distribution of the outcomes when every site is measured in the P basis of the default dictionary (property C04:
        # rows of U_P are the +1, -1 eigen-bras in that order); to_pm1 reads outcome 0 as -1, hence
        #     sum_sigma p_P(sigma) SigmaZ.apply(sigma) == ROTATED_SIGN * sum_sigma p(sigma) SigmaP.apply(sigma),  ROTATED_SIGN = -1.
        # Independent of the Pauli matrices PX/PY/PZ of this file and of the model: relates SigmaX/SigmaY/SigmaZ to unitaries.py only.
        from qucumber.utils import unitaries as qu

        zvals = impl[("sigmaZ", False)][0]
        for P, nm in (("X", "sigmaX"), ("Y", "sigmaY")):
            pvals = impl[(nm, False)][0]
            if isinstance(zvals, dict) or isinstance(pvals, dict):
                continue
            basis = P * n
            sub = {**case, "observable": nm, "basis": basis}
            dists, raised = {}, None
            try:
                if kind == "dens":
                    dists["rotate_rho_probs"] = with_extras(A, qu.rotate_rho_probs, st, basis, fresh()).detach().numpy() / Z
                    r = qu.rotate_rho(st, basis, fresh()).detach().numpy()
                    dists["rotate_rho"] = np.real(np.diag(r[0] + 1j * r[1])) / Z
                else:
                    a = qu.rotate_psi(st, basis, fresh()).detach().numpy()
                    dists["rotate_psi"] = (a[0] ** 2 + a[1] ** 2) / Z
                    a = with_extras(A, qu.rotate_psi_inner_prod, st, basis, fresh()).detach().numpy()
                    dists["rotate_psi_inner_prod"] = (a[0] ** 2 + a[1] ** 2) / Z
            except Exception as e:  # noqa: BLE001
                raised = type(e).__name__ + (": " + str(e) if isinstance(e, FormError) else "")
            A.count_into(ctx)
            if raised is not None:
                ctx.oracle(f"rotated-basis Born distribution in basis {P}^n must not raise", False, sub, detail={"error": raised},
                           sig=f"{kind}/{nm}/rotated-basis-sign", theorem=THEOREMS["rotated"])
                continue
            rhs = float(np.dot(p, np.asarray(pvals)))
            if abs(rhs) > 1e-6:
                ctx.count(f"rotated_sign_nonzero_expectation:{P}")
            for src, pP in dists.items():
                lhs = float(np.dot(pP, np.asarray(zvals)))
                tol = 1e-8 * (1.0 + float(np.max(np.abs(np.asarray(pvals)) * p)) * len(pvals))
                ok = abs(lhs - ROTATED_SIGN * rhs) <= tol and abs(float(np.sum(pP)) - 1.0) <= 1e-8 and bool(np.all(pP >= -1e-12))
                ctx.oracle(f"rotated-basis SigmaZ == -Sigma{P}: sum_sigma p_{P}(sigma) SigmaZ.apply(sigma) == s * sum_sigma p(sigma) Sigma{P}.apply(sigma), "
                           f"s = {ROTATED_SIGN:+.0f} (p_{P} from {src})", bool(ok), {**sub, "source": src},
                           detail={"rotated_basis_Z_average": lhs, "computational_basis_P_average": rhs, "sign": ROTATED_SIGN,
                                   "sum_p_rotated": float(np.sum(pP))},
                           sig=f"{kind}/{nm}/rotated-basis-sign", theorem=THEOREMS["rotated"])


def gen_cases(ctx, thorough):
    rng = ctx.rng
    archs = [(n, h) for n in range(1, 6) for h in (1, 2, 3, 4)]
    if not thorough:
        rng.shuffle(archs)
        archs = sorted(set(archs[:2] + [(1, 2), (2, 3), (3, 2), (4, 2), (5, 3)]))
    scales = [0.3, 1.0, 2.0, 3.0]
    for (n, h) in archs:
        for kind in ("pos", "cplx", "dens"):
            for scale in (scales if thorough else [rng.choice(scales)]):
                a = rng.choice([1, 2, 3]) if kind == "dens" else 0
                if kind == "dens":
                    am = qc.rand_prbm_params(rng, n, h, a, scale)
                    ph = qc.rand_prbm_params(rng, n, h, a, scale)
                else:
                    am = qc.rand_rbm_params(rng, n, h, scale)
                    ph = qc.rand_rbm_params(rng, n, h, scale) if kind == "cplx" else None
                yield kind, n, h, a, scale, am, ph, qc.all_states(n), True, rng.choice(LAYOUTS), rng.randrange(2 ** 31), qc.flag_form(rng, plain=0.4), af.draw_aseed(rng)
                B = rng.randrange(1, 8)
                base = [[rng.randrange(2) for _ in range(n)] for _ in range(max(1, B - 2))]
                batch = [list(rng.choice(base)) for _ in range(B)]  # rows repeat
                yield kind, n, h, a, scale, am, ph, batch, False, rng.choice(LAYOUTS), rng.randrange(2 ** 31), qc.flag_form(rng, plain=0.4), af.draw_aseed(rng)


# ---------------------------------------------------------------- call history on the same objects
def gen_params(rng, kind, n, h, a, scale):
    if kind == "dens":
        return qc.rand_prbm_params(rng, n, h, a, scale), qc.rand_prbm_params(rng, n, h, a, scale)
    return qc.rand_rbm_params(rng, n, h, scale), (qc.rand_rbm_params(rng, n, h, scale) if kind == "cplx" else None)


def gen_history(rng):
    """a sequence of evaluations made with the SAME observable objects: same state and sample tensor objects with the tensor overwritten
    in place, then the state re-parametrised in place, then a batch of another length, then chains of other lengths (longer, shorter;
    possibly another state class), then the first configuration again"""
    kind = rng.choice(["pos", "cplx", "dens"])
    n1 = rng.randrange(1, 4)
    n2 = rng.randrange(n1 + 1, 6)
    n3 = rng.randrange(1, n2)
    h, a = rng.randrange(1, 4), (rng.choice([1, 2]) if kind == "dens" else 0)
    B = rng.randrange(2, 6)
    B2 = rng.choice([b for b in range(1, 8) if b != B])
    mk = lambda n, k: [[rng.randrange(2) for _ in range(n)] for _ in range(k)]  # noqa: E731
    sc = lambda: rng.choice([0.3, 1.0, 2.0])  # noqa: E731
    P1, P2 = gen_params(rng, kind, n1, h, a, sc()), gen_params(rng, kind, n1, h, a, sc())
    S1, S2 = mk(n1, B), mk(n1, B)
    st = lambda k, n, P, S: {"kind": k, "n": n, "h": h, "a": (a or 1) if k == "dens" else 0, "am": P[0], "ph": P[1], "samples": S}  # noqa: E731
    k2 = rng.choice([kind, kind, rng.choice(["pos", "cplx", "dens"])])
    a2 = (a or 1) if k2 == "dens" else 0
    steps = [st(kind, n1, P1, S1), st(kind, n1, P1, S2), st(kind, n1, P2, S2), st(kind, n1, P2, mk(n1, B2)),
             st(k2, n2, gen_params(rng, k2, n2, h, a2, sc()), mk(n2, B)), st(k2, n3, gen_params(rng, k2, n3, h, a2, sc()), mk(n3, B)),
             st(kind, n1, P1, S1)]
    return {"hist": True, "steps": steps, "fseed": rng.randrange(2 ** 31), "gpuf": qc.flag_form(rng, plain=0.4), "aseed": af.draw_aseed(rng)}


def history_case(ctx, case):
    """every built-in observable object is created ONCE and applied at every step; a state object / sample tensor object of a
    matching shape is reused (parameters written with .data.copy_, samples with .copy_).  Each value is compared with the model of
    the step's CURRENT parameters and samples (and with freshly built objects)."""
    from qucumber.observables import NeighbourInteraction, SigmaX, SigmaY, SigmaZ

    steps = case["steps"]
    cmax = max(s["n"] for s in steps) + 1
    fl = qc.Flags(case.get("fseed"))   # the objects handed as `absolute` / `periodic_bcs` (constructor arguments and reassigned attributes)
    gpuf = case.get("gpuf")
    A = af.Args(case.get("aseed"))    # constructor sizes and every distance `c` (constructor argument and reassigned attribute)
    ctx.current_case = case
    objs, fdesc = {}, {}
    for nm, cls in (("sigmaX", SigmaX), ("sigmaY", SigmaY), ("sigmaZ", SigmaZ)):
        for ab in (False, True):
            obs, fdesc[(nm, ab)] = make_pauli(cls, fl, ab)
            objs[(nm, ab)] = (obs, lambda cls=cls, ab=ab: cls(absolute=ab))
    for per in (False, True):
        fdesc[("nb", per)] = fl(per)[1]
    for c in range(1, cmax + 1):
        for per in (False, True):
            obs, _ = make_neighbour(NeighbourInteraction, fl, per, c, form=fdesc[("nb", per)]["form"], A=A)
            objs[("nb", per, c)] = (obs, lambda per=per, c=c: NeighbourInteraction(periodic_bcs=per, c=c))
    flags_req = {nm: [_fd(fdesc[(nm, False)]), _fd(fdesc[(nm, True)])] for nm in ("sigmaX", "sigmaY", "sigmaZ")}
    flags_req["periodic"] = [_fd(fdesc[("nb", False)]), _fd(fdesc[("nb", True)])]
    states, tensors, mut = {}, {}, {}
    ctx.case({"hist": steps}, nontrivial=True, sample={"history": [(s["kind"], s["n"], len(s["samples"])) for s in steps]})
    ctx.count("history_case")
    for i, s in enumerate(steps):
        kind, n, h, a, am, ph, samples = s["kind"], s["n"], s["h"], s["a"], s["am"], s["ph"], s["samples"]
        B = len(samples)
        key = (kind, n, h, a)
        if key in states:
            st = states[key]
            if kind == "dens":
                qc.set_prbm(st.rbm_am, am, inplace=True); qc.set_prbm(st.rbm_ph, ph, inplace=True)
            else:
                qc.set_rbm(st.rbm_am, am, inplace=True)
                if kind == "cplx":
                    qc.set_rbm(st.rbm_ph, ph, inplace=True)
            ctx.count("history:state_reused_in_place")
        else:
            st = build_state(kind, n, h, a, am, ph, gpuf, A=A)
            if not af.check_sizes(ctx, st, want_sizes(kind, n, h, a), {**case, "step": i}, A, f"{kind}/ctor-sizes", CTOR_THEOREM):
                return
            states[key] = st
        if (B, n) in tensors:
            t = tensors[(B, n)]
            t.copy_(torch.tensor(samples, dtype=torch.double).reshape(B, n))
            ctx.count("history:tensor_reused_in_place")
        else:
            t = tensors[(B, n)] = torch.tensor(samples, dtype=torch.double).reshape(B, n)
        sub = {**case, "step": i}
        cs = list(range(1, cmax + 1))
        model = None
        if ctx.driver is not None:
            model = ctx.driver.call("c08.eval", samples=samples, cs=cs, pairs=[], flags=flags_req, **state_req(kind, n, h, a, am, ph))
        fresh_st = build_state(kind, n, h, a, am, ph)
        # observables whose PUBLIC attributes (c, periodic_bcs, absolute) are reassigned between applications: the value must
        # follow the current attributes (no state derived from earlier ones may survive)
        if "mut" not in objs:
            objs["mut"] = None
            mut["nb"] = NeighbourInteraction(periodic_bcs=True, c=1)
            mut["sx"] = SigmaX(absolute=False)
        c_now = 1 + (i * 2 + 1) % cmax
        per_now = (i % 3 != 1)
        mut["nb"].c = A.i(c_now, C_FORMS)             # reassigned as whatever integer object the argument-form stream yields
        mut["nb"].periodic_bcs = fl(per_now)[0]       # reassigned as whatever object the flag stream yields
        mut["sx"].absolute = fl(i % 2 == 1)[0]
        if model is not None and c_now > n:
            impl_apply(mut["nb"], st, t)   # a distance no chain of this step's length has: applied, no verdict (outside c = 1..n)
            ctx.count("history: neighbour c outside 1..n (informational)")
        if model is not None and c_now <= n:
            vals_m = impl_apply(mut["nb"], st, t)[0]
            mk_ = "periodic" if per_now else "open"
            cmp_vals(ctx, f"history: NeighbourInteraction with attributes reassigned to (periodic={per_now}, c={c_now})", "property", vals_m,
                     model[mk_][cs.index(c_now)], {**sub, "observable": "neighbour(mutable)", "c": c_now, "periodic": per_now,
                                                   "periodic_bcs_object": repr(mut["nb"].periodic_bcs), "c_object": f"{type(mut['nb'].c).__name__}:{mut['nb'].c!r}"}, THEOREMS[mk_] + "; C08_flag_periodic, C08_flag_any_form",
                     f"{kind}/neighbour/{mk_}/attributes-reassigned")
        if model is not None:
            vals_x = impl_apply(mut["sx"], st, t)[0]
            cmp_vals(ctx, f"history: SigmaX with absolute reassigned to {i % 2 == 1}", "property", vals_x,
                     model["sigmaX"]["vals" + ("_abs" if i % 2 == 1 else "")], {**sub, "observable": "sigmaX(mutable)", "absolute_object": repr(mut["sx"].absolute)},
                     THEOREMS["sigmaX"] + "; C08_flag_absolute, C08_flag_any_form",
                     f"{kind}/sigmaX/attributes-reassigned")
        for key2, pair_ in objs.items():
            if key2 == "mut":
                continue
            obj, mkfresh = pair_
            vals, shape_ok, unchanged = impl_apply(obj, st, t)
            if key2[0] == "nb" and not 1 <= key2[2] <= n:
                ctx.count("history: neighbour c outside 1..n (informational)")   # applied (the object lives on to the next step), no verdict
                continue
            nm = key2[0] if key2[0] != "nb" else f"neighbour(periodic={key2[1]},c={key2[2]})"
            sub2 = {**sub, "observable": nm, "absolute": key2[1] if key2[0] != "nb" else None}
            ctx.oracle("history: apply leaves the sample tensor unchanged (bytes)", bool(unchanged), sub2, sig=f"{kind}/{key2[0]}/no-mutation",
                       theorem=THEOREMS["after"])
            if model is not None:
                if key2[0] == "nb":
                    mk_, lvl = ("periodic" if key2[1] else "open"), "property"
                    cmp_vals(ctx, f"history: {nm}.apply", lvl, vals, model[mk_][cs.index(key2[2])], sub2, THEOREMS[mk_],
                             f"{kind}/neighbour/{mk_}/history")
                else:
                    cmp_vals(ctx, f"history: {nm}.apply(absolute={key2[1]})", "property", vals,
                             model[key2[0]]["vals" + ("_abs" if key2[1] else "")], sub2, THEOREMS[key2[0]], f"{kind}/{key2[0]}/history")
            # secondary (metamorphic, used by the model-free search): a fresh observable on fresh copies of the current state and samples
            fv = impl_apply(mkfresh(), fresh_st, torch.tensor(samples, dtype=torch.double).reshape(B, n))[0]
            ctx.oracle("history: the same observable object evaluated again == a fresh one on fresh copies of state and samples",
                       same_values(vals, fv), sub2, detail={"reused": vals, "fresh": fv}, sig=f"{kind}/{key2[0]}/history-oracle")
        A.count_into(ctx)


def gen_tie(ctx):
    """translator tie (notes/translator.md): `to_pm1` / `to_01` are re-translated from the source of the checked tree into Lean and compared
    with the committed lean/QV/Gen/SpinConv.lean, which `C08_gen_to_pm1_eq_model` proves equal to the model's `toPm1`"""
    from . import gentie
    return gentie.tie(ctx, "SpinConv", "C08_gen_to_pm1_eq_model")


def run(ctx):
    ctx.rule = RULE
    gen_tie(ctx)
    for args in gen_cases(ctx, ctx.tier == "thorough"):
        one_case(ctx, *args)
    for _ in range(24 if ctx.tier == "thorough" else 4):
        history_case(ctx, gen_history(ctx.rng))


def search(ctx):
    """larger oracle-only sweep used when a proof obligation / auxiliary correspondence is broken"""
    drv, ctx.driver = ctx.driver, None
    try:
        for args in gen_cases(ctx, True):
            one_case(ctx, *args)
        for _ in range(24):
            history_case(ctx, gen_history(ctx.rng))
    finally:
        ctx.driver = drv


def replay(ctx, case):
    if case.get("hist"):
        history_case(ctx, {"hist": True, "steps": case["steps"], "fseed": case.get("fseed"), "gpuf": case.get("gpuf"),
                           **({"aseed": case["aseed"]} if case.get("aseed") is not None else {})})
        return
    one_case(ctx, case["kind"], case["n"], case["h"], case["a"], case["scale"], case["am"], case["ph"], case["samples"], case["full"],
             case.get("layout", "contig"), case.get("fseed"), case.get("gpuf"), case.get("aseed"))
