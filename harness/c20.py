"""C20 — construction / reset contracts: correspondence of the heap model (QV.Model.Store constructors,
reinit, fit guard; QV.Model.PhaseAux gradient rows and optimizer rules; theorems QV.Props.C20_*) with the three state
constructors (sizes / module=), reinitialize_parameters, fit, pi_grad / gamma_grad and torch.optim.SGD / Adam,
plus the property oracles evaluated directly on the implementation."""
import numpy as np

from . import argforms as af
from . import storeops as so
from .common import bits, f2b, unbits  # noqa: F401
from .qc import DensityMatrix, torch

FILES = [
    "qucumber/nn_states/positive_wavefunction.py",
    "qucumber/nn_states/complex_wavefunction.py",
    "qucumber/nn_states/density_matrix.py",
    "qucumber/nn_states/neural_state.py",
    "qucumber/rbm/binary_rbm.py",
    "qucumber/rbm/purification_rbm.py",
    "qucumber/utils/gradients_utils.py",
]
REQUIRED_THEOREMS = ["C20_module", "C20_module_args_ignored", "C20_module_sizes_from_module", "C20_no_alias", "C20_sizes", "C20_reinit", "C20_module_ctor", "C20_init_module", "C20_fit_guard",
                     "C20_phase_aux_bias_zero", "C20_phase_aux_grad_zero", "C20_phase_aux_bias_zero_any_rule", "C20_phase_aux_bias_zero_torch_rules",
                     "C20_phase_aux_bias_unused",
                     "C20_init_values", "C20_init_draw_count", "C20_init_zero_weights", "C20_default_sizes"]
EXTRA_TRUSTED = [
    "torch.optim.SGD / Adam / AdamW / Adadelta / Adagrad / RMSprop / Adamax / NAdam follow the scalar update rules of QV.Model.PhaseAux / QV.Model.Optim "
    "(checked numerically on random gradient sequences with a changing learning rate, rtol 1e-6; NAdam 1e-4 because torch keeps mu_product in float32); "
    "RAdam, Rprop, ASGD and the foreach variants are exercised by real fits only (no Lean rule)",
    "storage identity observed through data_ptr() with every observed tensor kept alive; contents through byte hashes",
]
RULE = ("case = random history (<= 12 ops quick / <= 30 thorough) of: construct from sizes (num_hidden/num_aux None, 0 or explicit), "
        "create RBM module (zero_weights True / False / not passed; num_hidden/num_aux None, 0 or explicit), module.initialize_parameters("
        "zero_weights True / False / not passed), write into module (non-zero biases), construct from module (3 state types; with nothing but the required "
        "num_visible, with the module's own sizes, or with inconsistent / None / 0 values of num_visible / num_hidden / num_aux chosen independently, by "
        "keyword or positionally: the state must take its sizes from the module), sizes-branch constructors also called positionally, external "
        "in-place write into ONE network, fit with bases (29 optimizer settings over SGD, Adam, AdamW, Adadelta, Adagrad, RMSprop, Adamax, NAdam, RAdam, "
        "Rprop, ASGD, Adafactor incl. amsgrad / maximize / decoupled decay / foreach / fused, with or without a StepLR / ExponentialLR scheduler; a callback inspects the "
        "phase aux bias after EVERY batch; one fixed history trains a mixed state once with every setting), fit without bases (must be refused — any "
        "exception — with parameters, storages, callback events, torch RNG state, stop flag, data and bases all unchanged), "
        "reinitialize_parameters (often followed by a fit), save/load/autoload; the 'random' weights the model is given are recomputed "
        "independently (N(0,1)/sqrt(n) from torch's generator state before the op) but only compared as an AUXILIARY point (how the random stream is consumed "
        "is not part of the property); the property-level weight oracles are effect oracles (fresh storage, not all-zero unless zero_weights was passed "
        "to THIS call, different from the previous values and from the other network's); identities (data_ptr classes), shapes, tokens, refusal (not the exception type) compared exactly with the model "
        "after every op; plus gradient-row and optimizer-rule cases; plus INITIALISATION-LAW cases (BinaryRBM / PurificationRBM constructor with sizes omitted, positional or by "
        "keyword incl. None / 0, zero_weights omitted / False / True; module.initialize_parameters after a constructor with the opposite zero_weights; the three state "
        "constructors from sizes) run with torch.randn wrapped in-process: the recorded draws are fed to QV.InitLaw.initParams / construct, sizes and biases compared "
        "at property level, the weight values (draw / sqrt(num_visible), row-major, W before U) and the number of draws bit for bit at auxiliary level. ARGUMENT FORMS (seed `af` of every op with options, `aseed` of a gradient case): "
        "num_visible / num_hidden / num_aux (incl. 0), epochs / pos_batch_size / k of fit, eta of gamma_grad as Python int / numpy.int64 / int32 / intp / "
        "uint8 / 0-d numpy array / 0-d torch tensor; gpu, zero_weights (constructor and initialize_parameters), phase, expand as bool / int / numpy.bool_ / "
        "numpy comparison result / 0-d numpy array / 0-d torch tensor; by keyword or positionally. non-trivial iff the history contains a module-built or reinitialised "
        "two-network state that is subsequently written or trained; distinct by hash of the plan")


def module_args(rng, kind, sizes):
    """the sizes a caller passes ALONGSIDE `module=` ("num_hidden/num_aux defaulted or explicit" x "module given"): the documented contract
    is that the state takes its sizes from the module, so every combination must give the same state -
    nothing but the required num_visible; the module's own sizes (consistent); other numbers (inconsistent, larger / smaller / 0);
    an explicit None; each size chosen independently; keywords or positional."""
    nv, nh, na = sizes

    def pick(own):
        return rng.choice([own, own, None, 0, own + 1, own + 2, max(own - 1, 0), 1, 7])

    r = rng.random()
    if r < 0.2:
        f = {}                                   # Kind(7, module=m): the form the older plans used
    elif r < 0.4:
        f = {"nv": nv, "nh": nh}                 # consistent with the module
        if kind == "dens":
            f["na"] = na
    else:
        f = {"nv": rng.choice([nv, nv + 1, max(nv - 1, 1), 7, 0])}
        if rng.random() < 0.8:
            f["nh"] = pick(nh)
        if kind == "dens" and rng.random() < 0.8:
            f["na"] = pick(na)
    if rng.random() < 0.3:
        f["form"] = "pos"
    return f


def gen_plan(rng, maxlen):
    plan = []
    states, modules, msizes = {}, {}, {}

    def arch(kind):
        nv = rng.choice([1, 2, 2, 3])
        nh = rng.choice([None, 0, nv + 1, nv + 2, 1])
        na = rng.choice([None, 0, nv + 1, 1]) if kind == "dens" else None
        return nv, nh, na

    n = rng.randint(max(4, maxlen // 2), maxlen)
    while len(plan) < n:
        r = rng.random()
        if not states or r < 0.14:
            kind = rng.choice(["pos", "cplx", "dens", "dens"])
            nv, nh, na = arch(kind)
            slot = rng.randrange(3)
            states[slot] = kind
            plan.append({"t": "construct", "slot": slot, "kind": kind, "nv": nv, "nh": nh, "na": na,
                         "ud": rng.choice([None, None, ["H"]]) if kind != "pos" else None})
            if rng.random() < 0.25:
                plan[-1]["form"] = "pos"   # all arguments passed positionally
            continue
        slot = rng.choice(sorted(states))
        kind = states[slot]
        if r < 0.24 and (not modules or rng.random() < 0.5):
            k = rng.choice(["binary", "purif", "purif"])
            nv, nh, na = arch("dens" if k == "purif" else "pos")
            ms = rng.randrange(3)
            modules[ms] = k
            msizes[ms] = (nv, (nh if nh is not None else nv) if k == "purif" else (nh if nh else nv), (na if na is not None else nv) if k == "purif" else None)
            mk = {"t": "mkModule", "mslot": ms, "k": k, "nv": nv, "nh": nh, "na": na}
            z = rng.random()
            if z < 0.35:
                mk["zw"] = True   # zero_weights=True: the option must not outlive the constructor call
            elif z < 0.5:
                mk["zw"] = False  # passed explicitly
            plan.append(mk)
            if rng.random() < 0.6:
                plan.append({"t": "writeModule", "mslot": ms})
            if rng.random() < 0.25:
                plan.append({"t": "initModule", "mslot": ms, "zw": rng.choice([None, None, True, False])})
        elif r < 0.42 and modules:
            ms = rng.choice(sorted(modules))
            k = modules[ms]
            kind2 = rng.choice(["pos", "cplx"]) if k == "binary" else "dens"
            s = rng.randrange(3)
            cf = {"t": "constructFrom", "slot": s, "kind": kind2, "mslot": ms, "ud": rng.choice([None, ["S"]]) if kind2 != "pos" else None}
            cf.update(module_args(rng, kind2, msizes[ms]))
            plan.append(cf)
            if not (k == "binary" and kind2 == "dens"):
                states[s] = kind2
        elif r < 0.55:
            nets = so.NETS[kind]
            net = rng.choice(nets)
            if kind == "dens" and net == "rbm_ph" and rng.random() < 0.6:
                net = "rbm_am"
            plan.append({"t": "write", "slot": slot, "net": net})
        elif r < 0.58 and modules:
            plan.append({"t": "writeModule", "mslot": rng.choice(sorted(modules))})
        elif r < 0.62 and modules:
            # module.initialize_parameters([zero_weights=...]) on a module the caller holds (possibly the amplitude network of a state)
            plan.append({"t": "initModule", "mslot": rng.choice(sorted(modules)), "zw": rng.choice([None, None, True, False])})
        elif r < 0.76:
            tr = {"t": "train", "slot": slot, "bases": True, "opt": rng.choice(sorted(so.OPTIMS)), "epochs": rng.choice([1, 2, 3]),
                  "lr": rng.choice([0.05, 0.5])}
            if rng.random() < 0.3:
                tr["sched"] = rng.choice(sorted(so.SCHEDULERS))   # the learning rate changes between epochs
            plan.append(tr)
        elif r < 0.83:
            # the refusal must not depend on the stop flag left behind by an earlier (stopped) run
            plan.append({"t": "train", "slot": slot, "bases": False, "opt": "sgd", "epochs": 1, "stopped": rng.random() < 0.5})
        elif r < 0.93:
            plan.append({"t": "reinit", "slot": slot})
            if rng.random() < 0.4:  # ... and train the re-initialised state (parameter order / identity after a reset)
                plan.append({"t": "train", "slot": slot, "bases": True, "opt": rng.choice(sorted(so.OPTIMS)), "epochs": 1, "lr": 0.5})
        elif r < 0.96:
            plan.append({"t": "save", "slot": slot, "md": None, "path": rng.randrange(2)})
        elif r < 0.98:
            plan.append({"t": "load", "slot": slot, "path": rng.randrange(2)})
        else:
            s = rng.randrange(3)
            plan.append({"t": "autoload", "slot": s, "kind": kind, "path": rng.randrange(2)})
    return so.add_forms(plan[: maxlen + 2], rng)


def ptrs(net):
    return [p.data_ptr() for _, p in net.named_parameters() if p.numel() > 0]


def expected_shapes(kind, nv, nh, na):
    if kind == "dens":
        H = nv if nh is None else nh
        A = nv if na is None else na
        return [("weights_W", (H, nv)), ("weights_U", (A, nv)), ("visible_bias", (nv,)), ("hidden_bias", (H,)), ("aux_bias", (A,))]
    H = nh if nh else nv
    return [("weights", (H, nv)), ("visible_bias", (nv,)), ("hidden_bias", (H,))]


def shapes(net):
    return [(k, tuple(p.shape)) for k, p in net.named_parameters()]


def net_sizes(net):
    """[num_visible, num_hidden, num_aux or None] attributes of an RBM object"""
    return [int(net.num_visible), int(net.num_hidden), int(net.num_aux) if hasattr(net, "num_aux") else None]


def net_snap(net):
    return {k: p.detach().clone() for k, p in net.named_parameters()}


ORDER = {"binary": ["weights", "visible_bias", "hidden_bias"],
         "purif": ["weights_W", "weights_U", "visible_bias", "hidden_bias", "aux_bias"]}


def order_ok(net):
    """registration order of the parameters (what parameters() / state_dict() / the gradient vectors rely on)"""
    want = ORDER["purif" if hasattr(net, "weights_U") else "binary"]
    return [k for k, _ in net.named_parameters()] == want and list(net.state_dict().keys()) == want


def weights_are(net, ref):
    """the weight matrices of `net` are bit for bit the reference tensors `ref` (in registration order)"""
    ws = [p for k, p in net.named_parameters() if k.startswith("weights")]
    return len(ws) == len(ref) and all(p.shape == r.shape and torch.equal(p.detach(), r) for p, r in zip(ws, ref))


def weights_random(net):
    """every non-empty weight matrix has a non-zero entry (a continuous draw is never exactly zero)"""
    return all(bool(torch.any(p != 0)) for k, p in net.named_parameters() if k.startswith("weights") and p.numel() > 0)


def weights_changed(net, before):
    """every non-empty weight matrix differs from its previous value (a redraw, not a no-op)"""
    return all(not torch.equal(p.detach(), before[k]) for k, p in net.named_parameters() if k.startswith("weights") and p.numel() > 0)


def biases_zero(net):
    return all(bool(torch.all(p == 0)) for k, p in net.named_parameters() if k.endswith("bias"))


class Hooks:
    def __init__(self, ctx, case):
        self.ctx = ctx
        self.case = case
        self.seen_ptrs = set()
        self.interesting = set()  # slots holding a module-built / reinitialised two-network state
        self.nontrivial = False
        self.batch_aux = []       # (epoch, batch, max |phase aux_bias|) seen by a callback at every on_batch_end of the current fit
        self.cut = False          # set when the implementation's outcome is unconstrained by the property and the model cannot follow it: the history ends

    def theorem(self, op, comp):
        return {"construct": "C20_sizes", "constructFrom": "C20_module, C20_module_sizes_from_module, C20_module_args_ignored", "write": "C20_no_alias", "writeModule": "C20_no_alias",
                "train": "C20_fit_guard, C20_phase_aux_bias_zero, C20_no_alias", "reinit": "C20_reinit",
                "mkModule": "C20_module_ctor", "initModule": "C20_init_module"}.get(op["t"], "model of the operation")

    def cs(self, op):
        return {"plan": self.case["plan"], "tseed": self.case["tseed"], "op": op}

    def stream_point(self, real, nets, cs, what):
        """AUXILIARY correspondence: the weights are bit for bit the next N(0,1)/sqrt(num_visible) draws of torch's global generator, network
        by network, W before U (`storeops.ref_draws`). The property only says the weights are random; an implementation that consumes
        the stream differently breaks this point (-> `no-failing-input-found`), never a property-level oracle."""
        ok = all(weights_are(net, real.last_ref[j]) for j, net in enumerate(nets))
        self.ctx.point(f"{what}: weights == torch generator stream (randn/sqrt(n), W then U, networks in order)", "aux", ok, True, cs, exact=True,
                       sig=f"{what}/generator-stream")

    def before(self, real, op):
        t = op["t"]
        pre = {}
        if t == "train":
            self.batch_aux = []
            real.extra_callbacks = [self.batch_probe]
        if t in ("write", "train", "reinit"):
            st = real.models[op["slot"]]
            pre["nets"] = {n: net_snap(getattr(st, n)) for n in st.networks}
            pre["shapes"] = {n: shapes(getattr(st, n)) for n in st.networks}
            pre["ptrs"] = {n: ptrs(getattr(st, n)) for n in st.networks}
        if t == "constructFrom":
            pre["module"] = net_snap(real.modules[op["mslot"]])
            pre["module_sizes"] = net_sizes(real.modules[op["mslot"]])
        if t == "initModule":
            mod = real.modules[op["mslot"]]
            pre["shapes"] = shapes(mod)
            pre["module_w"] = net_snap(mod)
            pre["others"] = {(s, n): net_snap(getattr(st, n)) for s, st in real.models.items() for n in st.networks
                             if getattr(st, n) is not mod}
        for st in real.models.values():
            for n in st.networks:
                self.seen_ptrs.update(ptrs(getattr(st, n)))
        for m in real.modules.values():
            self.seen_ptrs.update(ptrs(m))
        return pre

    def batch_probe(self, st):
        """a callback that looks at the phase network's auxiliary bias after EVERY batch ("throughout training")"""
        rec = self.batch_aux

        class P(so.CallbackBase):
            def on_batch_end(self, s, ep, b):
                if isinstance(s, DensityMatrix):
                    rec.append((ep, b, float(s.rbm_ph.aux_bias.abs().max()) if s.rbm_ph.aux_bias.numel() else 0.0))
        return P()

    def after(self, real, op, pre, err, w):
        ctx, t = self.ctx, op["t"]
        cs = self.cs(op)
        nets = [getattr(st, n) for st in real.models.values() for n in st.networks] + list(real.modules.values())
        # AUXILIARY (audit2-4 C20-2): registration order and names of the parameters are C03 / C06's invariant (vector_to_grads), not a clause of C20
        ctx.point("every network keeps its parameters registered in the documented order", "aux", all(order_ok(x) for x in nets), True, cs, exact=True,
                  sig=f"{t}/parameter-order")
        # audit 3 (B6, same class in the histories): num_hidden = 0 of a BinaryRBM-based network means num_visible in the present code (an
        # artefact of `if num_hidden`, documented nowhere and not "the requested shape"). An implementation that keeps the requested 0, or
        # refuses it, is as good: recorded, and the history ends here (the model, which codes the 0 -> n rule, cannot follow)
        if op.get("nh") == 0 and ((t == "construct" and op["kind"] in ("pos", "cplx")) or (t == "mkModule" and op["k"] == "binary")):
            objs = []
            if err is None:
                objs = [getattr(real.models[op["slot"]], n) for n in real.models[op["slot"]].networks] if t == "construct" else [real.modules[op["mslot"]]]
            coded = err is None and all(int(x.num_hidden) == int(op["nv"]) for x in objs)
            ctx.info(f"{t}/num_hidden=0 means num_visible (coded rule of BinaryRBM, not documented)", coded, True)
            if not coded:
                self.cut = True
                return
        if t == "construct" and err is None:
            st = real.models[op["slot"]]
            self.interesting.discard(op["slot"])
            exp = expected_shapes(op["kind"], op["nv"], op["nh"], op["na"])
            ok = all(shapes(getattr(st, n)) == exp and biases_zero(getattr(st, n)) for n in st.networks)
            ok = ok and all(bool(torch.any(p != 0)) for n in st.networks for k, p in getattr(st, n).named_parameters()
                            if k.startswith("weights") and p.numel() > 0)
            if len(st.networks) == 2:
                a, b = ptrs(st.rbm_am), ptrs(st.rbm_ph)
                ok = ok and st.rbm_am is not st.rbm_ph and not (set(a) & set(b))
                ok = ok and all(not torch.equal(p, q) for (k, p), (_, q) in zip(st.rbm_am.named_parameters(), st.rbm_ph.named_parameters())
                                if k.startswith("weights") and p.numel() > 0)
            ctx.oracle("sizes branch: requested/defaulted shapes, random weights, zero biases, independent networks", ok, cs,
                       detail={"shapes": {n: shapes(getattr(st, n)) for n in st.networks}, "expected": exp}, sig="construct/sizes", theorem="C20_sizes")
            self.stream_point(real, [getattr(st, n) for n in st.networks], cs, "construct")
        if t == "mkModule" and err is None:
            mod = real.modules[op["mslot"]]
            zw = bool(op.get("zw", False))
            exp = expected_shapes("dens" if op["k"] == "purif" else "pos", op["nv"], op["nh"], op["na"])
            ok = shapes(mod) == exp and biases_zero(mod) and order_ok(mod) and not (set(ptrs(mod)) & self.seen_ptrs)
            ok = ok and (all(bool(torch.all(p == 0)) for k, p in mod.named_parameters()) if zw else weights_random(mod))
            ctx.oracle("RBM constructor: requested/defaulted shapes, zero biases, random weights (all zero iff zero_weights=True)",
                       ok, cs, detail={"shapes": shapes(mod), "expected": exp, "zero_weights": zw}, sig="mkModule/ctor", theorem="C20_module_ctor")
            if not zw:
                self.stream_point(real, [mod], cs, "mkModule")
            ctx.count(f"mkModule_zw={op.get('zw')}")
        if t == "initModule" and err is None:
            mod = real.modules[op["mslot"]]
            zw = op.get("zw")
            ok = shapes(mod) == pre["shapes"] and biases_zero(mod) and order_ok(mod) and not (set(ptrs(mod)) & self.seen_ptrs)
            ok = ok and (all(bool(torch.all(p == 0)) for k, p in mod.named_parameters()) if zw is True
                         else weights_random(mod) and weights_changed(mod, pre["module_w"]))
            ok = ok and all(so.nets_equal(net_snap(getattr(real.models[s], n)), snap) for (s, n), snap in pre["others"].items()
                            if s in real.models and n in real.models[s].networks)
            ctx.oracle("initialize_parameters: unchanged shapes, new storage, zero biases, weights redrawn (all zero only if THIS call "
                       "passes zero_weights=True), other networks untouched", ok, cs, detail={"zero_weights": zw, "shapes": shapes(mod)},
                       sig="initModule/redraw", theorem="C20_init_module")
            ctx.count(f"initModule_zw={zw}")
            if zw is not True:
                self.stream_point(real, [mod], cs, "initModule")
        if t == "constructFrom":
            mod = real.modules[op["mslot"]]
            bad = op["kind"] == "dens" and not hasattr(mod, "num_aux")
            if bad:   # (only reachable from hand-written plans) not constrained by the property: informational
                ctx.count(f"constructFrom:BinaryRBM->DensityMatrix={err}")
            else:
                ok = err is None
                if ok:
                    st = real.models[op["slot"]]
                    ok = st.rbm_am is mod and ptrs(st.rbm_am) == ptrs(mod)
                    ok = ok and st.num_visible == mod.num_visible and st.num_hidden == mod.num_hidden
                    if op["kind"] == "dens":
                        ok = ok and st.num_aux == mod.num_aux
                    # ... whatever sizes were passed alongside the module; the module itself keeps its sizes, shapes and contents
                    ok = ok and net_sizes(mod) == pre["module_sizes"] and so.nets_equal(net_snap(mod), pre["module"])
                    if len(st.networks) == 2:
                        ok = ok and st.rbm_ph is not mod and not (set(ptrs(st.rbm_ph)) & (set(ptrs(mod)) | self.seen_ptrs))
                        ok = ok and so.nets_equal(net_snap(st.rbm_ph), pre["module"]) and shapes(st.rbm_ph) == shapes(mod)
                        ok = ok and type(st.rbm_ph) is type(mod) and net_sizes(st.rbm_ph) == pre["module_sizes"]
                        self.interesting.add(op["slot"])
                given = {k: op[k] for k in ("nv", "nh", "na") if k in op}
                ctx.count("constructFrom:sizes_alongside_module=" + ("none" if not given else "consistent" if all(
                    v == pre["module_sizes"][i] for i, k in enumerate(("nv", "nh", "na")) if k in given for v in [given[k]]) else "inconsistent")
                    + (":positional" if op.get("form") == "pos" else ""))
                ctx.oracle("module branch: amplitude network IS the module (parameters and sizes, whatever sizes are passed alongside it), "
                           "phase network an independent equal copy", ok, cs,
                           detail={"err": err, "sizes_passed": given, "module_sizes": pre["module_sizes"],
                                   "state_sizes": None if err is not None else [getattr(real.models[op["slot"]], k, None) for k in ("num_visible", "num_hidden", "num_aux")]},
                           sig="constructFrom/module", theorem="C20_module, C20_module_sizes_from_module, C20_module_args_ignored")
        if t == "write" and err is None:
            st = real.models[op["slot"]]
            others = [n for n in st.networks if n != op["net"]]
            ok = all(so.nets_equal(net_snap(getattr(st, n)), pre["nets"][n]) for n in others)
            ctx.oracle("a write to one network leaves the other network unchanged", ok, cs, sig="write/aliasing", theorem="C20_no_alias")
            if others and op["slot"] in self.interesting:
                self.nontrivial = True
        if t == "reinit" and err is None:
            st = real.models[op["slot"]]
            ok = True
            for j, n in enumerate(st.networks):
                net = getattr(st, n)
                ok = ok and shapes(net) == pre["shapes"][n] and biases_zero(net) and order_ok(net)
                # redrawn: never zeros, never the previous values (that they are the generator's next N(0,1)/sqrt(n) draws in W, U order is
                # an AUXILIARY comparison, see stream_point: the property does not prescribe how the random stream is consumed)
                ok = ok and weights_random(net)
                ok = ok and not (set(ptrs(net)) & self.seen_ptrs)
                ok = ok and all(not torch.equal(p, pre["nets"][n][k]) for k, p in net.named_parameters() if k.startswith("weights") and p.numel() > 0)
            if len(st.networks) == 2:
                ok = ok and not (set(ptrs(st.rbm_am)) & set(ptrs(st.rbm_ph)))
                ok = ok and all(not torch.equal(p, q) for (k, p), (_, q) in zip(st.rbm_am.named_parameters(), st.rbm_ph.named_parameters())
                                if k.startswith("weights") and p.numel() > 0)    # the two networks are drawn independently
                self.interesting.add(op["slot"])
            self.stream_point(real, [getattr(st, n) for n in st.networks], cs, "reinit")
            ctx.oracle("reinitialise: every network gets fresh parameters (weights redrawn from the generator), unchanged shapes, zero biases", ok, cs,
                       detail={"weights_max_abs": {n: [float(p.abs().max()) if p.numel() else None for k, p in getattr(st, n).named_parameters()
                                                       if k.startswith("weights")] for n in st.networks}},
                       sig="reinit/all-networks", theorem="C20_reinit")
        if t == "train":
            st = real.models[op["slot"]]
            two = len(st.networks) == 2
            if two and not op["bases"]:
                same = all(so.nets_equal(net_snap(getattr(st, n)), pre["nets"][n]) for n in st.networks)
                fp = real.fit_probe
                untouched = {
                    "parameters": same,
                    "parameter storages": all(ptrs(getattr(st, n)) == pre["ptrs"][n] for n in st.networks),
                    "no callback event": not real.events and not self.batch_aux,
                    "random generator state": bool(torch.equal(fp["rng_before"], fp["rng_after"])),
                    "stop_training flag": fp["stop_before"] == fp["stop_after"],
                    "data tensor": bool(torch.equal(fp["data"][0], fp["data"][1])),
                    "bases array": bool(np.array_equal(fp["bases"][0], fp["bases"][1])),
                }
                # "refused": some exception (its type is not part of the property); "before anything changes": everything observable
                ctx.oracle("fit without bases is refused before anything changes (parameters, storages, callbacks, RNG state, stop flag, inputs)",
                           err is not None and all(untouched.values()), cs,
                           detail={"err": err, "events": real.events[:5], "changed": [k for k, v in untouched.items() if not v]},
                           sig="fit/guard", theorem="C20_fit_guard")
                ctx.count("fit_guard")
            else:
                ctx.oracle("fit runs", err is None, cs, detail={"err": err}, sig="fit/runs")
                if isinstance(st, DensityMatrix) and bool(torch.all(pre["nets"]["rbm_ph"]["aux_bias"] == 0)):
                    z = bool(torch.all(st.rbm_ph.aux_bias == 0))
                    bad_batches = [(ep, b, v) for ep, b, v in self.batch_aux if v != 0.0]
                    nb = len([e for e in real.events if e == "batch_end"])
                    ctx.oracle("phase auxiliary bias is exactly zero after EVERY batch of the fit and at its end", z and not bad_batches and len(self.batch_aux) == nb, cs,
                               detail={"aux_bias": st.rbm_ph.aux_bias.tolist(), "opt": op.get("opt"), "sched": op.get("sched"), "first_bad_batch": bad_batches[:1],
                                       "batches_seen": len(self.batch_aux), "batch_end_events": nb},
                               sig="fit/phase-aux-bias", theorem="C20_phase_aux_bias_zero_any_rule, C20_phase_aux_bias_zero_torch_rules, C20_phase_aux_grad_zero")
                    ctx.count("aux_bias_checked"); ctx.count("aux_bias_batches_checked", len(self.batch_aux))
                elif isinstance(st, DensityMatrix):
                    ctx.count("aux_bias_nonzero_start(module-built; outside the clause)")
                if two and op["slot"] in self.interesting and err is None:
                    self.nontrivial = True
                ctx.count(f"opt={op.get('opt')}"); ctx.count(f"sched={op.get('sched')}")


def level_fn(op, err):
    return "property" if err is None or op["t"] in ("train", "constructFrom") else "aux"


def one_history(ctx, case):
    hooks = Hooks(ctx, case)
    kept, obs = so.run_history(ctx, case, "c20.run", hooks, level_fn)
    ctx.case({"plan": case["plan"], "tseed": case["tseed"]}, nontrivial=hooks.nontrivial,
             sample={"ops": [o["t"] for o in kept], "errors": [e for e, _ in obs], "tseed": case["tseed"]})


# ---------------------------------------------------------------- gradient rows of the phase auxiliary bias
def grad_case(ctx, case):
    """pi_grad(phase=True) / gamma_grad / ph_grads / gradient: the aux-bias block of the phase network is identically 0"""
    nv, nh, na, tseed = case["nv"], case["nh"], case["na"], case["tseed"]
    gen = torch.Generator()
    gen.manual_seed(tseed)
    torch.manual_seed(tseed)
    fm = af.Forms(case.get("aseed"), ctx, "grad ")   # sizes, gpu, phase, expand, eta as the objects a caller passes
    st = DensityMatrix(fm.i("num_visible", nv), fm.i("num_hidden", nh), fm.i("num_aux", na), gpu=fm.gpu())
    with torch.no_grad():
        for net in (st.rbm_am, st.rbm_ph):
            for k, p in net.named_parameters():
                if not (net is st.rbm_ph and k == "aux_bias" and not case["nonzero_d"]):
                    p.data.copy_(torch.randn(p.shape, generator=gen, dtype=torch.double))
    B = 3
    v = torch.randint(0, 2, (B, nv), generator=gen).to(torch.double)
    vp = torch.randint(0, 2, (B, nv), generator=gen).to(torch.double)
    A = st.rbm_ph.num_aux
    T1, T2, F1 = fm.f("phase", True), fm.f("phase", True), fm.f("expand", False)
    E1, E2, eta = fm.f("expand", True), fm.f("expand", True), fm.i("eta", -1)
    blocks = {
        "pi_grad(phase=True, expand=True)": (st.pi_grad(v, vp, T1, E1) if fm.pos("pi_grad(v, vp, phase, expand)") else st.pi_grad(v, vp, phase=T1, expand=E1))[..., -A:] if A else torch.zeros(0),
        "pi_grad(phase=True, expand=False)": st.pi_grad(v, vp, phase=T2, expand=F1)[..., -A:] if A else torch.zeros(0),
        "rbm_ph.gamma_grad(eta=-1, expand=True)": (st.rbm_ph.gamma_grad(v, vp, eta, E2) if fm.pos("gamma_grad(v, vp, eta, expand)") else st.rbm_ph.gamma_grad(v, vp, eta=eta, expand=E2))[..., -A:] if A else torch.zeros(0),
        "ph_grads": st.ph_grads(v)[..., -A:] if A else torch.zeros(0),
    }
    letters = np.array(list("XYZ"))
    bases = letters[torch.randint(0, 3, (B, nv), generator=gen).numpy()]
    bases[0, :] = "Z"
    g = st.gradient(v, bases=bases)
    blocks["gradient(samples, bases)[1]"] = g[1][-A:] if A else torch.zeros(0)
    blocks["positive_phase_gradients[1]"] = st.positive_phase_gradients(v, bases_batch=bases)[1][-A:] if A else torch.zeros(0)
    # scope of the clause (C20 audit item 4): a phase network may carry a NON-zero aux bias (module-built states copy the module's);
    # it must then be inert — rho / pi computed with it and with an all-zero one agree
    if case["nonzero_d"] and A:
        space = st.generate_hilbert_space()
        r1, p1 = st.rho(space, space).clone(), st.pi(v, vp).clone()
        saved = st.rbm_ph.aux_bias.data.clone()
        st.rbm_ph.aux_bias.data.zero_()
        r0, p0_ = st.rho(space, space), st.pi(v, vp)
        st.rbm_ph.aux_bias.data.copy_(saved)
        same = bool(torch.allclose(r1, r0, rtol=1e-9, atol=1e-12)) and bool(torch.allclose(p1, p0_, rtol=1e-9, atol=1e-12))
        ctx.oracle("rho(space, space) and pi do not depend on the phase network's auxiliary bias", same, case,
                   detail={"max_abs_diff_rho": float((r1 - r0).abs().max()), "aux_bias": saved.tolist()}, sig="auxgrad/phase-aux-bias-unused",
                   theorem="C20_phase_aux_bias_unused")
        ctx.count("phase_aux_bias_unused_checked")
    ctx.case(case, nontrivial=A > 0 and nh != nv, sample={"grad_case": case})
    ctx.count("grad_cases")
    for name, blk in blocks.items():
        ctx.oracle(f"aux-bias block of {name} is identically zero", bool(torch.all(blk == 0)), case,
                   detail={"max_abs": float(blk.abs().max()) if blk.numel() else 0.0}, sig=f"auxgrad/{name.split('(')[0]}", theorem="C20_phase_aux_bias_zero")
    if ctx.driver is not None and A > 0:
        N = 2
        U = torch.randn(N * N * B * 2, generator=gen, dtype=torch.double)
        sig = torch.randn(N * N * B * 2, generator=gen, dtype=torch.double)
        inv = torch.randn(B, generator=gen, dtype=torch.double)
        r = ctx.driver.call("c20.auxgrad", N=N, B=B, U=bits(U), sig=bits(sig), inv=bits(inv), batch=f2b(float(B)))
        mvals = unbits([r["ph_re"], r["ph_im"], r["rotated"], r["batch"]])
        ph = blocks["ph_grads"]
        impl = [float(ph[0].abs().max()), float(ph[1].abs().max()), float(blocks["gradient(samples, bases)[1]"].abs().max()),
                float(blocks["positive_phase_gradients[1]"].abs().max())]
        ctx.point("phase aux-bias gradient entries", "property", impl, [abs(float(x)) for x in mvals], case, exact=True,
                  sig="auxgrad/model", theorem="C20_phase_aux_bias_zero")


# ---------------------------------------------------------------- optimizer rules
def optim_case(ctx, case):
    kind, hp, p0, grads = case["kind"], case["hp"], case["p0"], case["grads"]
    p = torch.nn.Parameter(torch.tensor([p0], dtype=torch.double), requires_grad=False)
    if kind == "sgd":
        opt = torch.optim.SGD([p], lr=hp["lr"], momentum=hp["momentum"], dampening=hp["dampening"], weight_decay=hp["wd"], nesterov=hp["nesterov"])
    else:
        opt = torch.optim.Adam([p], lr=hp["lr"], betas=(hp["beta1"], hp["beta2"]), eps=hp["eps"], weight_decay=hp["wd"])
    out = []
    for g in grads:
        opt.zero_grad()
        p.grad = torch.tensor([g], dtype=torch.double)
        opt.step()
        out.append(float(p.data[0]))
    zero = p0 == 0.0 and all(g == 0.0 for g in grads)
    ctx.case(case, nontrivial=zero or len(grads) >= 3, sample={"optim_case": {"kind": kind, "hp": hp, "steps": len(grads), "zero": zero}})
    ctx.count(f"optim={kind}{'/zero' if zero else ''}")
    if zero:
        ctx.oracle("a zero parameter with zero gradients stays exactly zero", all(x == 0.0 for x in out), case, detail={"values": out},
                   sig=f"optim/{kind}/zero-stays-zero", theorem="C20_phase_aux_bias_zero")
    if ctx.driver is not None:
        args = {k: (f2b(v) if not isinstance(v, bool) else v) for k, v in hp.items()}
        r = ctx.driver.call("c20.optim", kind=kind, p0=f2b(p0), grads=[f2b(g) for g in grads], **args)
        ctx.point(f"optim.{kind}", "property" if zero else "aux", out, unbits(r), case, scale=max([abs(p0)] + [abs(x) for x in out] + [1e-30]),
                  sig=f"optim/{kind}", theorem="C20_phase_aux_bias_zero (update rule)")


def gen_optim(rng):
    kind = rng.choice(["sgd", "adam"])
    zero = rng.random() < 0.4
    steps = rng.randint(1, 8)
    if kind == "sgd":
        mom = rng.choice([0.0, 0.5, 0.9])
        nest = mom > 0 and rng.random() < 0.5
        hp = {"lr": rng.choice([0.01, 0.1, 1.0]), "momentum": mom, "dampening": 0.0 if nest else rng.choice([0.0, 0.3]),
              "wd": rng.choice([0.0, 0.05, 0.5]), "nesterov": nest}
    else:
        hp = {"lr": rng.choice([0.001, 0.1]), "beta1": rng.choice([0.9, 0.5]), "beta2": rng.choice([0.999, 0.9]), "eps": 1e-8,
              "wd": rng.choice([0.0, 0.1])}
    p0 = 0.0 if zero else rng.gauss(0, 1)
    grads = [0.0 if zero else rng.gauss(0, 1) for _ in range(steps)]
    return {"type": "optim", "kind": kind, "hp": hp, "p0": p0, "grads": grads}


# ---------------------------------------------------------------- the seven torch rules of QV.Model.Optim, with a changing learning rate
RULES = {
    "sgd": (torch.optim.SGD, {"momentum": [0.0, 0.5, 0.9], "dampening": [0.0, 0.3], "nesterov": [False, True]}),
    "adam": (torch.optim.Adam, {"beta1": [0.9, 0.5], "beta2": [0.999, 0.9], "eps": [1e-8], "decoupled": [False, True], "amsgrad": [False, True]}),
    "adadelta": (torch.optim.Adadelta, {"rho": [0.9, 0.5], "eps": [1e-6]}),
    "adagrad": (torch.optim.Adagrad, {"lr_decay": [0.0, 0.1], "eps": [1e-10], "initial_accumulator_value": [0.0, 0.5]}),
    "rmsprop": (torch.optim.RMSprop, {"alpha": [0.99, 0.5], "eps": [1e-8], "momentum": [0.0, 0.9], "centered": [False, True]}),
    "adamax": (torch.optim.Adamax, {"beta1": [0.9, 0.5], "beta2": [0.999, 0.9], "eps": [1e-8]}),
    "nadam": (torch.optim.NAdam, {"beta1": [0.9, 0.5], "beta2": [0.999, 0.9], "eps": [1e-8], "momentum_decay": [0.004, 0.1], "decoupled": [False, True]}),
}


def torch_args(kind, hp):
    a = {k: v for k, v in hp.items() if k not in ("beta1", "beta2", "decoupled", "wd")}
    a["weight_decay"] = hp["wd"]
    if "beta1" in hp:
        a["betas"] = (hp["beta1"], hp["beta2"])
    if "decoupled" in hp:
        a["decoupled_weight_decay"] = hp["decoupled"]
    if kind == "sgd" and hp.get("nesterov") and (hp["momentum"] <= 0 or hp["dampening"] != 0):
        a["nesterov"] = False
    return a


def rule_case(ctx, case):
    """one coordinate under a torch optimizer whose learning rate is changed before every step (what a scheduler does), next to a second
    coordinate with non-zero gradients in the same parameter group; vs `Rule.trace` of the model (c20.rule)"""
    kind, hp, p0, grads, lrs = case["kind"], dict(case["hp"]), case["p0"], case["grads"], case["lrs"]
    cls = RULES[kind][0]
    ta = torch_args(kind, hp)
    hp["nesterov"] = ta.get("nesterov", False) if kind == "sgd" else hp.get("nesterov")
    p = torch.nn.Parameter(torch.tensor([p0, 0.7], dtype=torch.double), requires_grad=False)
    opt = cls([p], lr=lrs[0], **ta)
    out = []
    for g, lr in zip(grads, lrs):
        for grp in opt.param_groups:
            grp["lr"] = lr
        opt.zero_grad()
        p.grad = torch.tensor([g, 0.3 - g], dtype=torch.double)
        opt.step()
        out.append(float(p.data[0]))
    zero = p0 == 0.0 and all(g == 0.0 for g in grads)
    ctx.case(case, nontrivial=True, sample={"rule_case": {"kind": kind, "hp": hp, "steps": len(grads), "zero": zero}})
    ctx.count(f"rule={kind}{'/zero' if zero else ''}")
    th = "C20_phase_aux_bias_zero_torch_rules, C20_phase_aux_bias_zero_any_rule"
    if zero:
        ctx.oracle(f"torch.optim.{cls.__name__}: a zero coordinate with zero gradients is exactly zero after every step (learning rate changing)",
                   all(x == 0.0 for x in out), case, detail={"values": out}, sig=f"rule/{kind}/zero-stays-zero", theorem=th)
    if ctx.driver is not None:
        args = {k: (f2b(v) if not isinstance(v, bool) else v) for k, v in hp.items() if v is not None}
        r = ctx.driver.call("c20.rule", kind=kind, p0=f2b(p0), grads=[f2b(g) for g in grads], lrs=[f2b(x) for x in lrs], **args)
        # torch keeps NAdam's running product of momentum coefficients (`mu_product`) in float32: its coefficients carry a relative error of
        # ~1e-7 that the float64 model does not have -> looser tolerance for that rule's non-zero trajectories (the zero case is exact)
        tol = {"rtol": 1e-4, "atol": 1e-6} if kind == "nadam" and not zero else {}
        ctx.point(f"rule.{kind}", "property" if zero else "aux", out, unbits(r).tolist(), case, scale=max([abs(p0)] + [abs(x) for x in out] + [1e-30]),
                  sig=f"rule/{kind}", theorem=th + " (update rule)", **tol)


def gen_rule(rng):
    kind = rng.choice(sorted(RULES))
    hp = {k: rng.choice(v) for k, v in RULES[kind][1].items()}
    hp["wd"] = rng.choice([0.0, 0.05, 0.5])
    hp["maximize"] = rng.random() < 0.25
    zero = rng.random() < 0.45
    steps = rng.randint(1, 8)
    lr0 = rng.choice([0.01, 0.1, 1.0])
    lrs = [lr0 * (0.5 ** (i // 2)) for i in range(steps)] if rng.random() < 0.6 else [lr0] * steps
    return {"type": "rule", "kind": kind, "hp": hp, "p0": 0.0 if zero else rng.gauss(0, 1),
            "grads": [0.0 if zero else rng.gauss(0, 1) for _ in range(steps)], "lrs": lrs}


def wrong_module_probe(ctx):
    """DensityMatrix(module=BinaryRBM): the property does not say what happens — the outcome is recorded, never judged"""
    from .qc import BinaryRBM
    try:
        DensityMatrix(2, module=BinaryRBM(2, 2, gpu=False), gpu=False)
        ctx.count("probe:DensityMatrix(module=BinaryRBM)=accepted")
    except Exception as e:  # noqa: BLE001
        ctx.count(f"probe:DensityMatrix(module=BinaryRBM)={type(e).__name__}")


def gen_grad(rng):
    nv = rng.choice([1, 2, 3])
    return {"type": "grad", "nv": nv, "nh": rng.choice([1, 2, 4]), "na": rng.choice([1, 2, 3]), "nonzero_d": rng.random() < 0.3,
            "tseed": rng.randrange(1, 2 ** 31), "aseed": af.new_seed(rng)}



# ---------------------------------------------------------------- initialisation LAW (extension round 2)
class RandnRecorder:
    """in-process wrapper around `torch.randn`: records every call's shape and the returned standard-normal draws (flattened in the
    order of the contiguous result), so that the Lean value model `QV.InitLaw.initParams` can be fed the very draws the code saw"""

    def __enter__(self):
        self.orig = torch.randn
        self.calls = []
        self.stream = []

        def randn(*a, **kw):
            out = self.orig(*a, **kw)
            self.calls.append(list(out.shape))
            self.stream.extend(out.detach().to(torch.double).contiguous().view(-1).tolist())
            return out

        torch.randn = randn
        return self

    def __exit__(self, *exc):
        torch.randn = self.orig
        return False


def _init_args(case):
    """(args, kwargs) of the constructor call of the case: sizes omitted / positional / keyword, zero_weights omitted or passed"""
    args, kw = [case["nv"]], {"gpu": False}
    form = case["form"]
    if form == "omit":                       # Ctor(nv)
        pass
    elif form == "pos":                      # Ctor(nv, nh[, na])
        args.append(case["nh"])
        if case["k"] == "purif" and case["na_given"]:
            args.append(case["na"])
    elif form == "kw":                       # Ctor(nv, num_hidden=nh, num_aux=na) — each only if given
        if case["nh_given"]:
            kw["num_hidden"] = case["nh"]
        if case["k"] == "purif" and case["na_given"]:
            kw["num_aux"] = case["na"]
    if case["zw"] is not None:
        kw["zero_weights"] = case["zw"]
    return args, kw


def _doc_sizes(case):
    """the DOCUMENTED defaults, restated independently: num_hidden omitted/None -> num_visible (BinaryRBM: also 0), num_aux omitted/None -> num_visible"""
    nv = case["nv"]
    form = case["form"]
    nh = case["nh"] if (form == "pos" or (form == "kw" and case["nh_given"])) else None
    na = case["na"] if (case["k"] == "purif" and form in ("pos", "kw") and case["na_given"]) else None
    H = nv if nh is None or (case["k"] == "binary" and nh == 0) else nh
    A = 0 if case["k"] == "binary" else (nv if na is None else na)
    return nh, na, (nv, H, A)


def _judged_sizes(case, nh, na):
    """audit 3 (B6): which of (num_visible, num_hidden, num_aux) the property text / the documentation FIX for this call: "networks of the
    requested shapes" = sizes given explicitly and non-zero; the one documented default is num_hidden None -> num_visible of
    PositiveWaveFunction / ComplexWaveFunction ("Defaults to the number of visible units").  Not fixed anywhere (recorded only):
    BinaryRBM's `0 -> num_visible`, every default of PurificationRBM / DensityMatrix / a bare BinaryRBM, zero sizes (malformed)."""
    if case["nv"] <= 0:
        return [False, False, False]
    jh = (nh is not None and nh > 0) or (nh is None and case["via"] in ("pos", "cplx"))
    ja = True if case["k"] == "binary" else (na is not None and na > 0)   # a BinaryRBM has no auxiliary layer (the harness's own 0)
    return [True, jh, ja]


def _net_obs(net):
    isp = hasattr(net, "weights_U")
    return {"W": bits(net.weights_W if isp else net.weights), "U": bits(net.weights_U) if isp else None,
            "b": bits(net.visible_bias), "c": bits(net.hidden_bias), "d": bits(net.aux_bias) if isp else None,
            "sizes": [net.num_visible, net.num_hidden, net.num_aux if isp else 0]}


def initlaw_case(ctx, case):
    """constructor / initialize_parameters / state-constructor call with torch.randn recorded in-process; the Lean value model gets the recorded draws"""
    from .qc import BinaryRBM, PurificationRBM, PositiveWaveFunction, ComplexWaveFunction
    k, via = case["k"], case["via"]
    Ctor = BinaryRBM if k == "binary" else PurificationRBM
    torch.manual_seed(case["tseed"])
    args, kw = _init_args(case)
    nh_arg, na_arg, doc = _doc_sizes(case)
    zw = bool(case["zw"])
    cs = dict(case)
    ctx.count(f"initlaw:{via}/{k}/{case['form']}/zw={case['zw']}")
    if via == "ctor":
        with RandnRecorder() as rec:
            net = Ctor(*args, **kw)
        nets, form, m_nh, m_na = [net], "ctor", nh_arg, na_arg
    elif via == "init":
        net = Ctor(*args, **{**kw, "zero_weights": not zw})   # the constructor's option must not be remembered
        shapes0 = [[n_, list(p_.shape)] for n_, p_ in net.named_parameters()]
        with RandnRecorder() as rec:
            if case["zw"] is None:
                net.initialize_parameters()
            else:
                net.initialize_parameters(zero_weights=case["zw"])
        nets, form, m_nh, m_na = [net], "init", doc[1], doc[2]
        # "reinitialising redraws all networks' parameters with unchanged shapes" - on the implementation, whatever the sizes are
        ctx.oracle(f"initlaw init/{k}: initialize_parameters keeps every parameter's shape", shapes0 == [[n_, list(p_.shape)] for n_, p_ in net.named_parameters()],
                   cs, sig=f"initlaw/{k}/reinit-shapes", theorem="C20_reinit")
    else:  # a state built from sizes: every network in `networks` order runs the constructor of its RBM class
        St = {"pos": PositiveWaveFunction, "cplx": ComplexWaveFunction, "dens": DensityMatrix}[via]
        skw = {a: b for a, b in kw.items() if a != "zero_weights"}
        skw.pop("gpu")
        with RandnRecorder() as rec:
            st = St(*args, gpu=False, **skw)
        nets, form, m_nh, m_na = [getattr(st, n) for n in st.networks], "ctor", nh_arg, na_arg
        zw = False
    pos = 0
    for idx, net in enumerate(nets):
        obs = _net_obs(net)
        tag = f"initlaw {via}/{k}" + (f" net{idx}" if len(nets) > 1 else "")
        # property oracles, independent of the model
        # audit 3 (B6): only the sizes the property / the documentation fix are judged (see _judged_sizes); the CODED defaults
        # (BinaryRBM 0 -> num_visible, num_aux omitted -> num_visible, ...) are recorded only
        judged = _judged_sizes(case, nh_arg, na_arg)
        pick = lambda v: [x for x, j in zip(v, judged) if j]   # noqa: E731
        ctx.oracle(f"{tag}: the requested sizes (and the documented default of num_hidden) are the network's sizes", pick(obs["sizes"]) == pick(list(doc)), cs,
                   {"sizes": obs["sizes"], "requested_or_documented": list(doc), "judged": judged}, sig=f"initlaw/{k}/default-sizes", theorem="C20_default_sizes")
        ctx.info(f"initlaw/{k}/coded-default-sizes", obs["sizes"], list(doc))
        bz = all(x == 0 for key in ("b", "c", "d") if obs[key] is not None for x in obs[key])
        ctx.oracle(f"{tag}: all biases exactly zero", bz, cs, sig=f"initlaw/{k}/biases-zero", theorem="C20_init_values")
        if zw:
            wz = all(x == 0 for key in ("W", "U") if obs[key] is not None for row in obs[key] for x in row)
            ctx.oracle(f"{tag}: zero_weights=True gives all-zero weights", wz, cs, sig=f"initlaw/{k}/zero-weights", theorem="C20_init_zero_weights")
        if ctx.driver is not None:
            r = ctx.driver.call("c20.init_values", kind=k, form=form, nv=case["nv"], nh=m_nh, na=m_na, zero=zw, draws=[f2b(x) for x in rec.stream[pos:]])
            ctx.point(f"{tag}: resolved sizes (num_visible, num_hidden, num_aux) - the requested / documented ones", "property", pick(obs["sizes"]), pick(r["sizes"]),
                      cs, exact=True, sig=f"initlaw/{k}/sizes", theorem="C20_default_sizes")
            ctx.info(f"initlaw/{k}/sizes:coded-defaults", obs["sizes"], r["sizes"])
            if all(judged):
                ctx.point(f"{tag}: biases (bit patterns, lengths)", "property", [obs["b"], obs["c"], obs["d"]], [r["b"], r["c"], r["d"]], cs, exact=True,
                          sig=f"initlaw/{k}/biases", theorem="C20_init_values, C20_default_sizes")
            else:   # the LENGTHS follow the coded defaults (not fixed by the property); that every bias is zero is the oracle above
                ctx.info(f"initlaw/{k}/biases:lengths-of-coded-defaults", [obs["b"], obs["c"], obs["d"]], [r["b"], r["c"], r["d"]])
            # audit 3 (B10): the property says "random weights" - how the random stream is consumed and scaled (z / sqrt(num_visible),
            # row-major, W before U, torch.randn at all) is not constrained: recorded only, no verdict (was auxiliary)
            same_shape = [len(obs["W"]), None if obs["U"] is None else len(obs["U"])] == [len(r["W"]), None if r["U"] is None else len(r["U"])]
            ctx.info(f"initlaw/{k}/values (weights == recorded draws / sqrt(num_visible), row-major, W before U)",
                     [obs["W"], obs["U"], same_shape], [r["W"], r["U"], True])
            pos += r["consumed"]
    if ctx.driver is not None:
        ctx.info(f"initlaw/{k}/draw-count (number of standard-normal draws consumed)", len(rec.stream), pos)
    ctx.case({"initlaw": {a: case[a] for a in ("k", "via", "form", "nv", "nh", "na", "nh_given", "na_given", "zw")}},
             nontrivial=case["nv"] > 0 and not zw, sample={"initlaw": via, "k": k, "form": case["form"], "calls": rec.calls})


def gen_initlaw(rng, fixed=None):
    via = rng.choice(["ctor", "ctor", "init", "pos", "cplx", "dens"])
    k = {"pos": "binary", "cplx": "binary", "dens": "purif"}.get(via) or rng.choice(["binary", "purif"])
    nv = rng.choice([0, 1, 1, 2, 3, 4, 5])
    case = {"type": "initlaw", "k": k, "via": via, "form": rng.choice(["omit", "pos", "kw", "kw"]), "nv": nv,
            "nh": rng.choice([None, 0, 1, 2, 3, 6]), "na": rng.choice([None, 0, 1, 2, 4]),
            "nh_given": rng.random() < 0.5, "na_given": rng.random() < 0.5,
            "zw": rng.choice([None, None, False, True]) if via in ("ctor", "init") else None, "tseed": rng.randrange(1, 2 ** 31)}
    if fixed:
        case.update(fixed)
    return case


def fixed_initlaw():
    base = {"type": "initlaw", "nh": 2, "na": 3, "nh_given": True, "na_given": True, "zw": None, "tseed": 7}
    yield dict(base, k="purif", via="ctor", form="omit", nv=3)                                  # PurificationRBM(3): num_aux = num_hidden = 3
    yield dict(base, k="purif", via="ctor", form="kw", nv=3, nh=2, na_given=False)             # num_hidden=2, num_aux omitted -> 3 (NOT 2)
    yield dict(base, k="purif", via="ctor", form="kw", nv=4, nh_given=False, na=1)             # num_aux only
    yield dict(base, k="purif", via="ctor", form="pos", nv=2, nh=3, na=3)                      # same shapes for W and U: order of the two calls
    yield dict(base, k="purif", via="ctor", form="pos", nv=2, nh=0, na=0)                      # explicit 0 kept
    yield dict(base, k="binary", via="ctor", form="omit", nv=3)
    yield dict(base, k="binary", via="ctor", form="pos", nv=3, nh=0)                           # `if num_hidden`: 0 -> num_visible
    yield dict(base, k="binary", via="ctor", form="kw", nv=2, nh=5, zw=True)
    yield dict(base, k="purif", via="ctor", form="pos", nv=2, nh=2, na=1, zw=True)
    yield dict(base, k="purif", via="init", form="pos", nv=3, nh=2, na=2, zw=None)
    yield dict(base, k="purif", via="init", form="pos", nv=3, nh=2, na=2, zw=True)
    yield dict(base, k="binary", via="init", form="pos", nv=4, nh=2, zw=False)
    yield dict(base, k="purif", via="dens", form="omit", nv=2)                                 # DensityMatrix(2): two PurificationRBM(2, None, None)
    yield dict(base, k="purif", via="dens", form="kw", nv=3, nh=1, na_given=False)
    yield dict(base, k="binary", via="cplx", form="omit", nv=3)
    yield dict(base, k="binary", via="pos", form="pos", nv=2, nh=3)


def fixed_cases():
    """the hand-written histories (`_fixed_cases`), each with argument forms from a stream seeded by its tseed"""
    import random

    for case in _fixed_cases():
        so.add_forms(case["plan"], random.Random(case["tseed"]))
        yield case


def _fixed_cases():
    c = lambda **k: k  # noqa: E731
    yield {"type": "history", "tseed": 201, "plan": [
        c(t="mkModule", mslot=0, k="binary", nv=2, nh=3, na=None), c(t="writeModule", mslot=0),
        c(t="constructFrom", slot=0, kind="cplx", mslot=0, ud=None), c(t="write", slot=0, net="rbm_am"), c(t="write", slot=0, net="rbm_ph"),
        c(t="constructFrom", slot=1, kind="pos", mslot=0, ud=None), c(t="reinit", slot=1), c(t="writeModule", mslot=0),
        c(t="train", slot=0, bases=False, opt="sgd", epochs=1), c(t="train", slot=0, bases=False, opt="sgd", epochs=1, stopped=True), c(t="train", slot=0, bases=True, opt="nest", epochs=2, lr=0.5),
        c(t="reinit", slot=0), c(t="write", slot=0, net="rbm_ph")]}
    yield {"type": "history", "tseed": 202, "plan": [
        c(t="mkModule", mslot=1, k="purif", nv=2, nh=1, na=3), c(t="writeModule", mslot=1),
        c(t="constructFrom", slot=0, kind="dens", mslot=1, ud=["S"]), c(t="train", slot=0, bases=True, opt="sgdm", epochs=2, lr=0.5),
        c(t="reinit", slot=0), c(t="train", slot=0, bases=True, opt="adamwd", epochs=3, lr=0.05), c(t="train", slot=0, bases=False, opt="sgd", epochs=1),
        c(t="write", slot=0, net="rbm_am"), c(t="train", slot=0, bases=True, opt="nest", epochs=2, lr=0.5),
        c(t="construct", slot=1, kind="dens", nv=2, nh=0, na=None, ud=None), c(t="construct", slot=2, kind="cplx", nv=3, nh=0, na=None, ud=None),
        c(t="construct", slot=2, kind="pos", nv=1, nh=None, na=None, ud=None), c(t="train", slot=2, bases=False, opt="adam", epochs=1)]}


    # constructor options carried into later operations: modules built with zero_weights=True / False, explicit sizes incl. 0,
    # then construct -> train -> reinitialise -> train -> save -> load -> reinitialise -> save, initialize_parameters(zero_weights=...)
    yield {"type": "history", "tseed": 203, "plan": [
        c(t="mkModule", mslot=0, k="binary", nv=2, nh=3, na=None, zw=True), c(t="constructFrom", slot=0, kind="cplx", mslot=0, ud=None),
        c(t="reinit", slot=0), c(t="train", slot=0, bases=True, opt="sgd", epochs=1, lr=0.5), c(t="reinit", slot=0),
        c(t="train", slot=0, bases=True, opt="adam", epochs=1, lr=0.05), c(t="save", slot=0, md=None, path=0), c(t="load", slot=0, path=0),
        c(t="reinit", slot=0), c(t="save", slot=0, md=None, path=1), c(t="initModule", mslot=0, zw=True), c(t="reinit", slot=0),
        c(t="initModule", mslot=0, zw=None), c(t="constructFrom", slot=1, kind="pos", mslot=0, ud=None), c(t="reinit", slot=1),
        c(t="train", slot=1, bases=False, opt="sgdm", epochs=1, lr=0.5)]}
    yield {"type": "history", "tseed": 204, "plan": [
        c(t="mkModule", mslot=1, k="purif", nv=2, nh=0, na=0, zw=True), c(t="initModule", mslot=1, zw=None),
        c(t="mkModule", mslot=0, k="purif", nv=2, nh=3, na=1, zw=True), c(t="writeModule", mslot=0),
        c(t="constructFrom", slot=0, kind="dens", mslot=0, ud=None), c(t="train", slot=0, bases=True, opt="nest", epochs=1, lr=0.5),
        c(t="reinit", slot=0), c(t="train", slot=0, bases=True, opt="sgd", epochs=1, lr=0.5), c(t="save", slot=0, md=None, path=0),
        c(t="reinit", slot=0), c(t="load", slot=0, path=0), c(t="reinit", slot=0), c(t="save", slot=0, md=None, path=0),
        c(t="mkModule", mslot=2, k="binary", nv=3, nh=None, na=None, zw=False), c(t="initModule", mslot=2, zw=True),
        c(t="constructFrom", slot=1, kind="cplx", mslot=2, ud=None), c(t="reinit", slot=1), c(t="initModule", mslot=2, zw=False)]}


    # every optimizer of storeops.OPTIMS drives a mixed state whose phase aux bias starts at zero; every third fit with a scheduler
    scheds = sorted(so.SCHEDULERS)
    yield {"type": "history", "tseed": 205, "plan": [c(t="construct", slot=0, kind="dens", nv=2, nh=2, na=2, ud=None)] + [
        dict(c(t="train", slot=0, bases=True, opt=o, epochs=2, lr=0.3), **({"sched": scheds[i % len(scheds)]} if i % 3 == 0 else {}))
        for i, o in enumerate(sorted(so.OPTIMS))]}


    # sizes passed ALONGSIDE module= (consistent with the module, inconsistent, None, 0; keywords and positional) for the three state types;
    # the states are then written / re-initialised / trained / saved and auto-loaded (every later operation must see the MODULE's sizes)
    yield {"type": "history", "tseed": 206, "plan": [
        c(t="mkModule", mslot=0, k="binary", nv=2, nh=3, na=None), c(t="writeModule", mslot=0),
        c(t="constructFrom", slot=0, kind="pos", mslot=0, ud=None, nv=2, nh=3),
        c(t="constructFrom", slot=0, kind="pos", mslot=0, ud=None, nv=2, nh=5), c(t="constructFrom", slot=0, kind="pos", mslot=0, ud=None, nv=4, nh=None),
        c(t="constructFrom", slot=0, kind="pos", mslot=0, ud=None, nv=3, nh=1, form="pos"), c(t="reinit", slot=0),
        c(t="constructFrom", slot=1, kind="cplx", mslot=0, ud=None, nv=2, nh=3, form="pos"),
        c(t="constructFrom", slot=1, kind="cplx", mslot=0, ud=["S"], nv=2, nh=5), c(t="constructFrom", slot=1, kind="cplx", mslot=0, ud=None, nv=3, nh=0),
        c(t="constructFrom", slot=1, kind="cplx", mslot=0, ud=None, nv=1, nh=2, form="pos"), c(t="write", slot=1, net="rbm_ph"),
        c(t="train", slot=1, bases=True, opt="sgd", epochs=1, lr=0.5), c(t="save", slot=1, md=None, path=0), c(t="autoload", slot=2, kind="cplx", path=0),
        c(t="reinit", slot=1),
        c(t="mkModule", mslot=1, k="purif", nv=2, nh=3, na=1), c(t="writeModule", mslot=1),
        c(t="constructFrom", slot=0, kind="dens", mslot=1, ud=None, nv=2, nh=3, na=1),
        c(t="constructFrom", slot=0, kind="dens", mslot=1, ud=None, nv=2, nh=5, na=None), c(t="constructFrom", slot=0, kind="dens", mslot=1, ud=None, nv=2, nh=None, na=4),
        c(t="constructFrom", slot=0, kind="dens", mslot=1, ud=["H"], nv=3, nh=1, na=2, form="pos"),
        c(t="constructFrom", slot=0, kind="dens", mslot=1, ud=None, nv=2, nh=0, na=0), c(t="constructFrom", slot=0, kind="dens", mslot=1, ud=None, nv=7, nh=4, na=3),
        c(t="write", slot=0, net="rbm_ph"), c(t="train", slot=0, bases=True, opt="adam", epochs=1, lr=0.05), c(t="save", slot=0, md=None, path=1),
        c(t="autoload", slot=2, kind="dens", path=1), c(t="reinit", slot=0), c(t="train", slot=0, bases=False, opt="sgd", epochs=1),
        c(t="construct", slot=2, kind="dens", nv=2, nh=3, na=1, ud=None, form="pos"), c(t="construct", slot=2, kind="cplx", nv=2, nh=None, na=None, ud=["H"], form="pos"),
        c(t="construct", slot=2, kind="pos", nv=3, nh=0, na=None, ud=None, form="pos")]}


def gen_cases(ctx, thorough, scale=1):
    maxlen = 30 if thorough else 12
    nh, ng, no = ((250, 60, 300) if thorough else (40, 10, 50))
    for _ in range(nh * scale):
        yield {"type": "history", "plan": gen_plan(ctx.rng, maxlen), "tseed": ctx.rng.randrange(1, 2 ** 31)}
    for _ in range(ng * scale):
        yield gen_grad(ctx.rng)
    for _ in range(no * scale):
        yield gen_optim(ctx.rng)
    for _ in range(2 * no * scale):
        yield gen_rule(ctx.rng)
    for _ in range(ng * 4 * scale):
        yield gen_initlaw(ctx.rng)


def one_case(ctx, case):
    if case["type"] == "history":
        one_history(ctx, case)
    elif case["type"] == "grad":
        grad_case(ctx, case)
    elif case["type"] == "rule":
        rule_case(ctx, case)
    elif case["type"] == "initlaw":
        initlaw_case(ctx, case)
    else:
        optim_case(ctx, case)


def run(ctx):
    ctx.rule = RULE
    wrong_module_probe(ctx)
    for case in fixed_cases():
        one_case(ctx, case)
    for case in fixed_initlaw():
        one_case(ctx, case)
    for case in gen_cases(ctx, ctx.tier == "thorough"):
        one_case(ctx, case)


def env_run(ctx, env_name):
    """the same property for a caller who changed a process-global setting (harness/common.py ENVS: default dtype float64, no_grad,
    another working directory): the wrong-module probe, every hand-written history (both constructor branches of all three state
    types, reinitialisation, the fit guards, one fit per optimizer) and gradient cases, all objects constructed inside the environment"""
    wrong_module_probe(ctx)
    for case in fixed_cases():
        one_case(ctx, case)
    for case in fixed_initlaw():
        one_case(ctx, case)
    for _ in range(6):
        one_case(ctx, gen_grad(ctx.rng))


def search(ctx):
    drv, ctx.driver = ctx.driver, None
    try:
        for case in fixed_cases():
            one_case(ctx, case)
        for case in fixed_initlaw():
            one_case(ctx, case)
        for case in gen_cases(ctx, True, scale=2):
            one_case(ctx, case)
    finally:
        ctx.driver = drv


def replay(ctx, case):
    if "type" not in case:
        case = dict(case, type="history")
    one_case(ctx, case)
