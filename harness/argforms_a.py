# (fh1 package; named argforms_a.py because harness/argforms.py of the C06/C07/C11/C16/C18/C20 package has the same role with another API)
"""Argument-form sweep (round 5, package fh1): ONE seeded stream of argument forms per case.

Every integer option of a public call (constructor sizes, `k`, `num_samples`, `size`, `c`, the SWAP region, ...) and every boolean option
(`gpu`, `expand`, `reduce`, `phase`, `overwrite`, `absolute`, `periodic_bcs`, ...) that a harness hands to /repo code is drawn from this stream:
integers through `qc.Ints` (Python int, np.int64, np.int32, np.intp, np.uint8, 0-d integer numpy array, 0-d integer torch tensor), booleans
through `qc.Flags` (bool singleton, int 0/1, np.bool_, result of a numpy comparison, 0-d numpy bool array, 0-d torch bool tensor), each by
keyword or - where the signature allows it - positionally.  The Lean model is always told the VALUE (plain int / bool): the clean code
converts with `int(...)` / tests truthiness, so the theorem proved for the value applies whatever the form.

Replay: the stream is seeded by the case's own key `aseed`; a case without that key (stored before this round) gets `Args(None)`:
Python ints / bool singletons in keyword position, i.e. exactly the calls the harness made before.

Used by harness/c01.py, c03.py, c04.py, c09.py, c10.py and (integers) c02.py, c05.py, c08.py.  Property-specific restrictions of the allowed
forms (forms the CLEAN code rejects) are listed next to each call and in notes/Cxx.md "## Argument-form sweep".
"""
import random

from . import qc
from .qc import (BinaryRBM, ComplexWaveFunction, DensityMatrix, PositiveWaveFunction, PurificationRBM, np, torch)

INT_FORMS = qc.INT_FORMS
NO_TORCH = tuple(f for f in qc.INT_FORMS if f != "t0d")                   # options that end up in numpy index arithmetic
NO_0D = tuple(f for f in qc.INT_FORMS if f not in ("t0d", "np0d"))        # options that must be hashable / usable as a list index
SCALAR_NP = ("py", "np.int64", "np.int32", "np.intp", "np.uint8")


class Args:
    """stream of argument forms of ONE case.  `aseed=None`: plain Python objects by keyword (the calls made before this round).
    `A.i(n)` -> object denoting the integer n;  `A.b(flag)` -> object denoting the truth value;  `A.coin()` -> hand the next optional
    arguments over positionally?  Every descriptor is kept (`A.used()`) so that a failing case can say what was passed."""

    def __init__(self, aseed):
        self.aseed = aseed
        self.ints = qc.Ints(aseed)
        self.flags = qc.Flags(None if aseed is None else (int(aseed) * 2654435761 + 12345) % (2 ** 31))
        self.rng = None if aseed is None else random.Random((int(aseed) * 40503 + 977) % (2 ** 31))

    def i(self, n, allowed=INT_FORMS):
        return self.ints(n, allowed)[0]

    def i_desc(self, n, allowed=INT_FORMS):
        return self.ints(n, allowed)

    def b(self, flag):
        return self.flags(flag)[0]

    def b_desc(self, flag):
        return self.flags(flag)

    def coin(self, p=0.4):
        return False if self.rng is None else self.rng.random() < p

    def choice(self, seq):
        """an element of `seq` from the stream (the FIRST one when unseeded)"""
        return seq[0] if self.rng is None else self.rng.choice(list(seq))

    def used(self):
        return {"ints": [f"{d['form']}:{d['value']}" for d in self.ints.used], "flags": [f"{d['form']}:{d['value']}" for d in self.flags.used]}

    def count_into(self, ctx, prefix="argform"):
        for d in self.ints.used:
            ctx.count(f"{prefix}/int given as {d['form']}")
        for d in self.flags.used:
            ctx.count(f"{prefix}/flag given as {d['form']}")
        self.ints.used.clear(); self.flags.used.clear()


def draw_aseed(rng):
    return rng.randrange(2 ** 31)


# ------------------------------------------------------------------ constructors with every size / flag in the case's forms
# Same two construction paths as qc.make_* (sizes branch / `module=` branch chosen by the checksum of the amplitude parameters, parameters
# written in place on the module branch), but every size is `A.i(...)`, `gpu` is a falsy object `A.b(False)` (or the object given as `gpu=`)
# and - on a coin of the stream - the optional arguments are passed positionally in the documented order.
def _gpu(A, gpu):
    return A.b(False) if gpu is None else gpu


def make_positive(A, n, h, am, gpu=None):
    if qc._via_module(am):
        rbm = BinaryRBM(A.i(n), A.i(h), A.b(False), _gpu(A, gpu)) if A.coin() else BinaryRBM(A.i(n), A.i(h), gpu=_gpu(A, gpu))
        st = PositiveWaveFunction(A.i(n), gpu=_gpu(A, gpu), module=rbm)
        if sizes_of(st) == (n, h):
            qc.set_rbm(st.rbm_am, am, inplace=True)
        return st
    st = PositiveWaveFunction(A.i(n), A.i(h), _gpu(A, gpu)) if A.coin() else PositiveWaveFunction(A.i(n), A.i(h), gpu=_gpu(A, gpu))
    if sizes_of(st) == (n, h):
        qc.set_rbm(st.rbm_am, am)
    return st


def make_complex(A, n, h, am, ph, unitary_dict=None, gpu=None):
    if qc._via_module(am):
        rbm = BinaryRBM(A.i(n), A.i(h), A.b(False), _gpu(A, gpu)) if A.coin() else BinaryRBM(A.i(n), A.i(h), gpu=_gpu(A, gpu))
        st = ComplexWaveFunction(A.i(n), unitary_dict=unitary_dict, gpu=_gpu(A, gpu), module=rbm)
        if sizes_of(st) == (n, h):
            qc.set_rbm(st.rbm_am, am, inplace=True)
            qc.set_rbm(st.rbm_ph, ph, inplace=True)
        return st
    if A.coin():
        st = ComplexWaveFunction(A.i(n), A.i(h), unitary_dict, _gpu(A, gpu))
    else:
        st = ComplexWaveFunction(A.i(n), A.i(h), gpu=_gpu(A, gpu), unitary_dict=unitary_dict)
    if sizes_of(st) == (n, h):
        qc.set_rbm(st.rbm_am, am)
        qc.set_rbm(st.rbm_ph, ph)
    return st


def make_density(A, n, h, a, am, ph, unitary_dict=None, gpu=None):
    if qc._via_module(am):
        if A.coin():
            rbm = PurificationRBM(A.i(n), A.i(h), A.i(a), A.b(False), _gpu(A, gpu))
        else:
            rbm = PurificationRBM(A.i(n), A.i(h), A.i(a), gpu=_gpu(A, gpu))
        st = DensityMatrix(A.i(n), unitary_dict=unitary_dict, gpu=_gpu(A, gpu), module=rbm)
        if sizes_of(st) == (n, h, a):
            qc.set_prbm(st.rbm_am, am, inplace=True)
            qc.set_prbm(st.rbm_ph, ph, inplace=True)
        return st
    if A.coin():
        st = DensityMatrix(A.i(n), A.i(h), A.i(a), unitary_dict, _gpu(A, gpu))
    else:
        st = DensityMatrix(A.i(n), A.i(h), A.i(a), gpu=_gpu(A, gpu), unitary_dict=unitary_dict)
    if sizes_of(st) == (n, h, a):
        qc.set_prbm(st.rbm_am, am)
        qc.set_prbm(st.rbm_ph, ph)
    return st


def sizes_of(st):
    """(num_visible, num_hidden[, num_aux]) as the constructed object reports AND as its parameter tensors are shaped; None if they differ"""
    try:
        out = []
        for net in [getattr(st, name) for name in st.networks]:
            if hasattr(net, "weights_W"):
                shp = (int(net.num_visible), int(net.num_hidden), int(net.num_aux))
                ok = (tuple(net.weights_W.shape) == (shp[1], shp[0]) and tuple(net.weights_U.shape) == (shp[2], shp[0])
                      and tuple(net.visible_bias.shape) == (shp[0],) and tuple(net.hidden_bias.shape) == (shp[1],) and tuple(net.aux_bias.shape) == (shp[2],))
            else:
                shp = (int(net.num_visible), int(net.num_hidden))
                ok = (tuple(net.weights.shape) == (shp[1], shp[0]) and tuple(net.visible_bias.shape) == (shp[0],)
                      and tuple(net.hidden_bias.shape) == (shp[1],))
            if not ok:
                return None
            out.append(shp)
        if any(s != out[0] for s in out) or int(st.num_visible) != out[0][0] or int(st.num_hidden) != out[0][1]:
            return None
        return out[0]
    except Exception:  # noqa: BLE001
        return None


def check_sizes(ctx, st, want, case, A, sig, theorem):
    """the state a constructor returns has the REQUESTED architecture whatever object denoted the sizes (property oracle: the statements
    quantify over architectures `num_visible x num_hidden [x num_aux]`; a constructor that silently builds another one when it is handed
    e.g. a numpy integer makes every later value a value of the wrong state).  Returns False if the case cannot be evaluated further."""
    got = sizes_of(st)
    ok = got == tuple(want)
    ctx.oracle("constructed architecture == requested sizes (sizes handed over as " + ", ".join(sorted({d["form"] for d in A.ints.used})) + ")",
               ok, case, detail={"requested": list(want), "constructed": None if got is None else list(got), "given_as": A.used()},
               sig=sig, theorem=theorem)
    return ok
