# (fh1 package; named argforms_a.py because harness/argforms.py of the C06/C07/C11/C16/C18/C20 package has the same role with another API)
"""Argument-form sweep (round 5, package fh1): ONE seeded stream of argument forms per case.

Every integer option of a public call (constructor sizes, `k`, `num_samples`, `size`, `c`, the SWAP region, ...) and every boolean option
(`gpu`, `expand`, `reduce`, `phase`, `overwrite`, `absolute`, `periodic_bcs`, ...) that a harness hands to /repo code is drawn from this stream:
integers through `qc.Ints` (Python int, np.int64, np.int32, np.intp, np.uint8, 0-d integer numpy array, 0-d integer torch tensor), booleans
through `qc.Flags` (bool singleton, int 0/1, np.bool_, result of a numpy comparison, 0-d numpy bool array, 0-d torch bool tensor), each by
keyword or - where the signature allows it - positionally.  The Lean model is always told the VALUE (plain int / bool): the clean code
converts with `int(...)` / tests truthiness, so the theorem proved for the value applies whatever the form.

Replay: the stream is seeded by the case's own key `aseed`; a case without that key (stored before this round) gets `Args(None)`:
Python ints / bool singletons in keyword position, i.e. exactly the calls the harness made before.

Used by harness/c01.py, c03.py, c04.py, c09.py, c10.py and (integers) c02.py, c05.py, c08.py.  Property-specific restrictions of the allowed
forms (forms the CLEAN code rejects) are listed next to each call and in notes/Cxx.md "## Argument-form sweep".
"""
import random

from . import qc
from .qc import (BinaryRBM, ComplexWaveFunction, DensityMatrix, PositiveWaveFunction, PurificationRBM, np, torch)

INT_FORMS = qc.INT_FORMS
NO_TORCH = tuple(f for f in qc.INT_FORMS if f != "t0d")                   # options that end up in numpy index arithmetic
NO_0D = tuple(f for f in qc.INT_FORMS if f not in ("t0d", "np0d"))        # options that must be hashable / usable as a list index
SCALAR_NP = ("py", "np.int64", "np.int32", "np.intp", "np.uint8")


# ------------------------------------------------------------------ integer objects outside every quantifier (second audit, item X-1)
# Every integer option is documented `int`.  Python ints and the numpy integer scalars that arise from `.shape` / `np.arange` / `len`
# (np.int64 / np.int32 / np.intp) are what callers have in hand: a refusal of one of those is a failed call form.  A 0-d integer ndarray,
# a 0-d integer torch tensor and np.uint8 are in no property's quantifier: an implementation that REFUSES them (an exception, e.g. from a
# harmless `isinstance(x, numbers.Integral)` validation) violates nothing, while one that accepts them and silently computes something
# else still does.  `tolerant` implements exactly that: a case in which such an object was handed over and that ended in an exception
# (escaping, or caught by an oracle and recorded with an "exception" detail) is run again with those objects replaced by the Python ints
# they denote (same stream otherwise); what the second run reports stands, the refusals of the first run become an informational counter,
# mismatches of the first run that are not refusals (wrong VALUES for an exotic object) are kept.
EXOTIC_INT_FORMS = ("np.uint8", "np0d", "t0d")
_STATE = {"demote": False, "exotic": 0}


def _exotic(v, d):
    if d["form"] in EXOTIC_INT_FORMS:
        if _STATE["demote"]:
            d["demoted_from"], d["form"] = d["form"], "py"
            return int(d["value"]), d
        _STATE["exotic"] += 1
    return v, d


def int_obj(form, n):
    """qc.int_value(form, n) subject to the demotion of `tolerant`"""
    return _exotic(qc.int_value(form, n), {"form": form, "value": int(n)})[0]


def _refusal(rec):
    return isinstance(rec.get("detail"), dict) and "exception" in rec["detail"]


def tolerant(ctx, fn, *args, **kw):
    """run one case through `fn(*args, **kw)` under the rule above"""
    from .common import InternalError
    if _STATE["demote"]:
        return fn(*args, **kw)
    e0, p0, a0 = _STATE["exotic"], len(ctx.prop_mismatch), len(ctx.aux_mismatch)
    exc, r = None, None
    try:
        r = fn(*args, **kw)
    except InternalError:
        raise
    except Exception as e:  # noqa: BLE001
        exc = e
    newp = ctx.prop_mismatch[p0:]
    if _STATE["exotic"] == e0 or (exc is None and not any(_refusal(x) for x in newp)):
        if exc is not None:
            raise exc
        return r
    keep_p, keep_a = [x for x in newp if not _refusal(x)], ctx.aux_mismatch[a0:]
    dropped = len(newp) - len(keep_p) + (1 if exc is not None else 0)
    del ctx.prop_mismatch[p0:]
    del ctx.aux_mismatch[a0:]
    _STATE["demote"] = True
    try:
        r = fn(*args, **kw)      # an exception that does not depend on the exotic objects escapes again (and is reported by main)
    finally:
        _STATE["demote"] = False
        ctx.prop_mismatch.extend(keep_p)
        ctx.aux_mismatch.extend(keep_a)
    ctx.count("informational (X-1): integer option given as np.uint8 / 0-d ndarray / 0-d tensor was refused (outside every quantifier); case re-run with Python ints", dropped)
    return r


class Args:
    """stream of argument forms of ONE case.  `aseed=None`: plain Python objects by keyword (the calls made before this round).
    `A.i(n)` -> object denoting the integer n;  `A.b(flag)` -> object denoting the truth value;  `A.coin()` -> hand the next optional
    arguments over positionally?  Every descriptor is kept (`A.used()`) so that a failing case can say what was passed."""

    def __init__(self, aseed):
        self.aseed = aseed
        self.ints = qc.Ints(aseed)
        self.flags = qc.Flags(None if aseed is None else (int(aseed) * 2654435761 + 12345) % (2 ** 31))
        self.rng = None if aseed is None else random.Random((int(aseed) * 40503 + 977) % (2 ** 31))

    def i(self, n, allowed=INT_FORMS):
        return _exotic(*self.ints(n, allowed))[0]

    def i_desc(self, n, allowed=INT_FORMS):
        return _exotic(*self.ints(n, allowed))

    def b(self, flag):
        return self.flags(flag)[0]

    def b_desc(self, flag):
        return self.flags(flag)

    def coin(self, p=0.4):
        return False if self.rng is None else self.rng.random() < p

    def choice(self, seq):
        """an element of `seq` from the stream (the FIRST one when unseeded)"""
        return seq[0] if self.rng is None else self.rng.choice(list(seq))

    def used(self):
        return {"ints": [f"{d['form']}:{d['value']}" for d in self.ints.used], "flags": [f"{d['form']}:{d['value']}" for d in self.flags.used]}

    def count_into(self, ctx, prefix="argform"):
        for d in self.ints.used:
            ctx.count(f"{prefix}/int given as {d['form']}")
        for d in self.flags.used:
            ctx.count(f"{prefix}/flag given as {d['form']}")
        self.ints.used.clear(); self.flags.used.clear()


def draw_aseed(rng):
    return rng.randrange(2 ** 31)


# ------------------------------------------------------------------ constructors with every size / flag in the case's forms
# Same two construction paths as qc.make_* (sizes branch / `module=` branch chosen by the checksum of the amplitude parameters, parameters
# written in place on the module branch), but every size is `A.i(...)`, `gpu` is a falsy object `A.b(False)` (or the object given as `gpu=`)
# and - on a coin of the stream - the optional arguments are passed positionally in the documented order.
def _gpu(A, gpu):
    return A.b(False) if gpu is None else gpu


def make_positive(A, n, h, am, gpu=None):
    if qc._via_module(am):
        rbm = BinaryRBM(A.i(n), A.i(h), A.b(False), _gpu(A, gpu)) if A.coin() else BinaryRBM(A.i(n), A.i(h), gpu=_gpu(A, gpu))
        st = PositiveWaveFunction(A.i(n), gpu=_gpu(A, gpu), module=rbm)
        if sizes_of(st) == (n, h):
            qc.set_rbm(st.rbm_am, am, inplace=True)
        return st
    st = PositiveWaveFunction(A.i(n), A.i(h), _gpu(A, gpu)) if A.coin() else PositiveWaveFunction(A.i(n), A.i(h), gpu=_gpu(A, gpu))
    if sizes_of(st) == (n, h):
        qc.set_rbm(st.rbm_am, am)
    return st


def make_complex(A, n, h, am, ph, unitary_dict=None, gpu=None):
    if qc._via_module(am):
        rbm = BinaryRBM(A.i(n), A.i(h), A.b(False), _gpu(A, gpu)) if A.coin() else BinaryRBM(A.i(n), A.i(h), gpu=_gpu(A, gpu))
        st = ComplexWaveFunction(A.i(n), unitary_dict=unitary_dict, gpu=_gpu(A, gpu), module=rbm)
        if sizes_of(st) == (n, h):
            qc.set_rbm(st.rbm_am, am, inplace=True)
            qc.set_rbm(st.rbm_ph, ph, inplace=True)
        return st
    if A.coin():
        st = ComplexWaveFunction(A.i(n), A.i(h), unitary_dict, _gpu(A, gpu))
    else:
        st = ComplexWaveFunction(A.i(n), A.i(h), gpu=_gpu(A, gpu), unitary_dict=unitary_dict)
    if sizes_of(st) == (n, h):
        qc.set_rbm(st.rbm_am, am)
        qc.set_rbm(st.rbm_ph, ph)
    return st


def make_density(A, n, h, a, am, ph, unitary_dict=None, gpu=None):
    if qc._via_module(am):
        if A.coin():
            rbm = PurificationRBM(A.i(n), A.i(h), A.i(a), A.b(False), _gpu(A, gpu))
        else:
            rbm = PurificationRBM(A.i(n), A.i(h), A.i(a), gpu=_gpu(A, gpu))
        st = DensityMatrix(A.i(n), unitary_dict=unitary_dict, gpu=_gpu(A, gpu), module=rbm)
        if sizes_of(st) == (n, h, a):
            qc.set_prbm(st.rbm_am, am, inplace=True)
            qc.set_prbm(st.rbm_ph, ph, inplace=True)
        return st
    if A.coin():
        st = DensityMatrix(A.i(n), A.i(h), A.i(a), unitary_dict, _gpu(A, gpu))
    else:
        st = DensityMatrix(A.i(n), A.i(h), A.i(a), gpu=_gpu(A, gpu), unitary_dict=unitary_dict)
    if sizes_of(st) == (n, h, a):
        qc.set_prbm(st.rbm_am, am)
        qc.set_prbm(st.rbm_ph, ph)
    return st


def sizes_of(st):
    """(num_visible, num_hidden[, num_aux]) as the constructed object reports AND as its parameter tensors are shaped; None if they differ"""
    try:
        out = []
        for net in [getattr(st, name) for name in st.networks]:
            if hasattr(net, "weights_W"):
                shp = (int(net.num_visible), int(net.num_hidden), int(net.num_aux))
                ok = (tuple(net.weights_W.shape) == (shp[1], shp[0]) and tuple(net.weights_U.shape) == (shp[2], shp[0])
                      and tuple(net.visible_bias.shape) == (shp[0],) and tuple(net.hidden_bias.shape) == (shp[1],) and tuple(net.aux_bias.shape) == (shp[2],))
            else:
                shp = (int(net.num_visible), int(net.num_hidden))
                ok = (tuple(net.weights.shape) == (shp[1], shp[0]) and tuple(net.visible_bias.shape) == (shp[0],)
                      and tuple(net.hidden_bias.shape) == (shp[1],))
            if not ok:
                return None
            out.append(shp)
        if any(s != out[0] for s in out) or int(st.num_visible) != out[0][0] or int(st.num_hidden) != out[0][1]:
            return None
        return out[0]
    except Exception:  # noqa: BLE001
        return None


def check_sizes(ctx, st, want, case, A, sig, theorem):
    """the state a constructor returns has the REQUESTED architecture whatever object denoted the sizes (property oracle: the statements
    quantify over architectures `num_visible x num_hidden [x num_aux]`; a constructor that silently builds another one when it is handed
    e.g. a numpy integer makes every later value a value of the wrong state).  Returns False if the case cannot be evaluated further."""
    got = sizes_of(st)
    ok = got == tuple(want)
    ctx.oracle("constructed architecture == requested sizes (sizes handed over as " + ", ".join(sorted({d["form"] for d in A.ints.used})) + ")",
               ok, case, detail={"requested": list(want), "constructed": None if got is None else list(got), "given_as": A.used()},
               sig=sig, theorem=theorem)
    return ok
