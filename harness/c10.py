"""C10 — correspondence of the metrics model (QV.Model.Metrics) with qucumber.utils.training_statistics
(fidelity, KL, NLL) on the three state types, plus the property oracles (independent numpy statements:
squared overlap, Uhlmann fidelity, direct KL / NLL through dense Kronecker rotations) evaluated on the
implementation."""
import contextlib
import io
import itertools
import math

import numpy as np

from . import argforms_a as af
from . import qc
from .common import bits, f2b, unbits
from .qc import torch

import qucumber.utils.training_statistics as ts  # noqa: E402  (after harness.qc: scipy stub / .pydeps)

try:  # a real scipy (installed by setup.sh into .pydeps) gives a second, sqrtm-based Uhlmann oracle
    from scipy.linalg import sqrtm as _sqrtm
    _sqrtm(np.eye(2))
    HAVE_SCIPY = True
except Exception:  # stub
    HAVE_SCIPY = False

FILES = [
    "qucumber/utils/training_statistics.py",
    "qucumber/utils/unitaries.py",
    "qucumber/utils/cplx.py",
    "qucumber/utils/__init__.py",
    "qucumber/callbacks/metric_evaluator.py",
    "qucumber/nn_states/neural_state.py",
    "qucumber/nn_states/wavefunction.py",
    "qucumber/nn_states/density_matrix.py",
    "qucumber/rbm/binary_rbm.py",
    "qucumber/rbm/purification_rbm.py",
]
REQUIRED_THEOREMS = [
    "C10_fid_overlap", "C10_fid_range", "C10_fid_self", "C10_fid_phase_invariant",
    "C10_kl_formula", "C10_kl_nonneg", "C10_kl_self_zero", "C10_nll_formula", "C10_kind",
    "C10_fid_mixed_partial", "C10_fid_mixed_self", "C10_fid_mixed_uhlmann", "C10_fid_mixed_range", "C10_fid_mixed_self_uhlmann", "C10_nll_perm", "C10_kl_self_zero_mixed", "C10_kl_formula_mixed",
    "C10_kl_nonneg_mixed", "C10_nll_formula_mixed", "C10_fid_rbm", "C10_kl_self_zero_rbm", "C10_pos_default_dict",
    # audit round: zero / one target probabilities, composition with C04 / C02, space permutations
    "C10_kl_single_formula", "C10_kl_single_formula_one", "C10_kl_single_close", "C10_kl_nonneg_single", "C10_kl_formula_one",
    "C10_kl_nonneg_none", "C10_kl_nonneg_mixed_none", "C10_pureBorn_dense", "C10_mixedBorn_dense", "C10_nll_born", "C10_nll_born_mixed",
    "C10_nll_formula_born", "C10_nll_formula_born_mixed", "C10_kl_nonneg_rbm", "C10_kl_nonneg_rbm_pos", "C10_kl_nonneg_mixed_rbm",
    "C10_fid_mixed_self_rbm", "C10_fid_mixed_rbm", "C10_fid_space_perm", "C10_kl_space_perm",
    # x-packages: non-default dictionaries (states constructed with unitary_dict=create_dict(**kw); the driver runs Metrics.userDict kw)
    "C10_userDict_nil", "C10_userDict_registered", "C10_userDict_untouched", "C10_userDict_unitary", "C10_userDict_Z",
    "C10_userDict_siteUs", "C10_userDict_siteUs_fast", "C10_nll_born_rbm_dict", "C10_nll_born_rbm_mixed_dict",
    "C10_nll_born_rbm_userDict", "C10_nll_born_rbm_mixed_userDict", "C10_kl_nonneg_rbm_userDict", "C10_kl_nonneg_mixed_rbm_userDict",
    "C10_kl_formula_dense", "C10_kl_formula_dense_mixed", "C10_kl_self_zero_mixed_rbm", "C10_kl_self_zero_rbm_pos",
    # extension round 2: the deprecated_kwarg alias layer in front of fidelity / KL (QV.CallForm.renameKw / aliasCall / metricBind)
    "C10_alias_rename_spec", "C10_alias_same_value", "C10_alias_forms_agree", "C10_alias_positional_shadow",
]
EXTRA_TRUSTED = [
    "np.linalg.eigvals is external to the model (its result is an argument of fidelityMixed); the harness checks every "
    "returned eigenvalue against the characteristic-polynomial residual of the matrix the implementation passed",
    "Uhlmann fidelity: proved (C10_fid_mixed_uhlmann/_range/_self_uhlmann; C10_fid_mixed_rbm/_self_rbm for the RBM density matrix under C02's NZ guard) "
    "GIVEN that np.linalg.eigvals returns the characteristic-polynomial roots of target*rho; that hypothesis is the only trusted step (checked numerically by "
    "the harness on every case); the value is additionally compared with two independent numpy oracles (eigh sandwich, singular values of sqrt(rho) sqrt(sigma)) "
    "and with scipy's sqrtm when scipy is installed",
    "KL formula / non-negativity theorems assume the clamp of probs_to_logits is inactive on the MODEL's Born probabilities (InGuard, eps = 2^-52) and that "
    "every TARGET Born probability is exactly 0, exactly 1 or inside [eps, 1-eps] (TGuard1); target probabilities in (0, eps) or (1-eps, 1) are outside the "
    "theorems (covered by the clamped numpy oracle and the model comparison only)",
]
THEOREMS = {
    "fid_pure": "C10_fid_overlap, C10_fid_range, C10_fid_self, C10_fid_phase_invariant",
    "fid_mixed": "C10_fid_mixed_uhlmann, C10_fid_mixed_range",
    "kl": "C10_kl_formula, C10_kl_formula_one, C10_kl_formula_dense, C10_kl_nonneg, C10_kl_self_zero, C10_userDict_registered",
    "nll": "C10_nll_formula, C10_nll_formula_born, C10_nll_born_rbm_userDict",
    "kind": "C10_kind",
}
RULE = ("[extension round 2: op alias = fidelity / KL through ~30 call forms mixing positional, target=, deprecated target_psi= / target_rho= and ignored keywords, against QV.CallForm.metricBind] case = (op in {fidelity, KL, NLL}, state kind in {pos, cplx, dens}, n<=3 (4 thorough), h, a, parameters = scale*N(0,1) with all "
        "biases non-zero, target class in {random complex normalised, own state, e^{i alpha} x own/random, real, basis state, GHZ, W, product state "
        "(Z/X/Y eigenstates per site), random/pure/low-rank/basis-state/GHZ/own density matrix}, bases in {None, list over {X,Y,Z}^n, dict target vs "
        "single target}, CALL FORM in {positional, target=, deprecated target_psi=/target_rho=, extra ignored kwargs, space= (keyword / third positional) "
        "canonical, space= permuted with the target permuted alike (bases=None), through a real MetricEvaluator.on_epoch_end} x bases container in "
        "{list[str], tuple, 1-D ndarray of strings, 2-D ndarray of letters, list of lists of letters, list with a repeated basis}, sample multisets with "
        "per-sample bases incl. all-Z rows and duplicates; optional PRELUDE = the caller obtained generate_hilbert_space() from a state of that "
        "size and modified the returned tensor in place (flip_spin, chain buffer, edits, numpy view) before the metric is evaluated "
        "with space=None on the same or another state object; and/or the state object first held other parameters, was evaluated, and was "
        "re-parametrised in place); ARGUMENT FORMS (round 5, key `aseed` = seed of the case's stream, harness/argforms_a.py): every integer option "
        "(constructor sizes num_visible / num_hidden / num_aux of the state and RBM constructors, `size` of generate_hilbert_space - also as the "
        "caller-made `space=` of a metric, call form space_gen -, `period` of MetricEvaluator, `epoch` of on_epoch_end, `index` of get_value, the "
        "ignored extra keyword `epoch`, `i` of flip_spin / `k` of sample in the prelude) is a Python int, np.int64/int32/intp/uint8, a 0-d integer "
        "numpy array or a 0-d integer torch tensor, every boolean option (`gpu`, `zero_weights`, `verbose` of MetricEvaluator, `expand` of rho, "
        "`overwrite` of sample, the ignored extra keyword `verbose`) a bool singleton, 0/1, numpy bool, numpy comparison result, 0-d numpy / torch "
        "bool, by keyword or positionally; the evaluator form also calls on_epoch_end at an epoch that is no multiple of the period (nothing may be "
        "recorded) and, on a coin, once before with the state's parameters changed in place (the record at index 0 must be that state's value, "
        "the one at -1 / 1 the case's); the model is told the VALUES; cases without `aseed` replay with plain ints / bools by keyword; non-trivial iff some bias != 0 and (target not real or a basis has a Y or "
        "X) ; malformed stream and call forms the code rejects (empty bases, key mismatch, mask length mismatch, empty samples, alias+target, dict target "
        "with 2-D ndarray bases, sample_bases as list[str]): outside the property's quantifier, recorded as outcome counters only, no verdict; distinct by hash of the case; "
        "DICTIONARIES (x-packages): for every n a second ComplexWaveFunction / DensityMatrix state is constructed with unitary_dict= holding user-registered letters "
        "(H, S, T, random unitaries Q, R, exact gates N, P, V, W; X or Y overridden / swapped in about half; Z sometimes registered explicitly as the identity, never "
        "as anything else), built as create_dict(**tensors), create_dict(**nested int lists) or a hand-made dict (state key `udict`, `udict_form`); its whole KL / NLL "
        "sweep draws bases over defaults + registered letters (every registered letter at least once); the model gets the keyword entries (Metrics.userDict); "
        "quick tier: additionally one n = 4 state per state type and dictionary variant")

EPS = float(torch.finfo(torch.float64).eps)
S2 = 1.0 / np.sqrt(2.0)
DICT = {  # independent re-statement of create_dict()
    "X": S2 * np.array([[1, 1], [1, -1]], dtype=complex),
    "Y": S2 * np.array([[1, -1j], [1, 1j]], dtype=complex),
    "Z": np.eye(2, dtype=complex),
}


def udict_np(s):
    """the dictionary the state of descriptor `s` rotates with, as numpy matrices: the defaults, overridden / extended by the entries the
    state was constructed with (`s["udict"]`, only for the state types that take `unitary_dict=`); independent of the library"""
    d = dict(DICT)
    if s is not None and s.get("udict") and s["kind"] != "pos":
        for k, m in s["udict"].items():
            d[k] = np.asarray(m["re"], dtype=float) + 1j * np.asarray(m["im"], dtype=float)
    return d


def dense_U(basis, s=None):
    """dense Kronecker product of the registered single-site matrices of the letters of `basis` (site 0 leftmost)"""
    d = udict_np(s)
    U = np.array([[1.0 + 0j]])
    for b in basis:
        U = np.kron(U, d[b])
    return U


def udict_torch(s):
    """the `unitary_dict=` argument for the state constructors: None (default dictionary) or a dictionary with the user's letters, built as
    `create_dict(**extra)` with pair tensors / nested lists, or by hand as a plain dict(str, tensor) holding defaults + extras"""
    if not s.get("udict") or s["kind"] == "pos":
        return None
    import qucumber.utils.unitaries as un
    form = s.get("udict_form", "create_dict/tensor")
    pairs = {k: [m["re"], m["im"]] for k, m in s["udict"].items()}
    if form == "create_dict/list":
        # nested lists of Python INTS (create_dict converts a list of Python floats through float32: C04's observation; not C10's subject)
        return un.create_dict(**{k: [[[int(x) for x in row] for row in part] for part in v] for k, v in pairs.items()})
    tens = {k: torch.tensor(v, dtype=torch.double) for k, v in pairs.items()}
    if form == "plain":
        d = {k: cvec_t(v) for k, v in DICT.items()}  # hand-made dict(str, tensor): defaults written out by the caller
        d.update(tens)
        return d
    return un.create_dict(**tens)


def udict_req(s):
    """the keyword entries as the driver takes them: [[letter, [[c00, c01], [c10, c11]]]], c = [re bits, im bits]"""
    if not s.get("udict") or s["kind"] == "pos":
        return {}
    return {"dict": [[k, [[[f2b(m["re"][r][c]), f2b(m["im"][r][c])] for c in range(2)] for r in range(2)]] for k, m in s["udict"].items()]}


def rand_unitary2(rng):
    a = np.array([[complex(rng.gauss(0, 1), rng.gauss(0, 1)) for _ in range(2)] for _ in range(2)])
    q, r = np.linalg.qr(a)
    return q * (np.diag(r) / np.abs(np.diag(r)))


def m2json(m):
    m = np.asarray(m, dtype=complex)
    return {"re": m.real.tolist(), "im": m.imag.tolist()}


UDICT_FORMS = ("create_dict/tensor", "create_dict/list", "plain")  # how the caller built the `unitary_dict=` argument
EXACT_POOL = {  # unitaries with entries in {0, +-1, +-i}: can be registered as nested lists of ints
    "N": np.array([[0, 1], [1, 0]], dtype=complex), "P": np.array([[1, 0], [0, 1j]], dtype=complex),
    "W": np.array([[0, -1j], [1j, 0]], dtype=complex), "V": np.array([[0, 1j], [1, 0]], dtype=complex),
}


def gen_udict(rng, exact=False):
    """user-registered letters: H (Hadamard), S (the S-dagger-then-Hadamard change to the Y basis with the other sign convention), Q, R (random
    unitaries), optionally an OVERRIDDEN X or Y (random unitary / the two swapped). Z is never overridden (non-identity Z: finding F20 of C04)."""
    if exact:
        d = {k: EXACT_POOL[k] for k in rng.sample(sorted(EXACT_POOL), rng.choice([1, 2, 3]))}
        if rng.random() < 0.4:
            d[rng.choice("XY")] = EXACT_POOL[rng.choice("NVW")]
        if rng.random() < 0.25:
            d["Z"] = np.eye(2, dtype=complex)  # Z registered explicitly, as the identity (inside C10_userDict_Z's hypothesis)
        return {k: m2json(v) for k, v in d.items()}
    d = {}
    pool = {"H": S2 * np.array([[1, 1], [1, -1]], dtype=complex),
            "S": S2 * np.array([[1, 1j], [1, -1j]], dtype=complex),
            "Q": rand_unitary2(rng), "R": rand_unitary2(rng),
            "T": np.array([[1, 0], [0, np.exp(0.25j * np.pi)]], dtype=complex) @ (S2 * np.array([[1, 1], [1, -1]], dtype=complex))}
    for k in rng.sample(sorted(pool), rng.choice([1, 2, 3])):
        d[k] = pool[k]
    if "Q" not in d and rng.random() < 0.6:
        d["Q"] = pool["Q"]
    r = rng.random()
    if r < 0.25:
        d["X"] = rand_unitary2(rng)
    elif r < 0.5:
        d["Y"] = rand_unitary2(rng)
    elif r < 0.6:
        d["X"], d["Y"] = DICT["Y"], DICT["X"]
    if rng.random() < 0.25:
        d["Z"] = np.eye(2, dtype=complex)  # Z registered explicitly, as the identity (inside C10_userDict_Z's hypothesis)
    return {k: m2json(v) for k, v in d.items()}


# ---------------------------------------------------------------- state construction
class SkipCase(Exception):
    """the case cannot be evaluated further (the reason has been reported through ctx.oracle by whoever raises this)"""


def plain(A):
    """no argument-form stream: the calls are made exactly as before round 5 (Python ints / bool singletons by keyword)"""
    return A is None or A.aseed is None


def make_state(s, A=None):
    """`A`: the case's stream of argument forms (harness/argforms_a.py): every size / `gpu` of the state and RBM constructors is handed over in
    the case's forms, keyword or positional; None / unseeded = the plain calls of qc.make_*"""
    ud = udict_torch(s)
    if plain(A):
        if s["kind"] == "pos":
            return qc.make_positive(s["n"], s["h"], s["am"])
        if s["kind"] == "cplx":
            return qc.make_complex(s["n"], s["h"], s["am"], s["ph"], unitary_dict=ud)
        return qc.make_density(s["n"], s["h"], s["a"], s["am"], s["ph"], unitary_dict=ud)
    if s["kind"] == "pos":
        return af.make_positive(A, s["n"], s["h"], s["am"])
    if s["kind"] == "cplx":
        return af.make_complex(A, s["n"], s["h"], s["am"], s["ph"], unitary_dict=ud)
    return af.make_density(A, s["n"], s["h"], s["a"], s["am"], s["ph"], unitary_dict=ud)


def want_sizes(s):
    return (s["n"], s["h"], s["a"]) if s["kind"] == "dens" else (s["n"], s["h"])


def build_state(ctx, s, case, A):
    """construct the state of the case in the case's argument forms and check that it has the REQUESTED architecture (the metrics are
    statements about "the model state" the caller asked for); raises SkipCase (already reported) otherwise"""
    st = make_state(s, A)
    if plain(A):
        return st
    if not af.check_sizes(ctx, st, want_sizes(s), case, A, f"{s['kind']}/ctor-sizes",
                          "C10_fid_rbm / C10_kl_self_zero_rbm / C10_nll_born_rbm (stated for the RBM state of the architecture the caller asked for)"):
        raise SkipCase("constructed architecture != requested sizes")
    return st


def state_req(s):
    r = {"kind": s["kind"], "n": s["n"], "h": s["h"], "am": qc.pbits(s["am"])}
    if s["kind"] != "pos":
        r["ph"] = qc.pbits(s["ph"])
    if s["kind"] == "dens":
        r["a"] = s["a"]
    r.update(udict_req(s))
    return r


def gen_state(rng, kind, n, scale):
    h = rng.choice([1, 2, 3])
    if kind == "dens":
        a = rng.choice([1, 2])
        return {"kind": kind, "n": n, "h": h, "a": a, "scale": scale,
                "am": qc.rand_prbm_params(rng, n, h, a, scale), "ph": qc.rand_prbm_params(rng, n, h, a, scale)}
    s = {"kind": kind, "n": n, "h": h, "scale": scale, "am": qc.rand_rbm_params(rng, n, h, scale), "ph": None}
    if kind == "cplx":
        s["ph"] = qc.rand_rbm_params(rng, n, h, max(scale, 1.0))
    return s


def impl_state(st, s, A=None, ctx=None, case=None):
    """normalised state of the implementation as numpy: (psi_hat or None, rho_hat, Z); evaluated on an enumeration built HERE
    (not by the library, whose enumeration is part of what is being checked).  With a stream of argument forms `A` the `expand` option of
    DensityMatrix.rho (value True: the full matrix) is handed over in the case's form, keyword or third positional."""
    space = torch.tensor(qc.all_states(s["n"]), dtype=torch.double).reshape(2 ** s["n"], s["n"])
    Z = float(st.normalization(space))
    if s["kind"] == "dens":
        if plain(A):
            r = st.rho(space, space).detach().numpy()
        else:
            eo, ed = A.b_desc(True)
            r = (st.rho(space, space, eo) if ed["pos"] else st.rho(space, space, expand=eo)).detach().numpy()
            N = 2 ** s["n"]
            if tuple(r.shape) != (2, N, N):
                if ctx is not None:
                    ctx.oracle("rho(space, space, expand=<true value>) is the full density matrix", False, case,
                               detail={"expand": ed, "shape": list(r.shape)}, sig="dens/rho-expand-form", theorem="C10_mixedBorn_dense")
                raise SkipCase("rho(expand=truthy) is not a matrix")
        rho = (r[0] + 1j * r[1]) / Z
        return None, rho, Z
    p = st.psi(space).detach().numpy()
    psi = (p[0] + 1j * p[1]) / math.sqrt(Z)
    return psi, np.outer(psi, psi.conj()), Z


def cvec_t(v):
    v = np.asarray(v, dtype=complex)
    return torch.tensor(np.stack([v.real, v.imag]), dtype=torch.double)


def cjson(v):
    v = np.asarray(v, dtype=complex)
    return {"re": v.real.tolist(), "im": v.imag.tolist()}


def cfrom(j):
    return np.asarray(j["re"], dtype=float) + 1j * np.asarray(j["im"], dtype=float)


def cbits(j):
    return {"re": bits(j["re"]), "im": bits(j["im"])}


def rand_cvec(rng, N, real=False):
    v = np.array([rng.gauss(0, 1) + (0 if real else 1j * rng.gauss(0, 1)) for _ in range(N)])
    return v / np.linalg.norm(v)


def rand_dm(rng, N, rank=None):
    r = rank or N
    A = np.array([[rng.gauss(0, 1) + 1j * rng.gauss(0, 1) for _ in range(r)] for _ in range(N)])
    R = A @ A.conj().T
    R = (R + R.conj().T) / 2
    return R / np.trace(R).real


def psd_sqrt(A):
    w, V = np.linalg.eigh((A + A.conj().T) / 2)
    return (V * np.sqrt(np.clip(w, 0, None))) @ V.conj().T


def uhlmann(rho, sigma):
    s = psd_sqrt(rho)
    w = np.linalg.eigvalsh(s @ sigma @ s)
    return float(np.sum(np.sqrt(np.clip(w, 0, None))) ** 2)


def uhlmann_svd(rho, sigma):
    """second route: F = (nuclear norm of sqrt(rho) sqrt(sigma))^2 through singular values"""
    return float(np.sum(np.linalg.svd(psd_sqrt(rho) @ psd_sqrt(sigma), compute_uv=False)) ** 2)


def clog(x):
    return np.log(np.clip(x, EPS, 1 - EPS))


def call(f):
    """run the implementation; -> ('ok', value, typename) | ('err', ExceptionName, None)"""
    try:
        r = f()
    except Exception as e:  # noqa: BLE001
        call.last_message = f"{type(e).__name__}: {e}"[:300]
        return ("err", type(e).__name__, None)
    tn = type(r).__name__
    try:
        v = float(r)
    except Exception:  # noqa: BLE001
        v = float("nan")
    return ("ok", v, tn)


call.last_message = None


def compare_res(ctx, name, out, mres, case, scale, theorem, sig, prop_value=True):
    """compare implementation outcome with the model's Res / error"""
    if out[0] == "err":
        if "error" in mres:  # refused by both: WHICH exception is raised is not constrained by the property
            ctx.count(f"{name}: refused by implementation and model (" + ("same error kind" if out[1] == mres["error"] else "other error kind") + ")")
            return
        ctx.point(name + ".error", "property", out[1], None, case, exact=True, sig=sig + "/error", theorem=theorem)
        return
    if "error" in mres:
        ctx.point(name + ".error", "property", None, mres["error"], case, exact=True, sig=sig + "/error", theorem=theorem)
        return
    ctx.point(name, "property" if prop_value else "aux", [out[1]], unbits([mres["val"]]), case, scale=scale, theorem=theorem, sig=sig)
    # "returns a plain real number": the verdict is the kind oracle of every case (Python float or numpy float64: IsNumber of QV/Props/C10.lean accepts
    # both); WHICH of the two a code path returns is not constrained (`float(x)` around a return is harmless) -> informational counter
    ctx.count(f"{name}: return kind " + ("agrees with the model's Kind" if out[2] == mres["kind"] else f"differs from the model's Kind (impl {out[2]}, model {mres['kind']})"))


POS_SIG = "PositiveWaveFunction/rotated-bases/AttributeError-unitary_dict"


def pos_no_dict(ctx, case, out, what):
    """Former finding F10 (fixed by 4aa6393): KL over a list of bases / NLL with a rotated group on a PositiveWaveFunction raised
    AttributeError (the class has no `unitary_dict`). The model (`effDict`) now rotates with the default dictionary; if the
    implementation raises there again it is reported under the old signature (which is no longer a listed known finding)."""
    ctx.count("pos.rotated_bases->AttributeError")
    ctx.oracle(f"{what} returns a plain real number", False, case, detail={"error": out[1]}, sig=POS_SIG, theorem="C10_pos_default_dict")


def known_witness(ctx):
    """the fixed F10 witness, replayed on every run (implementation + model)"""
    am = {"W": [[0.3], [-0.2]], "b": [0.1], "c": [0.2, -0.4]}
    s = {"kind": "pos", "n": 1, "h": 2, "scale": 1.0, "am": am, "ph": None}
    kl_case(ctx, {"op": "kl", "state": s, "tclass": "basis_state", "target": {"re": [1.0, 0.0], "im": [0.0, 0.0]}, "form": "once",
                  "bases": ["X"], "keys": None})
    nll_case(ctx, {"op": "nll", "state": s, "samples": [[0]], "sample_bases": ["X"], "perm": None})


def nontrivial_state(s):
    return any(x != 0 for x in s["am"]["b"]) and any(x != 0 for x in s["am"]["c"])



# ---------------------------------------------------------------- call forms (audit C10-2)
JUNK = {"foo": 3, "epoch": 7, "verbose": False}  # extra keyword arguments: documented "Will be ignored"
TARGET_FORMS = ("positional", "kw", "deprecated_psi", "deprecated_rho", "junk", "space", "space_pos", "space_perm", "space_gen", "evaluator")
NLL_FORMS = ("positional", "kw", "junk", "space", "space_perm", "space_gen", "evaluator")
CONTAINERS = ("list", "nd1", "nd2")  # list[str] (the quantifier's form), numpy.ndarray of strings / 2-D of letters (the documented type; what load_data yields)
INFO_CONTAINERS = ("tuple", "lol")   # neither in the quantifier nor documented: outcome counters only, no verdict


def own_space(n):
    """the enumeration of the Hilbert space in canonical order, built HERE"""
    return torch.tensor(qc.all_states(n), dtype=torch.double).reshape(2 ** n, n)


def perm_target(t, perm, mixed):
    """coefficients of the target listed in the order space[perm]"""
    return t[np.ix_(perm, perm)] if mixed else t[perm]


def as_container(bases, how, n):
    """the list of basis strings in the container type `how` (documented type of `bases`: numpy.ndarray; load_data yields a 2-D array of letters)"""
    if bases is None or how in (None, "list"):
        return bases
    if how == "tuple":
        return tuple(bases)
    if how == "nd1":
        return np.array(bases)
    if how == "nd2":
        return np.array([list(b) for b in bases]).reshape(len(bases), n)
    if how == "lol":
        return [list(b) for b in bases]
    raise ValueError(how)


def junk_kwargs(A, evaluator=False):
    """the extra (ignored) keyword arguments; with a stream of forms the integer / boolean ones in the case's forms.  For the evaluator the
    keyword `verbose` is the MetricEvaluator's own option and is handed over separately."""
    if plain(A):
        return dict(JUNK)
    j = {"foo": A.i(3), "epoch": A.i(7)}
    if not evaluator:
        j["verbose"] = A.b(False)
    return j


def same(a, b):
    return a is b or (type(a) is type(b) and a == b)


BOOK = []  # deviations of the MetricEvaluator's bookkeeping seen while a metric was evaluated through it (C17's subject; counters only)


def book(msg):
    BOOK.append(msg)


EPOCH_FORMS_FOR_TENSOR_PERIOD = tuple(f for f in qc.INT_FORMS if f != "np0d")  # `np.array(e) % torch.tensor(p)` is a TypeError of numpy / torch


def evaluate_through_callback(fn, st, call, n, main_name, main, kw, A):
    """the way metrics are called during training: callbacks/metric_evaluator.py:133  metric_fn(nn_state, **metric_kwargs),
    every keyword argument of the evaluator goes to every metric (so each metric also receives the others' arguments)"""
    from qucumber.callbacks import MetricEvaluator

    others = {"samples": torch.zeros(1, n, dtype=torch.double)} if main_name == "target" else \
        {"target": torch.zeros(2, 2 ** n, dtype=torch.double), "bases": ["Z" * n]}
    period = call.get("period", 1)
    epoch = period * call.get("k", 1)
    if plain(A):
        me = MetricEvaluator(period, {"m": fn}, **{main_name: main}, **kw, **others, **JUNK)
        me.on_epoch_end(st, epoch)
        if len(me) != 1 or "m" not in me.last or not same(me.get_value("m"), me.last["m"]) or list(me.epochs) != [epoch]:
            book("MetricEvaluator bookkeeping (plain forms)")
        return me.last["m"] if "m" in me.last else fn(st, **{main_name: main}, **kw)
    # integer `period` / `epoch` / `index` and boolean `verbose` in the case's forms (verbose: keyword or third positional); what a true
    # `verbose` prints is not constrained by the property (stdout is swallowed)
    po, pd = A.i_desc(period)
    eforms = EPOCH_FORMS_FOR_TENSOR_PERIOD if pd["form"] == "t0d" else qc.INT_FORMS
    vo, vd = A.b_desc(bool(call.get("verbose", False)))
    mkw = dict({main_name: main}, **kw, **others, **junk_kwargs(A, evaluator=True))
    with contextlib.redirect_stdout(io.StringIO()):
        me = MetricEvaluator(po, {"m": fn}, vo, **mkw) if vd["pos"] else MetricEvaluator(po, {"m": fn}, verbose=vo, **mkw)
        want_epochs, v0 = [], None
        if period > 1:   # an epoch that is no multiple of the period: the evaluator does not evaluate
            off = epoch + 1 + A.choice(range(period - 1))
            me.on_epoch_end(st, A.i(off, eforms))
            if len(me) != 0 or me.last != {}:
                book(f"MetricEvaluator(period={period}) evaluated at an epoch that is no multiple of the period")
        if A.coin(0.6):
            # an earlier record (epoch 0) taken while the SAME state object held other parameters (training goes on between two evaluations):
            # the record at index 0 must stay that state's value
            saved = st.rbm_am.visible_bias.data.clone()
            st.rbm_am.visible_bias.data += 0.25
            try:
                v0 = fn(st, **{main_name: main}, **kw)
                me.on_epoch_end(st, A.i(0, eforms))
            finally:
                st.rbm_am.visible_bias.data.copy_(saved)
            want_epochs.append(0)
        me.on_epoch_end(st, A.i(epoch, eforms))   # (last: the eigvals spy of the mixed fidelity keeps the matrix of the last evaluation)
        want_epochs.append(epoch)
    # the evaluator's bookkeeping (which epochs are recorded, get_value by index) is C17's subject: deviations are informational counters HERE;
    # C10 only needs the value the metric returned when called the way the evaluator calls it
    if "m" not in me.last:
        book("MetricEvaluator did not evaluate at an epoch that is a multiple of its period (metric called directly instead)")
        return fn(st, **{main_name: main}, **kw)
    last = me.last["m"]
    try:
        if len(me) != len(want_epochs) or [int(e) for e in me.epochs] != want_epochs:
            book("MetricEvaluator records at other epochs than those due")
        if not same(me.get_value("m"), last):
            book("MetricEvaluator.get_value() is not the last value")
        if not same(me.get_value("m", A.i(-1)), last) or not same(me.get_value("m", index=A.i(len(want_epochs) - 1)), last):
            book("MetricEvaluator.get_value(index of the last record) is not the last value")
        if v0 is not None:
            g0 = me.get_value("m", A.i(0)) if A.coin(0.5) else me.get_value("m", index=A.i(0))
            g0b = me.get_value("m", A.i(-2))
            if not (abs(float(g0) - float(v0)) <= 1e-12 * max(1.0, abs(float(v0)))) or not same(g0b, g0):
                book("MetricEvaluator.get_value(index 0) is not the value recorded first")
    except Exception as e:  # noqa: BLE001  (bookkeeping only)
        book(f"MetricEvaluator bookkeeping call raised {type(e).__name__}")
    return last


def invoke(fn, st, call, n, main_name, main, extra, A=None):
    """evaluate metric `fn` on `st` in call form `call["form"]`. `main` = the target (fidelity, KL) / the samples (NLL), whose keyword is
    `main_name`; `extra` = the other keyword arguments of the case (bases= / sample_bases=). For "space_perm" the caller has already
    listed `main` in the order space[perm].  `A`: the case's stream of argument forms (None: plain Python ints / bools by keyword)."""
    form = (call or {}).get("form", "positional")
    kw = dict(extra)
    if form == "positional":
        return fn(st, main, **kw)
    if form == "kw":
        return fn(st, **{main_name: main}, **kw)
    if form == "deprecated_psi":
        return fn(st, target_psi=main, **kw)
    if form == "deprecated_rho":
        return fn(st, target_rho=main, **kw)
    if form == "junk":
        return fn(st, main, **kw, **junk_kwargs(A))
    if form == "space":
        return fn(st, main, space=own_space(n), **kw)
    if form == "space_pos":
        return fn(st, main, own_space(n), **kw)
    if form == "space_perm":
        return fn(st, main, space=own_space(n)[call["perm"]], **kw)
    if form == "space_gen":
        # the documented way to obtain `space`: the caller asks the state for the enumeration, naming the size (= number of visible units) in
        # whatever integer object it has in hand, keyword or positional; the metric receives it as keyword or third positional argument
        if plain(A):
            return fn(st, main, space=st.generate_hilbert_space(size=n), **kw)
        sp = st.generate_hilbert_space(A.i(n)) if A.coin(0.5) else st.generate_hilbert_space(size=A.i(n))
        return fn(st, main, sp, **kw) if A.coin(0.5) else fn(st, main, space=sp, **kw)
    if form == "evaluator":
        return evaluate_through_callback(fn, st, call, n, main_name, main, kw, A)
    raise ValueError(form)


def rejected_forms(ctx, st, s, t):
    """call forms the code REJECTS (or that lie outside the documented argument types): outside the property's quantifier, so only the
    outcome class is recorded (input-distribution counters); no point, no oracle, no verdict."""
    n = s["n"]
    mixed = s["kind"] == "dens"
    T = cvec_t(t)
    U = lambda b: dense_U(b, s)  # noqa: E731
    b1, b2 = "X" * n, "Z" * n
    d = {b: cvec_t(U(b) @ t @ U(b).conj().T if mixed else U(b) @ t) for b in (b1, b2)}
    samp = own_space(n)[: 2]
    probes = {
        "fidelity(target=, target_psi=)": lambda: ts.fidelity(st, target=T, target_psi=T),
        "fidelity(t, target_rho=)": lambda: ts.fidelity(st, T, target_rho=T),
        "KL(dict, bases=2-D ndarray)": lambda: ts.KL(st, d, bases=as_container([b1, b2], "nd2", n)),
        "KL(dict, bases=list of lists)": lambda: ts.KL(st, d, bases=as_container([b1, b2], "lol", n)),
        "NLL(sample_bases=list[str])": lambda: ts.NLL(st, samp, sample_bases=[b1, b2]),
        "NLL(sample_bases=1 row for 2 samples)": lambda: ts.NLL(st, samp, sample_bases=as_container([b1], "nd2", n)),
    }
    for name, f in probes.items():
        out = call(f)
        ctx.count(f"rejected-form:{name} -> {out[1] if out[0] == 'err' else 'value'}")

# ---------------------------------------------------------------- the deprecated_kwarg alias layer (extension round 2)
def decorated_functions():
    """every function of the package wrapped by `deprecated_kwarg` (found by introspection: the wrapper's closure holds the decorator
    instance) -> {qualified name: [[alias, true_name]... in decorator order]}"""
    import importlib, pkgutil, sys
    import qucumber
    import qucumber.utils as qu
    for m in pkgutil.walk_packages(qucumber.__path__, "qucumber."):
        try:
            importlib.import_module(m.name)
        except Exception:  # noqa: BLE001  (plotting back ends etc.)
            pass
    found = {}
    for mname, mod in list(sys.modules.items()):
        if not mname.startswith("qucumber") or mod is None:
            continue
        for obj in list(vars(mod).values()):
            if callable(obj) and getattr(obj, "__closure__", None) and hasattr(obj, "__wrapped__"):
                for c in obj.__closure__:
                    try:
                        d = c.cell_contents
                    except ValueError:
                        continue
                    dk = getattr(qu, "deprecated_kwarg", None)   # private layout (recorded only): any of it may be gone after a rewrite
                    if isinstance(dk, type) and isinstance(d, dk) and isinstance(getattr(d, "aliases", None), dict):
                        found[f"{obj.__module__}.{obj.__name__}"] = [[a, t] for a, t in d.aliases.items()]
    return found


ALIAS_REFS = {"state": 0, "T0": 1, "T1": 2, "space": 3, "bases": 4, "junk": 5}


def alias_forms(rng, is_kl, with_bases, aliases):
    """call forms (name, pos, kw) over the tags of ALIAS_REFS: every deprecated name alone / with other keywords / with the new name (both
    orders) / with the other deprecated name / positionally shadowed; the canonical forms; too few / too many arguments; random mixes"""
    F = []
    extra = [["space", "space"]] + ([["bases", "bases"]] if is_kl and with_bases else [])
    for a in aliases:
        F.append((f"{a} alone", ["state"], [[a, "T0"]]))
        F.append((f"{a} + other keywords", ["state"], extra[:1] + [[a, "T1"]] + extra[1:]))
        F.append((f"{a} + nn_state by keyword", [], [[a, "T1"], ["nn_state", "state"]]))
        F.append((f"{a} + ignored extra keyword", ["state"], [["foo", "junk"], [a, "T0"]]))
        F.append((f"{a} after target=", ["state"], [["target", "T0"], [a, "T1"]]))
        F.append((f"{a} before target=", ["state"], [[a, "T1"], ["target", "T0"]]))
        F.append((f"{a} shadowed by positional target", ["state", "T0"], [[a, "T1"]]))
        F.append((f"{a} shadowed by positional target, space positional", ["state", "T0", "space"], [[a, "T0"]]))
        F.append((f"{a} without nn_state", [], [[a, "T0"]]))
        for b in aliases:
            if b != a:
                F.append((f"{a} with {b}", ["state"], [[a, "T0"], [b, "T1"]]))
    F.append(("canonical positional", ["state", "T1"], []))
    F.append(("canonical target=", ["state"], [["target", "T1"]] + extra))
    F.append(("all positional", ["state", "T0", "space"] + (["bases"] if is_kl and with_bases else []), []))
    F.append(("no target", ["state"], extra))
    F.append(("too many positional", ["state", "T0", "space", "space", "junk"] if not is_kl else ["state", "T0", "space", "space", "junk", "junk"], []))
    F.append(("space twice", ["state", "T0", "space"], [["space", "space"]]))
    names = ["target"] + list(aliases) + ["space", "foo"] + (["bases"] if is_kl and with_bases else [])
    for _ in range(4):
        npos = rng.choice([0, 1, 1, 1, 2, 3])
        pos = ["state", rng.choice(["T0", "T1"]), "space"][:npos]
        kw = []
        for nm in rng.sample(names, rng.randrange(0, 4)):
            kw.append([nm, {"space": "space", "foo": "junk", "bases": "bases"}.get(nm) or rng.choice(["T0", "T1"])])
        if npos == 0 and rng.random() < 0.7:
            kw.append(["nn_state", "state"])
        F.append(("random mix", pos, kw))
    return F


def alias_case(ctx, case, st=None, A=None):
    """`fidelity` / `KL` through every call form of `case["forms"]`: accepted-or-refused and the value against the model's binding
    (QV.CallForm.metricBind = deprecated_kwarg.rename, then Python's binding): the value of an accepted form must be the value of the
    canonical call `fn(nn_state, target, space=, bases=)` on the arguments the model binds (C10_alias_same_value)."""
    import warnings
    s = case["state"]
    n = s["n"]
    st = st if st is not None else make_state(s)
    is_kl = case["fn"] == "KL"
    fn = ts.KL if is_kl else ts.fidelity
    vals = {"state": st, "T0": cvec_t(cfrom(case["targets"][0])), "T1": cvec_t(cfrom(case["targets"][1])), "space": own_space(n),
            "bases": case.get("bases"), "junk": 7}
    ctx.case(case, nontrivial=nontrivial_state(s), sample={"op": "alias", "fn": case["fn"], "kind": s["kind"], "n": n, "forms": len(case["forms"])})
    ctx.count("op=alias"); ctx.count(f"alias.fn={case['fn']}"); ctx.count(f"alias.kind={s['kind']}")
    if case.get("introspect"):
        try:
            found = decorated_functions()
        except Exception as e:  # noqa: BLE001  (introspection of private layout must never stop the check)
            found = {"introspection failed": type(e).__name__}
        ctx.count(f"alias.decorated functions found by introspection: {sorted(found)}")
        if ctx.driver is not None:
            m = ctx.driver.call("c10.alias_call", kl=False, pos=[], kw=[])
            want = {"qucumber.utils.training_statistics.fidelity": m["aliases"], "qucumber.utils.training_statistics.KL": m["aliases"]}
            # third audit B-17: HOW the renaming is attached (closure cell, __wrapped__, a deprecated_kwarg instance with .aliases) is private
            # layout - a function-style decorator, an inline kwargs.pop, no functools.wraps keep every call form: recorded only
            ctx.info("alias.table (found by introspection of the decorator objects)", found, want)
    for (name, pos, kw) in case["forms"]:
        sub = dict(case, forms=[[name, pos, kw]], introspect=False)
        sig = f"alias/{case['fn']}/{name}"
        ctx.count(f"alias.form={name}")
        with warnings.catch_warnings(record=True) as wlist:
            warnings.simplefilter("always")
            out = call(lambda: fn(*[vals[t] for t in pos], **{k: vals[t] for k, t in kw}))
        ctx.count("alias.warning emitted (informational)" if any("deprecated" in str(w.message) for w in wlist) else "alias.no warning (informational)")
        if ctx.driver is None:
            continue
        m = ctx.driver.call("c10.alias_call", kl=is_kl, pos=[{"ref": ALIAS_REFS[t]} for t in pos], kw=[[k, {"ref": ALIAS_REFS[t]}] for k, t in kw])
        # third audit B-2 / B-17: the deprecated names target_psi= / target_rho= are in no docstring and C10 never mentions them (finishing the
        # deprecation keeps the property); junk keywords and malformed calls likewise.  Only forms written with the DOCUMENTED parameter names
        # (positional / nn_state= / target= / space= / bases=) are judged; everything else is recorded with ctx.info.
        documented = all(k in ("nn_state", "target", "space", "bases") for k, _ in kw)
        if "error" in m:
            if out[0] == "err":
                ctx.count("alias: refused by implementation and model")
            else:  # the property does not say which calls must be refused: recorded only
                ctx.info(f"alias.refused ({name})", "value", "refused")
            continue
        tag = {v: k for k, v in ALIAS_REFS.items()}
        b = {p: (None if v is None else vals[tag[v["ref"]]]) for p, v in m["bound"].items()}
        assert b["nn_state"] is st
        canon = call(lambda: fn(st, b["target"], space=b["space"], bases=b["bases"]) if is_kl else fn(st, b["target"], space=b["space"]))
        if canon[0] != "ok":   # the BODY refuses these arguments: not a matter of the call form (judged by the metric points, not here)
            ctx.count("alias: canonical call refused (no verdict)")
            continue
        if out[0] == "err":  # a code path the model accepts does not return a number
            if documented:
                ctx.point("alias.accepted", "property", out[1], "value", sub, exact=True, sig=sig + "/accepted", theorem="C10_alias_same_value")
            else:
                ctx.info(f"alias.accepted ({name}: deprecated / undocumented keyword)", "refused", "value")
            continue
        ctx.count("alias: accepted by implementation and model" + ("" if not any(k in ("target_psi", "target_rho") for k, _ in kw) else " (deprecated name)"))
        if documented:
            ctx.point("alias.value", "property", [out[1]], [canon[1]], sub, scale=max(1.0, abs(canon[1])), sig=sig + "/value", theorem="C10_alias_same_value")
        else:
            ctx.info(f"alias.value ({name}: deprecated / undocumented keyword)",
                     bool(abs(out[1] - canon[1]) <= 1e-9 * max(1.0, abs(canon[1]))) if isinstance(out[1], (int, float)) else out[1] == canon[1], True)

# ---------------------------------------------------------------- fidelity
def fidelity_case(ctx, case, st=None, A=None):
    s = case["state"]
    st = st if st is not None else make_state(s)
    psi_hat, rho_hat, Z = impl_state(st, s, A, ctx, case)
    tclass = case["tclass"]
    cf = case.get("call")
    form = (cf or {}).get("form", "positional")
    n = s["n"]
    sig0 = f"fidelity/{s['kind']}/{tclass}" + ("" if cf is None else f"/call={form}")
    ctx.case(case, nontrivial=nontrivial_state(s) and tclass not in ("real",),
             sample={"op": "fidelity", "kind": s["kind"], "n": s["n"], "h": s["h"], "tclass": tclass, "scale": s["scale"], "call": form})
    ctx.count("op=fidelity"); ctx.count(f"kind={s['kind']}"); ctx.count(f"n={s['n']}"); ctx.count(f"fid.target={tclass}"); ctx.count(f"fid.call={form}")
    perm = cf["perm"] if form == "space_perm" else None

    def passed(tt):  # the target tensor as handed to the implementation (listed in the order of space[perm] when a permuted space is given)
        return cvec_t(tt if perm is None else perm_target(tt, perm, s["kind"] == "dens"))

    if s["kind"] != "dens":
        t = cfrom(case["target"])
        out = call(lambda: invoke(ts.fidelity, st, cf, n, "target", passed(t), {}, A))
        if ctx.driver is not None:
            m = ctx.driver.call("c10.fidelity", **state_req(s), target=cbits(case["target"]))
            ctx.point("Z", "aux", [Z], unbits([m["Z"]]), case, scale=Z)
            compare_res(ctx, "fidelity", out, m["res"], case, 1.0, THEOREMS["fid_pure"], sig0)
        if out[0] != "ok":
            ctx.oracle("fidelity returns", False, case, detail={"error": out[1], "message": call.last_message}, sig=sig0 + "/raises")
            return
        F = out[1]
        ctx.oracle("fidelity kind is a real number", out[2] in ("float", "float64"), case, detail={"type": out[2]}, sig=sig0 + "/kind-oracle", theorem="C10_kind")
        ov = abs(np.vdot(t, psi_hat)) ** 2 / (np.vdot(t, t).real * np.vdot(psi_hat, psi_hat).real)
        ctx.oracle("fidelity == squared overlap", abs(F - ov) <= 1e-9 + 1e-7 * ov, case, detail={"F": F, "overlap": float(ov)}, sig=sig0 + "/overlap", theorem="C10_fid_overlap")
        ctx.oracle("fidelity in [0,1]", -1e-12 <= F <= 1 + 1e-9, case, detail={"F": F}, sig=sig0 + "/range", theorem="C10_fid_range")
        if tclass == "self":
            ctx.oracle("self fidelity == 1", abs(F - 1) <= 1e-9, case, detail={"F": F}, sig=sig0 + "/self", theorem="C10_fid_self")
        alpha = case.get("alpha", 0.7)
        F2 = call(lambda: invoke(ts.fidelity, st, cf, n, "target", passed(np.exp(1j * alpha) * t), {}, A))
        ctx.oracle("fidelity phase invariant", F2[0] == "ok" and abs(F2[1] - F) <= 1e-9, case, detail={"F": F, "F_phase": F2[1]}, sig=sig0 + "/phase", theorem="C10_fid_phase_invariant")
    else:
        T = cfrom(case["target"])
        Tt = passed(T)
        cap = {}
        orig = np.linalg.eigvals

        def spy(a):
            cap["arg"] = np.array(a, dtype=complex)
            r = orig(a)
            cap["res"] = np.array(r, dtype=complex)
            return r

        np.linalg.eigvals = spy
        try:
            out = call(lambda: invoke(ts.fidelity, st, cf, n, "target", Tt, {}, A))
        finally:
            np.linalg.eigvals = orig
        if perm is not None and "arg" in cap:  # the matrix over space[perm] is P A P^T: list it in canonical order for the comparison with the model
            inv = np.argsort(perm)
            cap["arg"] = cap["arg"][np.ix_(inv, inv)]
        if out[0] != "ok":
            ctx.oracle("fidelity returns", False, case, detail={"error": out[1], "message": call.last_message, "eigvals_called": "res" in cap}, sig=sig0 + "/raises")
            return
        F = out[1]
        N = 2 ** s["n"]
        spied = "res" in cap
        if not spied:
            # an implementation that does not go through np.linalg.eigvals (HOW the spectrum is obtained is not part of the property): the
            # eigenvalues the model needs are computed here from target * rho_hat; the two auxiliary points on the external call are skipped
            ctx.count("fidelity.dens:np.linalg.eigvals_not_called")
            cap["arg"] = T @ rho_hat
            cap["res"] = np.array(orig(cap["arg"]), dtype=complex)
        if ctx.driver is not None and not spied:
            m = ctx.driver.call("c10.fidelity", **state_req(s), target={"re": bits(T.real), "im": bits(T.imag)},
                                eig=[[f2b(l.real), f2b(l.imag)] for l in cap["res"]])
            compare_res(ctx, "fidelity", out, m["res"], case, 1.0, THEOREMS["fid_mixed"], sig0)
        elif ctx.driver is not None:
            m = ctx.driver.call("c10.fidelity", **state_req(s), target={"re": bits(T.real), "im": bits(T.imag)},
                                eig=[[f2b(l.real), f2b(l.imag)] for l in cap["res"]])
            ctx.point("Z", "aux", [Z], unbits([m["Z"]]), case, scale=Z)
            mp = np.array([[unbits(c) for c in rowj] for rowj in m["prod"]])  # N x N x 2
            # the matrix handed to eigvals, up to similarity (spec(AB) = spec(BA): the operand order of the product, a transposed or re-ordered
            # matrix are not constrained): normalised power traces tr((A/s)^k), k = 1..N, of the captured argument vs the model's target * rho / Z
            Mm = mp[..., 0] + 1j * mp[..., 1]
            # normalised by the Frobenius norm (>= spectral radius): every |tr((A/s)^k)| <= N, so the absolute tolerance of the point is meaningful for
            # all k (x-packages: with the largest ENTRY as the scale the traces grew like 7^k at n = 4 and rounding at k = 16 tripped the point)
            s_ = float(max(np.linalg.norm(cap["arg"]), np.linalg.norm(Mm))) + 1e-300
            pt = lambda X: np.array([np.trace(np.linalg.matrix_power(X / s_, k_)) for k_ in range(1, X.shape[0] + 1)])  # noqa: E731
            pa, pm = pt(cap["arg"]), pt(Mm)
            ctx.point("fidelity.eigvals_argument (power traces: invariant under similarity / operand order)", "aux", np.stack([pa.real, pa.imag], -1).ravel(),
                      np.stack([pm.real, pm.imag], -1).ravel(), case, scale=float(N), sig=sig0 + "/prod")
            compare_res(ctx, "fidelity", out, m["res"], case, 1.0, THEOREMS["fid_mixed"], sig0)
        # the external eigenvalues against the characteristic polynomial of the matrix the implementation passed
        A = cap["arg"]
        sc = max(1.0, float(np.max(np.abs(A)))) ** N
        res = max(abs(np.linalg.det(A - l * np.eye(N))) for l in cap["res"])
        ctx.oracle("eigvals satisfy det(A - l I) = 0", (not spied) or res <= 1e-9 * sc and abs(np.sum(cap["res"]) - np.trace(A)) <= 1e-9 * max(1, abs(np.trace(A))),
                   case, detail={"residual": float(res)}, sig=sig0 + "/charpoly")
        ctx.oracle("fidelity kind is a real number", out[2] in ("float", "float64"), case, detail={"type": out[2]}, sig=sig0 + "/kind-oracle", theorem="C10_kind")
        U = uhlmann(rho_hat, T)
        ctx.oracle("fidelity == Uhlmann (eigh)", abs(F - U) <= 2e-6, case, detail={"F": F, "uhlmann": U}, sig=sig0 + "/uhlmann", theorem="C10_fid_mixed_uhlmann")
        U3 = uhlmann_svd(rho_hat, T)
        ctx.oracle("fidelity == Uhlmann (singular values of sqrt(rho) sqrt(sigma))", abs(F - U3) <= 2e-6, case, detail={"F": F, "uhlmann_svd": U3},
                   sig=sig0 + "/uhlmann-svd", theorem="C10_fid_mixed_uhlmann")
        if HAVE_SCIPY:
            sr = _sqrtm(rho_hat)
            U2 = float(np.real(np.trace(_sqrtm(sr @ T @ sr))) ** 2)
            if np.isfinite(U2):
                ctx.oracle("fidelity == Uhlmann (scipy sqrtm)", abs(F - U2) <= 1e-5, case, detail={"F": F, "uhlmann_sqrtm": U2}, sig=sig0 + "/uhlmann-sqrtm")
                ctx.count("scipy_sqrtm_oracle")
        ctx.oracle("fidelity in [0,1]", -1e-12 <= F <= 1 + 1e-6, case, detail={"F": F}, sig=sig0 + "/range", theorem="C10_fid_mixed_range")
        if tclass == "self":
            ctx.oracle("self fidelity == 1", abs(F - 1) <= 1e-6, case, detail={"F": F}, sig=sig0 + "/self", theorem="C10_fid_mixed_self_uhlmann")


# ---------------------------------------------------------------- KL
def born_oracle(s, psi_hat, rho_hat, basis):
    U = dense_U(basis, s)
    if s["kind"] == "dens":
        return np.real(np.diag(U @ rho_hat @ U.conj().T))
    return np.abs(U @ psi_hat) ** 2


def target_born(s, t, basis):
    U = dense_U(basis, s)
    if s["kind"] == "dens":
        return np.real(np.diag(U @ t @ U.conj().T))
    return np.abs(U @ t) ** 2


def kl_case(ctx, case, st=None, A=None):
    s = case["state"]
    st = st if st is not None else make_state(s)
    n = s["n"]
    psi_hat, rho_hat, Z = impl_state(st, s, A, ctx, case)
    tclass, form, bases = case["tclass"], case["form"], case["bases"]
    t = cfrom(case["target"])
    mixed = s["kind"] == "dens"
    cf = case.get("call")
    cform = (cf or {}).get("form", "positional")
    cont = (cf or {}).get("bases_as", "list")
    userd = bool(s.get("udict")) and s["kind"] != "pos"
    sig0 = f"KL/{s['kind']}{'+udict' if userd else ''}/{tclass}/{form}/{'none' if bases is None else 'list'}" + ("" if cf is None else f"/call={cform}/{cont}")
    used = set("".join(bases or []) + "".join((case.get("keys") or []) if form == "dict" else []))
    ctx.count("kl.dict=" + ("user" if userd else "default"))
    if userd:
        ctx.count(f"kl.dict=user:form={s.get('udict_form')}")
        ctx.count("kl.dict=user:" + ("bases use a user-registered / overridden letter" if used & set(s["udict"]) else "bases use untouched default letters only" if used else "no bases"))
    hasrot = bases is not None and any(c != "Z" for b in bases for c in b)
    ctx.case(case, nontrivial=nontrivial_state(s) and (hasrot or tclass != "real"),
             sample={"op": "KL", "kind": s["kind"], "n": n, "tclass": tclass, "form": form, "bases": bases, "scale": s["scale"], "call": cform, "bases_as": cont})
    ctx.count("op=KL"); ctx.count(f"kind={s['kind']}"); ctx.count(f"n={n}"); ctx.count(f"kl.target={tclass}"); ctx.count(f"kl.form={form}")
    ctx.count("kl.bases=None" if bases is None else f"kl.bases={'hasY' if any('Y' in b for b in bases) else 'noY'}")
    ctx.count(f"kl.call={cform}"); ctx.count(f"kl.bases_as={cont}")
    if bases is not None and len(set(bases)) < len(bases):
        ctx.count("kl.bases_with_repeats")
    perm = cf["perm"] if cform == "space_perm" else None

    def rotated(b):  # target rotated into basis b by the dense Kronecker unitary (harness-side, independent)
        U = dense_U(b, s)
        return U @ t @ U.conj().T if mixed else U @ t

    if form == "dict":
        keys = case["keys"]
        tgt = {b: cvec_t(rotated(b)) for b in keys}
        mt = {"dict": [{"basis": b, "t": ({"re": bits(rotated(b).real), "im": bits(rotated(b).imag)})} for b in keys]}
    else:
        tgt = cvec_t(t if perm is None else perm_target(t, perm, mixed))
        mt = {"once": {"re": bits(t.real), "im": bits(t.imag)}}
    out = call(lambda: invoke(ts.KL, st, cf, n, "target", tgt, {"bases": as_container(bases, cont, n)}, A))
    if cont in INFO_CONTAINERS:
        ctx.count(f"kl.undocumented_container={cont}: impl={out[1] if out[0] == 'err' else 'value'}")
        return
    if case.get("malformed"):
        # outside the property's quantifier (which exception, or whether any, is not constrained by the property): outcome classes only
        mo = None
        if ctx.driver is not None:
            m = ctx.driver.call("c10.kl", **state_req(s), eps=f2b(EPS), target=mt, bases=bases)
            mo = m["res"].get("error", "value")
        ctx.count(f"kl.malformed: impl={out[1] if out[0] == 'err' else 'value'} model={mo}")
        return
    if ctx.driver is not None:
        m = ctx.driver.call("c10.kl", **state_req(s), eps=f2b(EPS), target=mt, bases=bases)
        ctx.point("Z", "aux", [Z], unbits([m["Z"]]), case, scale=Z)
        compare_res(ctx, "KL", out, m["res"], case, 1.0, THEOREMS["kl"], sig0)
    if out == ("err", "AttributeError", None) and s["kind"] == "pos" and (bases or (form == "dict" and case["keys"])):
        pos_no_dict(ctx, case, out, "KL")
        return
    if out[0] != "ok":
        ctx.oracle("KL returns", False, case, detail={"error": out[1], "message": call.last_message}, sig=sig0 + "/raises")
        return
    K = out[1]
    ctx.oracle("KL kind is a real number", out[2] in ("float", "float64"), case, detail={"type": out[2]}, sig=sig0 + "/kind-oracle", theorem="C10_kind")
    blist = bases if bases is not None else (case["keys"] if form == "dict" else ["Z" * n])
    vals, exact, guard, mguard, tzero, tone = [], [], True, True, False, False
    for b in blist:
        tb = target_born(s, t, b)
        pb = born_oracle(s, psi_hat, rho_hat, b)
        mg = bool(np.all(pb >= EPS) and np.all(pb <= 1 - EPS))
        mguard = mguard and mg
        guard = guard and mg and bool(np.all(tb >= EPS) and np.all(tb <= 1 - EPS))
        tzero = tzero or bool(np.any(tb < EPS))
        tone = tone or bool(np.any(tb > 1 - EPS))
        vals.append(float(np.sum(tb * clog(tb)) - np.sum(tb * clog(pb))))
        pos = tb > 0
        exact.append(float(np.sum(tb[pos] * (np.log(tb[pos]) - np.log(pb[pos])))))  # NO clamp, 0 log 0 = 0
    direct = float(np.mean(vals))
    ctx.count("kl.clamp_inactive" if guard else "kl.clamp_active")
    if mguard:
        ctx.count("kl.model_in_guard")
        if tzero:
            ctx.count("kl.model_in_guard:target_has_zero_probability")
        if tone:
            ctx.count("kl.model_in_guard:target_has_unit_probability")
    ctx.oracle("KL == mean Born KL", abs(K - direct) <= 1e-8 + 1e-7 * abs(direct), case, detail={"KL": K, "direct": direct, "per_basis": vals},
               sig=sig0 + "/direct", theorem="C10_kl_formula")
    if mguard:
        # whenever the MODEL's probabilities are inside the clamp's range: non-negative for EVERY target (zero / unit target probabilities
        # included: basis states, GHZ, W, product states, rank-deficient density matrices), and equal to the unclamped Kullback-Leibler
        # divergence (0 log 0 = 0) up to the 2 eps of C10_kl_single_close
        ctx.oracle("KL >= 0", K >= -1e-12, case, detail={"KL": K}, sig=sig0 + "/nonneg", theorem="C10_kl_nonneg, C10_kl_nonneg_single")
        ex = float(np.mean(exact))
        ctx.oracle("KL == mean unclamped Kullback-Leibler divergence", abs(K - ex) <= 1e-9 + 1e-7 * abs(ex), case, detail={"KL": K, "exact": ex, "per_basis": exact},
                   sig=sig0 + "/exact", theorem="C10_kl_formula, C10_kl_formula_one, C10_kl_single_close")
    if tclass == "self":
        ctx.oracle("self KL == 0", abs(K) <= 1e-9, case, detail={"KL": K}, sig=sig0 + "/self", theorem="C10_kl_self_zero")
    if tclass in ("phase_self",):
        ctx.oracle("KL vs e^{ia} x own state == 0", abs(K) <= 1e-9, case, detail={"KL": K}, sig=sig0 + "/phase-self", theorem="C10_kl_self_zero")


# ---------------------------------------------------------------- NLL
def nll_case(ctx, case, st=None, A=None):
    s = case["state"]
    st = st if st is not None else make_state(s)
    n = s["n"]
    psi_hat, rho_hat, Z = impl_state(st, s, A, ctx, case)
    samples, sb = case["samples"], case["sample_bases"]
    cf = case.get("call")
    cform = (cf or {}).get("form", "positional")
    cont = (cf or {}).get("bases_as", "nd2")
    userd = bool(s.get("udict")) and s["kind"] != "pos"
    sig0 = f"NLL/{s['kind']}{'+udict' if userd else ''}/{'none' if sb is None else 'bases'}" + ("" if cf is None else f"/call={cform}/{cont}")
    ctx.count("nll.dict=" + ("user" if userd else "default"))
    if userd and sb is not None:
        ctx.count("nll.dict=user:rows with a user-registered / overridden letter", sum(1 for b in sb if set(b) & set(s["udict"])))
    ctx.case(case, nontrivial=nontrivial_state(s) and len(samples) > 1,
             sample={"op": "NLL", "kind": s["kind"], "n": n, "N": len(samples), "sample_bases": sb if sb is None else sb[:4], "scale": s["scale"], "call": cform})
    ctx.count("op=NLL"); ctx.count(f"kind={s['kind']}"); ctx.count(f"n={n}"); ctx.count(f"nll.call={cform}")
    ctx.count("nll.bases=None" if sb is None else "nll.bases=given")
    if sb is not None:
        ctx.count("nll.allZ_rows", sum(1 for b in sb if set(b) <= {"Z"}))
        ctx.count("nll.rotated_rows", sum(1 for b in sb if not set(b) <= {"Z"}))
        ctx.count(f"nll.unique_bases={min(len(set(sb)), 5)}{'+' if len(set(sb)) > 5 else ''}")
    samp_t = torch.tensor(samples, dtype=torch.double).reshape(len(samples), n)
    sb_np = None if sb is None else as_container(sb, cont, n)
    out = call(lambda: invoke(ts.NLL, st, cf, n, "samples", samp_t, {"sample_bases": sb_np}, A))
    if cont in INFO_CONTAINERS:
        ctx.count(f"nll.undocumented_container={cont}: impl={out[1] if out[0] == 'err' else 'value'}")
        return
    if case.get("malformed"):
        # outside the property's quantifier (which exception, or whether any, is not constrained by the property): outcome classes only
        mo = None
        if ctx.driver is not None:
            m = ctx.driver.call("c10.nll", **state_req(s), eps=f2b(EPS), samples=samples, sample_bases=sb)
            mo = m["res"].get("error", "value")
        ctx.count(f"nll.malformed: impl={out[1] if out[0] == 'err' else 'value'} model={mo}")
        return
    if ctx.driver is not None:
        m = ctx.driver.call("c10.nll", **state_req(s), eps=f2b(EPS), samples=samples, sample_bases=sb)
        ctx.point("Z", "aux", [Z], unbits([m["Z"]]), case, scale=Z)
        compare_res(ctx, "NLL", out, m["res"], case, 1.0, THEOREMS["nll"], sig0)
    if out == ("err", "AttributeError", None) and s["kind"] == "pos" and sb and any(set(b) != {"Z"} for b in sb):
        pos_no_dict(ctx, case, out, "NLL")
        return
    if out[0] != "ok":
        ctx.oracle("NLL returns", False, case, detail={"error": out[1], "message": call.last_message}, sig=sig0 + "/raises")
        return
    L = out[1]
    ctx.oracle("NLL kind is a real number", out[2] in ("float", "float64"), case, detail={"type": out[2]}, sig=sig0 + "/kind-oracle", theorem="C10_kind")
    logs = []
    for k, row in enumerate(samples):
        b = "Z" * n if sb is None else sb[k]
        idx = int("".join(str(int(x)) for x in row), 2)
        logs.append(float(clog(born_oracle(s, psi_hat, rho_hat, b)[idx])))
    direct = -float(np.mean(logs))
    ctx.oracle("NLL == -mean log Born probability", abs(L - direct) <= 1e-8 + 1e-7 * abs(direct), case, detail={"NLL": L, "direct": direct},
               sig=sig0 + "/direct", theorem="C10_nll_formula_born, C10_nll_formula_born_mixed")
    # permutation / regrouping invariance on the implementation
    perm = case.get("perm")
    if perm is not None and len(samples) > 1:
        s2 = [samples[i] for i in perm]
        b2 = None if sb is None else as_container([sb[i] for i in perm], cont, n)
        out2 = call(lambda: invoke(ts.NLL, st, cf, n, "samples", torch.tensor(s2, dtype=torch.double).reshape(len(s2), n), {"sample_bases": b2}, A))
        ctx.oracle("NLL permutation invariant", out2[0] == "ok" and abs(out2[1] - L) <= 1e-9 * max(1, abs(L)), case, detail={"NLL": L, "permuted": out2[1]},
                   sig=sig0 + "/perm", theorem="C10_nll_perm")


# ---------------------------------------------------------------- generation
SITE_STATES = {  # single-site eigenstates of Z, X, Y
    "0": np.array([1, 0], dtype=complex), "1": np.array([0, 1], dtype=complex),
    "+": S2 * np.array([1, 1], dtype=complex), "-": S2 * np.array([1, -1], dtype=complex),
    "r": S2 * np.array([1, 1j], dtype=complex), "l": S2 * np.array([1, -1j], dtype=complex),
}


def ghz_state(n):
    v = np.zeros(2 ** n, dtype=complex); v[0] = v[-1] = S2
    return v


def w_state(n):
    v = np.zeros(2 ** n, dtype=complex)
    for j in range(n):
        v[1 << j] = 1.0 / np.sqrt(n)
    return v


def product_state(rng, n):
    """tensor product of single-site Pauli eigenstates: has probabilities exactly 0 / 1 in its own basis, 0 in many others"""
    v = np.array([1.0 + 0j])
    for _ in range(n):
        v = np.kron(v, SITE_STATES[rng.choice("01+-rl")])
    return v


def pick_bases(rng, n, thorough, everything=False, alphabet="XYZ"):
    if alphabet != "XYZ":
        # a dictionary with user-registered letters: bases over defaults + extras, every extra letter used at least once
        allb = qc.all_bases(n, alphabet)
        k = 12 if thorough else 7
        sel = list(allb) if len(allb) <= k else rng.sample(allb, k)
        rng.shuffle(sel)
        for e in alphabet[3:]:
            if not any(e in b for b in sel):
                b = list(rng.choice(allb)); b[rng.randrange(n)] = e
                sel.insert(rng.randrange(len(sel) + 1), "".join(b))
        return sel
    allb = qc.all_bases(n)
    if everything or n <= (3 if thorough else 2):
        sel = list(allb)
        rng.shuffle(sel)
        return sel
    k = 12 if thorough else 6
    sel = rng.sample(allb, k)
    if not any("Y" in b for b in sel):
        sel[0] = "Y" * n
    return sel


def _gen_cases(ctx, thorough):
    rng = ctx.rng
    ns = [1, 2, 3, 4] if thorough else [1, 2, 3]
    reps = 6 if thorough else 1
    ud_off, ud_k = rng.randrange(len(UDICT_FORMS)), 0
    for n in ns:
        N = 2 ** n
        # (x-packages) the last two variants: a state constructed with `unitary_dict=` holding user-registered letters (and possibly an
        # overridden X / Y); every KL / NLL case below then draws its bases over defaults + extras
        for kind, ud in (("pos", False), ("cplx", False), ("dens", False), ("cplx", True), ("dens", True)):
            for rep in range(reps):
                scale = rng.choice([0.3, 1.0, 1.0, 2.0])
                s = gen_state(rng, kind, n, scale)
                alphabet = "XYZ"
                if ud:
                    s["udict_form"] = UDICT_FORMS[(ud_off + ud_k) % len(UDICT_FORMS)]; ud_k += 1  # every form in every run
                    s["udict"] = gen_udict(rng, exact=s["udict_form"] == "create_dict/list")
                    alphabet = "XYZ" + "".join(sorted(k for k in s["udict"] if k not in "XYZ"))
                st = make_state(s)
                psi_hat, rho_hat, Z = impl_state(st, s)
                alpha = rng.uniform(0.3, 2.8)
                # ---------- targets
                if kind != "dens":
                    targets = [("random", rand_cvec(rng, N)), ("self", psi_hat), ("phase_self", np.exp(1j * alpha) * psi_hat),
                               ("real", rand_cvec(rng, N, real=True))]
                    e = np.zeros(N, dtype=complex); e[rng.randrange(N)] = 1.0
                    targets.append(("basis_state", e))
                    # the library's standard targets: zero (and unit) Born probabilities in many bases
                    targets += [("ghz", ghz_state(n)), ("w", w_state(n)), ("product", product_state(rng, n))]
                    if thorough or rng.random() < 0.5:
                        targets.append(("random", rand_cvec(rng, N)))
                else:
                    pv = rand_cvec(rng, N)
                    e = np.zeros(N, dtype=complex); e[rng.randrange(N)] = 1.0
                    g = ghz_state(n)
                    targets = [("random", rand_dm(rng, N)), ("self", rho_hat), ("pure", np.outer(pv, pv.conj())),
                               ("lowrank", rand_dm(rng, N, rank=max(1, N // 2))), ("basis_dm", np.outer(e, e.conj())),
                               ("ghz_dm", np.outer(g, g.conj()))]
                    if thorough or rng.random() < 0.5:
                        targets.append(("random", rand_dm(rng, N)))
                for (tclass, t) in targets:
                    yield {"op": "fidelity", "state": s, "tclass": tclass, "target": cjson(t), "alpha": alpha}
                # ---------- KL
                sel = pick_bases(rng, n, thorough, everything=thorough and rep == 0, alphabet=alphabet)
                for (tclass, t) in targets:
                    yield {"op": "kl", "state": s, "tclass": tclass, "target": cjson(t), "form": "once", "bases": None, "keys": None}
                    # the list of bases: all selected (mean over many), and a short list with a Y
                    long_ = list(sel)
                    short = rng.sample(sel, min(len(sel), rng.choice([1, 2, 3])))
                    for bl in (long_, short):
                        yield {"op": "kl", "state": s, "tclass": tclass, "target": cjson(t), "form": "once", "bases": bl, "keys": None}
                    yield {"op": "kl", "state": s, "tclass": tclass, "target": cjson(t), "form": "dict", "bases": short, "keys": list(reversed(short))}
                    yield {"op": "kl", "state": s, "tclass": tclass, "target": cjson(t), "form": "dict", "bases": None, "keys": short}
                # ---------- NLL
                for _ in range(4 if thorough else 3):
                    Ns = rng.choice([1, 2, 5, 9, 14])
                    samples = [[rng.randrange(2) for _ in range(n)] for _ in range(Ns)]
                    pool = rng.sample(sel, min(len(sel), rng.choice([1, 2, 4]))) + ["Z" * n]
                    sb = [rng.choice(pool) for _ in range(Ns)]
                    perm = list(range(Ns)); rng.shuffle(perm)
                    yield {"op": "nll", "state": s, "samples": samples, "sample_bases": sb, "perm": perm}
                    yield {"op": "nll", "state": s, "samples": samples, "sample_bases": None, "perm": perm}
                yield {"op": "nll", "state": s, "samples": [[rng.randrange(2) for _ in range(n)] for _ in range(3)], "sample_bases": ["Z" * n] * 3, "perm": [2, 0, 1]}
                # ---------- call forms (C10-2): every form x a target, every bases container, repeated bases, a real MetricEvaluator
                def cform(f, **kw):
                    c = {"form": f, **kw}
                    if f == "space_perm":
                        pm = list(range(N)); rng.shuffle(pm)
                        if N > 1 and pm == list(range(N)):
                            pm = pm[1:] + pm[:1]
                        c["perm"] = pm
                    if f == "evaluator":
                        c["period"] = rng.choice([1, 2, 5]); c["k"] = rng.choice([0, 1, 3]); c["verbose"] = rng.random() < 0.4
                    return c
                sweep_t = [targets[0], rng.choice(targets[1:])] if thorough else [rng.choice(targets)]
                short = rng.sample(sel, min(len(sel), 2))
                rep_bases = short + [short[0]] + (["Z" * n] if rng.random() < 0.5 else [])   # a repeated basis weights the mean
                rng.shuffle(rep_bases)
                for (tclass, t) in sweep_t:
                    for f in TARGET_FORMS:
                        yield {"op": "fidelity", "state": s, "tclass": tclass, "target": cjson(t), "alpha": alpha, "call": cform(f)}
                        yield {"op": "kl", "state": s, "tclass": tclass, "target": cjson(t), "form": "once", "bases": None, "keys": None, "call": cform(f)}
                        if f != "space_perm":  # a re-ordered space is only meaningful without bases (the rotation sweep assumes the canonical order)
                            yield {"op": "kl", "state": s, "tclass": tclass, "target": cjson(t), "form": "once", "bases": short, "keys": None,
                                   "call": cform(f, bases_as=rng.choice(CONTAINERS))}
                            yield {"op": "kl", "state": s, "tclass": tclass, "target": cjson(t), "form": "dict", "bases": None, "keys": short, "call": cform(f)}
                    for cont in CONTAINERS + INFO_CONTAINERS:
                        yield {"op": "kl", "state": s, "tclass": tclass, "target": cjson(t), "form": "once", "bases": rep_bases, "keys": None,
                               "call": cform("positional", bases_as=cont)}
                        if cont not in ("nd2", "lol"):  # dict keys are looked up by the elements of `bases`: rows of a 2-D array / lists are unhashable (rejected form)
                            yield {"op": "kl", "state": s, "tclass": tclass, "target": cjson(t), "form": "dict", "bases": rep_bases, "keys": sorted(set(rep_bases)),
                                   "call": cform("positional", bases_as=cont)}
                for f in NLL_FORMS:
                    Ns = rng.choice([2, 5, 9])
                    samples = [[rng.randrange(2) for _ in range(n)] for _ in range(Ns)]
                    sbs = [rng.choice(short + ["Z" * n]) for _ in range(Ns)]
                    pm = list(range(Ns)); rng.shuffle(pm)
                    yield {"op": "nll", "state": s, "samples": samples, "sample_bases": sbs, "perm": pm, "call": cform(f, bases_as="nd2")}
                    yield {"op": "nll", "state": s, "samples": samples, "sample_bases": None, "perm": pm, "call": cform(f)}
                yield {"op": "nll", "state": s, "samples": samples, "sample_bases": sbs, "perm": None, "call": cform("positional", bases_as="lol")}
                # ---------- (round 5) more evaluations through the callback: period / epoch / index / verbose in other forms and values
                for _ in range(3 if thorough else 2):
                    (tclass, t) = rng.choice(targets)
                    yield {"op": "fidelity", "state": s, "tclass": tclass, "target": cjson(t), "alpha": alpha, "call": cform("evaluator")}
                    yield {"op": "kl", "state": s, "tclass": tclass, "target": cjson(t), "form": "once", "bases": short, "keys": None,
                           "call": cform("evaluator", bases_as=rng.choice(CONTAINERS))}
                    yield {"op": "nll", "state": s, "samples": samples, "sample_bases": sbs, "perm": pm, "call": cform("evaluator", bases_as="nd2")}
                yield {"op": "rejected", "state": s, "target": cjson(targets[0][1])}
                # ---------- (extension round 2) the deprecated_kwarg alias layer: every deprecated name of both decorated functions, alone /
                # with the new name / with the other deprecated name / positionally shadowed, against QV.CallForm.metricBind
                if not ud:
                    for fname in ("fidelity", "KL"):
                        wb = kind != "pos" and fname == "KL"
                        yield {"op": "alias", "state": s, "fn": fname, "targets": [cjson(targets[0][1]), cjson(targets[3][1])],
                               "bases": (short if wb else None), "introspect": n == 1 and kind == "pos" and fname == "fidelity",
                               "forms": [list(f) for f in alias_forms(rng, fname == "KL", wb, ["target_psi", "target_rho"])]}
                # ---------- the same metrics (space=None) after an enumeration handed out earlier was modified in place by the caller
                def prelude():
                    pre = {"how": rng.choice(PRELUDE_HOW), "seed": rng.randrange(1 << 30), "same_object": rng.random() < 0.5,
                           "warm": rng.random() < 0.5, "twice": rng.random() < 0.3}
                    if rng.random() < 0.5:
                        s0 = gen_state(rng, kind, n, rng.choice([0.3, 1.0, 2.0]))
                        while s0["h"] != s["h"] or s0.get("a") != s.get("a"):
                            s0 = gen_state(rng, kind, n, rng.choice([0.3, 1.0, 2.0]))
                        if s.get("udict"):  # the same state OBJECT later holds the case's parameters: it keeps the dictionary it was built with
                            s0["udict"], s0["udict_form"] = s["udict"], s["udict_form"]
                        pre["reparam_from"] = s0
                    return pre
                for (tclass, t) in rng.sample(targets, 2):
                    yield {"op": "fidelity", "state": s, "tclass": tclass, "target": cjson(t), "alpha": alpha, "prelude": prelude()}
                    yield {"op": "kl", "state": s, "tclass": tclass, "target": cjson(t), "form": "once", "bases": None, "keys": None, "prelude": prelude()}
                    bl = rng.sample(sel, min(len(sel), 2))
                    yield {"op": "kl", "state": s, "tclass": tclass, "target": cjson(t), "form": "once", "bases": bl, "keys": None, "prelude": prelude()}
                Ns = rng.choice([2, 5, 9])
                samples = [[rng.randrange(2) for _ in range(n)] for _ in range(Ns)]
                yield {"op": "nll", "state": s, "samples": samples, "sample_bases": None, "perm": None, "prelude": prelude()}
                yield {"op": "nll", "state": s, "samples": samples, "sample_bases": [rng.choice(sel[:2] + ["Z" * n]) for _ in range(Ns)], "perm": None,
                       "prelude": prelude()}
        # ---------- clamp probes (large parameters: probabilities below eps) and malformed stream, once per n
        for kind in ("pos", "cplx", "dens"):
            s = gen_state(rng, kind, n, 12.0)
            sel = pick_bases(rng, n, False)[:2]
            t = rand_cvec(rng, N) if kind != "dens" else rand_dm(rng, N)
            yield {"op": "kl", "state": s, "tclass": "random", "target": cjson(t), "form": "once", "bases": None, "keys": None}
            yield {"op": "kl", "state": s, "tclass": "random", "target": cjson(t), "form": "once", "bases": sel, "keys": None}
            samples = qc.all_states(n)
            yield {"op": "nll", "state": s, "samples": samples, "sample_bases": None, "perm": None}
            yield {"op": "nll", "state": s, "samples": samples, "sample_bases": [rng.choice(sel + ["Z" * n]) for _ in samples], "perm": None}
            if kind != "pos":
                # (x-packages) clamp-active probes under a user dictionary: large parameters, bases with registered letters
                s = gen_state(rng, kind, n, 12.0)
                s["udict"] = gen_udict(rng); s["udict_form"] = "create_dict/tensor"
                selu = pick_bases(rng, n, False, alphabet="XYZ" + "".join(sorted(k for k in s["udict"] if k not in "XYZ")))[:3]
                yield {"op": "kl", "state": s, "tclass": "random", "target": cjson(t), "form": "once", "bases": selu, "keys": None}
                yield {"op": "kl", "state": s, "tclass": "random", "target": cjson(t), "form": "dict", "bases": None, "keys": selu[:2]}
                yield {"op": "nll", "state": s, "samples": samples, "sample_bases": [rng.choice(selu + ["Z" * n]) for _ in samples], "perm": None}
            s = gen_state(rng, kind, n, 1.0)
            yield {"op": "kl", "state": s, "tclass": "random", "target": cjson(t), "form": "once", "bases": [], "keys": None, "malformed": True}
            yield {"op": "kl", "state": s, "tclass": "random", "target": cjson(t), "form": "dict", "bases": ["Z" * n, "X" * n], "keys": ["Z" * n], "malformed": True}
            yield {"op": "nll", "state": s, "samples": samples, "sample_bases": ["X" * n], "perm": None, "malformed": n > 0}
            yield {"op": "nll", "state": s, "samples": [], "sample_bases": [], "perm": None, "malformed": True}
            yield {"op": "nll", "state": s, "samples": [], "sample_bases": None, "perm": None, "malformed": True}


def _gen_quick_n4(ctx):
    """(x-packages) the quick tier stopped at n = 3: one n = 4 state per state type (and per dictionary variant) with the plain call of every
    metric on every path"""
    rng = ctx.rng
    n, N = 4, 16
    for kind, ud in (("pos", False), ("cplx", False), ("dens", False), ("cplx", True), ("dens", True)):
        s = gen_state(rng, kind, n, rng.choice([0.3, 1.0]))
        alphabet = "XYZ"
        if ud:
            s["udict"] = gen_udict(rng); s["udict_form"] = "create_dict/tensor"
            alphabet = "XYZ" + "".join(sorted(k for k in s["udict"] if k not in "XYZ"))
        sel = pick_bases(rng, n, False, alphabet=alphabet)
        t = rand_cvec(rng, N) if kind != "dens" else rand_dm(rng, N)
        short = rng.sample(sel, 2)
        if not ud:
            if True:
                yield {"op": "fidelity", "state": s, "tclass": "random", "target": cjson(t), "alpha": 0.7}
            yield {"op": "kl", "state": s, "tclass": "random", "target": cjson(t), "form": "once", "bases": None, "keys": None}
        yield {"op": "kl", "state": s, "tclass": "random", "target": cjson(t), "form": "once", "bases": short, "keys": None}
        yield {"op": "kl", "state": s, "tclass": "random", "target": cjson(t), "form": "dict", "bases": None, "keys": short}
        Ns = 6
        samples = [[rng.randrange(2) for _ in range(n)] for _ in range(Ns)]
        yield {"op": "nll", "state": s, "samples": samples, "sample_bases": [rng.choice(short + ["Z" * n]) for _ in range(Ns)], "perm": [5, 0, 3, 1, 4, 2]}
        if not ud:
            yield {"op": "nll", "state": s, "samples": samples, "sample_bases": None, "perm": None}


PRELUDE_HOW = ("flip_spin", "sample_overwrite", "edit", "zero_", "fill_", "complement", "numpy_view", "copy_")


def mutate_handed_out(A, st, sp, how, seed):
    """c19.mutate_in_place, with the integer / boolean options of the two public calls it makes (`flip_spin(i, samples)`,
    `sample(k, initial_state=, overwrite=)`) in the case's argument forms (the prelude only needs the tensor CHANGED: no verdict depends on how)"""
    from .c19 import mutate_in_place

    if plain(A) or how not in ("flip_spin", "sample_overwrite"):
        return mutate_in_place(st, sp, how, seed)
    import random
    r = random.Random(seed)
    if how == "flip_spin":
        from qucumber.observables.pauli import flip_spin
        flip_spin(A.i(r.randrange(sp.shape[-1])), sp)
        return
    torch.manual_seed(seed)
    if sp.dim() == 2 and sp.shape[1] == st.num_visible:
        oo, od = A.b_desc(True)
        if od["pos"]:
            st.sample(A.i(3), A.i(1), sp, oo)
        else:
            st.sample(k=A.i(3), initial_state=sp, overwrite=oo)
    sp.copy_(1 - sp)


def run_prelude(ctx, case, A=None):
    """history before the metric call: the caller obtains the enumeration of the Hilbert space from a state (of the case's size),
    optionally evaluates a metric with space=None once, and then modifies the tensor it was given IN PLACE (flip_spin, chain buffer
    of sample(overwrite=True), direct edits, ...).  The metric of the case is then evaluated with space=None on that same state
    object or on another state object of the same size, and compared with the model as usual.  -> state object to use (or None)"""
    pre = case["prelude"]
    s = case["state"]
    if pre.get("reparam_from"):
        # the state object first holds OTHER parameters, every metric is evaluated on it, then it is re-parametrised IN PLACE
        # (training between two evaluations) to the parameters of the case
        s0 = pre["reparam_from"]
        st = build_state(ctx, s0, case, A)
        ctx.count("prelude:reparametrised_in_place")
        N = 2 ** s["n"]
        t = np.zeros(N, dtype=complex); t[N - 1] = 1.0
        tt = cvec_t(np.outer(t, t) if s["kind"] == "dens" else t)
        call(lambda: ts.fidelity(st, tt)); call(lambda: ts.KL(st, tt)); call(lambda: ts.KL(st, tt, bases=["X" * s["n"]]))
        call(lambda: ts.NLL(st, torch.tensor(qc.all_states(s["n"]), dtype=torch.double).reshape(N, s["n"])))
        if s["kind"] == "dens":
            qc.set_prbm(st.rbm_am, s["am"], inplace=True); qc.set_prbm(st.rbm_ph, s["ph"], inplace=True)
        else:
            qc.set_rbm(st.rbm_am, s["am"], inplace=True)
            if s["kind"] == "cplx":
                qc.set_rbm(st.rbm_ph, s["ph"], inplace=True)
    else:
        st = build_state(ctx, s, case, A)
    ctx.count("prelude"); ctx.count(f"prelude:how={pre['how']}"); ctx.count("prelude:same_state_object" if pre["same_object"] else "prelude:other_state_object")
    if pre.get("warm"):
        N = 2 ** s["n"]
        t = np.zeros(N, dtype=complex); t[0] = 1.0
        call(lambda: ts.fidelity(st, cvec_t(np.outer(t, t) if s["kind"] == "dens" else t)))
    sp = st.generate_hilbert_space()
    mutate_handed_out(A, st, sp, pre["how"], pre["seed"])
    if pre.get("twice"):
        if plain(A):
            sp2 = st.generate_hilbert_space(s["n"])
        else:
            sp2 = st.generate_hilbert_space(A.i(s["n"])) if A.coin(0.5) else st.generate_hilbert_space(size=A.i(s["n"]))
        mutate_handed_out(A, st, sp2, PRELUDE_HOW[(PRELUDE_HOW.index(pre["how"]) + 3) % len(PRELUDE_HOW)], pre["seed"] + 1)
    return st if (pre["same_object"] or pre.get("reparam_from")) else None


def dispatch(ctx, case):
    """`aseed` (round 5): seed of the case's stream of argument forms; a case without the key (stored before round 5) is evaluated with
    plain Python ints / bool singletons in keyword position, i.e. with exactly the calls made before"""
    A = af.Args(case.get("aseed"))
    ctx.current_case = case
    try:
        st = run_prelude(ctx, case, A) if case.get("prelude") else None
        if st is None:
            st = build_state(ctx, case["state"], case, A)
        if case["op"] == "rejected":
            s = case["state"]
            ctx.count("op=rejected-forms (counters only)")
            rejected_forms(ctx, st, s, cfrom(case["target"]))
            return
        {"fidelity": fidelity_case, "kl": kl_case, "nll": nll_case, "alias": alias_case}[case["op"]](ctx, case, st=st, A=A)
    except SkipCase:
        ctx.count("case_skipped:constructed_state_unusable")
    finally:
        A.count_into(ctx)
        while BOOK:
            ctx.count("info (C17's subject, no verdict here): " + BOOK.pop())


def gen_cases(ctx, thorough):
    """the cases of `_gen_cases`, each with the seed of its own stream of argument forms (drawn from the generator's rng, so a run is a
    function of VERIF_SEED and a stored case carries everything needed to hand over the same objects again)"""
    for case in itertools.chain(_gen_cases(ctx, thorough), () if thorough else _gen_quick_n4(ctx)):
        case["aseed"] = af.draw_aseed(ctx.rng)
        if case["state"].get("udict") and (case["op"] == "rejected" or (case["op"] == "fidelity" and (case.get("call") or case.get("prelude")))):
            continue  # fidelity never touches the dictionary: for the user-dictionary states only the plain fidelity calls are kept
        yield case


def run(ctx):
    ctx.rule = RULE
    known_witness(ctx)
    for case in gen_cases(ctx, ctx.tier == "thorough"):
        dispatch(ctx, case)
    ctx.count("scipy_available" if HAVE_SCIPY else "scipy_stubbed")


def search(ctx):
    """larger oracle-only sweep used when a proof obligation / auxiliary correspondence is broken"""
    drv, ctx.driver = ctx.driver, None
    try:
        for _ in range(2):
            for case in gen_cases(ctx, True):
                if case["state"]["n"] <= 3:
                    dispatch(ctx, case)
    finally:
        ctx.driver = drv


def replay(ctx, case):
    dispatch(ctx, case)
